(* The faithful allocator model refines the lifecycle specification: from
   related states every operation of the faithful model is not stuck, picks a
   valid index, returns the outputs of the specification and ends in related
   states. *)
From SV Require Import Base.ListX Alloc.AllocStep Alloc.LifeProps.
From Coq Require Import Sorting.Sorted SetoidList Permutation.

(* ------------------------------------------------------------------ *)
(* sets *)

Lemma mem_add i j s : NS.mem j (NS.add i s) = if N.eq_dec i j then true else NS.mem j s.
Proof.
  rewrite NSF.add_b. unfold NSF.eqb. destruct (N.eq_dec i j); destruct (NSF.eq_dec i j); try congruence; reflexivity.
Qed.

Lemma mem_remove i j s : NS.mem j (NS.remove i s) = if N.eq_dec i j then false else NS.mem j s.
Proof.
  rewrite NSF.remove_b. unfold NSF.eqb. destruct (N.eq_dec i j); destruct (NSF.eq_dec i j); try congruence.
  - rewrite andb_false_r. reflexivity.
  - rewrite andb_true_r. reflexivity.
Qed.

Lemma mem_empty j : NS.mem j NS.empty = false.
Proof. apply NSF.empty_b. Qed.

Lemma in_elements_mem s i : In i (NS.elements s) <-> NS.mem i s = true.
Proof.
  rewrite NS.mem_spec, <- NS.elements_spec1, InA_alt. split.
  - intros H. exists i. auto.
  - intros [j [-> H]]. assumption.
Qed.

Lemma elements_nodup s : NoDup (NS.elements s).
Proof.
  pose proof (NS.elements_spec2w s) as H. induction H as [|x l Hx Hnd IH]; constructor; [|assumption].
  intros Hin. apply Hx. apply InA_alt. exists x. auto.
Qed.

Lemma elements_sorted s : Sorted N.lt (NS.elements s).
Proof. apply NS.elements_spec2. Qed.

(* two strictly ascending lists with the same members are equal *)
Lemma sorted_unique (l1 : list N) : forall l2, Sorted N.lt l1 -> Sorted N.lt l2 ->
  (forall x, In x l1 <-> In x l2) -> l1 = l2.
Proof.
  induction l1 as [|a l1 IH]; intros l2 H1 H2 Heq.
  - destruct l2 as [|b l2]; [reflexivity|]. exfalso. apply (Heq b). left; reflexivity.
  - destruct l2 as [|b l2]; [exfalso; apply (Heq a); left; reflexivity|].
    apply Sorted_StronglySorted in H1; [|intros x y z; lia].
    apply Sorted_StronglySorted in H2; [|intros x y z; lia].
    inversion H1 as [|? ? S1 F1]; subst. inversion H2 as [|? ? S2 F2]; subst.
    rewrite Forall_forall in F1, F2.
    assert (a = b) as ->.
    { destruct (proj1 (Heq a) (or_introl eq_refl)) as [E|Hin]; [auto|].
      destruct (proj2 (Heq b) (or_introl eq_refl)) as [E|Hin2]; [auto|].
      specialize (F1 _ Hin2). specialize (F2 _ Hin). lia. }
    f_equal. apply IH; try (apply StronglySorted_Sorted; assumption).
    intros x. split; intros Hx.
    + destruct (proj1 (Heq x) (or_intror Hx)) as [E|]; [|assumption]. subst. specialize (F1 _ Hx). lia.
    + destruct (proj2 (Heq x) (or_intror Hx)) as [E|]; [|assumption]. subst. specialize (F2 _ Hx). lia.
Qed.

(* ------------------------------------------------------------------ *)
(* the free list seen as a stack: position n-1 is the top *)

Fixpoint stack_is (c : pvec N) (n : N) (L : list N) : Prop :=
  match L with
  | [] => n = 0
  | x :: L' => 0 < n /\ pv_get c (n - 1) = Some x /\ stack_is c (n - 1) L'
  end.

Lemma stack_frame L : forall c c' n, (forall k, k < n -> pv_get c' k = pv_get c k) ->
  stack_is c n L -> stack_is c' n L.
Proof.
  induction L as [|x L IH]; intros c c' n Hf H; cbn [stack_is] in *; [assumption|].
  destruct H as [Hn [Hg Hs]]. split; [assumption|]. split.
  - rewrite Hf by lia. assumption.
  - apply (IH c); [intros k Hk; apply Hf; lia | assumption].
Qed.

Lemma stack_len L : forall c n, stack_is c n L -> n = N.of_nat (length L).
Proof.
  induction L as [|x L IH]; intros c n H; cbn [stack_is length] in *; [assumption|].
  destruct H as [Hn [_ Hs]]. apply IH in Hs. lia.
Qed.

Lemma pv_get_truncate {A} (c : pvec A) n k : k < n -> n <= vlen c -> pv_get (pv_truncate c n) k = pv_get c k.
Proof.
  intros Hk Hn. unfold pv_get, pv_truncate; cbn [vlen vmap].
  destruct (N.ltb_spec k (N.min n (vlen c))); destruct (N.ltb_spec k (vlen c)); try lia; reflexivity.
Qed.

Lemma stack_extend l : forall c n L, vlen c = n -> stack_is c n L ->
  stack_is (pv_extend c l) (n + N.of_nat (length l)) (rev l ++ L).
Proof.
  induction l as [|x l IH]; intros c n L Hv Hs; cbn [pv_extend length rev app].
  - replace (n + N.of_nat 0) with n by lia. assumption.
  - rewrite <- app_assoc. cbn [app].
    replace (n + N.of_nat (S (length l))) with ((n + 1) + N.of_nat (length l)) by lia.
    apply IH; [unfold pv_push; cbn [vlen]; lia|].
    cbn [stack_is]. split; [lia|]. replace (n + 1 - 1) with n by lia. split.
    + subst n. apply pv_get_push_eq.
    + apply (stack_frame L c); [|assumption]. intros k Hk. apply pv_get_push_lt. lia.
Qed.

(* ------------------------------------------------------------------ *)
(* the relation *)

Definition exp_gen (c : life) : Z :=
  match c with Never => 0 | Free g => - g | Live g _ => g | Pend g _ => 1 - g end.
Definition exp_alive (c : life) : bool := match c with Live _ _ => true | _ => false end.
Definition exp_raised (c : life) : bool := match c with Pend _ _ => true | _ => false end.
Definition exp_killed (c : life) : bool := match c with Live _ kp | Pend _ kp => kp | _ => false end.

Definition cell_rel (a : astate) (i : N) (c : life) : Prop :=
  gen_at a i = exp_gen c /\ NS.mem i (alive a) = exp_alive c /\
  NS.mem i (raised a) = exp_raised c /\ NS.mem i (killed a) = exp_killed c.

(* [F]: indices whose cell is Free but which are not on the free list yet
   (only non-empty inside kill and merge) *)
Record Rg (a : astate) (s : lstate) (F : list N) : Prop := {
  R_stuck : a_stuck a = false;
  R_used : used s = max_id a;
  R_clen : clen a <= vlen (cache a);
  R_cell : forall i, cell_rel a i (cell s i);
  R_stack : exists L, stack_is (cache a) (clen a) L /\ NoDup (L ++ F) /\
                      forall i, In i (L ++ F) <-> is_free (cell s i) = true }.

Definition R (a : astate) (s : lstate) : Prop := Rg a s [].

Lemma R_init : R a_init l_init.
Proof.
  split; cbn; try reflexivity; try lia.
  - intros i. unfold cell_rel, gen_at, cell, a_init, l_init; cbn.
    auto.
  - exists []. cbn. split; [reflexivity|]. split; [constructor|].
    intros i. split; [tauto|discriminate].
Qed.

(* gens *)
Lemma gen_at_set a i g j : gen_at (set_gen a i g) j = if N.eq_dec i j then g else gen_at a j.
Proof.
  unfold gen_at, set_gen; cbn [gens]. destruct (N.eq_dec i j) as [->|H].
  - rewrite NMF.add_eq_o by reflexivity. reflexivity.
  - rewrite NMF.add_neq_o by assumption. reflexivity.
Qed.

(* observations agree *)
Section Observations.
  Variables (a : astate) (s : lstate) (F : list N).
  Hypothesis HR : Rg a s F.
  Hypothesis HI : LInv s.

  Lemma pos_top i : cell s i <> Never -> (1 <= top (cell s i))%Z.
  Proof. apply (J_pos _ HI). Qed.

  Lemma cur_gen_ref i : cur_gen a i = snd (l_entity_at s i).
  Proof.
    destruct (R_cell _ _ _ HR i) as [Hg [_ [Hr _]]]. unfold cur_gen, l_entity_at. rewrite Hg, Hr.
    pose proof (pos_top i) as Hp.
    destruct (cell s i) as [|g|g kp|g kp]; cbn [exp_gen exp_raised top snd] in *.
    - reflexivity.
    - assert (1 <= g)%Z by (apply Hp; discriminate). rewrite andb_false_r.
      destruct (Z.eqb_spec (- g) 0); [lia|reflexivity].
    - assert (1 <= g)%Z by (apply Hp; discriminate).
      destruct (Z.leb_spec g 0); [lia|]. cbn [andb]. destruct (Z.eqb_spec g 0); [lia|reflexivity].
    - assert (1 <= g)%Z by (apply Hp; discriminate).
      destruct (Z.leb_spec (1 - g) 0); [|lia]. cbn [andb]. lia.
  Qed.

  Lemma is_alive_ref e : cell s (fst e) <> Never -> (1 <= snd e)%Z -> a_is_alive a e = l_is_alive s e.
  Proof.
    intros Hn Hp. unfold a_is_alive. rewrite cur_gen_ref. unfold l_entity_at, l_is_alive.
    pose proof (pos_top (fst e)) as X.
    destruct (cell s (fst e)) as [|g|g kp|g kp]; cbn [snd top] in *; try congruence.
    - rewrite (proj2 (Z.eqb_neq _ _)); [reflexivity|]. specialize (X Hn). lia.
    - apply Z.eqb_sym.
    - apply Z.eqb_sym.
  Qed.

  Lemma is_alive_merged_ref e : (1 <= snd e)%Z -> a_is_alive_merged a e = l_is_alive_merged s e.
  Proof.
    intros Hp. destruct (R_cell _ _ _ HR (fst e)) as [Hg _]. unfold a_is_alive_merged, l_is_alive_merged. rewrite Hg.
    pose proof (pos_top (fst e)) as X.
    destruct (cell s (fst e)) as [|g|g kp|g kp]; cbn [exp_gen top] in *.
    - reflexivity.
    - assert (1 <= g)%Z by (apply X; discriminate). destruct (Z.eqb_spec (- g) (snd e)); [lia|]. apply andb_false_r.
    - assert (1 <= g)%Z by (apply X; discriminate). destruct (Z.eqb_spec g 0); [lia|reflexivity].
    - assert (1 <= g)%Z by (apply X; discriminate). destruct (Z.eqb_spec (1 - g) (snd e)); [lia|]. apply andb_false_r.
  Qed.

  Lemma err_gen_ref i : err_gen a i = l_err_gen s i.
  Proof.
    destruct (R_cell _ _ _ HR i) as [Hg _]. unfold err_gen, l_err_gen. rewrite Hg.
    pose proof (pos_top i) as X.
    destruct (cell s i) as [|g|g kp|g kp]; cbn [exp_gen top] in *.
    - reflexivity.
    - assert (1 <= g)%Z by (apply X; discriminate). destruct (Z.eqb_spec (- g) 0); [lia|reflexivity].
    - assert (1 <= g)%Z by (apply X; discriminate). destruct (Z.eqb_spec g 0); [lia|reflexivity].
    - destruct (Z.eqb_spec (1 - g) 0); destruct (Z.eqb_spec g 1); try lia; reflexivity.
  Qed.

  Lemma join_gen_ref i : occupied (cell s i) = true -> join_gen a i = top (cell s i).
  Proof.
    intros Ho. destruct (R_cell _ _ _ HR i) as [Hg _]. unfold join_gen. rewrite Hg.
    pose proof (pos_top i) as X.
    destruct (cell s i) as [|g|g kp|g kp]; cbn [exp_gen top occupied] in *; try discriminate.
    - assert (1 <= g)%Z by (apply X; discriminate). destruct (Z.ltb_spec 0 g); [reflexivity|lia].
    - assert (1 <= g)%Z by (apply X; discriminate). destruct (Z.ltb_spec 0 (1 - g)); lia.
  Qed.

  Lemma occupied_mem i : occupied (cell s i) = NS.mem i (NS.union (alive a) (raised a)).
  Proof.
    destruct (R_cell _ _ _ HR i) as [_ [Ha [Hr _]]]. rewrite NSF.union_b, Ha, Hr.
    destruct (cell s i); reflexivity.
  Qed.

  Lemma entities_ref : a_entities a = l_entities s.
  Proof.
    unfold a_entities, l_entities.
    set (U := NS.union (alive a) (raised a)).
    set (l2 := filter (fun p => occupied (snd p)) (NM.elements (cells s))).
    assert (map fst l2 = NS.elements U) as E.
    { apply sorted_unique.
      - pose proof (life_entities_sorted s) as Hs. unfold l_entities in Hs. fold l2 in Hs.
        clear - Hs. induction l2 as [|p l IH]; cbn [map]; [constructor|].
        inversion Hs as [|? ? Hs' Hhd]; subst. constructor; [apply IH; assumption|].
        destruct l; cbn [map]; constructor. inversion Hhd; subst. assumption.
      - apply elements_sorted.
      - intros i. rewrite in_elements_mem. unfold U. rewrite <- occupied_mem. rewrite in_map_iff. split.
        + intros [[j c] [<- Hin]]. apply filter_In in Hin. destruct Hin as [Hin Ho]. cbn [fst snd] in *.
          apply in_elements_cell in Hin. unfold cell. rewrite Hin. assumption.
        + intros Ho. unfold cell in Ho. destruct (NM.find i (cells s)) as [c|] eqn:Ec; [|discriminate].
          exists (i, c). split; [reflexivity|]. apply filter_In. split; [apply in_elements_cell|]; assumption. }
    rewrite <- E, map_map. apply map_ext_in. intros [i c] Hin. cbn [fst snd].
    apply filter_In in Hin. destruct Hin as [Hin Ho]. cbn [snd] in Ho. apply in_elements_cell in Hin.
    rewrite join_gen_ref; unfold cell; rewrite Hin; [reflexivity | assumption].
  Qed.
End Observations.

(* ------------------------------------------------------------------ *)
(* creation *)

Lemma join_gen_ext a' a i : gens a' = gens a -> join_gen a' i = join_gen a i.
Proof. intros H. unfold join_gen, gen_at. rewrite H. reflexivity. Qed.

Ltac norm := cbn [fst snd gens alive raised killed cache clen max_id a_stuck].

Lemma free_below_used s i : LInv s -> is_free (cell s i) = true -> i < used s.
Proof.
  intros HI Hf. destruct (N.lt_ge_cases i (used s)) as [|Hge]; [assumption|].
  rewrite (J_beyond _ HI) in Hf by assumption. discriminate.
Qed.

Lemma stack_pv_find c n x L : stack_is c n (x :: L) -> n <= vlen c -> NM.find (n - 1) (vmap c) = Some x.
Proof.
  cbn [stack_is]. intros [Hn [Hg _]] Hv. unfold pv_get in Hg.
  destruct (N.ltb_spec (n - 1) (vlen c)); [assumption|lia].
Qed.

Lemma alloc_atomic_ref a s : R a s -> LInv s ->
  let '(a', e) := a_alloc_atomic a in
  valid_choice s (fst e) = true /\ l_create true s (fst e) = (fst (l_create true s (fst e)), e) /\
  R a' (fst (l_create true s (fst e))).
Proof.
  intros HR HI. destruct HR as [Hst Hu Hcl Hcell [L [Hs [Hnd HL]]]]. rewrite app_nil_r in *.
  unfold a_alloc_atomic. destruct (N.eqb_spec (clen a) 0) as [Hz|Hnz].
  - (* fresh index *)
    rewrite Hz in Hs. destruct L as [|x L]; [|cbn [stack_is] in Hs; lia].
    assert (forall i, is_free (cell s i) = false) as Hnf.
    { intros i. destruct (is_free (cell s i)) eqn:E; [|reflexivity]. apply HL in E. destruct E. }
    assert (cell s (max_id a) = Never) as Hnever by (apply (J_beyond _ HI); lia).
    assert (valid_choice s (max_id a) = true) as Hv.
    { unfold valid_choice. rewrite Hnever, Hu, N.eqb_refl, (no_free_has_free _ HI Hnf). reflexivity. }
    destruct (Hcell (max_id a)) as [Hg _]. rewrite Hnever in Hg. cbn [exp_gen] in Hg.
    norm. rewrite (join_gen_ext _ a) by reflexivity.
    assert (join_gen a (max_id a) = 1%Z) as Hj.
    { unfold join_gen. rewrite Hg. reflexivity. }
    rewrite Hj. split; [assumption|]. split.
    { unfold l_create. cbn [fst]. rewrite Hnever. reflexivity. }
    split; cbn [a_stuck max_id clen cache]; try assumption.
    + rewrite used_create, Hu, N.eqb_refl. reflexivity.
    + intros j. rewrite cell_create. unfold cell_rel, gen_at in *; cbn [gens alive raised killed].
      rewrite mem_add. destruct (N.eq_dec (max_id a) j) as [<-|Hne].
      * rewrite Hnever. cbn [top exp_gen exp_alive exp_raised exp_killed].
        destruct (Hcell (max_id a)) as [G [A [_ K]]]. rewrite Hnever in *. cbn in A, K. unfold gen_at in G. auto.
      * apply Hcell.
    + exists []. rewrite Hz. cbn [stack_is app]. split; [reflexivity|]. split; [constructor|].
      intros j. rewrite cell_create. destruct (N.eq_dec (max_id a) j); [cbn; split; [tauto|discriminate]|].
      rewrite Hnf. cbn. split; [tauto|discriminate].
  - (* reuse the top of the free list *)
    destruct L as [|x L]; [cbn [stack_is] in Hs; lia|].
    pose proof Hs as Hs0. cbn [stack_is] in Hs. destruct Hs as [Hpos [Hget Hs]]. rewrite Hget.
    assert (is_free (cell s x) = true) as Hfx by (apply HL; left; reflexivity).
    destruct (cell s x) as [|g| |] eqn:Ex; try discriminate.
    destruct (Hcell x) as [Hg [Ha [Hr Hk]]]. rewrite Ex in *. cbn [exp_gen exp_alive exp_raised exp_killed] in *.
    assert (1 <= g)%Z as Hgp by (pose proof (J_pos _ HI x) as X; rewrite Ex in X; apply X; discriminate).
    norm. rewrite (join_gen_ext _ a) by reflexivity.
    assert (join_gen a x = (g + 1)%Z) as Hj.
    { unfold join_gen. rewrite Hg. destruct (Z.ltb_spec 0 (- g)); lia. }
    rewrite Hj.
    assert (valid_choice s x = true) as Hv by (unfold valid_choice; rewrite Ex; reflexivity).
    split; [assumption|]. split.
    { unfold l_create. cbn [fst]. rewrite Ex. reflexivity. }
    assert (x < used s) as Hxu by (apply free_below_used; [assumption | rewrite Ex; reflexivity]).
    split; cbn [a_stuck max_id clen cache]; try assumption.
    + rewrite used_create. destruct (N.eqb_spec x (used s)); [lia|assumption].
    + lia.
    + intros j. rewrite cell_create. unfold cell_rel, gen_at in *; cbn [gens alive raised killed].
      rewrite mem_add. destruct (N.eq_dec x j) as [<-|Hne].
      * rewrite Ex. cbn [top exp_gen exp_alive exp_raised exp_killed]. repeat split; auto. rewrite Hg. lia.
      * apply Hcell.
    + exists L. rewrite app_nil_r. split; [assumption|]. inversion Hnd as [|? ? Hx HndL]; subst.
      split; [assumption|]. intros j. rewrite cell_create. destruct (N.eq_dec x j) as [<-|Hne].
      * cbn. split; [intros H; contradiction | discriminate].
      * rewrite <- HL. cbn [In]. split; [auto|]. intros [E|H]; [congruence|assumption].
Qed.

Lemma gen_at_ext a' a i : gens a' = gens a -> gen_at a' i = gen_at a i.
Proof. intros H. unfold gen_at. rewrite H. reflexivity. Qed.

Lemma raise_gen_spec a i : (gen_at a i <= 0)%Z ->
  raise_gen a i = (set_gen a i (1 - gen_at a i), (1 - gen_at a i)%Z).
Proof. intros H. unfold raise_gen. destruct (Z.ltb_spec 0 (gen_at a i)); [lia|reflexivity]. Qed.

Lemma die_gen_spec a i : (0 < gen_at a i)%Z -> die_gen a i = set_gen a i (- gen_at a i).
Proof. intros H. unfold die_gen. destruct (Z.ltb_spec 0 (gen_at a i)); [reflexivity|lia]. Qed.

Lemma alloc_ref a s : R a s -> LInv s ->
  let '(a', e) := a_alloc a in
  valid_choice s (fst e) = true /\ l_create false s (fst e) = (fst (l_create false s (fst e)), e) /\
  R a' (fst (l_create false s (fst e))).
Proof.
  intros HR HI. destruct HR as [Hst Hu Hcl Hcell [L [Hs [Hnd HL]]]]. rewrite app_nil_r in *.
  unfold a_alloc.
  assert (vlen (pv_truncate (cache a) (clen a)) = clen a) as Hvt by (unfold pv_truncate; cbn [vlen]; lia).
  destruct L as [|x L].
  - (* fresh index *)
    cbn [stack_is] in Hs. unfold pv_pop. rewrite Hvt, Hs, N.eqb_refl. norm.
    assert (forall i, is_free (cell s i) = false) as Hnf.
    { intros i. destruct (is_free (cell s i)) eqn:E; [|reflexivity]. apply HL in E. destruct E. }
    assert (cell s (max_id a) = Never) as Hnever by (apply (J_beyond _ HI); lia).
    assert (valid_choice s (max_id a) = true) as Hv.
    { unfold valid_choice. rewrite Hnever, Hu, N.eqb_refl, (no_free_has_free _ HI Hnf). reflexivity. }
    destruct (Hcell (max_id a)) as [Hg [Ha [Hr Hk]]]. rewrite Hnever in *. cbn [exp_gen exp_alive exp_raised exp_killed] in *.
    rewrite raise_gen_spec by (rewrite (gen_at_ext _ a) by reflexivity; lia).
    rewrite (gen_at_ext _ a) by reflexivity. rewrite Hg. norm.
    split; [assumption|]. split.
    { unfold l_create. cbn [fst]. rewrite Hnever. reflexivity. }
    assert (vlen (pv_truncate (cache a) 0) = 0) as Hvt0 by (unfold pv_truncate; cbn [vlen]; lia).
    split; unfold set_gen; norm; try assumption.
    + rewrite Hst. reflexivity.
    + rewrite used_create, Hu, N.eqb_refl. reflexivity.
    + lia.
    + intros j. rewrite cell_create. unfold cell_rel, gen_at in *; norm.
      rewrite mem_add. destruct (N.eq_dec (max_id a) j) as [<-|Hne].
      * rewrite Hnever, NMF.add_eq_o by reflexivity. cbn [top exp_gen exp_alive exp_raised exp_killed]. auto.
      * rewrite NMF.add_neq_o by assumption. apply Hcell.
    + exists []. rewrite Hvt0. cbn [stack_is app]. split; [reflexivity|]. split; [constructor|].
      intros j. rewrite cell_create. destruct (N.eq_dec (max_id a) j); [cbn; split; [tauto|discriminate]|].
      rewrite Hnf. cbn. split; [tauto|discriminate].
  - (* reuse the top of the free list *)
    pose proof (stack_pv_find _ _ _ _ Hs Hcl) as Hfind.
    cbn [stack_is] in Hs. destruct Hs as [Hpos [Hget Hs]].
    unfold pv_pop. rewrite Hvt. destruct (N.eqb_spec (clen a) 0) as [|_]; [lia|].
    replace (vmap (pv_truncate (cache a) (clen a))) with (vmap (cache a)) by reflexivity. rewrite Hfind. norm. cbn [vlen].
    assert (is_free (cell s x) = true) as Hfx by (apply HL; left; reflexivity).
    destruct (cell s x) as [|g| |] eqn:Ex; try discriminate.
    destruct (Hcell x) as [Hg [Ha [Hr Hk]]]. rewrite Ex in *. cbn [exp_gen exp_alive exp_raised exp_killed] in *.
    assert (1 <= g)%Z as Hgp by (pose proof (J_pos _ HI x) as X; rewrite Ex in X; apply X; discriminate).
    rewrite raise_gen_spec by (rewrite (gen_at_ext _ a) by reflexivity; lia).
    rewrite (gen_at_ext _ a) by reflexivity. rewrite Hg. norm.
    replace (1 - - g)%Z with (g + 1)%Z by lia.
    assert (valid_choice s x = true) as Hv by (unfold valid_choice; rewrite Ex; reflexivity).
    split; [assumption|]. split.
    { unfold l_create. cbn [fst]. rewrite Ex. reflexivity. }
    assert (x < used s) as Hxu by (apply free_below_used; [assumption | rewrite Ex; reflexivity]).
    split; unfold set_gen; norm; try assumption.
    + rewrite used_create. destruct (N.eqb_spec x (used s)); [lia|assumption].
    + cbn [vlen]. lia.
    + intros j. rewrite cell_create. unfold cell_rel, gen_at in *; norm.
      rewrite mem_add. destruct (N.eq_dec x j) as [<-|Hne].
      * rewrite Ex, NMF.add_eq_o by reflexivity. cbn [top exp_gen exp_alive exp_raised exp_killed]. auto.
      * rewrite NMF.add_neq_o by assumption. apply Hcell.
    + exists L. rewrite app_nil_r. split.
      { apply (stack_frame L (cache a)); [|assumption]. intros k Hkk.
        unfold pv_get. cbn [vlen vmap].
        destruct (N.ltb_spec k (clen a - 1)); destruct (N.ltb_spec k (vlen (cache a))); try lia; reflexivity. }
      inversion Hnd as [|? ? Hx HndL]; subst.
      split; [assumption|]. intros j. rewrite cell_create. destruct (N.eq_dec x j) as [<-|Hne].
      * cbn. split; [intros H; contradiction | discriminate].
      * rewrite <- HL. cbn [In]. split; [auto|]. intros [E|H]; [congruence|assumption].
Qed.

(* ------------------------------------------------------------------ *)
(* immediate deletion *)

Lemma kill_one_ref a s F e : Rg a s F -> LInv s -> l_is_alive s e = true ->
  Rg (kill_one a (fst e)) (set_cell s (fst e) (Free (snd e))) (F ++ [fst e]).
Proof.
  intros [Hst Hu Hcl Hcell [L [Hs [Hnd HL]]]] HI Ha.
  destruct (alive_cell _ _ Ha) as [kp Hc]. set (i := fst e) in *. set (g := snd e) in *.
  assert (1 <= g)%Z as Hgp.
  { pose proof (J_pos _ HI i) as X. destruct Hc as [Hc|Hc]; rewrite Hc in X; apply X; discriminate. }
  destruct (Hcell i) as [Hg [Hal [Hr Hk]]].
  (* state after the body of the loop *)
  assert (a_stuck (kill_one a i) = false /\
          gen_at (kill_one a i) i = (- g)%Z /\ (forall j, i <> j -> gen_at (kill_one a i) j = gen_at a j) /\
          alive (kill_one a i) = NS.remove i (alive a) /\ raised (kill_one a i) = NS.remove i (raised a) /\
          killed (kill_one a i) = NS.remove i (killed a) /\ cache (kill_one a i) = cache a /\
          clen (kill_one a i) = clen a /\ max_id (kill_one a i) = max_id a) as X.
  { unfold kill_one. destruct Hc as [Hc|Hc]; rewrite Hc in *; cbn [exp_gen exp_alive exp_raised exp_killed] in *; rewrite Hr.
    - rewrite die_gen_spec by (rewrite (gen_at_ext _ a) by reflexivity; lia).
      rewrite (gen_at_ext _ a) by reflexivity. rewrite Hg. unfold set_gen; norm.
      repeat split; auto.
      + unfold gen_at; norm. rewrite NMF.add_eq_o by reflexivity. reflexivity.
      + intros j Hj. unfold gen_at; norm. rewrite NMF.add_neq_o by assumption. reflexivity.
    - rewrite raise_gen_spec by (rewrite (gen_at_ext _ a) by reflexivity; lia).
      rewrite (gen_at_ext _ a) by reflexivity. rewrite Hg. cbn [fst].
      rewrite die_gen_spec by (rewrite gen_at_set; destruct (N.eq_dec i i); [lia|congruence]).
      rewrite gen_at_set. destruct (N.eq_dec i i); [|congruence]. unfold set_gen; norm.
      replace (- (1 - (1 - g)))%Z with (- g)%Z by lia.
      repeat split; auto.
      + unfold gen_at; norm. rewrite NMF.add_eq_o by reflexivity. reflexivity.
      + intros j Hj. unfold gen_at; norm. rewrite !NMF.add_neq_o by assumption. reflexivity. }
  destruct X as [Xs [Xg [Xo [Xa [Xr [Xk [Xc [Xl Xm]]]]]]]].
  split.
  - assumption.
  - rewrite used_set, Xm. assumption.
  - rewrite Xc, Xl. assumption.
  - intros j. rewrite cell_set. unfold cell_rel. rewrite Xa, Xr, Xk, !mem_remove.
    destruct (N.eq_dec i j) as [<-|Hne].
    + rewrite Xg. cbn. auto.
    + rewrite Xo by assumption. apply Hcell.
  - exists L. rewrite Xc, Xl. split; [assumption|]. rewrite app_assoc. split.
    + apply NoDup_app_intro_single; [assumption|]. intros Hin. apply HL in Hin.
      destruct Hc as [Hc|Hc]; rewrite Hc in Hin; discriminate.
    + intros j. rewrite cell_set, in_app_iff, HL. cbn [In]. destruct (N.eq_dec i j) as [<-|Hne].
      * cbn. tauto.
      * split; [intros [H|[H|[]]]; [assumption|congruence] | auto].
Qed.

Lemma kill_loop_ref l : forall a s F pos, Rg a s F -> LInv s ->
  (forall e, In e l -> cell s (fst e) <> Never /\ (1 <= snd e)%Z) ->
  exists n, (n <= length l)%nat /\
    Rg (fst (a_kill_loop a l pos)) (fst (l_kill s l pos)) (F ++ map fst (firstn n l)) /\
    LInv (fst (l_kill s l pos)) /\
    match snd (a_kill_loop a l pos), snd (l_kill s l pos) with
    | None, None => n = length l
    | Some (p, g), Some p' => p = p' /\ p = (pos + n)%nat /\ (n < length l)%nat /\
                              g = l_err_gen (fst (l_kill s l pos)) (fst (nth n l (0, 0%Z)))
    | _, _ => False
    end.
Proof.
  induction l as [|e l IH]; intros a s F pos HR HI Hwf; cbn [a_kill_loop l_kill].
  - exists 0%nat. cbn [firstn map fst snd length]. rewrite app_nil_r. auto.
  - destruct (Hwf e (or_introl eq_refl)) as [Hn Hp].
    rewrite (is_alive_ref a s F HR HI e Hn Hp). destruct (l_is_alive s e) eqn:A.
    + assert (LInv (set_cell s (fst e) (Free (snd e)))) as HI'.
      { apply set_cell_LInv; auto; discriminate. }
      destruct (IH (kill_one a (fst e)) (set_cell s (fst e) (Free (snd e))) (F ++ [fst e]) (S pos)
                  (kill_one_ref a s F e HR HI A) HI') as [n [Hn' [HR' [HI'' Hres]]]].
      { intros x Hx. destruct (Hwf x (or_intror Hx)) as [X1 X2]. split; [|assumption].
        rewrite cell_set. destruct (N.eq_dec (fst e) (fst x)); [discriminate|assumption]. }
      exists (S n). cbn [length firstn map nth]. split; [lia|]. split.
      { rewrite <- app_assoc in HR'. exact HR'. }
      split; [assumption|].
      destruct (snd (a_kill_loop _ l (S pos))) as [[p g]|]; destruct (snd (l_kill _ l (S pos))) as [p'|]; try contradiction.
      * destruct Hres as [E1 [E2 [E3 E4]]]. repeat split; try lia; assumption.
      * lia.
    + exists 0%nat. cbn [fst snd firstn map nth length]. rewrite app_nil_r. split; [lia|]. split; [assumption|].
      split; [assumption|]. repeat split; try lia. apply (err_gen_ref a s F HR HI).
Qed.

Lemma cache_extend_ref a s F : Rg a s F -> R (cache_extend a F) s.
Proof.
  intros [Hst Hu Hcl Hcell [L [Hs [Hnd HL]]]].
  assert (vlen (pv_truncate (cache a) (clen a)) = clen a) as Hvt by (unfold pv_truncate; cbn [vlen]; lia).
  split; unfold cache_extend; norm; try assumption.
  - lia.
  - exists (rev F ++ L). rewrite app_nil_r. split.
    + rewrite pv_extend_len, Hvt. apply stack_extend; [assumption|].
      apply (stack_frame L (cache a)); [|assumption]. intros k Hk. apply pv_get_truncate; assumption.
    + split.
      * apply (Permutation_NoDup (l := L ++ F)); [|assumption].
        rewrite Permutation_app_comm. apply Permutation_app_tail. apply Permutation_rev.
      * intros i. rewrite <- HL, !in_app_iff, <- in_rev. tauto.
Qed.

Lemma kill_ref a s l : R a s -> LInv s ->
  (forall e, In e l -> cell s (fst e) <> Never /\ (1 <= snd e)%Z) ->
  let '(a', r) := a_kill true a l in
  l_kill_res s l = (fst (l_kill_res s l), r) /\ R a' (fst (l_kill_res s l)) /\ LInv (fst (l_kill_res s l)).
Proof.
  intros HR HI Hwf. unfold a_kill, l_kill_res.
  destruct (kill_loop_ref l a s [] 0%nat HR HI Hwf) as [n [Hn [HR' [HI' Hres]]]].
  destruct (a_kill_loop a l 0) as [a1 r]. destruct (l_kill s l 0) as [s1 r']. cbn [fst snd app] in *.
  destruct r as [[p g]|]; destruct r' as [p'|]; try contradiction.
  - destruct Hres as [<- [E2 [E3 ->]]]. cbn [Nat.add] in E2. subst p. cbn [fst]. split; [reflexivity|].
    split; [|assumption]. rewrite <- firstn_map. rewrite firstn_map. apply cache_extend_ref. assumption.
  - subst n. rewrite firstn_all in HR'. cbn [fst]. split; [reflexivity|]. split; [|assumption].
    apply cache_extend_ref. assumption.
Qed.

(* ------------------------------------------------------------------ *)
(* deferred deletion *)

Lemma kill_atomic_ref a s e : R a s -> LInv s -> cell s (fst e) <> Never -> (1 <= snd e)%Z ->
  let '(a', r) := a_kill_atomic a e in
  r = (if snd (l_kill_def s e) then None else Some (l_err_gen s (fst e))) /\ R a' (fst (l_kill_def s e)).
Proof.
  intros HR HI Hn Hp. unfold a_kill_atomic, l_kill_def.
  rewrite (is_alive_ref a s [] HR HI e Hn Hp). destruct (l_is_alive s e) eqn:A; cbn [fst snd].
  - split; [reflexivity|]. destruct HR as [Hst Hu Hcl Hcell [L [Hs [Hnd HL]]]].
    split; norm; try assumption.
    + intros j. rewrite cell_set. unfold cell_rel; norm. rewrite mem_add.
      destruct (N.eq_dec (fst e) j) as [<-|Hne]; [|apply Hcell].
      destruct (Hcell (fst e)) as [Hg [Ha [Hr Hk]]]. destruct (alive_cell _ _ A) as [kp [E|E]]; rewrite E in *; cbn in *; auto.
    + exists L. split; [assumption|]. split; [assumption|]. intros j. rewrite cell_set, HL.
      destruct (N.eq_dec (fst e) j) as [<-|Hne]; [|tauto].
      destruct (alive_cell _ _ A) as [kp [E|E]]; rewrite E; cbn; tauto.
  - split; [|assumption]. f_equal. apply (err_gen_ref a s [] HR HI).
Qed.

(* ------------------------------------------------------------------ *)
(* merge *)

Definition inl (j : N) (l : list N) : bool := if in_dec N.eq_dec j l then true else false.

Lemma inl_cons j x l : inl j (x :: l) = if N.eq_dec x j then true else inl j l.
Proof.
  unfold inl. destruct (in_dec N.eq_dec j (x :: l)) as [H|H]; destruct (N.eq_dec x j) as [E|E]; try reflexivity.
  - destruct H as [H|H]; [congruence|]. destruct (in_dec N.eq_dec j l); [reflexivity|contradiction].
  - exfalso. apply H. left. assumption.
  - destruct (in_dec N.eq_dec j l) as [H'|]; [|reflexivity]. exfalso. apply H. right. assumption.
Qed.

Lemma inl_In j l : inl j l = true <-> In j l.
Proof. unfold inl. destruct (in_dec N.eq_dec j l); split; auto; discriminate. Qed.

Lemma fold_raise_spec Ls : forall a, NoDup Ls -> (forall i, In i Ls -> gen_at a i <= 0)%Z ->
  let a1 := fold_left merge_raise Ls a in
  a_stuck a1 = a_stuck a /\
  (forall j, gen_at a1 j = if inl j Ls then (1 - gen_at a j)%Z else gen_at a j) /\
  (forall j, NS.mem j (alive a1) = NS.mem j (alive a) || inl j Ls) /\
  raised a1 = raised a /\ killed a1 = killed a /\ cache a1 = cache a /\ clen a1 = clen a /\ max_id a1 = max_id a.
Proof.
  induction Ls as [|x Ls IH]; intros a Hnd Hg; cbn [fold_left].
  - repeat split; auto. intros j. rewrite orb_false_r. reflexivity.
  - inversion Hnd as [|? ? Hx Hnd']; subst.
    assert (gen_at a x <= 0)%Z as Hgx by (apply Hg; left; reflexivity).
    assert (merge_raise a x =
            {| gens := NM.add x (1 - gen_at a x)%Z (gens a); alive := NS.add x (alive a); raised := raised a;
               killed := killed a; cache := cache a; clen := clen a; max_id := max_id a; a_stuck := a_stuck a |}) as E.
    { unfold merge_raise. rewrite raise_gen_spec by assumption. reflexivity. }
    destruct (IH (merge_raise a x) Hnd') as [H1 [H2 [H3 [H4 [H5 [H6 [H7 H8]]]]]]].
    { intros i Hi. rewrite E. unfold gen_at; norm. rewrite NMF.add_neq_o by (intros ->; contradiction).
      apply Hg. right. assumption. }
    rewrite E in *. norm. repeat split; auto.
    + intros j. rewrite H2, inl_cons. unfold gen_at; norm. destruct (N.eq_dec x j) as [<-|Hne].
      * rewrite NMF.add_eq_o by reflexivity. destruct (inl x Ls) eqn:Ei; [apply inl_In in Ei; contradiction|reflexivity].
      * rewrite NMF.add_neq_o by assumption. reflexivity.
    + intros j. rewrite H3. norm. rewrite inl_cons, mem_add. destruct (N.eq_dec x j); [rewrite orb_true_r; reflexivity|].
      reflexivity.
Qed.

Lemma fold_kill_spec Ks : forall a del, NoDup Ks -> (forall i, In i Ks -> 0 < gen_at a i)%Z ->
  let r := fold_left merge_kill Ks (a, del) in
  a_stuck (fst r) = a_stuck a /\
  (forall j, gen_at (fst r) j = if inl j Ks then (- gen_at a j)%Z else gen_at a j) /\
  (forall j, NS.mem j (alive (fst r)) = NS.mem j (alive a) && negb (inl j Ks)) /\
  raised (fst r) = raised a /\ killed (fst r) = killed a /\ cache (fst r) = cache a /\
  clen (fst r) = clen a /\ max_id (fst r) = max_id a /\
  snd r = del ++ map (fun i => (i, gen_at a i)) Ks.
Proof.
  induction Ks as [|x Ks IH]; intros a del Hnd Hg; cbn [fold_left].
  - cbn [fst snd map]. rewrite app_nil_r. repeat split; auto. intros j. rewrite andb_true_r. reflexivity.
  - inversion Hnd as [|? ? Hx Hnd']; subst.
    assert (0 < gen_at a x)%Z as Hgx by (apply Hg; left; reflexivity).
    assert (merge_kill (a, del) x =
            ({| gens := NM.add x (- gen_at a x)%Z (gens a); alive := NS.remove x (alive a); raised := raised a;
                killed := killed a; cache := cache a; clen := clen a; max_id := max_id a; a_stuck := a_stuck a |},
             del ++ [(x, gen_at a x)])) as E.
    { unfold merge_kill. rewrite die_gen_spec by (rewrite (gen_at_ext _ a) by reflexivity; assumption).
      unfold set_gen, gen_at; norm. fold (gen_at a x).
      destruct (Z.eqb_spec (gen_at a x) 0); [lia|]. rewrite orb_false_r. reflexivity. }
    rewrite E. match goal with |- context [fold_left merge_kill Ks (?a', ?d')] =>
      destruct (IH a' d' Hnd') as [H1 [H2 [H3 [H4 [H5 [H6 [H7 [H8 H9]]]]]]]] end.
    { intros i Hi. unfold gen_at; norm. rewrite NMF.add_neq_o by (intros ->; contradiction).
      apply Hg. right. assumption. }
    norm. repeat split; auto.
    + intros j. rewrite H2, inl_cons. unfold gen_at; norm. destruct (N.eq_dec x j) as [<-|Hne].
      * rewrite NMF.add_eq_o by reflexivity. destruct (inl x Ks) eqn:Ei; [apply inl_In in Ei; contradiction|reflexivity].
      * rewrite NMF.add_neq_o by assumption. reflexivity.
    + intros j. rewrite H3. norm. rewrite inl_cons, mem_remove. destruct (N.eq_dec x j); [rewrite andb_false_r; reflexivity|]. reflexivity.
    + rewrite H9, <- app_assoc. cbn [app map]. f_equal. f_equal. apply map_ext_in. intros i Hi.
      unfold gen_at; norm. rewrite NMF.add_neq_o by (intros ->; contradiction). reflexivity.
Qed.

Lemma merge_ref a s : R a s -> LInv s ->
  let '(a', d) := a_merge a in
  d = snd (l_merge s) /\ R a' (fst (l_merge s)).
Proof.
  intros HR HI. pose proof HR as [Hst Hu Hcl Hcell [L [Hs [Hnd HL]]]]. rewrite app_nil_r in *.
  unfold a_merge.
  set (RS := NS.elements (raised a)). set (KS := NS.elements (killed a)).
  assert (forall i, inl i RS = exp_raised (cell s i)) as HRS.
  { intros i. destruct (Hcell i) as [_ [_ [Hr _]]]. rewrite <- Hr.
    destruct (inl i RS) eqn:E.
    - apply inl_In, in_elements_mem in E. auto.
    - destruct (NS.mem i (raised a)) eqn:E2; [|reflexivity]. apply in_elements_mem, inl_In in E2. fold RS in E2. congruence. }
  assert (forall i, inl i KS = exp_killed (cell s i)) as HKS.
  { intros i. destruct (Hcell i) as [_ [_ [_ Hk]]]. rewrite <- Hk.
    destruct (inl i KS) eqn:E.
    - apply inl_In, in_elements_mem in E. auto.
    - destruct (NS.mem i (killed a)) eqn:E2; [|reflexivity]. apply in_elements_mem, inl_In in E2. fold KS in E2. congruence. }
  assert (forall i, cell s i <> Never -> 1 <= top (cell s i))%Z as Hpos by (apply (J_pos _ HI)).
  (* phase 1 *)
  destruct (fold_raise_spec RS a (elements_nodup _)) as [A1 [A2 [A3 [A4 [A5 [A6 [A7 A8]]]]]]].
  { intros i Hi. apply inl_In in Hi. rewrite HRS in Hi. destruct (Hcell i) as [Hg _].
    specialize (Hpos i). destruct (cell s i); try discriminate. rewrite Hg. cbn [exp_gen top] in *.
    assert (1 <= g)%Z by (apply Hpos; discriminate). lia. }
  set (a1 := fold_left merge_raise RS a) in *.
  set (a2 := {| gens := gens a1; alive := alive a1; raised := NS.empty; killed := killed a1;
                cache := cache a1; clen := clen a1; max_id := max_id a1; a_stuck := a_stuck a1 |}).
  assert (killed a2 = killed a) as K2 by (unfold a2; norm; assumption).
  rewrite K2. fold KS.
  assert (forall i, gen_at a2 i = gen_at a1 i) as G2 by (intros i; apply gen_at_ext; reflexivity).
  (* generation of every occupied cell after the raises *)
  assert (forall i, occupied (cell s i) = true -> gen_at a2 i = top (cell s i)) as Gocc.
  { intros i Ho. rewrite G2, A2, HRS. destruct (Hcell i) as [Hg _]. rewrite Hg.
    destruct (cell s i); try discriminate; cbn [exp_raised exp_gen top]; lia. }
  destruct (fold_kill_spec KS a2 [] (elements_nodup _)) as [B1 [B2 [B3 [B4 [B5 [B6 [B7 [B8 B9]]]]]]]].
  { intros i Hi. apply inl_In in Hi. rewrite HKS in Hi. rewrite Gocc.
    - specialize (Hpos i). destruct (cell s i); try discriminate; cbn [top] in *;
      assert (1 <= g)%Z by (apply Hpos; discriminate); lia.
    - destruct (cell s i); try discriminate; reflexivity. }
  destruct (fold_left merge_kill KS (a2, [])) as [a3 del]. cbn [fst snd app] in *.
  assert (map fst del = KS) as Dk.
  { rewrite B9, map_map. cbn [fst]. apply map_id. }
  (* the deleted list *)
  assert (del = snd (l_merge s)) as Hdel.
  { unfold l_merge. cbn [snd].
    set (l2 := filter (fun p => dies_at_merge (snd p)) (NM.elements (cells s))).
    assert (map fst l2 = KS) as E.
    { apply sorted_unique.
      - assert (Sorted (fun a b : entity => fst a < fst b) (map (fun p => (fst p, top (snd p))) l2)) as Hsrt.
        { apply map_filter_sorted; [reflexivity|].
          pose proof (NM.elements_3 (cells s)) as H.
          induction H as [|x l Hsl IHl Hhd]; constructor; [assumption|]. destruct Hhd; constructor. assumption. }
        clear - Hsrt. induction l2 as [|p l IH]; cbn [map] in *; [constructor|].
        inversion Hsrt as [|? ? Hs' Hhd]; subst. constructor; [apply IH; assumption|].
        destruct l; cbn [map] in *; constructor. inversion Hhd; subst. assumption.
      - apply elements_sorted.
      - intros i. rewrite <- (inl_In i KS), HKS, in_map_iff. split.
        + intros [[j c] [<- Hin]]. apply filter_In in Hin. destruct Hin as [Hin Ho]. cbn [fst snd] in *.
          apply in_elements_cell in Hin. unfold cell. rewrite Hin. destruct c as [|?|? [|]|? [|]]; try discriminate; reflexivity.
        + intros Hk. unfold cell in Hk. destruct (NM.find i (cells s)) as [c|] eqn:Ec; [|discriminate].
          exists (i, c). split; [reflexivity|]. apply filter_In. split; [apply in_elements_cell; assumption|].
          cbn [snd]. destruct c as [|?|? [|]|? [|]]; try discriminate; reflexivity. }
    rewrite B9, <- E, map_map. apply map_ext_in. intros [i c] Hin. cbn [fst snd].
    apply filter_In in Hin. destruct Hin as [Hin Hd]. cbn [snd] in Hd. apply in_elements_cell in Hin.
    f_equal. rewrite Gocc; unfold cell; rewrite Hin; [reflexivity|].
    destruct c as [|?|? [|]|? [|]]; try discriminate; reflexivity. }
  split; [assumption|].
  rewrite Dk. apply cache_extend_ref.
  split; norm.
  - rewrite B1. unfold a2; norm. rewrite A1. assumption.
  - rewrite used_merge, B8. unfold a2; norm. rewrite A8. assumption.
  - rewrite B6, B7. unfold a2; norm. rewrite A6, A7. assumption.
  - intros j. rewrite cell_merge. unfold cell_rel; norm. rewrite (gen_at_ext _ a3) by reflexivity.
    rewrite B2, B3, B4, G2, A2, HRS, HKS, mem_empty.
    unfold a2; norm. rewrite A3, HRS, mem_empty.
    destruct (Hcell j) as [Hg [Ha [Hr Hk]]]. rewrite Hg, Ha.
    destruct (cell s j) as [|g|g [|]|g [|]]; cbn; repeat split; try reflexivity; lia.
  - exists L. rewrite B6, B7. unfold a2; norm. rewrite A6, A7. split; [assumption|]. split.
    + apply NoDup_app_intro; [assumption | apply elements_nodup|].
      intros x H1 H2. apply HL in H1. apply inl_In in H2. rewrite HKS in H2.
      destruct (cell s x); discriminate.
    + intros j. rewrite cell_merge, in_app_iff, HL, <- inl_In, HKS.
      destruct (cell s j) as [|g|g [|]|g [|]]; cbn; split; auto; intros [H|H]; auto; discriminate.
Qed.

(* ------------------------------------------------------------------ *)
(* one step, and runs *)

Definition handles_in (o : aop) : list entity :=
  match o with
  | AKill l => l
  | AKillDef e | AIsAlive e | AIsAliveMerged e => [e]
  | _ => []
  end.

(* handles passed to the allocator were issued by it: index below the
   counter of used indices, positive generation *)
Definition aop_wfb (a : astate) (o : aop) : bool :=
  forallb (fun e => N.ltb (fst e) (max_id a) && Z.leb 1 (snd e)) (handles_in o).

Lemma aop_wfb_spec a s o : R a s -> LInv s -> aop_wfb a o = true ->
  forall e, In e (handles_in o) -> cell s (fst e) <> Never /\ (1 <= snd e)%Z.
Proof.
  intros HR HI H e He. unfold aop_wfb in H. rewrite forallb_forall in H. specialize (H e He).
  apply andb_true_iff in H. destruct H as [H1 H2]. apply N.ltb_lt in H1. apply Z.leb_le in H2.
  split; [|assumption]. apply (J_below _ HI). rewrite (R_used _ _ _ HR). assumption.
Qed.

Theorem astep_refines a s o : R a s -> LInv s -> aop_wfb a o = true ->
  choice_ok s o (choice_of (snd (astep true a o))) = true /\
  snd (lstep s o (choice_of (snd (astep true a o)))) = snd (astep true a o) /\
  R (fst (astep true a o)) (fst (lstep s o (choice_of (snd (astep true a o))))) /\
  LInv (fst (lstep s o (choice_of (snd (astep true a o))))).
Proof.
  intros HR HI Hwf. pose proof (aop_wfb_spec a s o HR HI Hwf) as W.
  assert (forall c, choice_ok s o c = true -> LInv (fst (lstep s o c))) as HI' by (intros c; apply lstep_LInv; assumption).
  destruct o as [[|]|l|e| |e|e| |i]; cbn [astep lstep choice_ok handles_in] in *.
  - pose proof (alloc_atomic_ref a s HR HI) as X. destruct (a_alloc_atomic a) as [a' e]. cbn [fst snd choice_of].
    destruct X as [X1 [X2 X3]]. specialize (HI' _ X1). rewrite X2 in *. cbn [fst snd] in *. auto.
  - pose proof (alloc_ref a s HR HI) as X. destruct (a_alloc a) as [a' e]. cbn [fst snd choice_of].
    destruct X as [X1 [X2 X3]]. specialize (HI' _ X1). rewrite X2 in *. cbn [fst snd] in *. auto.
  - pose proof (kill_ref a s l HR HI W) as X. destruct (a_kill true a l) as [a' r]. cbn [fst snd choice_of].
    destruct X as [X1 [X2 X3]]. rewrite X1 in *. cbn [fst snd] in *. auto.
  - destruct (W e (or_introl eq_refl)) as [W1 W2].
    pose proof (kill_atomic_ref a s e HR HI W1 W2) as X. destruct (a_kill_atomic a e) as [a' r]. cbn [fst snd choice_of].
    destruct X as [X1 X2]. specialize (HI' 0 eq_refl). destruct (l_kill_def s e) as [s' ok]. cbn [fst snd] in *.
    subst r. auto.
  - pose proof (merge_ref a s HR HI) as X. destruct (a_merge a) as [a' d]. cbn [fst snd choice_of].
    destruct X as [X1 X2]. specialize (HI' 0 eq_refl). destruct (l_merge s) as [s' d']. cbn [fst snd] in *. subst d. auto.
  - destruct (W e (or_introl eq_refl)) as [W1 W2]. cbn [fst snd]. rewrite (is_alive_ref a s [] HR HI e W1 W2). auto.
  - destruct (W e (or_introl eq_refl)) as [W1 W2]. cbn [fst snd]. rewrite (is_alive_merged_ref a s [] HR HI e W2). auto.
  - cbn [fst snd]. rewrite (entities_ref a s [] HR HI). auto.
  - cbn [fst snd]. unfold a_entity_at. rewrite (cur_gen_ref a s [] HR HI). unfold l_entity_at.
    destruct (cell s i); cbn [snd]; auto.
Qed.

Fixpoint awf_run (a : astate) (os : list aop) : bool :=
  match os with
  | [] => true
  | o :: os' => aop_wfb a o && awf_run (fst (astep true a o)) os'
  end.

Definition with_choices (os : list aop) (outs : list aout) : list (aop * N) :=
  combine os (map choice_of outs).

Lemma arun_cons fixed a o os :
  arun fixed a (o :: os) =
  (fst (arun fixed (fst (astep fixed a o)) os), snd (astep fixed a o) :: snd (arun fixed (fst (astep fixed a o)) os)).
Proof. cbn [arun]. destruct (astep fixed a o) as [a1 out]. cbn [fst snd]. destruct (arun fixed a1 os). reflexivity. Qed.

(* every run of the faithful model is a run of the specification with valid
   choices and the same outputs *)
Theorem arun_refines os : forall a s, R a s -> LInv s -> awf_run a os = true ->
  let outs := snd (arun true a os) in
  lvalid s (with_choices os outs) = true /\
  snd (lrun s (with_choices os outs)) = outs /\
  R (fst (arun true a os)) (fst (lrun s (with_choices os outs))) /\
  LInv (fst (lrun s (with_choices os outs))).
Proof.
  induction os as [|o os IH]; intros a s HR HI Hwf; cbn zeta.
  - cbn. auto.
  - cbn [awf_run] in Hwf. apply andb_true_iff in Hwf. destruct Hwf as [Hw Hwf].
    rewrite arun_cons. cbn [fst snd]. unfold with_choices. cbn [map combine].
    destruct (astep_refines a s o HR HI Hw) as [H1 [H2 [H3 H4]]].
    rewrite lrun_cons. cbn [lvalid fst snd]. rewrite H1, H2. cbn [andb].
    destruct (IH _ _ H3 H4 Hwf) as [I1 [I2 [I3 I4]]]. unfold with_choices in *.
    rewrite I1, I2. auto.
Qed.

Lemma aout_eqb_refl x : aout_eqb x x = true.
Proof.
  assert (forall e, entity_eqb e e = true) as He by (intros e; apply entity_eqb_eq; reflexivity).
  destruct x as [e|[[p g]|]|[g|]|b|l]; cbn; auto.
  - rewrite Nat.eqb_refl, Z.eqb_refl. reflexivity.
  - apply Z.eqb_refl.
  - destruct b; reflexivity.
  - induction l as [|e l IH]; [reflexivity|]. rewrite He, IH. reflexivity.
Qed.

(* ... hence the acceptor accepts the trace of every faithful run *)
Theorem arun_accepted os : forall a s pos, R a s -> LInv s -> awf_run a os = true ->
  laccept s (combine os (snd (arun true a os))) pos = None.
Proof.
  induction os as [|o os IH]; intros a s pos HR HI Hwf; [reflexivity|].
  cbn [awf_run] in Hwf. apply andb_true_iff in Hwf. destruct Hwf as [Hw Hwf].
  rewrite arun_cons. cbn [fst snd combine laccept].
  destruct (astep_refines a s o HR HI Hw) as [H1 [H2 [H3 H4]]].
  rewrite H1. cbn [negb]. destruct (lstep s o (choice_of (snd (astep true a o)))) as [s' out'] eqn:E.
  cbn [fst snd] in *. subst out'. rewrite aout_eqb_refl. apply IH; assumption.
Qed.
