(* Faithful model of src/world/entity.rs (struct Allocator, EntityCache,
   ZeroableGeneration), field by field and statement by statement.
   Definitions only.

   gens     : generations vector; absent = ZeroableGeneration(None) = 0;
              > 0 alive generation, < 0 dead generation
   alive    : BitSet            raised, killed : AtomicBitSet
   cache    : EntityCache.cache (a Vec with its own length)
   clen     : EntityCache.len   (the atomic; may be smaller than the Vec's length)
   max_id   : the atomic counter of never-used indices
   a_stuck  : sticky flag, set where the real code would panic
              (assert!, unwrap, index out of bounds, debug_assert!)           *)
From SV Require Export Base.Ids.

Record astate := {
  gens : NM.t Z; alive : NS.t; raised : NS.t; killed : NS.t;
  cache : pvec N; clen : N; max_id : N; a_stuck : bool }.

Definition a_init : astate :=
  {| gens := NM.empty Z; alive := NS.empty; raised := NS.empty; killed := NS.empty;
     cache := pv_empty; clen := 0; max_id := 0; a_stuck := false |}.

Definition gen_at (a : astate) (i : N) : Z :=
  match NM.find i (gens a) with Some g => g | None => 0%Z end.

(* Generation a live handle at [i] carries: the three-way match shared by
   is_alive / entity *)
Definition cur_gen (a : astate) (i : N) : Z :=
  let g := gen_at a i in
  if (g <=? 0)%Z && NS.mem i (raised a) then (1 - g)%Z
  else if (g =? 0)%Z then 1%Z else g.

Definition a_is_alive (a : astate) (e : entity) : bool := Z.eqb (snd e) (cur_gen a (fst e)).

Definition a_entity_at (a : astate) (i : N) : entity := (i, cur_gen a i).

(* generation(id).map(|g| if g.is_alive() {g} else {g.raised()}).unwrap_or(one):
   used by allocate_atomic and by the entities join *)
Definition join_gen (a : astate) (i : N) : Z :=
  let g := gen_at a i in if (0 <? g)%Z then g else (1 - g)%Z.

(* WorldExt::is_alive : generation(id) == Some(e.gen) *)
Definition a_is_alive_merged (a : astate) (e : entity) : bool :=
  let g := gen_at a (fst e) in negb (g =? 0)%Z && (g =? snd e)%Z.

Definition set_gen (a : astate) (i : N) (g : Z) : astate :=
  {| gens := NM.add i g (gens a); alive := alive a; raised := raised a; killed := killed a;
     cache := cache a; clen := clen a; max_id := max_id a; a_stuck := a_stuck a |}.
Definition set_stuck (a : astate) : astate :=
  {| gens := gens a; alive := alive a; raised := raised a; killed := killed a;
     cache := cache a; clen := clen a; max_id := max_id a; a_stuck := true |}.

(* ZeroableGeneration::raise : assert!(!is_alive); gen := 1 - gen *)
Definition raise_gen (a : astate) (i : N) : astate * Z :=
  let g := gen_at a i in
  if (0 <? g)%Z then (set_stuck a, g) else (set_gen a i (1 - g)%Z, (1 - g)%Z).

(* ZeroableGeneration::die : debug_assert!(is_alive); gen := -gen *)
Definition die_gen (a : astate) (i : N) : astate :=
  let g := gen_at a i in
  if (0 <? g)%Z then set_gen a i (- g)%Z else set_stuck a.

(* EntityCache::maintain + Extend *)
Definition cache_extend (a : astate) (l : list N) : astate :=
  let c := pv_extend (pv_truncate (cache a) (clen a)) l in
  {| gens := gens a; alive := alive a; raised := raised a; killed := killed a;
     cache := c; clen := vlen c; max_id := max_id a; a_stuck := a_stuck a |}.

(* Allocator::allocate_atomic *)
Definition a_alloc_atomic (a : astate) : astate * entity :=
  let '(a1, id) :=
    if N.eqb (clen a) 0 then
      ({| gens := gens a; alive := alive a; raised := raised a; killed := killed a;
          cache := cache a; clen := clen a; max_id := max_id a + 1; a_stuck := a_stuck a |}, max_id a)
    else
      match pv_get (cache a) (clen a - 1) with
      | Some id =>
        ({| gens := gens a; alive := alive a; raised := raised a; killed := killed a;
            cache := cache a; clen := clen a - 1; max_id := max_id a; a_stuck := a_stuck a |}, id)
      | None =>
        ({| gens := gens a; alive := alive a; raised := raised a; killed := killed a;
            cache := cache a; clen := clen a - 1; max_id := max_id a; a_stuck := true |}, 0)
      end in
  let a2 := {| gens := gens a1; alive := alive a1; raised := NS.add id (raised a1); killed := killed a1;
               cache := cache a1; clen := clen a1; max_id := max_id a1; a_stuck := a_stuck a1 |} in
  (a2, (id, join_gen a2 id)).

(* Allocator::allocate *)
Definition a_alloc (a : astate) : astate * entity :=
  let c0 := pv_truncate (cache a) (clen a) in
  let '(c1, popped) := pv_pop c0 in
  let '(a1, id) :=
    match popped with
    | Some id =>
      ({| gens := gens a; alive := alive a; raised := raised a; killed := killed a;
          cache := c1; clen := vlen c1; max_id := max_id a; a_stuck := a_stuck a |}, id)
    | None =>
      ({| gens := gens a; alive := alive a; raised := raised a; killed := killed a;
          cache := c1; clen := vlen c1; max_id := max_id a + 1;
          a_stuck := a_stuck a || negb (N.eqb (vlen c0) 0) |}, max_id a)
    end in
  let a2 := {| gens := gens a1; alive := NS.add id (alive a1); raised := raised a1; killed := killed a1;
               cache := cache a1; clen := clen a1; max_id := max_id a1; a_stuck := a_stuck a1 |} in
  let '(a3, g) := raise_gen a2 id in
  (a3, (id, g)).

(* the body of the loop in Allocator::kill for one (alive) entity *)
Definition kill_one (a : astate) (i : N) : astate :=
  let a1 := {| gens := gens a; alive := NS.remove i (alive a); raised := NS.remove i (raised a);
               killed := NS.remove i (killed a);
               cache := cache a; clen := clen a; max_id := max_id a; a_stuck := a_stuck a |} in
  let a2 := if NS.mem i (raised a) then fst (raise_gen a1 i) else a1 in
  die_gen a2 i.

(* del_err's actual_gen *)
Definition err_gen (a : astate) (i : N) : Z := let g := gen_at a i in if (g =? 0)%Z then 1%Z else g.

Fixpoint a_kill_loop (a : astate) (l : list entity) (pos : nat) : astate * option (nat * Z) :=
  match l with
  | [] => (a, None)
  | e :: l' =>
      if a_is_alive a e then a_kill_loop (kill_one a (fst e)) l' (S pos)
      else (a, Some (pos, err_gen a (fst e)))
  end.

(* Allocator::kill.  [recycle_on_error = true] is the repaired code: the
   killed prefix is pushed to the free list before the error is returned;
   [false] is the code as found (the prefix is forgotten). *)
Definition a_kill (recycle_on_error : bool) (a : astate) (l : list entity) : astate * option (nat * Z) :=
  let '(a1, r) := a_kill_loop a l 0 in
  match r with
  | None => (cache_extend a1 (map fst l), None)
  | Some (pos, g) =>
      ((if recycle_on_error then cache_extend a1 (map fst (firstn pos l)) else a1), r)
  end.

(* Allocator::kill_atomic *)
Definition a_kill_atomic (a : astate) (e : entity) : astate * option Z :=
  if a_is_alive a e then
    ({| gens := gens a; alive := alive a; raised := raised a; killed := NS.add (fst e) (killed a);
        cache := cache a; clen := clen a; max_id := max_id a; a_stuck := a_stuck a |}, None)
  else (a, Some (err_gen a (fst e))).

(* Allocator::merge *)
Definition merge_raise (a : astate) (i : N) : astate :=
  let a1 := fst (raise_gen a i) in
  {| gens := gens a1; alive := NS.add i (alive a1); raised := raised a1; killed := killed a1;
     cache := cache a1; clen := clen a1; max_id := max_id a1; a_stuck := a_stuck a1 |}.

Definition merge_kill (st : astate * list entity) (i : N) : astate * list entity :=
  let '(a, del) := st in
  let g := gen_at a i in
  let a1 := {| gens := gens a; alive := NS.remove i (alive a); raised := raised a; killed := killed a;
               cache := cache a; clen := clen a; max_id := max_id a;
               a_stuck := a_stuck a || (g =? 0)%Z |} in
  (die_gen a1 i, del ++ [(i, g)]).

Definition a_merge (a : astate) : astate * list entity :=
  let a1 := fold_left merge_raise (NS.elements (raised a)) a in
  let a2 := {| gens := gens a1; alive := alive a1; raised := NS.empty; killed := killed a1;
               cache := cache a1; clen := clen a1; max_id := max_id a1; a_stuck := a_stuck a1 |} in
  let '(a3, del) := fold_left merge_kill (NS.elements (killed a2)) (a2, []) in
  let a4 := {| gens := gens a3; alive := alive a3; raised := raised a3; killed := NS.empty;
               cache := cache a3; clen := clen a3; max_id := max_id a3; a_stuck := a_stuck a3 |} in
  (cache_extend a4 (map fst del), del).

(* the entities join: mask = alive | raised, ascending; item = (id, join_gen) *)
Definition a_entities (a : astate) : list entity :=
  map (fun i => (i, join_gen a i)) (NS.elements (NS.union (alive a) (raised a))).
