(* Properties of the lifecycle specification, for every sequence of
   operations and every sequence of valid choices (no bound on length). *)
From SV Require Import Base.ListX Alloc.AllocStep.
From Coq Require Import Sorting.Sorted SetoidList.

(* ------------------------------------------------------------------ *)
(* cells *)

Lemma cell_set_eq s i c : cell (set_cell s i c) i = c.
Proof. unfold cell, set_cell; cbn [cells]. rewrite NMF.add_eq_o by reflexivity. reflexivity. Qed.

Lemma cell_set_neq s i j c : i <> j -> cell (set_cell s i c) j = cell s j.
Proof. intros H. unfold cell, set_cell; cbn [cells]. rewrite NMF.add_neq_o by assumption. reflexivity. Qed.

Lemma cell_set s i j c : cell (set_cell s i c) j = if N.eq_dec i j then c else cell s j.
Proof. destruct (N.eq_dec i j) as [->|H]; [apply cell_set_eq | apply cell_set_neq; assumption]. Qed.

Lemma used_set s i c : used (set_cell s i c) = used s.
Proof. reflexivity. Qed.

Lemma cell_create pend s i j :
  cell (fst (l_create pend s i)) j =
  if N.eq_dec i j then (if pend then Pend (top (cell s i) + 1) false else Live (top (cell s i) + 1) false)
  else cell s j.
Proof.
  unfold l_create, cell; cbn [fst cells].
  destruct (N.eq_dec i j) as [->|H].
  - rewrite NMF.add_eq_o by reflexivity. reflexivity.
  - rewrite NMF.add_neq_o by assumption. reflexivity.
Qed.

Lemma used_create pend s i : used (fst (l_create pend s i)) = if N.eqb i (used s) then used s + 1 else used s.
Proof. reflexivity. Qed.

Lemma cell_merge s i : cell (fst (l_merge s)) i = merge_cell (cell s i).
Proof.
  unfold l_merge, cell; cbn [fst cells]. rewrite NMF.map_o.
  destruct (NM.find i (cells s)); reflexivity.
Qed.

Lemma used_merge s : used (fst (l_merge s)) = used s.
Proof. reflexivity. Qed.

Lemma in_elements_cell s i c : In (i, c) (NM.elements (cells s)) <-> NM.find i (cells s) = Some c.
Proof.
  rewrite <- NMF.find_mapsto_iff, NMF.elements_mapsto_iff, InA_alt. split.
  - intros H. exists (i, c). split; [split; reflexivity | assumption].
  - intros [[j d] [[Hk Hv] Hin]]. cbn in Hk, Hv. subst. assumption.
Qed.

(* the incremental counter: [nfree] is the number of Free cells below [used] *)
Definition nfree_ok (s : lstate) : Prop := nfree s = cnt_free (cells s) 0 (N.to_nat (used s)).

Lemma cnt_free_cell s k n : cnt_free (cells s) k (S n) = free_b (cell s k) + cnt_free (cells s) (k + 1) n.
Proof. reflexivity. Qed.

Lemma cnt_free_ext m m' n : forall k,
  (forall i, k <= i < k + N.of_nat n -> NM.find i m = NM.find i m') -> cnt_free m k n = cnt_free m' k n.
Proof.
  induction n as [|n IH]; intros k H; cbn [cnt_free]; [reflexivity|].
  rewrite H by lia. rewrite (IH (k + 1)); [reflexivity|]. intros i Hi. apply H. lia.
Qed.

Lemma cnt_free_snoc m n : forall k,
  cnt_free m k (S n) = cnt_free m k n + free_b (match NM.find (k + N.of_nat n) m with Some c => c | None => Never end).
Proof.
  induction n as [|n IH]; intros k.
  - cbn [cnt_free]. replace (k + N.of_nat 0) with k by lia. lia.
  - cbn [cnt_free] in *. rewrite (IH (k + 1)).
    replace (k + 1 + N.of_nat n) with (k + N.of_nat (S n)) by lia. lia.
Qed.

Lemma cnt_free_zero m n : forall k, cnt_free m k n = 0 ->
  forall i, k <= i < k + N.of_nat n -> is_free (match NM.find i m with Some c => c | None => Never end) = false.
Proof.
  induction n as [|n IH]; intros k H i Hi; [lia|]. cbn [cnt_free] in H.
  destruct (N.eq_dec i k) as [->|Hne].
  - unfold free_b in H. destruct (is_free _); [lia|reflexivity].
  - apply (IH (k + 1)); [lia|lia].
Qed.

Lemma cnt_free_none m n : forall k,
  (forall i, k <= i < k + N.of_nat n -> is_free (match NM.find i m with Some c => c | None => Never end) = false) ->
  cnt_free m k n = 0.
Proof.
  induction n as [|n IH]; intros k H; cbn [cnt_free]; [reflexivity|].
  unfold free_b at 1. rewrite H by lia. rewrite IH; [reflexivity|]. intros i Hi. apply H. lia.
Qed.

(* changing one cell inside the range *)
Lemma cnt_free_update m i c n : forall k, k <= i < k + N.of_nat n ->
  cnt_free (NM.add i c m) k n + free_b (match NM.find i m with Some x => x | None => Never end) =
  cnt_free m k n + free_b c.
Proof.
  induction n as [|n IH]; intros k Hk; [lia|]. cbn [cnt_free].
  destruct (N.eq_dec i k) as [->|Hne].
  - rewrite NMF.add_eq_o by reflexivity.
    rewrite (cnt_free_ext (NM.add k c m) m n (k + 1)); [lia|]. intros j Hj. apply NMF.add_neq_o. lia.
  - rewrite NMF.add_neq_o by assumption. specialize (IH (k + 1)). lia.
Qed.

(* ------------------------------------------------------------------ *)
(* l_kill *)

Lemma used_kill l : forall s pos, used (fst (l_kill s l pos)) = used s.
Proof.
  induction l as [|e l IH]; intros s pos; cbn [l_kill]; [reflexivity|].
  destruct (l_is_alive s e); [rewrite IH; reflexivity | reflexivity].
Qed.

(* ------------------------------------------------------------------ *)
(* top is monotone; well-formedness *)

Definition top_le (s s' : lstate) : Prop := forall i, (top (cell s i) <= top (cell s' i))%Z.

(* J: the index space below [used] has no hole and nothing is beyond it;
   generations are positive *)
Record LInv (s : lstate) : Prop := {
  J_beyond : forall i, used s <= i -> cell s i = Never;
  J_below : forall i, i < used s -> cell s i <> Never;
  J_pos : forall i, cell s i <> Never -> (1 <= top (cell s i))%Z;
  J_nfree : nfree_ok s }.

Lemma LInv_init : LInv l_init.
Proof.
  split; [| | |reflexivity]; unfold l_init, cell; cbn [cells used]; intros i.
  - intros _. rewrite NMF.empty_o. reflexivity.
  - lia.
  - rewrite NMF.empty_o. congruence.
Qed.

Lemma has_free_false s : LInv s -> has_free s = false -> forall i, is_free (cell s i) = false.
Proof.
  intros [Hb Hl Hp Hn] H i. unfold has_free in H. apply negb_false_iff, N.eqb_eq in H.
  destruct (N.lt_ge_cases i (used s)) as [Hi|Hi]; [|rewrite Hb by assumption; reflexivity].
  unfold nfree_ok in Hn. rewrite H in Hn. symmetry in Hn.
  apply (cnt_free_zero _ _ _ Hn i). lia.
Qed.

Lemma no_free_has_free s : LInv s -> (forall i, is_free (cell s i) = false) -> has_free s = false.
Proof.
  intros [_ _ _ Hn] H. unfold has_free. unfold nfree_ok in Hn. rewrite Hn.
  rewrite cnt_free_none; [reflexivity|]. intros i _. apply H.
Qed.

Lemma alive_cell s e : l_is_alive s e = true ->
  exists kp, cell s (fst e) = Live (snd e) kp \/ cell s (fst e) = Pend (snd e) kp.
Proof.
  unfold l_is_alive. destruct (cell s (fst e)) as [|g|g kp|g kp]; try discriminate;
  intros H; apply Z.eqb_eq in H; subst; exists kp; auto.
Qed.

Lemma alive_top s e : l_is_alive s e = true -> snd e = top (cell s (fst e)) /\ occupied (cell s (fst e)) = true.
Proof. intros H. destruct (alive_cell _ _ H) as [kp [E|E]]; rewrite E; auto. Qed.

Lemma set_cell_LInv s i c : LInv s -> cell s i <> Never -> c <> Never -> (1 <= top c)%Z -> LInv (set_cell s i c).
Proof.
  intros [Hb Hl Hp Hn] Hi Hc Ht.
  assert (i < used s) as Hiu.
  { destruct (N.lt_ge_cases i (used s)) as [|Hge]; [assumption|]. exfalso. apply Hi. apply Hb. assumption. }
  split; [| | |]; try (intros j; rewrite cell_set, ?used_set; destruct (N.eq_dec i j) as [->|Hne]; auto; fail).
  - intros j; rewrite cell_set, ?used_set; destruct (N.eq_dec i j) as [->|Hne]; auto. intros Hj. lia.
  - unfold nfree_ok in *. cbn [set_cell nfree cells used].
    pose proof (cnt_free_update (cells s) i c (N.to_nat (used s)) 0) as X. fold (cell s i) in X.
    rewrite Hn. lia.
Qed.

Lemma kill_LInv l : forall s pos, LInv s -> LInv (fst (l_kill s l pos)).
Proof.
  induction l as [|e l IH]; intros s pos HI; cbn [l_kill]; [assumption|].
  destruct (l_is_alive s e) eqn:A; [|assumption].
  apply IH. destruct (alive_top _ _ A) as [Ht Ho].
  apply set_cell_LInv; auto.
  - intros E. rewrite E in Ho. discriminate.
  - discriminate.
  - cbn [top]. rewrite Ht. apply J_pos; auto. intros E. rewrite E in Ho. discriminate.
Qed.

Lemma kill_top_le l : forall s pos, top_le s (fst (l_kill s l pos)).
Proof.
  induction l as [|e l IH]; intros s pos; cbn [l_kill]; [intros i; cbn [fst]; lia|].
  destruct (l_is_alive s e) eqn:A; [|intros i; cbn [fst]; lia].
  intros i. specialize (IH (set_cell s (fst e) (Free (snd e))) (S pos) i).
  rewrite cell_set in IH. destruct (N.eq_dec (fst e) i) as [<-|Hne]; [|assumption].
  destruct (alive_top _ _ A) as [Ht _]. cbn [top] in IH. lia.
Qed.

Lemma valid_choice_cases s i : valid_choice s i = true ->
  (exists g, cell s i = Free g) \/ (cell s i = Never /\ i = used s /\ has_free s = false).
Proof.
  unfold valid_choice. destruct (cell s i) as [|g|g kp|g kp]; try discriminate.
  - rewrite andb_true_iff, N.eqb_eq, negb_true_iff. intros [-> H]. right; auto.
  - intros _. left. exists g. reflexivity.
Qed.

Lemma create_LInv pend s i : LInv s -> valid_choice s i = true -> LInv (fst (l_create pend s i)).
Proof.
  intros [Hb Hl Hp Hn] Hv.
  assert (1 <= top (cell s i) + 1)%Z as Hg.
  { destruct (valid_choice_cases _ _ Hv) as [[g E]|[E _]].
    - assert (1 <= top (cell s i))%Z by (apply Hp; congruence). lia.
    - rewrite E. cbn [top]. lia. }
  split; [| | |]; try (intros j; rewrite cell_create, ?used_create).
  4:{ unfold nfree_ok in *. unfold l_create. cbn [fst nfree cells used].
      set (c := if pend then Pend (top (cell s i) + 1) false else Live (top (cell s i) + 1) false).
      assert (free_b c = 0) as Hc0 by (unfold c; destruct pend; reflexivity).
      destruct (valid_choice_cases _ _ Hv) as [[g E]|[E [E2 _]]].
      - assert (i < used s) as Hlt.
        { destruct (N.lt_ge_cases i (used s)) as [|Hge]; [assumption|]. rewrite Hb in E by assumption. discriminate. }
        destruct (N.eqb_spec i (used s)); [lia|].
        pose proof (cnt_free_update (cells s) i c (N.to_nat (used s)) 0) as X. fold (cell s i) in X. rewrite Hn. lia.
      - subst i. rewrite N.eqb_refl. replace (N.to_nat (used s + 1)) with (S (N.to_nat (used s))) by lia.
        rewrite cnt_free_snoc. replace (0 + N.of_nat (N.to_nat (used s))) with (used s) by lia.
        rewrite NMF.add_eq_o by reflexivity. rewrite Hc0, E. cbn [free_b is_free].
        rewrite (cnt_free_ext (NM.add (used s) c (cells s)) (cells s)); [lia|].
        intros j Hj. apply NMF.add_neq_o. lia. }
  - intros Hj. destruct (N.eq_dec i j) as [->|Hne].
    + exfalso. destruct (valid_choice_cases _ _ Hv) as [[g E]|[E [E2 _]]].
      * assert (j < used s) as Hlt.
        { destruct (N.lt_ge_cases j (used s)) as [|Hge]; [assumption|]. rewrite Hb in E by assumption. discriminate. }
        destruct (N.eqb_spec j (used s)); lia.
      * destruct (N.eqb_spec j (used s)); lia.
    + apply Hb. destruct (N.eqb_spec i (used s)); lia.
  - destruct (N.eq_dec i j) as [->|Hne]; [destruct pend; discriminate|].
    destruct (N.eqb_spec i (used s)); intros Hj; apply Hl; lia.
  - destruct (N.eq_dec i j) as [->|Hne]; [destruct pend; cbn [top]; intros _; exact Hg | apply Hp].
Qed.

Lemma merge_cell_never c : merge_cell c = Never <-> c = Never.
Proof. destruct c as [|g|g [|]|g [|]]; cbn; split; congruence. Qed.

Lemma merge_cell_top c : top (merge_cell c) = top c.
Proof. destruct c as [|g|g [|]|g [|]]; reflexivity. Qed.

Lemma merge_LInv s : LInv s -> LInv (fst (l_merge s)).
Proof.
  intros [Hb Hl Hp Hn]. split; [| | |reflexivity]; intros j; rewrite cell_merge, ?used_merge.
  - intros Hj. rewrite Hb by assumption. reflexivity.
  - intros Hj. rewrite merge_cell_never. auto.
  - rewrite merge_cell_never, merge_cell_top. auto.
Qed.

Lemma set_kp_top c : top (set_kp c) = top c.
Proof. destruct c; reflexivity. Qed.
Lemma set_kp_never c : set_kp c = Never <-> c = Never.
Proof. destruct c; cbn; split; congruence. Qed.

Lemma kill_def_LInv s e : LInv s -> LInv (fst (l_kill_def s e)).
Proof.
  intros HI. unfold l_kill_def. destruct (l_is_alive s e) eqn:A; [|assumption]. cbn [fst].
  destruct (alive_top _ _ A) as [Ht Ho].
  assert (cell s (fst e) <> Never) by (intros E; rewrite E in Ho; discriminate).
  apply set_cell_LInv; auto.
  - rewrite set_kp_never. assumption.
  - rewrite set_kp_top. apply J_pos; assumption.
Qed.

Lemma lstep_LInv s o c : LInv s -> choice_ok s o c = true -> LInv (fst (lstep s o c)).
Proof.
  intros HI Hc. destruct o as [pend|l|e| |e|e| |i]; cbn [lstep choice_ok] in *.
  - pose proof (create_LInv pend s c HI Hc) as X. destruct (l_create pend s c). exact X.
  - unfold l_kill_res. pose proof (kill_LInv l s 0%nat HI) as X.
    destruct (l_kill s l 0) as [s' [p|]]; exact X.
  - pose proof (kill_def_LInv s e HI) as X. destruct (l_kill_def s e). exact X.
  - pose proof (merge_LInv s HI) as X. destruct (l_merge s). exact X.
  - assumption.
  - assumption.
  - assumption.
  - assumption.
Qed.

Lemma lstep_top_le s o c : choice_ok s o c = true -> top_le s (fst (lstep s o c)).
Proof.
  intros Hc i. destruct o as [pend|l|e| |e|e| |j]; cbn [lstep choice_ok] in *; try (cbn [fst]; lia).
  - pose proof (cell_create pend s c i) as X. destruct (l_create pend s c) as [s' e]. cbn [fst] in *.
    rewrite X. destruct (N.eq_dec c i) as [->|]; [destruct pend; cbn [top]; lia | lia].
  - unfold l_kill_res. pose proof (kill_top_le l s 0%nat i) as X.
    destruct (l_kill s l 0) as [s' [p|]]; exact X.
  - unfold l_kill_def. destruct (l_is_alive s e); cbn [fst]; [|lia].
    rewrite cell_set. destruct (N.eq_dec (fst e) i) as [<-|]; [rewrite set_kp_top|]; lia.
  - pose proof (cell_merge s i) as X. destruct (l_merge s) as [s' d]. cbn [fst] in *.
    rewrite X, merge_cell_top. lia.
Qed.

(* ------------------------------------------------------------------ *)
(* dead handles stay dead *)

(* a handle that was returned earlier (generation at most the cell's top)
   and is not alive *)
Definition dead_h (s : lstate) (e : entity) : Prop :=
  (snd e <= top (cell s (fst e)))%Z /\ l_is_alive s e = false.

Lemma kill_dead l : forall s pos e, dead_h s e -> dead_h (fst (l_kill s l pos)) e.
Proof.
  induction l as [|x l IH]; intros s pos e HD; cbn [l_kill]; [assumption|].
  destruct (l_is_alive s x) eqn:A; [|assumption].
  apply IH. destruct HD as [Hle Hd]. destruct (alive_top _ _ A) as [Ht _].
  unfold dead_h, l_is_alive in *. rewrite cell_set. destruct (N.eq_dec (fst x) (fst e)) as [E|Hne].
  - cbn [top]. rewrite <- E in Hle. split; [lia | reflexivity].
  - auto.
Qed.

Lemma lstep_dead s o c e : choice_ok s o c = true -> dead_h s e -> dead_h (fst (lstep s o c)) e.
Proof.
  intros Hc [Hle Hd]. split; [pose proof (lstep_top_le s o c Hc (fst e)); lia|].
  destruct o as [pend|l|x| |x|x| |j]; cbn [lstep choice_ok] in *; try (cbn [fst]; assumption).
  - pose proof (cell_create pend s c (fst e)) as X. destruct (l_create pend s c) as [s' h]. cbn [fst] in *.
    unfold l_is_alive in *. rewrite X. destruct (N.eq_dec c (fst e)) as [E|]; [|assumption].
    subst c. destruct pend; apply Z.eqb_neq; lia.
  - unfold l_kill_res. pose proof (kill_dead l s 0%nat e (conj Hle Hd)) as [_ X].
    destruct (l_kill s l 0) as [s' [p|]]; exact X.
  - unfold l_kill_def. destruct (l_is_alive s x) eqn:A; cbn [fst]; [|assumption].
    unfold l_is_alive in *. rewrite cell_set. destruct (N.eq_dec (fst x) (fst e)) as [E|]; [|assumption].
    rewrite E. destruct (cell s (fst e)); cbn [set_kp]; assumption.
  - pose proof (cell_merge s (fst e)) as X. destruct (l_merge s) as [s' d]. cbn [fst] in *.
    unfold l_is_alive in *. rewrite X. destruct (cell s (fst e)) as [|g|g [|]|g [|]]; cbn [merge_cell]; auto.
Qed.

(* ------------------------------------------------------------------ *)
(* handles returned along a run *)

Definition handle_of (o : aop) (out : aout) : list entity :=
  match o, out with ACreate _, AHandle e => [e] | _, _ => [] end.

Fixpoint handles_of (os : list aop) (outs : list aout) : list entity :=
  match os, outs with
  | o :: os', out :: outs' => handle_of o out ++ handles_of os' outs'
  | _, _ => []
  end.

(* every handle returned so far has generation between 1 and its cell's top;
   no handle was returned twice; an occupied cell's handle was returned *)
Record HInv (s : lstate) (H : list entity) : Prop := {
  H_le : forall e, In e H -> (1 <= snd e <= top (cell s (fst e)))%Z;
  H_nodup : NoDup H;
  H_occ : forall i, occupied (cell s i) = true -> In (i, top (cell s i)) H }.

Lemma HInv_init : HInv l_init [].
Proof.
  split.
  - intros e [].
  - constructor.
  - intros i. unfold l_init, cell; cbn [cells]. rewrite NMF.empty_o. discriminate.
Qed.

Lemma kill_occ l : forall s pos i, occupied (cell (fst (l_kill s l pos)) i) = true ->
  occupied (cell s i) = true /\ cell (fst (l_kill s l pos)) i = cell s i.
Proof.
  induction l as [|x l IH]; intros s pos i; cbn [l_kill]; [auto|].
  destruct (l_is_alive s x) eqn:A; [|auto].
  intros H. destruct (IH _ _ _ H) as [H1 H2]. rewrite H2.
  rewrite cell_set in *. destruct (N.eq_dec (fst x) i); [discriminate|auto].
Qed.

Lemma lstep_HInv s o c H : LInv s -> choice_ok s o c = true -> HInv s H ->
  HInv (fst (lstep s o c)) (H ++ handle_of o (snd (lstep s o c))).
Proof.
  intros HI Hc [Hle Hnd Hocc].
  assert (forall s', top_le s s' -> forall e, In e H -> (1 <= snd e <= top (cell s' (fst e)))%Z) as Hmono.
  { intros s' Ht e He. specialize (Hle e He). specialize (Ht (fst e)). lia. }
  pose proof (lstep_top_le s o c Hc) as Htop.
  destruct o as [pend|l|x| |x|x| |j]; cbn [lstep choice_ok] in *.
  - (* create *)
    pose proof (cell_create pend s c) as X. unfold l_create in *. cbn [fst snd handle_of] in *.
    assert (1 <= top (cell s c) + 1)%Z as Hg.
    { destruct (valid_choice_cases _ _ Hc) as [[g E]|[E _]].
      - assert (1 <= top (cell s c))%Z by (apply (J_pos _ HI); congruence). lia.
      - rewrite E. cbn [top]. lia. }
    split.
    + intros e He. apply in_app_or in He. destruct He as [He|[<-|[]]].
      * apply Hmono; assumption.
      * cbn [fst snd]. rewrite X. destruct (N.eq_dec c c); [|congruence]. destruct pend; cbn [top]; lia.
    + apply NoDup_app_intro_single; [assumption|].
      intros Hin. specialize (Hle _ Hin). cbn [fst snd] in Hle. lia.
    + intros i Ho. rewrite X in *. apply in_or_app. destruct (N.eq_dec c i) as [->|Hne].
      * right. left. destruct pend; reflexivity.
      * left. apply Hocc. assumption.
  - (* kill *)
    unfold l_kill_res in *. pose proof (kill_occ l s 0%nat) as X.
    destruct (l_kill s l 0) as [s' [p|]]; cbn [fst snd handle_of] in *; rewrite app_nil_r;
    (split; [apply Hmono; assumption | assumption |
             intros i Ho; destruct (X i Ho) as [H1 H2]; rewrite H2; apply Hocc; assumption]).
  - (* kill_def *)
    unfold l_kill_def in *. destruct (l_is_alive s x) eqn:A; cbn [fst snd handle_of] in *; rewrite app_nil_r.
    + split; [apply Hmono; assumption | assumption|].
      intros i. rewrite cell_set. destruct (N.eq_dec (fst x) i) as [<-|]; [|apply Hocc].
      rewrite set_kp_top. intros Ho. apply Hocc. destruct (cell s (fst x)); auto.
    + split; assumption.
  - (* merge *)
    pose proof (cell_merge s) as X. unfold l_merge in *. cbn [fst snd handle_of] in *. rewrite app_nil_r.
    split; [apply Hmono; assumption | assumption|].
    intros i. rewrite X, merge_cell_top. intros Ho. apply Hocc.
    destruct (cell s i) as [|g|g [|]|g [|]]; cbn in *; congruence.
  - cbn [fst snd handle_of]. rewrite app_nil_r. split; assumption.
  - cbn [fst snd handle_of]. rewrite app_nil_r. split; assumption.
  - cbn [fst snd handle_of]. rewrite app_nil_r. split; assumption.
  - cbn [fst snd handle_of]. rewrite app_nil_r. split; assumption.
Qed.

(* ------------------------------------------------------------------ *)
(* runs *)

Definition lhandles (s : lstate) (os : list (aop * N)) : list entity :=
  handles_of (map fst os) (snd (lrun s os)).

Lemma lrun_cons s o c os :
  lrun s ((o, c) :: os) =
  (fst (lrun (fst (lstep s o c)) os), snd (lstep s o c) :: snd (lrun (fst (lstep s o c)) os)).
Proof. cbn [lrun]. destruct (lstep s o c) as [s1 out]. cbn [fst snd]. destruct (lrun s1 os). reflexivity. Qed.

Lemma lhandles_cons s o c os :
  lhandles s ((o, c) :: os) = handle_of o (snd (lstep s o c)) ++ lhandles (fst (lstep s o c)) os.
Proof. unfold lhandles. rewrite lrun_cons. reflexivity. Qed.

Lemma lrun_app os1 : forall s os2,
  fst (lrun s (os1 ++ os2)) = fst (lrun (fst (lrun s os1)) os2) /\
  snd (lrun s (os1 ++ os2)) = snd (lrun s os1) ++ snd (lrun (fst (lrun s os1)) os2).
Proof.
  induction os1 as [|[o c] os1 IH]; intros s os2; [split; reflexivity|].
  cbn [app]. rewrite !lrun_cons. cbn [fst snd]. destruct (IH (fst (lstep s o c)) os2) as [E1 E2].
  rewrite E1, E2. split; reflexivity.
Qed.

Lemma lvalid_app os1 : forall s os2,
  lvalid s (os1 ++ os2) = lvalid s os1 && lvalid (fst (lrun s os1)) os2.
Proof.
  induction os1 as [|[o c] os1 IH]; intros s os2; [reflexivity|].
  cbn [app lvalid]. rewrite IH, lrun_cons. cbn [fst]. rewrite andb_assoc. reflexivity.
Qed.

Lemma lhandles_app os1 : forall s os2,
  lhandles s (os1 ++ os2) = lhandles s os1 ++ lhandles (fst (lrun s os1)) os2.
Proof.
  induction os1 as [|[o c] os1 IH]; intros s os2; [reflexivity|].
  cbn [app]. rewrite !lhandles_cons, IH, lrun_cons. cbn [fst]. rewrite app_assoc. reflexivity.
Qed.

Lemma lrun_inv os : forall s H, LInv s -> HInv s H -> lvalid s os = true ->
  LInv (fst (lrun s os)) /\ HInv (fst (lrun s os)) (H ++ lhandles s os).
Proof.
  induction os as [|[o c] os IH]; intros s H HI HH Hv.
  - cbn. rewrite app_nil_r. split; assumption.
  - cbn [lvalid] in Hv. apply andb_true_iff in Hv. destruct Hv as [Hc Hv].
    rewrite lrun_cons, lhandles_cons. cbn [fst]. rewrite app_assoc.
    apply IH; [apply lstep_LInv | apply lstep_HInv | ]; assumption.
Qed.

Lemma lrun_dead os : forall s e, lvalid s os = true -> dead_h s e -> dead_h (fst (lrun s os)) e.
Proof.
  induction os as [|[o c] os IH]; intros s e Hv HD; [assumption|].
  cbn [lvalid] in Hv. apply andb_true_iff in Hv. destruct Hv as [Hc Hv].
  rewrite lrun_cons. cbn [fst]. apply IH; [assumption|]. apply lstep_dead; assumption.
Qed.

(* C01 *)
Theorem life_handles_unique os : lvalid l_init os = true -> NoDup (lhandles l_init os).
Proof.
  intros Hv. destruct (lrun_inv os l_init [] LInv_init HInv_init Hv) as [_ [_ Hnd _]]. exact Hnd.
Qed.

Theorem life_one_per_index s e1 e2 :
  l_is_alive s e1 = true -> l_is_alive s e2 = true -> fst e1 = fst e2 -> e1 = e2.
Proof.
  intros A1 A2 E. destruct (alive_top _ _ A1) as [T1 _]. destruct (alive_top _ _ A2) as [T2 _].
  destruct e1, e2. cbn [fst snd] in *. subst. reflexivity.
Qed.

(* a returned handle is alive when its creation returns *)
Theorem life_alive_on_return pend s i : l_is_alive (fst (l_create pend s i)) (snd (l_create pend s i)) = true.
Proof.
  unfold l_is_alive. rewrite cell_create. cbn [l_create snd fst].
  destruct (N.eq_dec i i); [|congruence]. destruct pend; apply Z.eqb_refl.
Qed.

(* C02: never alive again *)
Theorem life_dead_forever os os' e :
  lvalid l_init (os ++ os') = true -> In e (lhandles l_init os) ->
  l_is_alive (fst (lrun l_init os)) e = false ->
  l_is_alive (fst (lrun l_init (os ++ os'))) e = false.
Proof.
  intros Hv Hin Hd. rewrite lvalid_app in Hv. apply andb_true_iff in Hv. destruct Hv as [Hv1 Hv2].
  destruct (lrun_inv os l_init [] LInv_init HInv_init Hv1) as [_ [Hle _ _]].
  destruct (lrun_app os l_init os') as [E _]. rewrite E.
  apply (lrun_dead os' _ e Hv2). split; [|assumption].
  apply Hle. assumption.
Qed.

(* C02: a failing deletion changes nothing; a batch stops at the first dead handle *)
Theorem life_kill_dead_nop s e l pos : l_is_alive s e = false -> l_kill s (e :: l) pos = (s, Some pos).
Proof. intros H. cbn [l_kill]. rewrite H. reflexivity. Qed.

Theorem life_kill_prefix l1 : forall s pos d l2,
  snd (l_kill s l1 pos) = None -> l_is_alive (fst (l_kill s l1 pos)) d = false ->
  l_kill s (l1 ++ d :: l2) pos = (fst (l_kill s l1 pos), Some (pos + length l1)%nat).
Proof.
  induction l1 as [|x l1 IH]; intros s pos d l2 Hok Hd; cbn [app l_kill length fst snd] in *.
  - rewrite Hd. f_equal. f_equal. lia.
  - destruct (l_is_alive s x); [|discriminate].
    rewrite IH by assumption. f_equal. f_equal. lia.
Qed.

Theorem life_kill_def_dead_nop s e : l_is_alive s e = false -> l_kill_def s e = (s, false).
Proof. intros H. unfold l_kill_def. rewrite H. reflexivity. Qed.

(* C02: the entities join *)
Lemma in_l_entities s e :
  In e (l_entities s) <-> occupied (cell s (fst e)) = true /\ snd e = top (cell s (fst e)).
Proof.
  unfold l_entities. rewrite in_map_iff. split.
  - intros [[i c] [<- Hin]]. apply filter_In in Hin. destruct Hin as [Hin Ho]. cbn [fst snd] in *.
    apply in_elements_cell in Hin. unfold cell. rewrite Hin. auto.
  - intros [Ho Ht]. destruct e as [i g]. cbn [fst snd] in *. unfold cell in *.
    destruct (NM.find i (cells s)) as [c|] eqn:E; [|discriminate].
    exists (i, c). split; [cbn [fst snd top] in *; rewrite Ht; reflexivity|].
    apply filter_In. split; [apply in_elements_cell; assumption | assumption].
Qed.

Theorem life_entities_alive s e : In e (l_entities s) <-> l_is_alive s e = true.
Proof.
  rewrite in_l_entities. split.
  - intros [Ho Ht]. unfold l_is_alive. destruct (cell s (fst e)); try discriminate; cbn [top] in Ht; apply Z.eqb_eq; auto.
  - intros A. destruct (alive_top _ _ A). auto.
Qed.

Theorem life_entities_returned os e : lvalid l_init os = true ->
  In e (l_entities (fst (lrun l_init os))) -> In e (lhandles l_init os).
Proof.
  intros Hv Hin. destruct (lrun_inv os l_init [] LInv_init HInv_init Hv) as [_ [_ _ Hocc]].
  apply in_l_entities in Hin. destruct Hin as [Ho Ht]. specialize (Hocc _ Ho).
  destruct e as [i g]. cbn [fst snd] in *. subst g. exact Hocc.
Qed.

Lemma map_filter_sorted {B} (f : N * B -> bool) (g : N * B -> entity) l :
  (forall p, fst (g p) = fst p) ->
  Sorted (fun a b : N * B => fst a < fst b) l ->
  Sorted (fun a b : entity => fst a < fst b) (map g (filter f l)).
Proof.
  intros Hg Hs. apply Sorted_StronglySorted in Hs; [|intros a b c; lia].
  apply StronglySorted_Sorted.
  induction Hs as [|a l Hs IH Hall]; cbn [filter map]; [constructor|].
  destruct (f a); [|assumption]. cbn [map]. constructor; [assumption|].
  rewrite Forall_forall in *. intros x Hx. apply in_map_iff in Hx. destruct Hx as [p [<- Hp]].
  apply filter_In in Hp. rewrite !Hg. apply Hall. tauto.
Qed.

Theorem life_entities_sorted s : Sorted (fun a b : entity => fst a < fst b) (l_entities s).
Proof.
  unfold l_entities. apply map_filter_sorted; [reflexivity|].
  pose proof (NM.elements_3 (cells s)) as H.
  induction H as [|a l Hs IH Hhd]; constructor; [assumption|].
  destruct Hhd; constructor. assumption.
Qed.

(* after delete_all (kill of the whole join) no entity is left *)
(* stated in WorldProps: it needs the faithful kill's success *)

(* ------------------------------------------------------------------ *)
(* C17: the index space stays bounded by the peak number of entities *)

Lemma cnt_occ_ext s s' n : forall k, (forall i, k <= i < k + N.of_nat n -> cell s i = cell s' i) ->
  cnt_occ s k n = cnt_occ s' k n.
Proof.
  induction n as [|n IH]; intros k H; cbn [cnt_occ]; [reflexivity|].
  rewrite H by lia. rewrite (IH (k + 1)); [reflexivity|]. intros i Hi. apply H. lia.
Qed.

Lemma cnt_occ_snoc s n : forall k,
  cnt_occ s k (S n) = cnt_occ s k n + (if occupied (cell s (k + N.of_nat n)) then 1 else 0).
Proof.
  induction n as [|n IH]; intros k.
  - cbn [cnt_occ]. replace (k + N.of_nat 0) with k by lia. lia.
  - cbn [cnt_occ] in *. rewrite (IH (k + 1)).
    replace (k + 1 + N.of_nat n) with (k + N.of_nat (S n)) by lia. lia.
Qed.

Lemma cnt_occ_full s n : forall k, (forall i, k <= i < k + N.of_nat n -> occupied (cell s i) = true) ->
  cnt_occ s k n = N.of_nat n.
Proof.
  induction n as [|n IH]; intros k H; cbn [cnt_occ]; [reflexivity|].
  rewrite H by lia. rewrite IH; [lia|]. intros i Hi. apply H. lia.
Qed.

Lemma cnt_occ_le s n : forall k, cnt_occ s k n <= N.of_nat n.
Proof.
  induction n as [|n IH]; intros k; cbn [cnt_occ]; [lia|].
  specialize (IH (k + 1)). destruct (occupied (cell s k)); lia.
Qed.

Lemma occ_le_used s : occ s <= used s.
Proof. unfold occ. pose proof (cnt_occ_le s (N.to_nat (used s)) 0). lia. Qed.

(* one creation: the index taken is below the larger of the old bound and
   the number of entities right after the creation *)
Lemma create_bounded pend s i : LInv s -> valid_choice s i = true ->
  i < N.max (used s) (occ (fst (l_create pend s i))) /\
  used (fst (l_create pend s i)) <= N.max (used s) (occ (fst (l_create pend s i))).
Proof.
  intros HI Hv. destruct (valid_choice_cases _ _ Hv) as [[g E]|[E [-> Hnf]]].
  - assert (i < used s) as Hlt.
    { destruct (N.lt_ge_cases i (used s)) as [|Hge]; [assumption|].
      rewrite (J_beyond _ HI) in E by assumption. discriminate. }
    rewrite used_create. destruct (N.eqb_spec i (used s)); lia.
  - assert (occ (fst (l_create pend s (used s))) = used s + 1) as Hocc.
    { unfold occ. rewrite used_create, N.eqb_refl.
      replace (N.to_nat (used s + 1)) with (S (N.to_nat (used s))) by lia.
      rewrite cnt_occ_snoc.
      rewrite (cnt_occ_ext _ s).
      - rewrite cnt_occ_full.
        + rewrite cell_create. replace (0 + N.of_nat (N.to_nat (used s))) with (used s) by lia.
          destruct (N.eq_dec (used s) (used s)); [|congruence]. destruct pend; cbn [occupied]; lia.
        + intros j Hj. pose proof (has_free_false _ HI Hnf j) as Hf.
          assert (cell s j <> Never) as Hn by (apply (J_below _ HI); lia).
          destruct (cell s j); cbn in *; congruence.
      - intros j Hj. rewrite cell_create. destruct (N.eq_dec (used s) j); [lia|reflexivity]. }
    rewrite Hocc, used_create, N.eqb_refl. lia.
Qed.

(* running maximum of the number of not-yet-dead entities over the states
   visited (the state after each operation) *)
Fixpoint lpeak (s : lstate) (os : list (aop * N)) (p : N) : N :=
  match os with
  | [] => p
  | (o, c) :: os' => let s' := fst (lstep s o c) in lpeak s' os' (N.max p (occ s'))
  end.

Lemma lpeak_mono os : forall s p, p <= lpeak s os p.
Proof.
  induction os as [|[o c] os IH]; intros s p; cbn [lpeak]; [lia|].
  specialize (IH (fst (lstep s o c)) (N.max p (occ (fst (lstep s o c))))). lia.
Qed.

Lemma lpeak_app os1 : forall s p os2,
  lpeak s (os1 ++ os2) p = lpeak (fst (lrun s os1)) os2 (lpeak s os1 p).
Proof.
  induction os1 as [|[o c] os1 IH]; intros s p os2; [reflexivity|].
  cbn [app lpeak]. rewrite IH, lrun_cons. reflexivity.
Qed.

Lemma lstep_used s o c : LInv s -> choice_ok s o c = true ->
  used (fst (lstep s o c)) <= N.max (used s) (occ (fst (lstep s o c))).
Proof.
  intros HI Hc. destruct o as [pend|l|x| |x|x| |j]; cbn [lstep choice_ok] in *; try (cbn [fst]; lia).
  - pose proof (create_bounded pend s c HI Hc) as [_ X]. destruct (l_create pend s c). exact X.
  - unfold l_kill_res. pose proof (used_kill l s 0%nat) as X. destruct (l_kill s l 0) as [s' [p|]]; cbn [fst] in *; lia.
  - unfold l_kill_def. destruct (l_is_alive s x); cbn [fst]; rewrite ?used_set; lia.
  - pose proof (used_merge s) as X. destruct (l_merge s). cbn [fst] in *. lia.
Qed.

Lemma lrun_used os : forall s p, LInv s -> lvalid s os = true -> used s <= p ->
  used (fst (lrun s os)) <= lpeak s os p.
Proof.
  induction os as [|[o c] os IH]; intros s p HI Hv Hp; [assumption|].
  cbn [lvalid] in Hv. apply andb_true_iff in Hv. destruct Hv as [Hc Hv].
  rewrite lrun_cons. cbn [fst lpeak]. apply IH; [apply lstep_LInv; assumption | assumption|].
  pose proof (lstep_used s o c HI Hc). lia.
Qed.

Theorem life_index_bounded os pend c e :
  lvalid l_init (os ++ [(ACreate pend, c)]) = true ->
  snd (lstep (fst (lrun l_init os)) (ACreate pend) c) = AHandle e ->
  fst e < lpeak l_init (os ++ [(ACreate pend, c)]) 0.
Proof.
  intros Hv Hout. rewrite lvalid_app in Hv. apply andb_true_iff in Hv. destruct Hv as [Hv1 Hv2].
  cbn [lvalid] in Hv2. rewrite andb_true_r in Hv2. cbn [choice_ok] in Hv2.
  destruct (lrun_inv os l_init [] LInv_init HInv_init Hv1) as [HI _].
  pose proof (lrun_used os l_init 0 LInv_init Hv1 (N.le_refl _)) as Hu.
  rewrite lpeak_app. cbn [lpeak lstep] in *.
  set (s := fst (lrun l_init os)) in *. set (p := lpeak l_init os 0) in *.
  pose proof (create_bounded pend s c HI Hv2) as [X _].
  destruct (l_create pend s c) as [s' h] eqn:E. cbn [fst snd] in *.
  inversion Hout; subst e. assert (fst h = c) as Hh by (unfold l_create in E; inversion E; reflexivity). lia.
Qed.

(* the "equivalently" clause of C17: a never-used index is taken only when it
   is the next one and every lower index holds an entity that is alive or
   awaiting maintain (no Free cell and no hole below it) *)
Theorem life_fresh_only_when_full s i : LInv s -> valid_choice s i = true -> cell s i = Never ->
  i = used s /\ forall j, j < i -> occupied (cell s j) = true.
Proof.
  intros HI Hv En. destruct (valid_choice_cases _ _ Hv) as [[g E]|[_ [-> Hnf]]]; [congruence|].
  split; [reflexivity|]. intros j Hj. pose proof (has_free_false _ HI Hnf j) as Hf.
  assert (cell s j <> Never) as Hn by (apply (J_below _ HI); exact Hj).
  destruct (cell s j); cbn in *; congruence.
Qed.

(* conversely a creation that does not take a never-used index reuses a Free one *)
Theorem life_reuse_is_free s i : valid_choice s i = true -> cell s i <> Never -> is_free (cell s i) = true.
Proof.
  intros Hv Hn. destruct (valid_choice_cases _ _ Hv) as [[g E]|[E _]]; [rewrite E; reflexivity|congruence].
Qed.
