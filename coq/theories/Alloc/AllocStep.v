(* The allocator-level operation alphabet and the two machines over it:
   [astep] (faithful, deterministic) and [lstep] (specification; the index of
   a creation is an argument).  Definitions only. *)
From SV Require Export Alloc.Life Alloc.AllocModel.

Inductive aop :=
| ACreate (pend : bool)            (* allocate / allocate_atomic *)
| AKill (l : list entity)          (* Allocator::kill *)
| AKillDef (e : entity)            (* kill_atomic *)
| AMerge
| AIsAlive (e : entity)            (* EntitiesRes::is_alive *)
| AIsAliveMerged (e : entity)      (* WorldExt::is_alive *)
| AEntities                        (* (&entities).join() *)
| AEntityAt (i : N).               (* EntitiesRes::entity *)

Inductive aout :=
| AHandle (e : entity)
| AKillRes (r : option (nat * Z))  (* None = Ok; Some (position, actual_gen) *)
| AKillDefRes (r : option Z)
| ABool (b : bool)
| AList (l : list entity).

Definition astep (fixed : bool) (a : astate) (o : aop) : astate * aout :=
  match o with
  | ACreate false => let '(a', e) := a_alloc a in (a', AHandle e)
  | ACreate true => let '(a', e) := a_alloc_atomic a in (a', AHandle e)
  | AKill l => let '(a', r) := a_kill fixed a l in (a', AKillRes r)
  | AKillDef e => let '(a', r) := a_kill_atomic a e in (a', AKillDefRes r)
  | AMerge => let '(a', d) := a_merge a in (a', AList d)
  | AIsAlive e => (a, ABool (a_is_alive a e))
  | AIsAliveMerged e => (a, ABool (a_is_alive_merged a e))
  | AEntities => (a, AList (a_entities a))
  | AEntityAt i => (a, AHandle (a_entity_at a i))
  end.

(* actual_gen reported by a failed deletion, as a function of the cell *)
Definition l_err_gen (s : lstate) (i : N) : Z :=
  match cell s i with
  | Never => 1
  | Free g => - g
  | Live g _ => g
  | Pend g _ => if (g =? 1)%Z then 1 else 1 - g
  end.

Definition l_kill_res (s : lstate) (l : list entity) : lstate * option (nat * Z) :=
  let '(s', r) := l_kill s l 0 in
  match r with
  | None => (s', None)
  | Some pos => (s', Some (pos, l_err_gen s' (fst (nth pos l (0, 0%Z)))))
  end.

Definition lstep (s : lstate) (o : aop) (choice : N) : lstate * aout :=
  match o with
  | ACreate pend => let '(s', e) := l_create pend s choice in (s', AHandle e)
  | AKill l => let '(s', r) := l_kill_res s l in (s', AKillRes r)
  | AKillDef e =>
      let '(s', ok) := l_kill_def s e in
      (s', AKillDefRes (if ok then None else Some (l_err_gen s (fst e))))
  | AMerge => let '(s', d) := l_merge s in (s', AList d)
  | AIsAlive e => (s, ABool (l_is_alive s e))
  | AIsAliveMerged e => (s, ABool (l_is_alive_merged s e))
  | AEntities => (s, AList (l_entities s))
  | AEntityAt i => (s, AHandle (l_entity_at s i))
  end.

Definition choice_ok (s : lstate) (o : aop) (choice : N) : bool :=
  match o with ACreate _ => valid_choice s choice | _ => true end.

(* the choice a faithful step made: the index of the handle it returned *)
Definition choice_of (out : aout) : N :=
  match out with AHandle e => fst e | _ => 0 end.

(* runs *)
Fixpoint arun (fixed : bool) (a : astate) (os : list aop) : astate * list aout :=
  match os with
  | [] => (a, [])
  | o :: os' => let '(a1, out) := astep fixed a o in
                let '(a2, outs) := arun fixed a1 os' in (a2, out :: outs)
  end.

(* specification run over (operation, choice) pairs *)
Fixpoint lrun (s : lstate) (os : list (aop * N)) : lstate * list aout :=
  match os with
  | [] => (s, [])
  | (o, c) :: os' => let '(s1, out) := lstep s o c in
                     let '(s2, outs) := lrun s1 os' in (s2, out :: outs)
  end.

Fixpoint lvalid (s : lstate) (os : list (aop * N)) : bool :=
  match os with
  | [] => true
  | (o, c) :: os' => choice_ok s o c && lvalid (fst (lstep s o c)) os'
  end.

(* Acceptance of an observed trace (operations with the outputs some
   implementation produced): the specification, fed with the indices the
   implementation chose, must find every choice valid and produce the same
   outputs.  Returns the position of the first disagreement. *)
Definition aout_eqb (x y : aout) : bool :=
  match x, y with
  | AHandle a, AHandle b => entity_eqb a b
  | AKillRes None, AKillRes None => true
  | AKillRes (Some (p, g)), AKillRes (Some (q, h)) => Nat.eqb p q && Z.eqb g h
  | AKillDefRes None, AKillDefRes None => true
  | AKillDefRes (Some g), AKillDefRes (Some h) => Z.eqb g h
  | ABool a, ABool b => Bool.eqb a b
  | AList a, AList b => (fix eq (a b : list entity) := match a, b with
                           | [], [] => true
                           | x :: a', y :: b' => entity_eqb x y && eq a' b'
                           | _, _ => false end) a b
  | _, _ => false
  end.

Inductive reject := RChoice | ROutput.

Fixpoint laccept (s : lstate) (tr : list (aop * aout)) (pos : nat) : option (nat * reject) :=
  match tr with
  | [] => None
  | (o, out) :: tr' =>
      let c := choice_of out in
      if negb (choice_ok s o c) then Some (pos, RChoice)
      else let '(s', out') := lstep s o c in
           if aout_eqb out out' then laccept s' tr' (S pos) else Some (pos, ROutput)
  end.
