(* Lifecycle specification of the entity allocator.  One cell per index; the
   implementation supplies the index of every creation (the [choice]).
   This file contains definitions only; theorems are in LifeProps.v. *)
From SV Require Export Base.Ids.

Inductive life :=
| Never
| Free (g : Z)
| Live (g : Z) (kp : bool)       (* kp : a deferred deletion is pending *)
| Pend (g : Z) (kp : bool).      (* created deferred, not merged yet *)

(* [nfree]: the number of Free cells (kept incrementally: the test "is any index free?" is O(1)) *)
Record lstate := { cells : NM.t life; used : N; nfree : N }.

Definition l_init : lstate := {| cells := NM.empty life; used := 0; nfree := 0 |}.

Definition cell (s : lstate) (i : N) : life :=
  match NM.find i (cells s) with Some c => c | None => Never end.

Definition top (c : life) : Z :=
  match c with Never => 0 | Free g | Live g _ | Pend g _ => g end.

Definition is_free (c : life) : bool := match c with Free _ => true | _ => false end.
Definition occupied (c : life) : bool := match c with Live _ _ | Pend _ _ => true | _ => false end.

Definition free_b (c : life) : N := if is_free c then 1 else 0.

Definition set_cell (s : lstate) (i : N) (c : life) : lstate :=
  {| cells := NM.add i c (cells s); used := used s; nfree := nfree s + free_b c - free_b (cell s i) |}.

Definition has_free (s : lstate) : bool := negb (N.eqb (nfree s) 0).

(* number of Free cells of a map among the indices k .. k+n-1 *)
Fixpoint cnt_free (m : NM.t life) (k : N) (n : nat) : N :=
  match n with
  | O => 0
  | S n' => free_b (match NM.find k m with Some c => c | None => Never end) + cnt_free m (k + 1) n'
  end.

(* What the implementation may pick for a creation. *)
Definition valid_choice (s : lstate) (i : N) : bool :=
  match cell s i with
  | Free _ => true
  | Never => N.eqb i (used s) && negb (has_free s)
  | _ => false
  end.

Definition l_create (pend : bool) (s : lstate) (i : N) : lstate * entity :=
  let g := (top (cell s i) + 1)%Z in
  let c := if pend then Pend g false else Live g false in
  ({| cells := NM.add i c (cells s);
      used := if N.eqb i (used s) then used s + 1 else used s;
      nfree := nfree s - free_b (cell s i) |}, (i, g)).

Definition l_is_alive (s : lstate) (e : entity) : bool :=
  match cell s (fst e) with
  | Live g _ | Pend g _ => Z.eqb g (snd e)
  | _ => false
  end.

(* World::is_alive: the merged view *)
Definition l_is_alive_merged (s : lstate) (e : entity) : bool :=
  match cell s (fst e) with
  | Live g _ => Z.eqb g (snd e)
  | _ => false
  end.

(* immediate batch deletion: stops at the first handle that is not alive *)
Fixpoint l_kill (s : lstate) (l : list entity) (pos : nat) : lstate * option nat :=
  match l with
  | [] => (s, None)
  | e :: l' =>
      if l_is_alive s e then l_kill (set_cell s (fst e) (Free (snd e))) l' (S pos)
      else (s, Some pos)
  end.

Definition set_kp (c : life) : life :=
  match c with Live g _ => Live g true | Pend g _ => Pend g true | c => c end.

Definition l_kill_def (s : lstate) (e : entity) : lstate * bool :=
  if l_is_alive s e then (set_cell s (fst e) (set_kp (cell s (fst e))), true) else (s, false).

Definition merge_cell (c : life) : life :=
  match c with
  | Pend g false => Live g false
  | Pend g true | Live g true => Free g
  | c => c
  end.

Definition dies_at_merge (c : life) : bool :=
  match c with Pend _ true | Live _ true => true | _ => false end.

Definition l_merge (s : lstate) : lstate * list entity :=
  ({| cells := NM.map merge_cell (cells s); used := used s;
      nfree := cnt_free (NM.map merge_cell (cells s)) 0 (N.to_nat (used s)) |},
   map (fun p => (fst p, top (snd p))) (filter (fun p => dies_at_merge (snd p)) (NM.elements (cells s)))).

Definition l_entities (s : lstate) : list entity :=
  map (fun p => (fst p, top (snd p))) (filter (fun p => occupied (snd p)) (NM.elements (cells s))).

(* number of entities that are not yet dead: cells below [used] that are occupied *)
Fixpoint cnt_occ (s : lstate) (k : N) (n : nat) : N :=
  match n with
  | O => 0
  | S n' => (if occupied (cell s k) then 1 else 0) + cnt_occ s (k + 1) n'
  end.
Definition occ (s : lstate) : N := cnt_occ s 0 (N.to_nat (used s)).

(* the entity at an index (Entities::entity) *)
Definition l_entity_at (s : lstate) (i : N) : entity :=
  match cell s i with
  | Never => (i, 1%Z)
  | Free g => (i, (-g)%Z)         (* the code reports the stored (dead) generation *)
  | Live g _ | Pend g _ => (i, g)
  end.
