(* C08 - Every component value is handed back or destroyed exactly once.
   Storage-level and operation-level accounting; the whole-history ledger is
   evaluated on every explored history by the check (harness ledger + the
   destroyed values predicted by the specification). *)
From SV Require Import Base.ListX Store.Raw Store.RawRefine Store.CleanProps Store.Masked Store.StoreInv Store.Bag Store.Ledger
  Store.ClearLedger Store.DefaultLedger Store.DeadHandle
  World.Env World.Join World.SopLedger World.WorldLedger World.JoinLedger World.HistoryLedger World.WorldSpec World.World World.Simulation World.NoStuck.
From Coq Require Import Sorting.Permutation.

(* no operation ever reads a slot that was never written, was moved out, or lies outside the
   allocation: the faithful model marks each such access as stuck, and no history in which components
   are registered before use ever gets stuck *)
Theorem C08_never_exposes_an_unwritten_or_moved_out_slot : forall os,
  regs_ok s_init (combine os (snd (wrun true w_init os))) = true ->
  w_is_stuck (fst (wrun true w_init os)) = false.
Proof. exact wrun_never_stuck_at_all. Qed.

(* remove: the stored value is handed back, nothing is destroyed, the slot is gone *)
Theorem C08_remove_hands_back_the_stored_value : forall ms m id c, MInv ms m ->
  let '(ms', o, c') := m_remove ms id c in
  o = NM.find id m /\
  MInv ms' (if NS.mem id (ms_mask ms) then NM.remove id m else m) /\
  cx_stuck c' = cx_stuck c /\ cx_drops c' = cx_drops c /\
  ms_mask ms' = (if NS.mem id (ms_mask ms) then NS.remove id (ms_mask ms) else ms_mask ms) /\
  ms_chan ms' = (if NS.mem id (ms_mask ms) then ms_chan (ms_event ms (ERemoved id)) else ms_chan ms) /\
  same_shape ms ms'.
Proof. exact m_remove_char. Qed.

(* overwrite (insert on an occupied slot): the old value is handed back, the new one stored, nothing destroyed *)
Theorem C08_overwrite_hands_back_the_old_value : forall ms m id t v c, MInv ms m -> NM.find id m = Some t ->
  v = tnorm ms v ->
  let '(ms', old, c') := w_access_mut ms id true (USwap v) c in
  old = t /\ MInv ms' (NM.add id v m) /\ c' = c.
Proof.
  intros ms m id t v c HM Hf Hv. pose proof (w_access_mut_char ms m id t true (USwap v) c HM Hf Hv) as X.
  destruct (w_access_mut ms id true (USwap v) c) as [[ms' old] c']. destruct X as [X1 [X2 [X3 _]]]. auto.
Qed.

(* an insert refused because the entity is dead destroys the refused value, and only it *)
Theorem C08_refused_insert_destroys_the_refused_value : forall ms av e v c, av_alive av e = false ->
  st_insert ms av e v c = (ms, InsErr (av_cur_gen av (fst e)), cx_drop c (tnorm ms v)).
Proof. intros ms av e v c H. apply dead_insert. exact H. Qed.

(* deletion of an entity / drop(id): exactly that value is destroyed, once, and the slot is gone *)
Theorem C08_delete_destroys_exactly_that_value : forall ms m id c, MInv ms m ->
  let '(ms', c') := m_drop ms id c in
  MInv ms' (if NS.mem id (ms_mask ms) then NM.remove id m else m) /\ cx_stuck c' = cx_stuck c /\
  cx_drops c' = (match NM.find id m with Some t => fst t :: cx_drops c | None => cx_drops c end) /\
  ms_mask ms' = (if NS.mem id (ms_mask ms) then NS.remove id (ms_mask ms) else ms_mask ms) /\
  ms_chan ms' = (if NS.mem id (ms_mask ms) then ms_chan (ms_event ms (ERemoved id)) else ms_chan ms) /\
  same_shape ms ms'.
Proof. exact m_drop_char. Qed.

(* clear / Drop of a MaskedStorage: afterwards nothing is left to be handed out or destroyed again *)
Theorem C08_clear_empties : forall ms m c, MInv ms m ->
  let '(ms', c') := m_clear ms c in
  MInv ms' (NM.empty tok) /\ cx_stuck c' = cx_stuck c /\ ms_mask ms' = NS.empty /\ ms_chan ms' = ms_chan ms /\
  same_shape ms ms'.
Proof. exact m_clear_char. Qed.

(* VecStorage::clean: destroys exactly the initialised slots named by the mask, each once, in mask
   order, and leaves them marked moved-out (so nothing can hand them out or destroy them again) *)
Theorem C08_vec_clean_destroys_the_masked_slots_once : forall ids s c, NoDup ids ->
  (forall i, In i ids -> i < v_len s /\ exists t, NM.find i (v_slots s) = Some (SInit t)) ->
  cx_drops (snd (vec_clean s ids c)) = rev (map (slot_uid s) ids) ++ cx_drops c /\
  cx_stuck (snd (vec_clean s ids c)) = cx_stuck c /\
  (forall i, In i ids -> exists t, NM.find i (v_slots (fst (vec_clean s ids c))) = Some (SMoved t) /\ fst t = slot_uid s i) /\
  (forall j, ~ In j ids -> NM.find j (v_slots (fst (vec_clean s ids c))) = NM.find j (v_slots s)) /\
  v_len (fst (vec_clean s ids c)) = v_len s.
Proof. exact vec_clean_drops. Qed.

(* the map kinds: every value destroyed once, the map empty afterwards *)
Theorem C08_map_clean_destroys_every_value_once : forall m mask c,
  u_clean (RMap m) mask c = (RMap (NM.empty tok), cx_drop_all c (map snd (NM.elements m))) /\
  cx_drops (snd (u_clean (RMap m) mask c)) = rev (map (fun p => fst (snd p)) (NM.elements m)) ++ cx_drops c.
Proof. exact map_clean_drops. Qed.

(* the null storage keeps no data: clean materialises and destroys one unit value per member *)
Theorem C08_null_clean_materialises_one_unit_per_member : forall ids c,
  cx_drops (null_clean ids c) = repeat (fst unit_tok) (length ids) ++ cx_drops c.
Proof. exact null_clean_drops. Qed.

(* a value queued for lazy insertion is, when the action runs, inserted by the generation-checked
   Storage operation: stored, or - if the target is dead - destroyed; a value the operation hands back
   (the one it replaces) is destroyed on the spot because nobody receives it *)
Theorem C08_lazy_values_are_applied_or_destroyed : forall e av hs so,
  env_sop_quiet e av hs so =
    (let '(e', out) := env_sop e av hs so in
     match out with
     | WIns (InsOld t) | WOptTok (Some t) => env_cx e' (cx_drop (se_cx e') t)
     | _ => e'
     end).
Proof. reflexivity. Qed.

(* ---- the ledger equation, operation by operation: [conserves m m' ins rets c c'] says that the values held
   afterwards (m'), those handed back (rets) and those destroyed by the operation are, as multisets of uids, the
   values held before (m) plus those moved in (ins).  [LInvS ms m]: the storage represents the map m and is of a
   kind without default-filled gaps (Vec, Dense, HashMap, BTree, Null; plain, Flagged or DerefFlagged). ---- *)

Theorem C08_insert_conserves : forall ms m av e v c, LInvS ms m ->
  let '(ms', r, c') := st_insert ms av e v c in
  exists m', LInvS ms' m' /\ cx_stuck c' = cx_stuck c /\
    conserves m m' [fst (tnorm ms v)] (match r with InsOld t => [fst t] | _ => [] end) c c'.
Proof. exact insert_conserves. Qed.

Theorem C08_remove_conserves : forall ms m av e c, LInvS ms m ->
  let '(ms', o, c') := st_remove ms av e c in
  exists m', LInvS ms' m' /\ cx_stuck c' = cx_stuck c /\
    conserves m m' [] (match o with Some t => [fst t] | None => [] end) c c'.
Proof. exact remove_api_conserves. Qed.

Theorem C08_get_mut_conserves : forall ms m av e touch nv c, LInvS ms m ->
  let '(ms', o, c') := st_get_mut ms av e touch nv c in
  exists m', LInvS ms' m' /\ c' = c /\ Permutation (bag m') (bag m).
Proof. exact get_mut_conserves. Qed.

Theorem C08_drain_conserves : forall ids ms m c, LInvS ms m ->
  let '(ms', l, c') := st_drain_ids ms ids c in
  exists m', LInvS ms' m' /\ cx_drops c' = cx_drops c /\ Permutation (bag m' ++ map fst l) (bag m).
Proof. exact drain_conserves. Qed.

Theorem C08_deleting_entities_conserves : forall ids ms m c, LInvS ms m ->
  let '(ms', c') := m_drop_all ms ids c in
  cx_stuck c' = cx_stuck c /\ exists m', LInvS ms' m' /\ conserves m m' [] [] c c'.
Proof. exact purge_conserves. Qed.

Theorem C08_entry_api_conserves : forall ms m av e o c, LInvS ms m ->
  let '(ms', r, c') := st_entry ms av e o c in
  exists m', LInvS ms' m' /\ cx_stuck c' = cx_stuck c /\ conserves m m' (entry_ins ms o) (entry_rets o r) c c'.
Proof. exact entry_conserves. Qed.

(* clear() / Drop of a storage: everything it holds is destroyed, once, and nothing is left - VecStorage,
   DenseVecStorage (the data vector is a permutation of the map's values), HashMap / BTree storages, null storage *)
Theorem C08_clear_conserves : forall ms m c, LInvS ms m ->
  let '(ms', c') := m_clear ms c in
  LInvS ms' (NM.empty tok) /\ cx_stuck c' = cx_stuck c /\
  exists d, cx_drops c' = d ++ cx_drops c /\ Permutation d (bag m).
Proof. exact clear_conserves. Qed.

Theorem C08_get_mut_or_default_conserves : forall ms m av e c, LInvS ms m ->
  let '(ms', o, c') := st_get_mut_or_default ms av e c in
  exists m', LInvS ms' m' /\
    conserves m m' (if present ms av e then [] else [fst (tnorm ms (if ms_unit ms then unit_tok else default_tok))]) [] c c'.
Proof. exact gmd_conserves. Qed.

(* all of the Storage API at once: whatever the operation, the values held afterwards, handed back and destroyed
   are the values held before plus those moved in *)
Theorem C08_every_storage_operation_conserves : forall ms m av ent so c, LInvS ms m ->
  let '(ms', out, c') := ms_sop ms av ent so c in
  exists m', LInvS ms' m' /\ conserves m m' (sop_ins ms av ent so) (sop_rets so out) c c'.
Proof. exact sop_conserves. Qed.

(* ---- the default-filled kind (DefaultVecStorage keeps a value in every slot; gaps and vacated slots hold defaults it
   makes itself): per raw operation, the cells afterwards together with what was handed back and what was destroyed are
   the cells before together with what was moved in and the defaults the operation made ---- *)
Theorem C08_default_filled_insert_conserves : forall cells id v c, full cells ->
  match u_insert (RDefault cells) id v c with
  | (RDefault cells', c') =>
      cx_stuck c' = cx_stuck c /\ full cells' /\
      exists d, cx_drops c' = d ++ cx_drops c /\ Permutation (uids cells' ++ d) (uids cells ++ fst v :: minted c c')
  | _ => False
  end.
Proof. exact default_insert_conserves. Qed.

Theorem C08_default_filled_remove_conserves : forall cells id c, full cells -> (id < vlen cells)%N ->
  match u_remove (RDefault cells) id c with
  | (RDefault cells', t, c') =>
      cx_stuck c' = cx_stuck c /\ cx_drops c' = cx_drops c /\ full cells' /\ pv_get cells id = Some t /\
      Permutation (uids cells' ++ [fst t]) (uids cells ++ minted c c')
  | _ => False
  end.
Proof. exact default_remove_conserves. Qed.

Theorem C08_default_filled_clear_destroys_every_cell_once : forall cells mask c,
  match u_clean (RDefault cells) mask c with
  | (RDefault cells', c') =>
      uids cells' = [] /\ cx_stuck c' = cx_stuck c /\ cx_mints c' = cx_mints c /\
      exists d, cx_drops c' = d ++ cx_drops c /\ Permutation d (uids cells)
  | _ => False
  end.
Proof. exact default_clean_conserves. Qed.

Example C08_default_filled_nonvacuous :
  let '(r1, c1) := u_insert (RDefault pv_empty) 3 (7, 70%Z) cx0 in
  let '(r2, t, c2) := u_remove r1 3 c1 in
  let '(r3, c3) := u_clean r2 [] c2 in
  cx_mints c1 = 3%N /\ t = (7, 70%Z) /\ cx_mints c2 = 4%N /\ cx_drops c3 = [default_uid; default_uid; default_uid; default_uid].
Proof. vm_compute. repeat split; reflexivity. Qed.

(* ---- whole histories, on the specification world (every storage the plain map; the implementation's results and
   destroyed values are compared with it on every explored history): for every history (joins included:
   what a join hands out for good are the values its drain members removed) in which components are registered
   before use, whatever the world
   holds at the end, everything handed back and everything destroyed along the way are - as multisets - what it
   held at the start plus everything moved in ---- *)
Theorem C08_history_conserves : forall tr w L0, WInv w -> regs_ok w tr = true ->
  forallb (fun p => ledger_op (fst p)) tr = true -> env_content (s_env w) L0 ->
  exists Lf, env_content (s_env (fst (srun w tr))) Lf /\
             Permutation (Lf ++ run_rets w tr ++ run_drops w tr) (L0 ++ run_ins w tr).
Proof. exact history_conserves. Qed.

(* from the empty world to the world being dropped: every value moved in was handed back or destroyed, exactly once
   (neither both nor twice nor leaked: the two multisets are equal) *)
Theorem C08_everything_handed_back_or_destroyed_exactly_once : forall tr,
  regs_ok (s_init_env true) tr = true -> forallb (fun p => ledger_op (fst p)) tr = true ->
  keys_of (s_env (fst (srun (s_init_env true) tr))) = [] ->
  Permutation (run_rets (s_init_env true) tr ++ run_drops (s_init_env true) tr) (run_ins (s_init_env true) tr).
Proof. exact everything_handed_back_or_destroyed. Qed.

(* ---- joins: a join that does not go wrong moves nothing in and destroys nothing; what leaves the storages for
   good are exactly the values its drain members removed, each once, and they are the drain's items ---- *)
Theorem C08_a_join_hands_out_exactly_what_it_drained : forall e av eids hs k ms, plain_env e ->
  cx_stuck (se_cx (fst (env_join e av eids hs k ms))) = false ->
  estep_ok e (fst (env_join e av eids hs k ms)) [] (jout_rets ms (snd (env_join e av eids hs k ms))).
Proof. exact env_join_ledger. Qed.

Example C08_join_history_nonvacuous :
  let os := [OStore (SRegister 0); OCreate [(0, (1, 10%Z))]; OCreate [(0, (2, 20%Z))]; OCreate [(0, (3, 30%Z))];
             OJoin (JSeq (Some 2%nat)) [MEntities; MDrain 0]; OJoin (JLend None) [MWrite 0 true (Some 5%Z)]; ODropWorld] in
  let choices := [[]; [0]; [1]; [2]; []; []; []] in
  let outs := snd (srun (s_init_env true) (combine os (map (fun c => WHandles (map (fun i => (i, 1%Z)) c)) choices))) in
  let tr := combine os outs in
  regs_ok (s_init_env true) tr = true /\ forallb (fun p => ledger_op (fst p)) tr = true /\
  keys_of (s_env (fst (srun (s_init_env true) tr))) = [] /\
  run_ins (s_init_env true) tr = [1; 2; 3] /\ run_rets (s_init_env true) tr = [1; 2] /\ run_drops (s_init_env true) tr = [3].
Proof. vm_compute. repeat split; reflexivity. Qed.

Example C08_history_nonvacuous :
  let os := [OStore (SRegister 0); OCreate [(0, (1, 10%Z))]; OCreate [(0, (2, 20%Z))];
             OStore (SInsert 0 0%nat (3, 30%Z)); OStore (SRemove 0 1%nat); ODelete 0%nat; ODropWorld] in
  let choices := [[]; [0]; [1]; []; []; []; []] in
  let outs := snd (srun (s_init_env true) (combine os (map (fun c => WHandles (map (fun i => (i, 1%Z)) c)) choices))) in
  let tr := combine os outs in
  regs_ok (s_init_env true) tr = true /\ forallb (fun p => ledger_op (fst p)) tr = true /\
  keys_of (s_env (fst (srun (s_init_env true) tr))) = [] /\
  run_ins (s_init_env true) tr = [1; 2; 3] /\ run_rets (s_init_env true) tr = [1; 2] /\ run_drops (s_init_env true) tr = [3].
Proof. vm_compute. repeat split; reflexivity. Qed.

Example C08_nonvacuous :
  let s := {| v_len := 6; v_slots := NM.add 5 (SInit (13, 3%Z)) (NM.add 2 (SInit (12, 2%Z)) (NM.add 0 (SInit (11, 1%Z)) (NM.empty slot))) |} in
  rev (cx_drops (snd (vec_clean s [0; 2; 5] cx0))) = [11; 12; 13] /\
  NM.find 2 (v_slots (fst (vec_clean s [0; 2; 5] cx0))) = Some (SMoved (12, 2%Z)).
Proof. vm_compute. split; reflexivity. Qed.

Print Assumptions C08_never_exposes_an_unwritten_or_moved_out_slot.
Print Assumptions C08_remove_hands_back_the_stored_value.
Print Assumptions C08_overwrite_hands_back_the_old_value.
Print Assumptions C08_refused_insert_destroys_the_refused_value.
Print Assumptions C08_delete_destroys_exactly_that_value.
Print Assumptions C08_clear_empties.
Print Assumptions C08_vec_clean_destroys_the_masked_slots_once.
Print Assumptions C08_map_clean_destroys_every_value_once.
Print Assumptions C08_null_clean_materialises_one_unit_per_member.
Print Assumptions C08_lazy_values_are_applied_or_destroyed.
Print Assumptions C08_insert_conserves.
Print Assumptions C08_remove_conserves.
Print Assumptions C08_get_mut_conserves.
Print Assumptions C08_drain_conserves.
Print Assumptions C08_deleting_entities_conserves.
Print Assumptions C08_entry_api_conserves.
Print Assumptions C08_clear_conserves.
Print Assumptions C08_get_mut_or_default_conserves.
Print Assumptions C08_every_storage_operation_conserves.
Print Assumptions C08_a_join_hands_out_exactly_what_it_drained.
Print Assumptions C08_history_conserves.
Print Assumptions C08_everything_handed_back_or_destroyed_exactly_once.
Print Assumptions C08_default_filled_insert_conserves.
Print Assumptions C08_default_filled_remove_conserves.
Print Assumptions C08_default_filled_clear_destroys_every_cell_once.
