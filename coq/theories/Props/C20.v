(* C20 - Single-threaded behaviour is deterministic and replayable.
   The models are Gallina functions of the history: whatever they compute
   depends on nothing else.  What needs proof is that the orders the real code
   takes from hash maps, addresses or time do not enter: every iteration order
   in the models is the ascending order of a set, which is determined by
   membership alone, and the allocation order is a function of the allocator
   state.  That the implementation computes these functions is the
   correspondence (C01-C18), re-evaluated here across processes. *)
From SV Require Import Base.ListX Alloc.AllocModel Alloc.AllocStep Alloc.AllocRefine World.Env World.Join World.JoinProps
  World.World Checkers.Driver.
From Coq Require Import Sorting.Sorted.

(* iteration order is determined by membership: two sets with the same members are walked in the same order *)
Theorem C20_iteration_order_is_membership : forall s1 s2,
  (forall i, NS.mem i s1 = NS.mem i s2) -> NS.elements s1 = NS.elements s2.
Proof.
  intros s1 s2 H. apply sorted_unique; try apply NS.elements_spec2.
  intros x. rewrite !in_ns_elements, H. reflexivity.
Qed.

(* join order: whatever the storages' histories, two joins whose members agree on every index visit the same
   indices in the same order *)
Theorem C20_join_order_is_membership : forall e1 eids1 ms1 keys1 e2 eids2 ms2 keys2,
  jkeys e1 eids1 ms1 = Some keys1 -> jkeys e2 eids2 ms2 = Some keys2 ->
  (forall i, all_have e1 eids1 ms1 i = all_have e2 eids2 ms2 i) -> keys1 = keys2.
Proof.
  intros e1 eids1 ms1 keys1 e2 eids2 ms2 keys2 H1 H2 H.
  apply sorted_unique.
  - apply StronglySorted_Sorted. eapply jkeys_ascending. eassumption.
  - apply StronglySorted_Sorted. eapply jkeys_ascending. eassumption.
  - intros x. rewrite (jkeys_exact _ _ _ _ x H1), (jkeys_exact _ _ _ _ x H2), H. reflexivity.
Qed.

(* serialisation order: the records appear in the order of the (&entities, &markers) join, and that
   join is strictly ascending in the entity index - so the position of a record is a function of which
   entities are alive and marked, whatever the histories of the marker storage and of the allocator *)
From SV Require Import SaveLoad.Marker SaveLoad.SerDe SaveLoad.SerDeProps.
Theorem C20_serialisation_order_is_the_join_order : forall w nc d, serialize w nc = Some d ->
  map fst d = map snd (join_marked w) /\
  Sorted (fun a b : entity => fst a < fst b) (map fst (join_marked w)).
Proof.
  intros w nc d H. split; [exact (serialize_order w nc d H) | exact (join_marked_ascending w)].
Qed.


Print Assumptions C20_iteration_order_is_membership.
Print Assumptions C20_join_order_is_membership.
Print Assumptions C20_serialisation_order_is_the_join_order.
