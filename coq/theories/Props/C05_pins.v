From SV Require Import Alloc.AllocStep Store.Masked Store.StoreInv World.Env World.EnvSim World.WorldSpec World.NoStuck World.Purge.
From SV Require Import Props.C05.
Check (C05_invariant : forall tr, regs_ok s_init tr = true -> saccept s_init tr 0 = None ->
  let w := fst (srun s_init tr) in
  table_covers (s_env w) /\ masks_live (s_life w) (s_env w)).
Check (C05_new_entity_has_no_component : forall tr i, regs_ok s_init tr = true -> saccept s_init tr 0 = None ->
  let w := fst (srun s_init tr) in
  valid_choice (s_life w) i = true ->
  forall sid ms, NM.find sid (se_stores (s_env w)) = Some ms -> NS.mem i (ms_mask ms) = false).
Check (C05_deletion_purges_everywhere : forall e ents ent, EInv e -> table_covers e -> In ent ents ->
  forall sid ms', NM.find sid (se_stores (env_delete_components e ents)) = Some ms' -> NS.mem (fst ent) (ms_mask ms') = false).
Check (C05_purge_keeps_the_others : forall ids ms m c, MInv ms m ->
  exists m', MInv (fst (m_drop_all ms ids c)) m' /\ forall j, ~ In j ids -> NM.find j m' = NM.find j m).
