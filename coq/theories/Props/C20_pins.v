From SV Require Import Base.ListX Alloc.AllocModel Alloc.AllocStep Alloc.AllocRefine World.Env World.Join World.JoinProps
  World.World Checkers.Driver.
From Coq Require Import Sorting.Sorted.
From SV Require Import SaveLoad.Marker SaveLoad.SerDe SaveLoad.SerDeProps.
From SV Require Import Props.C20.
Check (C20_iteration_order_is_membership : forall s1 s2,
  (forall i, NS.mem i s1 = NS.mem i s2) -> NS.elements s1 = NS.elements s2).
Check (C20_join_order_is_membership : forall e1 eids1 ms1 keys1 e2 eids2 ms2 keys2,
  jkeys e1 eids1 ms1 = Some keys1 -> jkeys e2 eids2 ms2 = Some keys2 ->
  (forall i, all_have e1 eids1 ms1 i = all_have e2 eids2 ms2 i) -> keys1 = keys2).
Check (C20_serialisation_order_is_the_join_order : forall w nc d, serialize w nc = Some d ->
  map fst d = map snd (join_marked w) /\
  Sorted (fun a b : entity => fst a < fst b) (map fst (join_marked w))).
