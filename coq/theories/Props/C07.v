(* C07 - Parallel join delivers the same items as sequential join, each exactly once. *)
From SV Require Import Base.ListX Store.Masked World.Env World.Join World.JoinProps World.EnvSim.

(* the parallel join is the sequential join: same items (compared as sets: the harness sorts what the
   workers deliver), same final storages, for every member mix that has the ParJoin impls *)
Theorem C07_parallel_is_sequential : forall e av eids hs n ms,
  join_ok e (JPar n) ms = true -> join_ok e (JSeq None) ms = true ->
  env_join e av eids hs (JPar n) ms = env_join e av eids hs (JSeq None) ms.
Proof. exact par_join_is_seq_join. Qed.

(* the pool size is irrelevant *)
Theorem C07_pool_size_irrelevant : forall e av eids hs n n' ms,
  env_join e av eids hs (JPar n) ms = env_join e av eids hs (JPar n') ms.
Proof. exact par_join_pool_irrelevant. Qed.

(* none missing, none twice: the indices delivered are the intersection, without repetition *)
Theorem C07_each_index_exactly_once : forall e av eids hs n ms l e',
  env_join e av eids hs (JPar n) ms = (e', JItems l) ->
  NoDup (map fst l) /\ (forall i, In i (map fst l) <-> all_have e eids ms i = true).
Proof. exact par_join_each_index_once. Qed.

(* every storage kind that can be joined in parallel behaves as the plain map under it *)
Theorem C07_any_storage_kind : forall e1 e2 av eids hs n ms, env_rel e1 e2 ->
  snd (env_join e1 av eids hs (JPar n) ms) = snd (env_join e2 av eids hs (JPar n) ms) /\
  env_rel (fst (env_join e1 av eids hs (JPar n) ms)) (fst (env_join e2 av eids hs (JPar n) ms)).
Proof. intros e1 e2 av eids hs n ms. apply env_join_rel. Qed.

Example C07_nonvacuous :
  let e0 := env_register (env_register (env_init false) 1) 3 in
  let av := {| av_alive := fun _ => true; av_cur_gen := fun _ => 1%Z; av_err_gen := fun _ => 1%Z |} in
  let ins e sid i v := fst (env_sop e av (pv_push pv_empty (i, 1%Z)) (SInsert sid 0%nat v)) in
  let e := ins (ins (ins (ins e0 1 1 (10, 1%Z)) 1 64 (11, 2%Z)) 1 4096 (12, 3%Z)) 3 64 (13, 4%Z) in
  join_ok e (JPar 8) [MWrite 1 false (Some 5%Z); MMaybe (MRead 3)] = true /\
  snd (env_join e av NS.empty pv_empty (JPar 8) [MWrite 1 false (Some 5%Z); MMaybe (MRead 3)]) =
    JItems [(1, [JTok (10, 1%Z); JNone]); (64, [JTok (11, 2%Z); JSome (JTok (13, 4%Z))]); (4096, [JTok (12, 3%Z); JNone])].
Proof. vm_compute. split; reflexivity. Qed.

Print Assumptions C07_parallel_is_sequential.
Print Assumptions C07_pool_size_irrelevant.
Print Assumptions C07_each_index_exactly_once.
Print Assumptions C07_any_storage_kind.
