(* C07 - Parallel join delivers the same items as sequential join, each exactly once. *)
From SV Require Import Base.ListX Store.Masked World.Env World.Join World.JoinProps World.JoinAbs World.JoinRefine
  World.JoinAbsProps World.EnvSim Bits.Hibit Bits.HibitIter Bits.HibitOrder Bits.HibitSet Bits.HibitExpr.
From Coq Require Import Sorting.Permutation Sorting.Sorted.

(* the parallel join is the sequential join: same items (compared as sets: the harness sorts what the
   workers deliver), same final storages, for every member mix that has the ParJoin impls *)
Theorem C07_parallel_is_sequential : forall e av eids hs n ms,
  join_ok e (JPar n) ms = true -> join_ok e (JSeq None) ms = true ->
  env_join e av eids hs (JPar n) ms = env_join e av eids hs (JSeq None) ms.
Proof. exact par_join_is_seq_join. Qed.

(* the pool size is irrelevant *)
Theorem C07_pool_size_irrelevant : forall e av eids hs n n' ms,
  env_join e av eids hs (JPar n) ms = env_join e av eids hs (JPar n') ms.
Proof. exact par_join_pool_irrelevant. Qed.

(* none missing, none twice: the indices delivered are the intersection, without repetition *)
Theorem C07_each_index_exactly_once : forall e av eids hs n ms l e',
  env_join e av eids hs (JPar n) ms = (e', JItems l) ->
  NoDup (map fst l) /\ (forall i, In i (map fst l) <-> all_have e eids ms i = true).
Proof. exact par_join_each_index_once. Qed.

(* every storage kind that can be joined in parallel behaves as the plain map under it *)
Theorem C07_any_storage_kind : forall e1 e2 av eids hs n ms, env_rel e1 e2 ->
  snd (env_join e1 av eids hs (JPar n) ms) = snd (env_join e2 av eids hs (JPar n) ms) /\
  env_rel (fst (env_join e1 av eids hs (JPar n) ms)) (fst (env_join e2 av eids hs (JPar n) ms)).
Proof. intros e1 e2 av eids hs n ms. apply env_join_rel. Qed.


(* however the scheduler splits the index space and in whatever order the pieces are processed (any permutation of
   the keys): on the maps the storages represent, the storages end up cell for cell the same ... *)
Theorem C07_any_split_same_final_storages : forall unit av hs excl eids ms keys keys' S s j, NoDup keys -> Permutation keys keys' ->
  cell (fst (a_visit_keys unit av hs excl eids ms keys S)) s j = cell (fst (a_visit_keys unit av hs excl eids ms keys' S)) s j.
Proof. exact any_visit_order_same_cells. Qed.

(* ... every index is delivered exactly once ... *)
Theorem C07_any_split_same_indices : forall unit av hs excl eids ms keys keys' S, Permutation keys keys' ->
  Permutation (map fst (snd (a_visit_keys unit av hs excl eids ms keys S))) (map fst (snd (a_visit_keys unit av hs excl eids ms keys' S))).
Proof. exact any_visit_order_same_indices. Qed.

(* ... and every storage member hands out, for each index, the same component (no component is handed to two
   workers: each index is visited once, and the visit of one index touches no cell of another index) *)
Theorem C07_any_split_same_items : forall unit av hs excl eids pre m post s keys keys' S, NoDup keys -> Permutation keys keys' ->
  reads_cell m s = true -> forallb (fun m' => negb (m_owns m' s)) pre = true ->
  forall j xs xs', In (j, xs) (snd (a_visit_keys unit av hs excl eids (pre ++ m :: post) keys S)) ->
                   In (j, xs') (snd (a_visit_keys unit av hs excl eids (pre ++ m :: post) keys' S)) ->
  nth_error xs (length pre) = nth_error xs' (length pre).
Proof. exact any_visit_order_same_items. Qed.

Theorem C07_visits_of_distinct_indices_do_not_interfere : forall unit av hs excl eids ms i S s j, i <> j ->
  cell (fst (a_visit_members unit av hs excl eids ms i S)) s j = cell S s j.
Proof.
  intros unit av hs excl eids ms i S s j H. rewrite a_visit_members_cell. destruct (N.eq_dec i j); [congruence|reflexivity].
Qed.

Theorem C07_join_refines_the_join_on_maps : forall unit av hs excl eids ms keys e S, absrel unit e S ->
  snd (visit_keys av hs excl eids ms keys e) = snd (a_visit_keys unit av hs excl eids ms keys S) /\
  absrel unit (fst (visit_keys av hs excl eids ms keys e)) (fst (a_visit_keys unit av hs excl eids ms keys S)).
Proof. exact visit_keys_abs. Qed.

(* ---- the mask itself: par_join hands rayon a BitProducer over the join's mask, and rayon cuts it up by any tree of
   splits it likes.  For the layered bit set the masks are made of (four layers of 64-bit words; the splitting
   algorithm of hibitset's BitProducer with the depth par_join asks for), whatever combination of sets the mask is and
   whatever the tree: every leaf's loop terminates, and the leaves' outputs one after the other are the sequential
   iteration - strictly ascending, exactly the members, so each member comes out of exactly one leaf, once ---- *)
Theorem C07_every_split_tree_yields_each_member_exactly_once : forall g P t, exact g P ->
  exists outs, Forall2 (fun it o => drain_iter g (S (weight it)) it = Some o) (leaves g average_ones (fresh g) t) outs /\
               concat outs = den g (fresh g) /\
               StronglySorted N.lt (concat outs) /\ forall x, In x (concat outs) <-> P x.
Proof. intros g P t X. exact (split_tree_exact g P X t). Qed.

(* one split: what the two halves stand for, one after the other, is what the producer stood for *)
Theorem C07_a_split_loses_and_repeats_nothing : forall g avg,
  (forall w, avg w = None -> (length w <= 1)%nat) -> (forall l i, sorted (g l i)) -> forall it, top_only it ->
  match split g avg it with
  | (a, Some b) => den g a ++ den g b = den g it /\ top_only a /\ top_only b
  | (a, None) => den g a = den g it /\ top_only a
  end.
Proof. exact split_spec. Qed.

Example C07_split_nonvacuous :
  let s := fold_left bs_add [5; 70; 4100; 4101; 300000; 300001; 16000000] bs_empty in   (* three blocks of the top layer *)
  let g := bs_get s in
  let t := SNode (SNode SLeaf (SNode SLeaf SLeaf)) (SNode SLeaf SLeaf) in
  map (fun it => drain_iter g 100 it) (leaves g average_ones (fresh g) t)
  = [Some [5; 70; 4100; 4101]; Some [300000; 300001]; Some [16000000]].
Proof. vm_compute. reflexivity. Qed.

Example C07_nonvacuous :
  let e0 := env_register (env_register (env_init false) 1) 3 in
  let av := {| av_alive := fun _ => true; av_cur_gen := fun _ => 1%Z; av_err_gen := fun _ => 1%Z |} in
  let ins e sid i v := fst (env_sop e av (pv_push pv_empty (i, 1%Z)) (SInsert sid 0%nat v)) in
  let e := ins (ins (ins (ins e0 1 1 (10, 1%Z)) 1 64 (11, 2%Z)) 1 4096 (12, 3%Z)) 3 64 (13, 4%Z) in
  join_ok e (JPar 8) [MWrite 1 false (Some 5%Z); MMaybe (MRead 3)] = true /\
  snd (env_join e av NS.empty pv_empty (JPar 8) [MWrite 1 false (Some 5%Z); MMaybe (MRead 3)]) =
    JItems [(1, [JTok (10, 1%Z); JNone]); (64, [JTok (11, 2%Z); JSome (JTok (13, 4%Z))]); (4096, [JTok (12, 3%Z); JNone])].
Proof. vm_compute. split; reflexivity. Qed.

Print Assumptions C07_parallel_is_sequential.
Print Assumptions C07_pool_size_irrelevant.
Print Assumptions C07_each_index_exactly_once.
Print Assumptions C07_any_storage_kind.
Print Assumptions C07_any_split_same_final_storages.
Print Assumptions C07_any_split_same_indices.
Print Assumptions C07_any_split_same_items.
Print Assumptions C07_visits_of_distinct_indices_do_not_interfere.
Print Assumptions C07_join_refines_the_join_on_maps.
Print Assumptions C07_every_split_tree_yields_each_member_exactly_once.
Print Assumptions C07_a_split_loses_and_repeats_nothing.
