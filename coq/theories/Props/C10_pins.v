From SV Require Import Alloc.LifeProps Alloc.AllocRefine World.World Conc.AtomicLTS Conc.AtomicInv Props.C10.
From Coq Require Import Permutation.
Check (C10_handles_distinct : forall a0 s0 I progs,
  R a0 s0 -> LInv s0 -> forallb (hinit_okb a0) I = true -> forall s,
  let c := run (c_new a0 I progs) s in
  NoDup (all_mine c) /\ NoDup (map fst (all_mine c)) /\
  forall e e0, In e (all_mine c) -> l_is_alive s0 e0 = true -> fst e <> fst e0).
Check (C10_alive_from_return : forall a0 s0 I progs,
  R a0 s0 -> LInv s0 -> forallb (hinit_okb a0) I = true -> forall s1 s2 k t e,
  nth_error (threads (run (c_new a0 I progs) s1)) k = Some t -> In e (mine t) ->
  a_is_alive (sh (run (c_new a0 I progs) (s1 ++ s2))) e = true).
Check (C10_delete_check_passes : forall a0 s0 I progs,
  R a0 s0 -> LInv s0 -> forallb (hinit_okb a0) I = true -> forall s k t h r e,
  nth_error (threads (run (c_new a0 I progs) s)) k = Some t ->
  tpc t = PIdle -> prog t = CDelete h :: r -> resolve I t h = Some e ->
  (l_is_alive s0 e = true \/ In e (mine t)) ->
  a_is_alive (sh (run (c_new a0 I progs) s)) e = true).
Check (C10_delete_of_live_ok : forall a0 s0 I progs,
  R a0 s0 -> LInv s0 -> forallb (hinit_okb a0) I = true -> forall s k t e r,
  nth_error (threads (run (c_new a0 I progs) s)) k = Some t -> In (OKill e r) (outs t) ->
  (l_is_alive s0 e = true \/ In e (mine t)) -> r = None).
Check (C10_delete_recorded : forall a0 s0 I progs,
  R a0 s0 -> LInv s0 -> forallb (hinit_okb a0) I = true -> forall s1 s2 k t e,
  nth_error (threads (run (c_new a0 I progs) s1)) k = Some t -> In (OKill e None) (outs t) ->
  NS.mem (fst e) (killed (sh (run (c_new a0 I progs) (s1 ++ s2)))) = true).
Check (C10_final_state_sequential : forall a0 s0 I progs,
  R a0 s0 -> LInv s0 -> forallb (hinit_okb a0) I = true -> forall s,
  all_finished (run (c_new a0 I progs) s) = true ->
  aeq (sh (run (c_new a0 I progs) s)) (fst (arun true a0 (lin_ops (run (c_new a0 I progs) s))))).
Check (C10_final_state_refines : forall a0 s0 I progs,
  R a0 s0 -> LInv s0 -> forallb (hinit_okb a0) I = true -> forall s,
  all_finished (run (c_new a0 I progs) s) = true ->
  let ops := lin_ops (run (c_new a0 I progs) s) in
  let outs := snd (arun true a0 ops) in
  lvalid s0 (with_choices ops outs) = true /\
  snd (lrun s0 (with_choices ops outs)) = outs /\
  R (sh (run (c_new a0 I progs) s)) (fst (lrun s0 (with_choices ops outs))) /\
  LInv (fst (lrun s0 (with_choices ops outs)))).
Check (C10_results_linearisable : forall a0 s0 I progs,
  R a0 s0 -> LInv s0 -> forallb (hinit_okb a0) I = true -> forall s k t,
  nth_error (threads (run (c_new a0 I progs) s)) k = Some t ->
  thread_results a0 k (lin (run (c_new a0 I progs) s)) = flat_map lin_out (outs t) ++ pending_of a0 (tpc t) /\
  (finished t = true -> thread_results a0 k (lin (run (c_new a0 I progs) s)) = flat_map lin_out (outs t))).
Check (C10_queue_interleaving : forall a0 s0 I progs,
  R a0 s0 -> LInv s0 -> forallb (hinit_okb a0) I = true -> forall s,
  all_finished (run (c_new a0 I progs) s) = true ->
  interleaving (map pushes progs) (queue (run (c_new a0 I progs) s)) /\
  Permutation (concat (map pushes progs)) (queue (run (c_new a0 I progs) s))).
Check (C10_never_stuck : forall a0 s0 I progs,
  R a0 s0 -> LInv s0 -> forallb (hinit_okb a0) I = true -> forall s,
  a_stuck (sh (run (c_new a0 I progs) s)) = false /\
  forall t, In t (threads (run (c_new a0 I progs) s)) -> ~ In OPanic (outs t)).
Check (C10_programs_in_order : forall a0 s0 I progs,
  R a0 s0 -> LInv s0 -> forallb (hinit_okb a0) I = true -> forall s,
  map (fun t => done t ++ prog t) (threads (run (c_new a0 I progs) s)) = progs).
Check (C10_after_any_history : forall os,
  exists s0, R (w_alloc (fst (wrun true w_init os))) s0 /\ LInv s0).
