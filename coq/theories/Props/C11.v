(* C11 - Systems dispatched in parallel never overlap with a writer of the same
   storage.  Only statements; each proof is [exact <lemma>].  Pins: C11_pins.v.

   The theorems are about the model of shred 0.16.1's StagesBuilder /
   DispatcherBuilder (Dispatch/Stage.v), the borrow flags of shred's World and
   the declarations of the specs storage handles (Dispatch/Borrow.v), and the
   execution semantics "stages in sequence, groups of a stage interleaved in
   any way, systems of a group in order" (Dispatch/Exec.v).

   C11_LIMITS: (1) shred and rayon are outside /repo: modelled and compared with
   the real DispatcherBuilder (exact stage/group tree) and the real dispatch
   (enter/exit logs), not verified.  (2) Exactly-once, dependency order and
   no-overlap are stated on traces with one start and one end event per system;
   "no borrow is ever refused" is proved both there and on traces where every
   single res.fetch()/fetch_mut() and every single drop is its own event
   (C11_borrow_never_refused_fine).  (3) Thread-local systems and batch
   dispatchers are not modelled. *)
From SV Require Import Dispatch.Stage Dispatch.Borrow Dispatch.Exec Dispatch.StageInv Dispatch.BorrowInv
  Dispatch.ExecInv Dispatch.FineExec Dispatch.FineInv Checkers.DispatchChk.
From Coq Require Import Permutation.

(* ---- the stage list built from any sequence of add / add_barrier ---- *)

(* systems in different groups of one stage have no write/read or write/write
   intersection *)
Theorem C11_stages_conflict_free : forall os, Forall stage_free (b_stages (d_sb (d_build os))).
Proof. exact (fun os => di_free _ (d_build_inv os)). Qed.

(* every dependency of a system sits in an earlier stage or earlier in the
   system's own group *)
Theorem C11_stages_respect_deps : forall os, deps_stages [] (b_stages (d_sb (d_build os))).
Proof. exact (fun os => di_deps _ (d_build_inv os)). Qed.

(* every requested system occurs exactly once in the stages *)
Theorem C11_staged_exactly_once : forall os, d_stuck (d_build os) = false ->
  Permutation (all_sys (b_stages (d_sb (d_build os)))) (d_systems 0 os).
Proof. exact d_build_exactly_once. Qed.

Theorem C11_staged_ids_distinct : forall os, NoDup (all_ids (b_stages (d_sb (d_build os)))).
Proof. exact (fun os => di_nodup _ (d_build_inv os)). Qed.

(* no group outgrows the ArrayVec that holds it (capacity 5; the builder stops at 4) *)
Theorem C11_group_size_bounded : forall os, sizes_ok (b_stages (d_sb (d_build os))).
Proof. exact (fun os => di_sizes _ (d_build_inv os)). Qed.

(* the builder panics exactly when a dependency names no registered system *)
Theorem C11_builder_panics_only_on_unknown_dependency : forall os,
  d_stuck (d_build os) = true <->
  exists os1 r w deps t os2 d, os = os1 ++ DSys r w deps t :: os2 /\ In d deps /\
     (N.of_nat (length (d_systems 0 os1)) <= d)%N.
Proof. exact d_build_stuck_iff. Qed.

(* ---- every run-time schedule of the built dispatcher ---- *)

(* every system starts once and ends once, and nothing else happens *)
Theorem C11_run_exactly_once : forall os, d_stuck (d_build os) = false ->
  forall tr, stages_trace (b_stages (d_sb (d_build os))) tr ->
  Permutation tr (flat_map sys_trace (d_systems 0 os)).
Proof. exact dispatch_exactly_once. Qed.

(* when a system starts, every system it depends on has ended *)
Theorem C11_dependencies_complete_first : forall os, d_stuck (d_build os) = false ->
  (forall s, In s (d_systems 0 os) -> self_ok s) ->
  forall tr p s q, stages_trace (b_stages (d_sb (d_build os))) tr -> tr = p ++ EStart s :: q ->
  forall d, In d (s_deps s) -> In d (ends p).
Proof. exact dispatch_deps_first. Qed.

(* when a system starts, no running system writes what it reads or writes, or
   reads what it writes *)
Theorem C11_no_conflicting_overlap : forall os, d_stuck (d_build os) = false ->
  (forall s, In s (d_systems 0 os) -> self_ok s) ->
  forall tr p s q, stages_trace (b_stages (d_sb (d_build os))) tr -> tr = p ++ EStart s :: q ->
  forall s', In s' (running_after p []) -> sys_conflict s s' = false.
Proof. exact dispatch_no_overlap. Qed.

(* the borrow flags never refuse a borrow (no "already borrowed" panic), at
   any point of any schedule; and at the end nothing is left running *)
Theorem C11_borrow_never_refused : forall os, d_stuck (d_build os) = false ->
  (forall s, In s (d_systems 0 os) -> self_ok s) ->
  forall tr p q, stages_trace (b_stages (d_sb (d_build os))) tr -> tr = p ++ q ->
  m_stuck (m_run m_init p) = false.
Proof. exact dispatch_never_refused. Qed.

Theorem C11_all_steps_safe : forall os, d_stuck (d_build os) = false ->
  (forall s, In s (d_systems 0 os) -> self_ok s) ->
  forall tr, stages_trace (b_stages (d_sb (d_build os))) tr ->
  safe_run m_init tr /\ m_stuck (m_run m_init tr) = false /\ m_running (m_run m_init tr) = [].
Proof. exact dispatch_safe. Qed.

(* the same at the granularity of single borrows: the groups of a stage
   interleave between any two res.fetch()/fetch_mut() calls of a system's
   fetch and between any two drops; no borrow is refused and nothing that is
   not held is released, at any point of any such schedule *)
Theorem C11_borrow_never_refused_fine : forall os, d_stuck (d_build os) = false ->
  (forall s, In s (d_systems 0 os) -> self_ok s) ->
  forall tr p q, fstages_trace (b_stages (d_sb (d_build os))) tr -> tr = p ++ q ->
  f_run (Some bs_init) p <> None.
Proof. exact fine_never_refused. Qed.

(* ---- the specs handles ---- *)

(* what a handle's fetch borrows is exactly what it declares *)
Theorem C11_decl_matches_fetch : forall h,
  shared_of (fetch_borrows h) = fst (decl h) /\ excl_of (fetch_borrows h) = snd (decl h).
Proof. exact decl_matches_fetch. Qed.

Theorem C11_decl_matches_fetch_tuple : forall hs,
  shared_of (fetch_all hs) = decl_reads hs /\ excl_of (fetch_all hs) = decl_writes hs.
Proof. exact decl_matches_fetch_all. Qed.

(* the flags a probe sees while a handle is alive: exclusive on its writes(),
   shared on its reads(), free elsewhere *)
Theorem C11_fetch_then_probe : forall h,
  exists b, acquire_all bs_init (fetch_borrows h) = Some b /\
    forall r, probe b r =
      if existsb (N.eqb r) (snd (decl h)) then 2%Z
      else if existsb (N.eqb r) (fst (decl h)) then 1%Z else 0%Z.
Proof. exact fetch_then_probe. Qed.

(* taking the borrows in fetch order or in declaration order is the same *)
Theorem C11_fetch_order_irrelevant : forall hs id deps t b,
  let s := {| s_id := id; s_reads := decl_reads hs; s_writes := decl_writes hs; s_deps := deps; s_time := t |} in
  can_take b (sys_borrows s) ->
  exists b1 b2, acquire_all b (sys_borrows s) = Some b1 /\ acquire_all b (fetch_all hs) = Some b2 /\
    forall r, readers b1 r = readers b2 r /\ writer b1 r = writer b2 r.
Proof. exact fetch_order_irrelevant. Qed.

(* a tuple naming each component type at most once can be fetched on its own *)
Theorem C11_handles_self_ok : forall hs id deps t, handles_ok hs ->
  self_ok {| s_id := id; s_reads := decl_reads hs; s_writes := decl_writes hs; s_deps := deps; s_time := t |}.
Proof. exact handles_self_ok. Qed.

(* non-vacuity: two writers of C0 (systems 0 and 3) end in different stages,
   two writers of C2 (1 and 2) in the same group; a dependency after a barrier
   forces a new stage; a log that interleaves the groups of stage 0 is accepted
   by the checker, a log that overlaps 0 and 3 is rejected (code 4), a log that
   starts 4 before its dependency 0 has ended is rejected (code 3) *)
Example C11_nonvacuous :
  let os := [dsys_of [HWrite 0] [] 3; dsys_of [HWrite 2; HLazy] [] 1; dsys_of [HWrite 2] [] 1;
             dsys_of [HWrite 0; HRead 1] [] 1; dsys_of [HRead 0; HEntities] [0%N] 3;
             DBarrier; dsys_of [HWrite 1] [] 1; dsys_of [HRead 2] [5%N] 1] in
  d_stuck (d_build os) = false /\
  map (map g_ids) (b_stages (d_sb (d_build os))) = [[[0]; [1; 2]]; [[3]]; [[4]]; [[5]]; [[6]]]%N /\
  log_ok (d_systems 0 os) [2; 1; -2; 3; -1; -3; 4; -4; 5; -5; 6; -6; 7; -7]%Z = 0%Z /\
  log_ok (d_systems 0 os) [1; 4; -1; -4]%Z = 4%Z /\
  log_ok (d_systems 0 os) [5; -5]%Z = 3%Z.
Proof. vm_compute. repeat split. Qed.

Print Assumptions C11_stages_conflict_free.
Print Assumptions C11_stages_respect_deps.
Print Assumptions C11_staged_exactly_once.
Print Assumptions C11_staged_ids_distinct.
Print Assumptions C11_group_size_bounded.
Print Assumptions C11_builder_panics_only_on_unknown_dependency.
Print Assumptions C11_run_exactly_once.
Print Assumptions C11_dependencies_complete_first.
Print Assumptions C11_no_conflicting_overlap.
Print Assumptions C11_borrow_never_refused.
Print Assumptions C11_all_steps_safe.
Print Assumptions C11_borrow_never_refused_fine.
Print Assumptions C11_decl_matches_fetch.
Print Assumptions C11_decl_matches_fetch_tuple.
Print Assumptions C11_fetch_then_probe.
Print Assumptions C11_fetch_order_irrelevant.
Print Assumptions C11_handles_self_ok.
