From SV Require Import Base.ListX Store.Masked World.Env World.Join World.JoinProps World.JoinAbs World.JoinRefine
  World.JoinAbsProps World.EnvSim World.JoinNoStuck World.Simulation World.JoinMask
  Bits.Hibit Bits.HibitIter Bits.HibitOrder Bits.HibitSet Bits.HibitExpr Bits.HibitOps.
From Coq Require Import Sorting.Sorted.
From SV Require Import Props.C06.
Check (C06_ascending_once : forall e eids ms keys, jkeys e eids ms = Some keys ->
  StronglySorted N.lt keys /\ NoDup keys).
Check (C06_exactly_the_intersection : forall e eids ms keys i, jkeys e eids ms = Some keys ->
  (In i keys <-> (forall m, In m ms -> m_has e eids m i = true))).
Check (C06_membership_per_member_kind : forall e eids i,
  (forall sid, m_has e eids (MRead sid) i = NS.mem i (env_mask e sid)) /\
  (forall sid t d, m_has e eids (MWrite sid t d) i = NS.mem i (env_mask e sid)) /\
  (m_has e eids MEntities i = NS.mem i eids) /\
  (forall l, m_has e eids (MBits l) i = existsb (N.eqb i) l) /\
  (forall sid, m_has e eids (MNot sid) i = negb (NS.mem i (env_mask e sid))) /\
  (forall m, m_has e eids (MMaybe m) i = true) /\
  (forall sid a b c d o, m_has e eids (MRestrict sid a b c d o) i = NS.mem i (env_mask e sid)) /\
  (forall k a d, m_has e eids (MChange k a d) i = NM.mem i (cs_get e k)) /\
  (forall sid, m_has e eids (MDrain sid) i = NS.mem i (env_mask e sid)) /\
  (forall bop a b, m_has e eids (MBitOp bop a b) i = bitop_has bop a b i)).
Check (C06_bit_set_combinations : forall a b i,
  bitop_has 0 a b i = existsb (N.eqb i) a && existsb (N.eqb i) b /\
  bitop_has 1 a b i = existsb (N.eqb i) a || existsb (N.eqb i) b /\
  bitop_has 2 a b i = xorb (existsb (N.eqb i) a) (existsb (N.eqb i) b) /\
  bitop_has 3 a b i = negb (existsb (N.eqb i) a)).
Check (C06_join_visits_intersection : forall e av eids hs ms l e',
  env_join e av eids hs (JSeq None) ms = (e', JItems l) ->
  StronglySorted N.lt (map fst l) /\ (forall i, In i (map fst l) <-> all_have e eids ms i = true) /\
  (forall p, In p l -> length (snd p) = length ms)).
Check (C06_early_stop_is_a_prefix : forall e av eids hs ms n l e' keys,
  env_join e av eids hs (JSeq (Some n)) ms = (e', JItems l) -> jkeys e eids ms = Some keys -> map fst l = firstn n keys).
Check (C06_optional_reported_correctly : forall av hs excl eids m i e,
  match snd (m_get av hs excl eids (MMaybe m) i e) with
  | JSome x => m_has e eids m i = true /\ x = snd (m_get av hs excl eids m i e)
  | JNone => m_has e eids m i = false
  | _ => False
  end).
Check (C06_lending_same_indices : forall e av eids hs ms l1 l2 e1 e2,
  env_join e av eids hs (JSeq None) ms = (e1, JItems l1) ->
  env_join e av eids hs (JLend None) ms = (e2, JItems l2) -> map fst l1 = map fst l2).
Check (C06_lending_lookup_by_entity : forall e av eids hs ms h ent,
  join_ok e (JLendGet h) ms = true -> handles_ok hs (JLendGet h) ms = true -> forallb (m_registered e) ms = true ->
  pv_get hs (N.of_nat h) = Some ent ->
  match snd (env_join e av eids hs (JLendGet h) ms) with
  | JOne (Some (i, xs)) => i = fst ent /\ all_have e eids ms (fst ent) = true /\ av_alive av ent = true /\
                           xs = snd (visit_members av hs true eids ms (fst ent) e)
  | JOne None => all_have e eids ms (fst ent) && av_alive av ent = false
  | _ => False
  end).
Check (C06_lending_lookup_by_index : forall e av eids hs ms i,
  join_ok e (JLendIdx i) ms = true -> handles_ok hs (JLendIdx i) ms = true -> forallb (m_registered e) ms = true ->
  match snd (env_join e av eids hs (JLendIdx i) ms) with
  | JOne (Some (j, xs)) => j = i /\ all_have e eids ms i = true /\ xs = snd (visit_members av hs true eids ms i e)
  | JOne None => all_have e eids ms i = false
  | _ => False
  end).
Check (C06_any_storage_kind_joins_like_the_map : forall e1 e2 av eids hs k ms, env_rel e1 e2 ->
  snd (env_join e1 av eids hs k ms) = snd (env_join e2 av eids hs k ms) /\
  env_rel (fst (env_join e1 av eids hs k ms)) (fst (env_join e2 av eids hs k ms))).
Check (C06_same_join_under_both_allocators : forall av1 av2 hs,
  (forall k e, pv_get hs k = Some e -> av_alive av1 e = av_alive av2 e) ->
  (forall i, av_cur_gen av1 i = av_cur_gen av2 i) ->
  forall env eids k ms, env_join env av1 eids hs k ms = env_join env av2 eids hs k ms).
Check (C06_join_refines_the_join_on_maps : forall unit av hs excl eids ms keys e S, absrel unit e S ->
  snd (visit_keys av hs excl eids ms keys e) = snd (a_visit_keys unit av hs excl eids ms keys S) /\
  absrel unit (fst (visit_keys av hs excl eids ms keys e)) (fst (a_visit_keys unit av hs excl eids ms keys S))).
Check (C06_direct_lookup_is_the_cell : forall unit e S sid ms av ent c, absrel unit e S ->
  NM.find sid (se_stores e) = Some ms -> av_alive av ent = true ->
  st_get ms av ent c = (NM.find (fst ent) (as_st S sid), c)).
Check (C06_items_equal_direct_lookups : forall unit av hs excl eids pre m post s keys S, NoDup keys ->
  reads_cell m s = true -> forallb (fun m' => negb (m_owns m' s)) pre = true ->
  forall j xs, In (j, xs) (snd (a_visit_keys unit av hs excl eids (pre ++ m :: post) keys S)) ->
  nth_error xs (length pre) = Some (JTok (tok_of (cell S s j)))).
Check (C06_mutation_lands_on_the_visited_entities_only : forall unit av hs excl eids pre post s touch z keys S j, NoDup keys ->
  forallb (fun m => negb (m_owns m s)) pre = true -> forallb (fun m => negb (m_owns m s)) post = true ->
  cell (fst (a_visit_keys unit av hs excl eids (pre ++ MWrite s touch (Some z) :: post) keys S)) s j =
    if in_dec N.eq_dec j keys then bump (unit s) z (cell S s j) else cell S s j).
Check (C06_other_storages_untouched : forall unit av hs excl eids ms keys S s j, NoDup keys ->
  forallb (fun m => negb (m_owns m s)) ms = true ->
  cell (fst (a_visit_keys unit av hs excl eids ms keys S)) s j = cell S s j).
Check (C06_cells_after_a_join : forall unit av hs excl eids ms keys S s j, NoDup keys ->
  cell (fst (a_visit_keys unit av hs excl eids ms keys S)) s j =
    if in_dec N.eq_dec j keys then members_eff unit ms j s (cell S s j) else cell S s j).
Check (C06_drain_removes_the_visited_only : forall unit av hs excl eids pre post s keys S j, NoDup keys ->
  forallb (fun m => negb (m_owns m s)) pre = true -> forallb (fun m => negb (m_owns m s)) post = true ->
  cell (fst (a_visit_keys unit av hs excl eids (pre ++ MDrain s :: post) keys S)) s j =
    if in_dec N.eq_dec j keys then None else cell S s j).
Check (C06_joins_are_never_stuck : forall e av eids hs k ms, EInv e -> cx_stuck (se_cx e) = false ->
  forallb (m_registered e) ms = true ->
  cx_stuck (se_cx (fst (env_join e av eids hs k ms))) = false /\ EInv (fst (env_join e av eids hs k ms))).
Check (C06_joins_add_no_member : forall e av eids hs k ms sid i,
  NS.mem i (env_mask (fst (env_join e av eids hs k ms)) sid) = true -> NS.mem i (env_mask e sid) = true).
Check (C06_bitset_tracks_the_plain_set : forall ops,
  Forall (fun o => bop_index o < top) ops ->
  represents (fold_left bs_do ops bs_empty) (fold_left ns_do ops NS.empty)).
Check (C06_bitset_iteration_is_the_ascending_element_list : forall s m, represents s m ->
  drain_iter (bs_get s) (S (weight (fresh (bs_get s)))) (fresh (bs_get s)) = Some (NS.elements m)).
Check (C06_mask_iteration_yields_exactly_the_members_in_index_order : forall g P, exact g P ->
  exists out, drain_iter g (S (weight (fresh g))) (fresh g) = Some out /\
              StronglySorted N.lt out /\ forall x, In x out <-> P x).
Check (C06_the_layer_walk_over_a_joins_mask_yields_the_models_keys : forall e eids ms keys g,
  jkeys e eids ms = Some keys -> exact g (fun i => forall m, In m ms -> m_has e eids m i = true) ->
  drain_iter g (S (weight (fresh g))) (fresh g) = Some keys).
