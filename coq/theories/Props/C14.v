(* C14 - Save/load round trip preserves marked entities, components and references.
   Only statements; each proof is [exact <lemma>].  Pins: C14_pins.v.
   Model: SaveLoad/Marker.v, SerDe.v.  [Inv]: the world invariant of C15
   (it holds after every history, Props/C15.v).  Data = list of
   (marker id, list of per-type optional component data); the byte formats
   (serde_json, RON) are outside the model: the correspondence parses the
   bytes back.  [nc] = number of serialised component types. *)
From SV Require Import Alloc.LifeProps SaveLoad.Marker SaveLoad.SerDe SaveLoad.SLOps
  SaveLoad.MarkerProps SaveLoad.SerDeProps SaveLoad.SLProps.
From Coq Require Import Sorting.Permutation.

(* what serialize writes: one record per live marked entity, ids pairwise
   distinct, slot j = the component of type j with entity fields replaced by
   the marker id of the entity referred to *)
Theorem C14_serialize_image : forall w nc d, Inv w -> serialize w nc = Some d ->
  NoDup (map fst d) /\
  (forall e m, mk_get w e = Some m -> exists cs, In (m, cs) d) /\
  (forall m cs, In (m, cs) d -> exists e, mk_get w e = Some m /\ length cs = nc /\
     forall j, (j < nc)%nat -> ser_slot (mk_get w) (st_get w (N.of_nat j) e) (nth j cs None)).
Proof. exact c14_serialize_image. Qed.

(* serialize panics only if a serialised component of a marked entity refers
   to an entity that has no marker (unmarked, or dead) *)
Theorem C14_serialize_panics_only_on_dangling : forall w nc, Inv w -> serialize w nc = None ->
  exists e m j e', mk_get w e = Some m /\ (j < nc)%nat /\ st_get w (N.of_nat j) e = Some (Ref e') /\ mk_get w e' = None.
Proof. exact c14_serialize_panics_only_on_dangling. Qed.

(* the round trip into the empty world, for every order of the records *)
Theorem C14_round_trip : forall src nc d d', Inv src -> serialize src nc = Some d -> Permutation d d' ->
  let tgt := deserialize sl_empty d' in
  Inv tgt /\
  (forall e m, mk_get src e = Some m -> exists t, mk_get tgt t = Some m) /\
  (forall t, w_alive tgt t = true -> exists e, same_marker src tgt e t) /\
  (forall e t, same_marker src tgt e t -> forall j, (j < nc)%nat ->
     comp_rel src tgt (st_get src (N.of_nat j) e) (st_get tgt (N.of_nat j) t)).
Proof. exact round_trip. Qed.

(* "same marker id" is a bijection between the live marked source entities
   and all live target entities (so unmarked entities have no counterpart) *)
Theorem C14_bijection : forall src nc d d', Inv src -> ser_data_spec src nc d -> Permutation d d' ->
  let tgt := deserialize sl_empty d' in
  (forall e m, mk_get src e = Some m -> exists t, same_marker src tgt e t) /\
  (forall t, w_alive tgt t = true -> exists e, same_marker src tgt e t) /\
  (forall e t1 t2, same_marker src tgt e t1 -> same_marker src tgt e t2 -> t1 = t2) /\
  (forall e1 e2 t, same_marker src tgt e1 t -> same_marker src tgt e2 t -> e1 = e2).
Proof. exact c14_bijection. Qed.

(* exactly one target entity per record, i.e. per marked source entity *)
Theorem C14_entity_count : forall src nc d d', Inv src -> ser_data_spec src nc d -> Permutation d d' ->
  length (l_entities (sl_life (deserialize sl_empty d'))) = length d.
Proof. exact c14_entity_count. Qed.

Theorem C14_serialize_data_spec : forall w nc d, Inv w -> serialize w nc = Some d -> ser_data_spec w nc d.
Proof. exact serialize_spec. Qed.

(* serialize_recursive: marks only; when it returns, the marked entities are
   exactly the least set containing the initially marked ones and closed
   under references, and the data is their faithful image, each once *)
Theorem C14_recursive_closure : forall w nc, Inv w ->
  let res := serialize_recursive w nc in
  Inv (fst res) /\ mext w (fst res) /\
  forall d, snd res = Some d ->
    ser_data_spec (fst res) nc d /\ (forall x, mk_get (fst res) x <> None <-> reach w nc x).
Proof. exact serialize_recursive_spec. Qed.

Theorem C14_recursive_round_trip : forall w nc d d', Inv w -> snd (serialize_recursive w nc) = Some d -> Permutation d d' ->
  let src := fst (serialize_recursive w nc) in
  let tgt := deserialize sl_empty d' in
  Inv tgt /\
  (forall e m, mk_get src e = Some m -> exists t, mk_get tgt t = Some m) /\
  (forall t, w_alive tgt t = true -> exists e, same_marker src tgt e t) /\
  (forall e t, same_marker src tgt e t -> forall j, (j < nc)%nat ->
     comp_rel src tgt (st_get src (N.of_nat j) e) (st_get tgt (N.of_nat j) t)).
Proof. exact c14_recursive_round_trip. Qed.

(* the loop of serialize_recursive terminates within the model's fuel: more
   fuel gives the same result, so a [None] is a panic of the code *)
Theorem C14_recursive_fuel_enough : forall w nc fuel', Inv w -> (S (length (l_entities (sl_life w))) <= fuel')%nat ->
  ser_loop fuel' w nc (join_marked w) = serialize_recursive w nc.
Proof. exact serialize_recursive_fuel. Qed.

(* non-vacuity: a cycle 0 <-> 1, a self loop on 2, entity 3 unmarked and not
   referred to; only 0 is marked; the recursive serialiser marks 1 (not 2, 3);
   the records are loaded in reverse order (forward reference) *)
Example C14_nonvacuous :
  let os := [SCreate false; SCreate false; SCreate false; SCreate false;
             SInsert (0, 1%Z) 0 (Plain 42); SInsert (0, 1%Z) 1 (Ref (1, 1%Z)); SInsert (1, 1%Z) 1 (Ref (0, 1%Z));
             SInsert (2, 1%Z) 2 (Ref (2, 1%Z)); SInsert (3, 1%Z) 0 (Plain 7); SMark (0, 1%Z)] in
  let w := sl_run 3 sl_empty os in
  let res := serialize_recursive w 3 in
  let tgt := deserialize sl_empty (rev [(0, [Some (DPlain 42); Some (DRef 1); None]); (1, [None; Some (DRef 0); None])]) in
  serialize w 3 = None /\
  snd res = Some [(0, [Some (DPlain 42); Some (DRef 1); None]); (1, [None; Some (DRef 0); None])] /\
  mk_get (fst res) (1, 1%Z) = Some 1 /\ mk_get (fst res) (2, 1%Z) = None /\
  l_entities (sl_life tgt) = [(0, 1%Z); (1, 1%Z)] /\
  mk_get tgt (0, 1%Z) = Some 1 /\ mk_get tgt (1, 1%Z) = Some 0 /\
  st_get tgt 1 (0, 1%Z) = Some (Ref (1, 1%Z)) /\ st_get tgt 1 (1, 1%Z) = Some (Ref (0, 1%Z)) /\
  st_get tgt 0 (1, 1%Z) = Some (Plain 42).
Proof. vm_compute. repeat split; auto. Qed.

Print Assumptions C14_serialize_image.
Print Assumptions C14_round_trip.
Print Assumptions C14_bijection.
Print Assumptions C14_entity_count.
Print Assumptions C14_recursive_closure.
Print Assumptions C14_recursive_round_trip.
Print Assumptions C14_recursive_fuel_enough.
