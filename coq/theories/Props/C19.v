(* C19 - A panicking component destructor cannot cause a double drop or a
   stale read.  Only statements; each proof is [exact <lemma>].  Pins: C19_pins.v.

   The model (Unwind/Fault.v, Unwind/UWorld.v) carries a fault plan in its
   effects context: the k-th destructor call from now panics (after the value
   was logged as destroyed); the operation then UNWINDS, and what every piece
   of code does while unwinding is modelled: plain loops are abandoned
   (VecStorage::clean, NullStorage::clean, AnyStorage::drop,
   delete_components, hashbrown's drop_elements - the rest is leaked), the
   drop glue of a slice (Vec::clear) and BTreeMap's IntoIter guard go on
   destroying, MaskedStorage::clear has taken the mask before cleaning,
   MaskedStorage::drop has cleared the bit before destroying, values handed
   back by insert/remove are destroyed by the caller.  Every theorem is for
   every raw kind and wrapper, every mask and content, every fault position k
   (k = 0: no fault) and every oracle (hash iteration order, resource
   destruction order).

   C19_LIMITS: (1) what std / hashbrown do while unwinding is modelled, not
   verified; it is tied to the real code by the correspondence check (order of
   destruction and panic point compared exactly).  (2) One fault per
   operation: a destructor panicking while another panic unwinds aborts the
   process by the language's rules.  (3) uid-level statements ("no uid twice")
   are about real uids: the unit value of the null storage (uid 0) and
   Default::default() values (uid 2^40) carry no identity; for them the
   position-level statements hold (pairwise distinct positions, each destroyed
   at most once: C19_clear, C19_drop_components).  (4) After a faulting
   delete the entities are dead while components of later storages remain
   (C19_faulting_delete_leaves); whether that is acceptable is C05's business.
   (5) One state escapes the strong invariant MInv: the destructor of the
   default value of a vacant DefaultVecStorage cell panics inside insert - the
   new value is then in the cell without its mask bit (C19_insert, case None
   with f_pan = true); the weak invariant [MInvP anyP] covers it and suffices
   for every statement below. *)
From SV Require Import Store.Raw Store.RawRefine Store.Masked Store.StoreInv.
From SV Require Import Unwind.Fault Unwind.UWorld Unwind.RelP Unwind.FaultBasics Unwind.CleanProps Unwind.StoreProps
  Unwind.LedgerInv Unwind.UWorldProps Unwind.Summary Unwind.ChangeSet Unwind.ChangeSetProps.

(* ---- with no fault armed the model is the existing one ---- *)

Theorem C19_nofault_clear : forall hord ms c, hord = None \/ hord = Some [] ->
  m_clear_f hord ms (f_of c O) = (fst (m_clear ms c), f_of (snd (m_clear ms c)) O).
Proof. exact m_clear_f_nofault. Qed.

Theorem C19_nofault_drop : forall ids ms c,
  m_drop_all_f ms ids (f_of c O) = (fst (m_drop_all ms ids c), f_of (snd (m_drop_all ms ids c)) O).
Proof. exact m_drop_all_f_nofault. Qed.

Theorem C19_nofault_insert : forall ms av e v c,
  st_insert_f ms av e v (f_of c O) =
  let '(ms1, r, c1) := st_insert ms av e v c in
  (ms1, r, f_of (match r with InsOld old => cx_drop c1 old | _ => c1 end) O).
Proof. exact st_insert_f_nofault. Qed.

Theorem C19_nofault_remove : forall ms av e c,
  st_remove_f ms av e (f_of c O) =
  let '(ms1, o, c1) := st_remove ms av e c in
  (ms1, o, f_of (match o with Some t => cx_drop c1 t | None => c1 end) O).
Proof. exact st_remove_f_nofault. Qed.

(* ---- the invariant: [MInvP (eq default_tok)] is MInv of Store/StoreInv.v ---- *)

Theorem C19_strong_is_MInv : forall ms m, MInvP (eq default_tok) ms m <-> MInv ms m.
Proof. exact MInvP_strong. Qed.

Theorem C19_MInv_implies_weak : forall (P : tok -> Prop) ms m, P default_tok -> MInv ms m -> MInvP P ms m.
Proof. exact MInvP_weaken. Qed.

(* ---- the fault plan: which destructor calls happen ---- *)

(* a loop that is abandoned at the panic destroys exactly the first k elements *)
Theorem C19_abandoned_loop : forall l f, f_pan f = false ->
  cx_drops (fx (f_drop_stop f l)) = rev (map fst (cut (f_arm f) l)) ++ cx_drops (fx f) /\
  cx_stuck (fx (f_drop_stop f l)) = cx_stuck (fx f) /\ cx_mints (fx (f_drop_stop f l)) = cx_mints (fx f) /\
  f_arm (f_drop_stop f l) = (f_arm f - length l)%nat /\
  f_pan (f_drop_stop f l) = fired (f_arm f) (length l).
Proof. exact f_drop_stop_spec. Qed.

(* drop glue that goes on destroys every element, each once *)
Theorem C19_drop_glue : forall l f,
  cx_drops (fx (f_drop_all f l)) = rev (map fst l) ++ cx_drops (fx f) /\
  cx_stuck (fx (f_drop_all f l)) = cx_stuck (fx f) /\ cx_mints (fx (f_drop_all f l)) = cx_mints (fx f) /\
  f_arm (f_drop_all f l) = (f_arm f - length l)%nat /\
  f_pan (f_drop_all f l) = f_pan f || fired (f_arm f) (length l).
Proof. exact f_drop_all_spec. Qed.

(* ---- MaskedStorage::clear (also Drop for MaskedStorage) ---- *)

(* the values visited ([cl]: one per owned position, no position twice), the
   destroyed ones ([ds]: all of them if the kind goes on while unwinding, the
   first k otherwise), the resulting storage: empty mask, MInv, nothing owned *)
Theorem C19_clear : forall (P : tok -> Prop) hord ms m f, MInvP P ms m -> f_pan f = false ->
  exists cl : list (N * tok),
    let ds := if goes_on hord (ms_raw ms) then cl else cut (f_arm f) cl in
    let ms' := fst (m_clear_f hord ms f) in
    let f' := snd (m_clear_f hord ms f) in
    NoDup (map fst cl) /\ (forall i t, In (i, t) cl <-> own ms m i t) /\
    cx_drops (fx f') = rev (map uid_of ds) ++ cx_drops (fx f) /\
    f_pan f' = fired (f_arm f) (length cl) /\ f_arm f' = (f_arm f - length cl)%nat /\
    cx_stuck (fx f') = cx_stuck (fx f) /\
    MInv ms' (NM.empty tok) /\ (forall i t, ~ own ms' (NM.empty tok) i t) /\
    ms_mask ms' = NS.empty /\ ms_chan ms' = ms_chan ms /\ same_shape ms ms' /\
    (match ms_raw ms with RVec _ | RNull => map fst cl = NS.elements (ms_mask ms) | _ => True end).
Proof. exact m_clear_f_spec. Qed.

(* destroyed / leaked, exactly *)
Theorem C19_clear_leaks : forall (P : tok -> Prop) hord ms m f, MInvP P ms m -> f_pan f = false ->
  exists dest leaked : list (N * tok),
    NoDup (map fst (dest ++ leaked)) /\
    (forall i t, In (i, t) (dest ++ leaked) <-> own ms m i t) /\
    cx_drops (fx (snd (m_clear_f hord ms f))) = rev (map uid_of dest) ++ cx_drops (fx f) /\
    (goes_on hord (ms_raw ms) = true -> leaked = []) /\
    (goes_on hord (ms_raw ms) = false ->
       dest = cut (f_arm f) (dest ++ leaked) /\ leaked = leak_of (f_arm f) (dest ++ leaked)) /\
    (f_pan (snd (m_clear_f hord ms f)) = false -> leaked = []) /\
    f_pan (snd (m_clear_f hord ms f)) = fired (f_arm f) (length (dest ++ leaked)) /\
    (forall i t, ~ own (fst (m_clear_f hord ms f)) (NM.empty tok) i t) /\
    MInv (fst (m_clear_f hord ms f)) (NM.empty tok).
Proof. exact clear_leaks. Qed.

(* ---- AnyStorage::drop(&[Entity]) = MaskedStorage::drop of each ---- *)

Theorem C19_drop_components : forall (P : tok -> Prop), P default_tok ->
  forall ids ms m f, MInvP P ms m -> f_pan f = false ->
  let ms' := fst (m_drop_all_f ms ids f) in
  let f' := snd (m_drop_all_f ms ids f) in
  exists (m' : NM.t tok) (ds : list (N * tok)),
    MInvP P ms' m' /\
    NoDup (map fst ds) /\ (forall i t, In (i, t) ds -> NM.find i m = Some t /\ In i ids) /\
    (forall i, NM.find i m' = if in_dec N.eq_dec i (map fst ds) then None else NM.find i m) /\
    cx_drops (fx f') = rev (map uid_of ds) ++ cx_drops (fx f) /\
    (f_pan f' = false -> (forall i, In i ids -> NM.find i m' = None) /\ f_arm f' = (f_arm f - length ds)%nat /\
                          fired (f_arm f) (length ds) = false) /\
    (f_pan f' = true -> length ds = f_arm f /\ f_arm f' = O /\ (1 <= f_arm f)%nat) /\
    cx_stuck (fx f') = cx_stuck (fx f) /\ same_shape ms ms' /\
    (forall i t, own ms' m' i t -> (own ms m i t /\ ~ In i (map fst ds)) \/ t = default_tok).
Proof. exact m_drop_all_f_spec. Qed.

(* ---- Storage::insert / Storage::remove, the destructor runs in the caller ---- *)

Theorem C19_insert : forall (P : tok -> Prop), P default_tok ->
  forall ms m av e v0 f, MInvP P ms m -> f_pan f = false ->
  let v := tnorm ms v0 in
  let id := fst e in
  let ms' := fst (fst (st_insert_f ms av e v0 f)) in
  let r := snd (fst (st_insert_f ms av e v0 f)) in
  let f' := snd (st_insert_f ms av e v0 f) in
  cx_stuck (fx f') = cx_stuck (fx f) /\ same_shape ms ms' /\
  (f_arm f = O -> f_arm f' = O /\ f_pan f' = false) /\
  if av_alive av e then
    match NM.find id m with
    | Some old =>
        r = InsOld old /\ MInvP P ms' (NM.add id v m) /\ cx_drops (fx f') = fst old :: cx_drops (fx f) /\
        f_pan f' = Nat.eqb (f_arm f) 1 /\ ms_mask ms' = ms_mask ms /\
        (forall i t, own ms' (NM.add id v m) i t -> (own ms m i t /\ i <> id) \/ (i = id /\ t = v))
    | None =>
        r = InsNew /\
        (exists ds : list (N * tok),
           (ds = [] \/ exists t0, ds = [(id, t0)] /\ own ms m id t0) /\
           cx_drops (fx f') = rev (map uid_of ds) ++ cx_drops (fx f) /\
           f_pan f' = fired (f_arm f) (length ds)) /\
        (f_pan f' = false -> MInvP P ms' (NM.add id v m) /\ ms_mask ms' = NS.add id (ms_mask ms)) /\
        (f_pan f' = true -> (P v -> MInvP P ms' m) /\ ms_mask ms' = ms_mask ms) /\
        (forall i t, own ms' (if f_pan f' then m else NM.add id v m) i t ->
           (own ms m i t /\ i <> id) \/ (i = id /\ t = v) \/ t = default_tok)
    end
  else ms' = ms /\ r = InsErr (av_cur_gen av id) /\ cx_drops (fx f') = fst v :: cx_drops (fx f) /\
       f_pan f' = Nat.eqb (f_arm f) 1.
Proof. exact st_insert_f_spec. Qed.

Theorem C19_remove : forall (P : tok -> Prop), P default_tok ->
  forall ms m av e f, MInvP P ms m -> f_pan f = false ->
  let id := fst e in
  let ms' := fst (fst (st_remove_f ms av e f)) in
  let o := snd (fst (st_remove_f ms av e f)) in
  let f' := snd (st_remove_f ms av e f) in
  cx_stuck (fx f') = cx_stuck (fx f) /\ same_shape ms ms' /\
  if av_alive av e then
    match NM.find id m with
    | Some t =>
        o = Some t /\ MInvP P ms' (NM.remove id m) /\ cx_drops (fx f') = fst t :: cx_drops (fx f) /\
        f_pan f' = Nat.eqb (f_arm f) 1 /\ ms_mask ms' = NS.remove id (ms_mask ms) /\
        (forall i t', own ms' (NM.remove id m) i t' -> (own ms m i t' /\ i <> id) \/ t' = default_tok)
    | None => o = None /\ ms' = ms /\ f' = f
    end
  else o = None /\ ms' = ms /\ f' = f.
Proof. exact st_remove_f_spec. Qed.

(* ---- lookups, joins, slice views: owned values only ---- *)

Theorem C19_get_returns_owned : forall (P : tok -> Prop) ms m av e c, MInvP P ms m ->
  snd (st_get ms av e c) = c /\
  forall t, fst (st_get ms av e c) = Some t -> NM.find (fst e) m = Some t /\ av_alive av e = true.
Proof. exact st_get_own. Qed.

Theorem C19_join_returns_owned : forall (P : tok -> Prop) ms m c, MInvP P ms m ->
  snd (join_vals (ms_raw ms) (NS.elements (ms_mask ms)) c) = c /\
  forall i t, In (i, t) (fst (join_vals (ms_raw ms) (NS.elements (ms_mask ms)) c)) -> NM.find i m = Some t.
Proof. exact join_own. Qed.

Theorem C19_slice_returns_owned : forall (P : tok -> Prop) ms m c, MInvP P ms m ->
  snd (u_slice (ms_raw ms) (NS.elements (ms_mask ms)) c) = c /\
  forall t, In t (slice_toks (fst (u_slice (ms_raw ms) (NS.elements (ms_mask ms)) c))) -> exists i, own ms m i t.
Proof. exact slice_own. Qed.

(* ---- the world: one operation (any of them, fault armed or not) ---- *)

(* the ledger invariant [LJ P]: every storage satisfies MInvP P, owned values
   carry pairwise distinct real uids, none of them in the ledger, the ledger
   has no real uid twice.  Preserved by every operation; the storage layer is
   never stuck; no output carries a destroyed uid.  For P = eq default_tok this
   is the preservation of MInv by every operation but the one of C19_LIMITS (5) *)
Theorem C19_step : forall (P : tok -> Prop), P default_tok ->
  forall orc w o G L used,
  LJ P (uw_stores w) G L used -> fresh (intro_uids o) used -> orphan_ok P w o (plan w o) ->
  (exists G', LJ P (uw_stores (fst (fst (ustep orc w o)))) G' (cx_drops (fx (snd (ustep orc w o))) ++ L) (intro_uids o ++ used)) /\
  cx_stuck (fx (snd (ustep orc w o))) = false /\
  (forall t, In t (out_toks (snd (fst (ustep orc w o)))) -> real (fst t) = true -> ~ In (fst t) L).
Proof. exact ustep_ok. Qed.

(* ---- the world: whole histories ---- *)

(* NO DOUBLE DROP *)
Theorem C19_no_double_drop : forall orcs os, ndr (hist_uids os) -> ndr (snd (urun orcs uw_init [] os)).
Proof. exact run_no_double_drop. Qed.

Theorem C19_teardown_no_double_drop : forall orcs orc os, ndr (hist_uids os) ->
  ndr (cx_drops (fx (uw_teardown orc (fst (urun orcs uw_init [] os)))) ++ snd (urun orcs uw_init [] os)).
Proof. exact teardown_no_double_drop. Qed.

(* NO STALE READ, and the storage layer is not stuck *)
Theorem C19_no_stale_read : forall orcs orc os o, ndr (hist_uids (os ++ [o])) ->
  let w := fst (urun orcs uw_init [] os) in
  let L := snd (urun orcs uw_init [] os) in
  (forall t, In t (out_toks (snd (fst (ustep orc w o)))) -> real (fst t) = true -> ~ In (fst t) L) /\
  cx_stuck (fx (snd (ustep orc w o))) = false.
Proof. exact run_no_stale_read. Qed.

(* USABLE: the invariant holds after any history *)
Theorem C19_invariant_after_any_history : forall orcs os, ndr (hist_uids os) ->
  exists G, WJ anyP (uw_stores (fst (urun orcs uw_init [] os))) G.
Proof. exact run_invariant. Qed.

(* what a faulting delete_components leaves: components are only removed, only
   those of the deleted entities, only in storages of the table; all of them
   if nothing panicked *)
Theorem C19_faulting_delete_leaves : forall (P : tok -> Prop), P default_tok ->
  forall ids tbl stores G f, WJ P stores G -> f_pan f = false ->
  let stores' := fst (purge_tbl_f stores tbl ids f) in
  let f' := snd (purge_tbl_f stores tbl ids f) in
  (exists G', WJ P stores' G') /\
  (forall sid, match NM.find sid stores, NM.find sid stores' with
               | Some ms, Some ms' => mask_le ids ms ms' /\ (~ In sid tbl -> ms' = ms)
               | None, None => True
               | _, _ => False
               end) /\
  (f_pan f' = false -> forall sid ms', In sid tbl -> NM.find sid stores' = Some ms' ->
     forall i, In i ids -> NS.mem i (ms_mask ms') = false).
Proof. exact purge_masks. Qed.

(* the allocator runs before the purge *)
Theorem C19_delete_kills_first : forall orc w hs es, uhget_all (uw_hs w) hs = Some es ->
  uw_alloc (fst (fst (ustep orc w (UDeleteMany hs)))) = fst (a_kill true (uw_alloc w) es) /\
  uw_hs (fst (fst (ustep orc w (UDeleteMany hs)))) = uw_hs w.
Proof. exact delete_kills_first. Qed.

Theorem C19_maintain_merges_first : forall orc w,
  uw_alloc (fst (fst (ustep orc w UMaintain))) = fst (a_merge (uw_alloc w)).
Proof. exact maintain_merges_first. Qed.

Theorem C19_other_storages_untouched : forall orc w sid sid',
  sid' <> sid ->
  NM.find sid' (uw_stores (fst (fst (ustep orc w (UClear sid))))) = NM.find sid' (uw_stores w) /\
  NM.find sid' (uw_stores (fst (fst (ustep orc w (UDropStorage sid))))) = NM.find sid' (uw_stores w) /\
  (forall h, NM.find sid' (uw_stores (fst (fst (ustep orc w (URemove sid h))))) = NM.find sid' (uw_stores w)) /\
  (forall h v, NM.find sid' (uw_stores (fst (fst (ustep orc w (UInsert sid h v))))) = NM.find sid' (uw_stores w)).
Proof. exact other_storages_untouched. Qed.

(* ---- specs::ChangeSet (src/changeset.rs): clear is [m_clear_f] on the dense
   kind (C19_clear applies verbatim: ChangeSet.v, cs_step_core); add: ---- *)

Theorem C19_changeset_add : forall ms m id v f, MInvP csP ms m -> cs_shape ms -> f_pan f = false ->
  let ms' := fst (cs_add_f ms id v f) in
  let f' := snd (cs_add_f ms id v f) in
  cs_shape ms' /\ cx_stuck (fx f') = cx_stuck (fx f) /\
  match NM.find id m with
  | Some old =>
      MInvP csP ms' (NM.add id (fst old, (snd old + snd v)%Z) m) /\
      cx_drops (fx f') = fst v :: cx_drops (fx f) /\ f_pan f' = Nat.eqb (f_arm f) 1 /\
      (forall i t, own ms' (NM.add id (fst old, (snd old + snd v)%Z) m) i t ->
         (own ms m i t /\ i <> id) \/ (i = id /\ t = (fst old, (snd old + snd v)%Z)))
  | None =>
      MInvP csP ms' (NM.add id v m) /\ cx_drops (fx f') = cx_drops (fx f) /\ f_pan f' = false /\
      (forall i t, own ms' (NM.add id v m) i t -> (own ms m i t /\ i <> id) \/ (i = id /\ t = v))
  end.
Proof. exact cs_add_f_spec. Qed.

Theorem C19_changeset_no_double_drop : forall os, ndr (cs_hist_uids os) ->
  ndr (snd (cs_run cs_init [] os)) /\
  ndr (cx_drops (fx (cs_teardown (fst (cs_run cs_init [] os)))) ++ snd (cs_run cs_init [] os)).
Proof. exact cs_no_double_drop. Qed.

Theorem C19_changeset_no_stale_read : forall os o, ndr (cs_hist_uids (os ++ [o])) ->
  let s := fst (cs_run cs_init [] os) in
  let L := snd (cs_run cs_init [] os) in
  (forall t, In t (out_toks (snd (fst (cs_step s o)))) -> real (fst t) = true -> ~ In (fst t) L) /\
  cx_stuck (fx (snd (cs_step s o))) = false.
Proof. exact cs_no_stale_read. Qed.

Print Assumptions C19_no_double_drop.
Print Assumptions C19_teardown_no_double_drop.
Print Assumptions C19_no_stale_read.
Print Assumptions C19_step.
Print Assumptions C19_clear.
Print Assumptions C19_drop_components.
Print Assumptions C19_insert.
Print Assumptions C19_faulting_delete_leaves.
Print Assumptions C19_changeset_no_double_drop.

(* ---- non-vacuity: the panic really happens mid-way ---- *)

Definition ex_ms (k : kind) : mstore :=
  fst (not_present_insert (fst (not_present_insert (fst (not_present_insert (ms_new k WPlain false)
    0 (101, 1%Z) cx0)) 1 (102, 1%Z) cx0)) 2 (103, 1%Z) cx0).

(* VecStorage: the second of three destructors panics: two destroyed, the third leaked, the mask empty *)
Example C19_vec_panics_midway :
  (let '(ms', f') := m_clear_f None (ex_ms KVec) (f_of cx0 2) in
   (rev (cx_drops (fx f')), f_pan f', NS.elements (ms_mask ms'))) = ([101; 102], true, []).
Proof. vm_compute. reflexivity. Qed.

(* DenseVecStorage: the drop glue of Vec::clear destroys the third as well; the tables are empty *)
Example C19_dense_panics_midway :
  (let '(ms', f') := m_clear_f None (ex_ms KDense) (f_of cx0 2) in
   (rev (cx_drops (fx f')), f_pan f', NS.elements (ms_mask ms'),
    match ms_raw ms' with RDense s => (vlen (d_data s), vlen (d_eid s), vlen (d_did s)) | _ => (9, 9, 9) end))
  = ([101; 102; 103], true, [], (0, 0, 0)).
Proof. vm_compute. reflexivity. Qed.

(* HashMap iterated in the order 103, 101, 102: the fault at the second call leaks 102 *)
Example C19_hash_panics_midway :
  (let '(ms', f') := m_clear_f (Some [103; 101]) (ex_ms KHash) (f_of cx0 2) in
   (rev (cx_drops (fx f')), f_pan f', NS.elements (ms_mask ms'))) = ([103; 101], true, []).
Proof. vm_compute. reflexivity. Qed.

(* delete_entities of two entities with components in three storages (Vec,
   Dense, HashMap), the second destructor call panics: both entities are dead,
   the Vec storage is purged, the two others keep their components; the world
   goes on (masks, lookups, join, slice) and the final teardown destroys the
   four remaining values once.  The transcript is the real implementation's. *)
Example C19_faulting_delete_transcript :
  utr [] uw_init (decode_uhistory
    [50;1;0; 50;1;1; 50;1;3; 1;9;0;101;1;1;102;1;3;103;1; 1;9;0;104;1;1;105;1;3;106;1; 2;1;2; 11;2;0;1;
     24;0; 37;1;0; 37;1;1; 32;1;1; 80;1;1; 38;1;1]%Z) =
  [[7]; [10;0;0]; [7]; [10;0;0]; [7]; [10;0;0]; [1;0;1]; [10;0;0]; [1;1;1]; [10;0;0]; [7]; [10;0;0];
   [29]; [10;1;2;101;104]; [5;2;0;0]; [10;0;0]; [14;0]; [10;0;0]; [14;2;0;1]; [10;0;0]; [22;2;0;0]; [10;0;0];
   [21;2;0;102;1;1;105;1]; [10;0;0]; [17;2;2;102;1;105;1]; [10;0;0]; [90;0;4;102;103;105;106]]%Z.
Proof. vm_compute. reflexivity. Qed.

(* C19_LIMITS (5): DefaultVecStorage, insert into a vacant cell whose default
   value's destructor panics: the new value 102 sits in cell 0 without a mask
   bit (mask = {1}, slice = [102; 101]); the next clear destroys it once *)
Example C19_default_orphan_transcript :
  utr [] uw_init (decode_uhistory
    [50;1;2; 1;0; 1;3;2;101;1; 2;1;1; 30;4;2;0;102;5; 37;1;2; 38;1;2; 39;1;2]%Z) =
  [[7]; [10;0;0]; [1;0;1]; [10;0;0]; [1;1;1]; [10;0;0]; [7]; [10;0;0]; [29]; [10;1;1;1099511627776];
   [14;1;1]; [10;0;0]; [17;2;2;102;5;101;1]; [10;0;0]; [7]; [10;0;2;102;101]; [90;0;0]]%Z.
Proof. vm_compute. reflexivity. Qed.

(* a ChangeSet with three values; `+=` onto a present entry with the fault armed:
   the argument 104 is destroyed and panics, the entry has grown (15); then
   clear with the fault at the second destructor: all three destroyed (drop
   glue), the changeset is empty and usable.  The transcript is the real
   implementation's. *)
Example C19_changeset_transcript :
  cs_transcript
    [81;0; 1;0; 1;0; 1;0; 82;3;0;101;5; 82;3;2;102;7; 82;3;1;103;1; 2;1;1; 82;3;0;104;10; 86;0; 2;1;2; 85;0; 86;0;
     82;3;1;105;1]%Z =
  [[7]; [10;0;0]; [1;0;1]; [10;0;0]; [1;1;1]; [10;0;0]; [1;2;1]; [10;0;0]; [7]; [10;0;0]; [7]; [10;0;0]; [7]; [10;0;0];
   [7]; [10;0;0]; [29]; [10;1;1;104]; [21;3;0;101;15;1;103;1;2;102;7]; [10;0;0]; [7]; [10;0;0];
   [29]; [10;1;3;101;102;103]; [21;0]; [10;0;0]; [7]; [10;0;0]; [90;0;1;105]]%Z.
Proof. vm_compute. reflexivity. Qed.
