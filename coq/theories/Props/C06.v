(* C06 - A join visits exactly the intersection, once each, in index order. *)
From SV Require Import Base.ListX Store.Masked World.Env World.Join World.JoinProps World.JoinAbs World.JoinRefine
  World.JoinAbsProps World.EnvSim World.JoinNoStuck World.Simulation World.JoinMask
  Bits.Hibit Bits.HibitIter Bits.HibitOrder Bits.HibitSet Bits.HibitExpr Bits.HibitOps.
From Coq Require Import Sorting.Sorted.

(* the keys of a join are strictly ascending: index order, each index once *)
Theorem C06_ascending_once : forall e eids ms keys, jkeys e eids ms = Some keys ->
  StronglySorted N.lt keys /\ NoDup keys.
Proof. intros e eids ms keys H. split; [eapply jkeys_ascending | eapply jkeys_once]; eassumption. Qed.

(* exactly the intersection: an index is visited iff every member has it *)
Theorem C06_exactly_the_intersection : forall e eids ms keys i, jkeys e eids ms = Some keys ->
  (In i keys <-> (forall m, In m ms -> m_has e eids m i = true)).
Proof. intros e eids ms keys i H. rewrite (jkeys_exact e eids ms keys i H). apply all_have_spec. Qed.

(* what "has" means per member kind: required members must contain the index, negated storages
   must not, optional members never constrain *)
Theorem C06_membership_per_member_kind : forall e eids i,
  (forall sid, m_has e eids (MRead sid) i = NS.mem i (env_mask e sid)) /\
  (forall sid t d, m_has e eids (MWrite sid t d) i = NS.mem i (env_mask e sid)) /\
  (m_has e eids MEntities i = NS.mem i eids) /\
  (forall l, m_has e eids (MBits l) i = existsb (N.eqb i) l) /\
  (forall sid, m_has e eids (MNot sid) i = negb (NS.mem i (env_mask e sid))) /\
  (forall m, m_has e eids (MMaybe m) i = true) /\
  (forall sid a b c d o, m_has e eids (MRestrict sid a b c d o) i = NS.mem i (env_mask e sid)) /\
  (forall k a d, m_has e eids (MChange k a d) i = NM.mem i (cs_get e k)) /\
  (forall sid, m_has e eids (MDrain sid) i = NS.mem i (env_mask e sid)) /\
  (forall bop a b, m_has e eids (MBitOp bop a b) i = bitop_has bop a b i).
Proof. intros e eids i. repeat split. Qed.

(* combinations of bit sets: intersection, union, symmetric difference, complement *)
Theorem C06_bit_set_combinations : forall a b i,
  bitop_has 0 a b i = existsb (N.eqb i) a && existsb (N.eqb i) b /\
  bitop_has 1 a b i = existsb (N.eqb i) a || existsb (N.eqb i) b /\
  bitop_has 2 a b i = xorb (existsb (N.eqb i) a) (existsb (N.eqb i) b) /\
  bitop_has 3 a b i = negb (existsb (N.eqb i) a).
Proof. intros a b i. repeat split. Qed.

(* the whole join: the items' indices are the intersection in ascending order, one item per member *)
Theorem C06_join_visits_intersection : forall e av eids hs ms l e',
  env_join e av eids hs (JSeq None) ms = (e', JItems l) ->
  StronglySorted N.lt (map fst l) /\ (forall i, In i (map fst l) <-> all_have e eids ms i = true) /\
  (forall p, In p l -> length (snd p) = length ms).
Proof. exact join_visits_intersection. Qed.

(* dropping the iterator early visits a prefix *)
Theorem C06_early_stop_is_a_prefix : forall e av eids hs ms n l e' keys,
  env_join e av eids hs (JSeq (Some n)) ms = (e', JItems l) -> jkeys e eids ms = Some keys -> map fst l = firstn n keys.
Proof. exact join_take_prefix. Qed.

(* optional members are reported present exactly when they have the index *)
Theorem C06_optional_reported_correctly : forall av hs excl eids m i e,
  match snd (m_get av hs excl eids (MMaybe m) i e) with
  | JSome x => m_has e eids m i = true /\ x = snd (m_get av hs excl eids m i e)
  | JNone => m_has e eids m i = false
  | _ => False
  end.
Proof. exact maybe_item. Qed.

(* the lending variant visits the same indices *)
Theorem C06_lending_same_indices : forall e av eids hs ms l1 l2 e1 e2,
  env_join e av eids hs (JSeq None) ms = (e1, JItems l1) ->
  env_join e av eids hs (JLend None) ms = (e2, JItems l2) -> map fst l1 = map fst l2.
Proof. exact lend_join_same_indices. Qed.

(* its lookup by entity returns an item exactly when the entity is alive and in the intersection *)
Theorem C06_lending_lookup_by_entity : forall e av eids hs ms h ent,
  join_ok e (JLendGet h) ms = true -> handles_ok hs (JLendGet h) ms = true -> forallb (m_registered e) ms = true ->
  pv_get hs (N.of_nat h) = Some ent ->
  match snd (env_join e av eids hs (JLendGet h) ms) with
  | JOne (Some (i, xs)) => i = fst ent /\ all_have e eids ms (fst ent) = true /\ av_alive av ent = true /\
                           xs = snd (visit_members av hs true eids ms (fst ent) e)
  | JOne None => all_have e eids ms (fst ent) && av_alive av ent = false
  | _ => False
  end.
Proof. exact lend_get_spec. Qed.

Theorem C06_lending_lookup_by_index : forall e av eids hs ms i,
  join_ok e (JLendIdx i) ms = true -> handles_ok hs (JLendIdx i) ms = true -> forallb (m_registered e) ms = true ->
  match snd (env_join e av eids hs (JLendIdx i) ms) with
  | JOne (Some (j, xs)) => j = i /\ all_have e eids ms i = true /\ xs = snd (visit_members av hs true eids ms i e)
  | JOne None => all_have e eids ms i = false
  | _ => False
  end.
Proof. exact lend_get_unchecked_spec. Qed.

(* every storage kind joins like the plain map: same items, related final states *)
Theorem C06_any_storage_kind_joins_like_the_map : forall e1 e2 av eids hs k ms, env_rel e1 e2 ->
  snd (env_join e1 av eids hs k ms) = snd (env_join e2 av eids hs k ms) /\
  env_rel (fst (env_join e1 av eids hs k ms)) (fst (env_join e2 av eids hs k ms)).
Proof. exact env_join_rel. Qed.

(* the join sees the allocator only through is_alive of handles and entity(index): the faithful
   allocator and the lifecycle specification give the same join *)
Theorem C06_same_join_under_both_allocators : forall av1 av2 hs,
  (forall k e, pv_get hs k = Some e -> av_alive av1 e = av_alive av2 e) ->
  (forall i, av_cur_gen av1 i = av_cur_gen av2 i) ->
  forall env eids k ms, env_join env av1 eids hs k ms = env_join env av2 eids hs k ms.
Proof. exact env_join_cong. Qed.


(* ---- what the items carry and what a mutation changes: on the maps the storages represent ---- *)
(* [absrel unit e S]: S gives, for every registered storage of e, the map (index -> value) it represents.
   The join on the real storages and the join on these maps yield the same items and stay related *)
Theorem C06_join_refines_the_join_on_maps : forall unit av hs excl eids ms keys e S, absrel unit e S ->
  snd (visit_keys av hs excl eids ms keys e) = snd (a_visit_keys unit av hs excl eids ms keys S) /\
  absrel unit (fst (visit_keys av hs excl eids ms keys e)) (fst (a_visit_keys unit av hs excl eids ms keys S)).
Proof. exact visit_keys_abs. Qed.

(* ... and a direct lookup (Storage::get of a live entity) returns the cell of the map *)
Theorem C06_direct_lookup_is_the_cell : forall unit e S sid ms av ent c, absrel unit e S ->
  NM.find sid (se_stores e) = Some ms -> av_alive av ent = true ->
  st_get ms av ent c = (NM.find (fst ent) (as_st S sid), c).
Proof. exact direct_lookup_is_the_cell. Qed.

(* each item carries that index's own component, equal to a direct lookup: a storage member whose predecessors in
   the tuple do not own its storage hands out, for every visited index, the value the storage held for that index *)
Theorem C06_items_equal_direct_lookups : forall unit av hs excl eids pre m post s keys S, NoDup keys ->
  reads_cell m s = true -> forallb (fun m' => negb (m_owns m' s)) pre = true ->
  forall j xs, In (j, xs) (snd (a_visit_keys unit av hs excl eids (pre ++ m :: post) keys S)) ->
  nth_error xs (length pre) = Some (JTok (tok_of (cell S s j))).
Proof. exact join_items_are_the_initial_cells. Qed.

(* a mutation made through an item is visible afterwards on that entity and on no other: the visited cells of the
   written storage get the change exactly once, its other cells keep their values ... *)
Theorem C06_mutation_lands_on_the_visited_entities_only : forall unit av hs excl eids pre post s touch z keys S j, NoDup keys ->
  forallb (fun m => negb (m_owns m s)) pre = true -> forallb (fun m => negb (m_owns m s)) post = true ->
  cell (fst (a_visit_keys unit av hs excl eids (pre ++ MWrite s touch (Some z) :: post) keys S)) s j =
    if in_dec N.eq_dec j keys then bump (unit s) z (cell S s j) else cell S s j.
Proof. exact join_write_lands_on_the_visited_cells_only. Qed.

(* ... and every storage that no member owns (all storages, for a join that only reads) is not changed at all *)
Theorem C06_other_storages_untouched : forall unit av hs excl eids ms keys S s j, NoDup keys ->
  forallb (fun m => negb (m_owns m s)) ms = true ->
  cell (fst (a_visit_keys unit av hs excl eids ms keys S)) s j = cell S s j.
Proof. exact join_leaves_unowned_storages_alone. Qed.

(* in general: a cell outside the visited indices is untouched, a visited cell receives the effects of the members *)
Theorem C06_cells_after_a_join : forall unit av hs excl eids ms keys S s j, NoDup keys ->
  cell (fst (a_visit_keys unit av hs excl eids ms keys S)) s j =
    if in_dec N.eq_dec j keys then members_eff unit ms j s (cell S s j) else cell S s j.
Proof. exact a_visit_keys_cell. Qed.

(* a drain removes exactly the visited components *)
Theorem C06_drain_removes_the_visited_only : forall unit av hs excl eids pre post s keys S j, NoDup keys ->
  forallb (fun m => negb (m_owns m s)) pre = true -> forallb (fun m => negb (m_owns m s)) post = true ->
  cell (fst (a_visit_keys unit av hs excl eids (pre ++ MDrain s :: post) keys S)) s j =
    if in_dec N.eq_dec j keys then None else cell S s j.
Proof. exact join_drain_removes_the_visited_cells_only. Qed.

(* a join never accesses a slot that is not there: with registered members, every storage fetched mutably at most
   once per tuple (join_ok) and the keys taken from the masks, no storage access of the join is ever stuck (no
   unchecked get on an absent index, no "tried to access same index twice"), and the storages stay well formed *)
Theorem C06_joins_are_never_stuck : forall e av eids hs k ms, EInv e -> cx_stuck (se_cx e) = false ->
  forallb (m_registered e) ms = true ->
  cx_stuck (se_cx (fst (env_join e av eids hs k ms))) = false /\ EInv (fst (env_join e av eids hs k ms)).
Proof. exact env_join_never_stuck. Qed.

(* ... and no membership is ever added by a join (drains remove, nothing else changes a mask) *)
Theorem C06_joins_add_no_member : forall e av eids hs k ms sid i,
  NS.mem i (env_mask (fst (env_join e av eids hs k ms)) sid) = true -> NS.mem i (env_mask e sid) = true.
Proof. intros e av eids hs k ms sid i. apply env_join_masks_shrink. Qed.

(* non-vacuity: a sparse two-storage world joined with a negation and an optional member *)
Example C06_nonvacuous :
  let e0 := env_register (env_register (env_init false) 0) 3 in
  let av := {| av_alive := fun _ => true; av_cur_gen := fun _ => 1%Z; av_err_gen := fun _ => 1%Z |} in
  let ins e sid i v := fst (env_sop e av (pv_push pv_empty (i, 1%Z)) (SInsert sid 0%nat v)) in
  let e := ins (ins (ins (ins e0 0 1 (10, 1%Z)) 0 64 (11, 2%Z)) 0 4096 (12, 3%Z)) 3 64 (13, 4%Z) in
  snd (env_join e av (bits_of [1; 64; 4096]) pv_empty (JSeq None) [MRead 0; MEntities; MMaybe (MRead 3)]) =
    JItems [(1, [JTok (10, 1%Z); JEnt (1, 1%Z); JNone]);
            (64, [JTok (11, 2%Z); JEnt (64, 1%Z); JSome (JTok (13, 4%Z))]);
            (4096, [JTok (12, 3%Z); JEnt (4096, 1%Z); JNone])] /\
  snd (env_join e av (bits_of [1; 64; 4096]) pv_empty (JSeq None) [MRead 0; MNot 3]) =
    JItems [(1, [JTok (10, 1%Z); JUnit]); (4096, [JTok (12, 3%Z); JUnit])].
Proof. vm_compute. split; reflexivity. Qed.

(* ---- the masks themselves.  The storage and join models keep a mask as a plain finite set and enumerate it in
   ascending order; the implementation keeps it in a four-layer bit set and walks the layers.  For every sequence of
   add / remove (indices below 2^24), from the empty set: the layers stay consistent, membership is that of the plain
   set, and the layer-walking iterator terminates having yielded exactly the plain set's elements in the model's
   order - also for indices that straddle the 64 / 4096 / 262144 boundaries, since the statement is for all ---- *)
Theorem C06_bitset_tracks_the_plain_set : forall ops,
  Forall (fun o => bop_index o < top) ops ->
  represents (fold_left bs_do ops bs_empty) (fold_left ns_do ops NS.empty).
Proof. intros ops F. apply represents_ops; [apply represents_empty|exact F]. Qed.

Theorem C06_bitset_iteration_is_the_ascending_element_list : forall s m, represents s m ->
  drain_iter (bs_get s) (S (weight (fresh (bs_get s)))) (fresh (bs_get s)) = Some (NS.elements m).
Proof. exact bitset_iteration_is_elements. Qed.

(* the masks of joins are combinations of such sets: a & b (tuples), a | b (alive or created this frame), !a (negated
   members), a ^ b.  Each stands for the combination of the memberships ... *)
Theorem C06_combined_masks_stand_for_the_combined_membership :
  (forall s, bs_inv s -> exact (bs_get s) (mem s)) /\
  (forall a b P Q, exact a P -> exact b Q -> exact (g_and a b) (fun x => P x /\ Q x)) /\
  (forall a b P Q, exact a P -> exact b Q -> exact (g_or a b) (fun x => P x \/ Q x)) /\
  (forall a P, exact a P -> exact (g_not a) (fun x => x < top /\ ~ P x)) /\
  (forall a b P Q, exact a P -> exact b Q -> exact (g_xor a b) (fun x => (P x \/ Q x) /\ (x < top /\ ~ (P x /\ Q x)))).
Proof. split; [exact exact_bitset|]. split; [exact exact_and|]. split; [exact exact_or|]. split; [exact exact_not|exact exact_xor]. Qed.

(* ... and iterating it terminates with exactly the indices that satisfy it, strictly ascending (each once) *)
Theorem C06_mask_iteration_yields_exactly_the_members_in_index_order : forall g P, exact g P ->
  exists out, drain_iter g (S (weight (fresh g))) (fresh g) = Some out /\
              StronglySorted N.lt out /\ forall x, In x out <-> P x.
Proof. exact iteration_exact. Qed.

(* so the layer walk over the mask of a join - any layered representation that stands for "every member has the index" -
   terminates having produced the very key list of the join model, the one all the theorems above are about *)
Theorem C06_the_layer_walk_over_a_joins_mask_yields_the_models_keys : forall e eids ms keys g,
  jkeys e eids ms = Some keys -> exact g (fun i => forall m, In m ms -> m_has e eids m i = true) ->
  drain_iter g (S (weight (fresh g))) (fresh g) = Some keys.
Proof. exact layer_walk_is_jkeys. Qed.

Example C06_mask_nonvacuous :
  let a := fold_left bs_do [BAdd 63; BAdd 64; BAdd 4095; BAdd 4096; BAdd 262143; BAdd 262144; BAdd 7; BRemove 7; BAdd 16777215] bs_empty in
  let b := fold_left bs_do [BAdd 64; BAdd 4096; BAdd 9; BAdd 262144; BRemove 262144] bs_empty in
  drain_iter (bs_get a) 100 (fresh (bs_get a)) = Some [63; 64; 4095; 4096; 262143; 262144; 16777215] /\
  drain_iter (g_and (bs_get a) (g_not (bs_get b))) 100 (fresh (g_and (bs_get a) (g_not (bs_get b)))) = Some [63; 4095; 262143; 262144; 16777215] /\
  b3 (fold_left bs_do [BAdd 300000; BRemove 300000] bs_empty) = [].
Proof. vm_compute. repeat split; reflexivity. Qed.


Print Assumptions C06_ascending_once.
Print Assumptions C06_exactly_the_intersection.
Print Assumptions C06_membership_per_member_kind.
Print Assumptions C06_bit_set_combinations.
Print Assumptions C06_join_visits_intersection.
Print Assumptions C06_early_stop_is_a_prefix.
Print Assumptions C06_optional_reported_correctly.
Print Assumptions C06_lending_same_indices.
Print Assumptions C06_lending_lookup_by_entity.
Print Assumptions C06_lending_lookup_by_index.
Print Assumptions C06_any_storage_kind_joins_like_the_map.
Print Assumptions C06_same_join_under_both_allocators.
Print Assumptions C06_join_refines_the_join_on_maps.
Print Assumptions C06_direct_lookup_is_the_cell.
Print Assumptions C06_items_equal_direct_lookups.
Print Assumptions C06_mutation_lands_on_the_visited_entities_only.
Print Assumptions C06_other_storages_untouched.
Print Assumptions C06_cells_after_a_join.
Print Assumptions C06_drain_removes_the_visited_only.
Print Assumptions C06_joins_are_never_stuck.
Print Assumptions C06_joins_add_no_member.
Print Assumptions C06_bitset_tracks_the_plain_set.
Print Assumptions C06_bitset_iteration_is_the_ascending_element_list.
Print Assumptions C06_combined_masks_stand_for_the_combined_membership.
Print Assumptions C06_mask_iteration_yields_exactly_the_members_in_index_order.
Print Assumptions C06_the_layer_walk_over_a_joins_mask_yields_the_models_keys.
