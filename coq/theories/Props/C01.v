(* C01 - Entity handles are unique for the whole life of a world.
   Only statements; each proof is [exact <lemma>].  Pins: C01_pins.v. *)
From SV Require Import Alloc.LifeProps Alloc.AllocRefine World.WorldSpec World.Simulation World.Micro.

(* every transcript the lifecycle specification accepts: no handle twice,
   over all creation paths, any length *)
Theorem C01_handles_unique : forall tr, saccept s_init tr 0 = None -> NoDup (all_returned tr).
Proof. exact accepted_handles_unique. Qed.

(* at no moment do two not-yet-dead entities share an index *)
Theorem C01_one_per_index : forall s e1 e2,
  l_is_alive s e1 = true -> l_is_alive s e2 = true -> fst e1 = fst e2 -> e1 = e2.
Proof. exact life_one_per_index. Qed.

(* the faithful model of the code is accepted by the specification on every history *)
Theorem C01_faithful_refines_spec : forall os,
  saccept s_init (combine os (snd (wrun true w_init os))) 0 = None.
Proof. intros os. exact (proj1 (wrun_accepted os w_init s_init 0%nat RW_init)). Qed.

(* ... and neither the allocator nor the world-level glue (unwrap/expect/assert) ever panics *)
Theorem C01_faithful_never_stuck : forall os, w_alloc_stuck (fst (wrun true w_init os)) = false.
Proof. exact wrun_never_stuck. Qed.

(* non-vacuity: a history with reuse of an index, deferred creation and a
   failing batch is accepted, and does return a handle with generation 2 *)
Example C01_nonvacuous :
  let os := [OCreateIter 3; ODeleteMany [0%nat; 1%nat; 0%nat]; OECreate; OCreateDropped []; OMaintain; OCreate []] in
  let tr := combine os (snd (wrun true w_init os)) in
  saccept s_init tr 0 = None /\ In (1, 2%Z) (all_returned tr) /\ length (all_returned tr) = 6%nat.
Proof. vm_compute. repeat split; auto 10. Qed.

Print Assumptions C01_handles_unique.
Print Assumptions C01_one_per_index.
Print Assumptions C01_faithful_refines_spec.
Print Assumptions C01_faithful_never_stuck.
