(* C09 - Maintain applies deferred work exactly once, in order, after merging entities. *)
From SV Require Import Store.Raw Store.Masked Store.DeadHandle World.Lazy World.LazyProps World.World.
From SV Require Import Checkers.Driver.

(* maintain = the merge of deferred creations/deletions with the purge of the deleted entities'
   components (the direct OMaintain step), and only then the queued actions *)
Theorem C09_actions_after_merge_and_purge : forall st os,
  flatten_from st (OMaintain :: os) =
  OMaintain :: snd (drain (S (qsize (f_queue st))) st) ++ flatten_from (fst (drain (S (qsize (f_queue st))) st)) os.
Proof. exact maintain_then_actions. Qed.

(* FIFO and exactly once: the actions run by a maintain are the queue as it was, followed by the
   actions queued by running actions, in the order in which they were queued *)
Theorem C09_fifo_exactly_once : forall fuel st, (qsize (f_queue st) <= fuel)%nat ->
  fst (drain_log fuel st) = f_queue st ++ snd (drain_log fuel st).
Proof. exact drain_fifo. Qed.

(* what is performed: the operations of the popped actions, each once, in order *)
Theorem C09_performs_popped_actions : forall fuel st,
  snd (drain fuel st) = flat_map (map norm) (fst (drain_log fuel st)).
Proof. exact drain_performs. Qed.

Theorem C09_action_runs_its_operations : forall st a, snd (run_action st a) = map norm a.
Proof. exact action_runs_its_operations. Qed.

(* nothing queued is left over once maintain returns (the fuel the model uses is enough) *)
Theorem C09_queue_empty_after_maintain : forall st, f_queue (fst (drain (S (qsize (f_queue st))) st)) = [].
Proof. exact maintain_leaves_queue_empty. Qed.

(* a lazy insertion or removal is the generation-checked Storage operation: applied iff the target is
   alive when it runs; on a dead target nothing changes except that the carried value is destroyed *)
Theorem C09_lazy_insert_on_dead_target : forall ms av e v c, av_alive av e = false ->
  st_insert ms av e v c = (ms, InsErr (av_cur_gen av (fst e)), cx_drop c (tnorm ms v)) /\
  st_remove ms av e c = (ms, None, c).
Proof. intros ms av e v c H. split; [apply dead_insert | apply dead_remove]; exact H. Qed.

(* a history without lazy operations is performed as written *)
Theorem C09_plain_history_unchanged : forall os st, f_queue st = [] -> forallb no_lazy os = true -> flatten_from st os = os.
Proof. exact flatten_plain. Qed.

(* non-vacuity: nested closures, FIFO order, an action queued by a running action runs in the same
   maintain, a lazy insert whose target died in the same frame is skipped and its value destroyed *)
Example C09_nonvacuous :
  let os := [OStore (SRegister 0); OCreateIter 2;
             OLazyInsert 0 0%nat (1, 10%Z);
             OLazyExec [OStore (SGet 0 0%nat); OLazyExec [OStore (SGet 0 1%nat)]; OLazyInsert 0 1%nat (2, 20%Z)];
             OLazyInsert 0 1%nat (3, 30%Z); OEDelete 0%nat; OMaintain; OStore (SMask 0)] in
  flatten os =
    [OStore (SRegister 0); OCreateIter 2; OLazyInsert 0 0%nat (1, 10%Z);
     OLazyExec [OStore (SGet 0 0%nat); OLazyExec [OStore (SGet 0 1%nat)]; OLazyInsert 0 1%nat (2, 20%Z)];
     OLazyInsert 0 1%nat (3, 30%Z); OEDelete 0%nat; OMaintain;
     OQuiet (SInsert 0 0%nat (1, 10%Z));
     OStore (SGet 0 0%nat); OLazyExec [OStore (SGet 0 1%nat)]; OLazyInsert 0 1%nat (2, 20%Z);
     OQuiet (SInsert 0 1%nat (3, 30%Z));
     OStore (SGet 0 1%nat);
     OQuiet (SInsert 0 1%nat (2, 20%Z));
     OStore (SMask 0)] /\
  skipn 12 (enc_run true w_init None (flatten os)) =
    [ [7%Z]; [10%Z; 0%Z; 1%Z; 1%Z];                       (* Maintain; the insert on the dead target destroyed value 1 *)
      [12%Z; 0%Z]; [10%Z; 0%Z; 0%Z];                      (* Get h0: absent *)
      [7%Z]; [10%Z; 0%Z; 0%Z];                            (* queue the nested closure *)
      [7%Z]; [10%Z; 0%Z; 0%Z];                            (* queue a lazy insert from inside the closure; then value 3 goes in *)
      [12%Z; 1%Z; 3%Z; 30%Z]; [10%Z; 0%Z; 1%Z; 3%Z];      (* nested closure sees 3; then value 2 replaces it: 3 destroyed *)
      [14%Z; 1%Z; 1%Z]; [10%Z; 0%Z; 0%Z] ].
Proof. vm_compute. split; reflexivity. Qed.

Print Assumptions C09_actions_after_merge_and_purge.
Print Assumptions C09_fifo_exactly_once.
Print Assumptions C09_performs_popped_actions.
Print Assumptions C09_action_runs_its_operations.
Print Assumptions C09_queue_empty_after_maintain.
Print Assumptions C09_lazy_insert_on_dead_target.
Print Assumptions C09_plain_history_unchanged.
