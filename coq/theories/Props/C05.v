(* C05 - Deleting an entity purges its components everywhere; a reused index starts empty. *)
From SV Require Import Alloc.AllocStep Store.Masked Store.StoreInv World.Env World.EnvSim World.WorldSpec World.NoStuck World.Purge.

(* Invariant, for every accepted history in which components are registered before use (any length,
   any storage kinds, any registration path): every storage resource is in the MetaTable, and every
   index in any storage's mask belongs to an entity that is alive or awaiting maintain. *)
Theorem C05_invariant : forall tr, regs_ok s_init tr = true -> saccept s_init tr 0 = None ->
  let w := fst (srun s_init tr) in
  table_covers (s_env w) /\ masks_live (s_life w) (s_env w).
Proof.
  intros tr Hr Ha. destruct (accepted_pinv tr s_init 0%nat (PInv_init false) (SInvE_init false) eq_refl Hr Ha) as [[_ L T _] _].
  split; assumption.
Qed.

(* consequently a newly created entity, including one that reuses a dead entity's index, has no
   component in any storage *)
Theorem C05_new_entity_has_no_component : forall tr i, regs_ok s_init tr = true -> saccept s_init tr 0 = None ->
  let w := fst (srun s_init tr) in
  valid_choice (s_life w) i = true ->
  forall sid ms, NM.find sid (se_stores (s_env w)) = Some ms -> NS.mem i (ms_mask ms) = false.
Proof.
  intros tr i Hr Ha. destruct (accepted_pinv tr s_init 0%nat (PInv_init false) (SInvE_init false) eq_refl Hr Ha) as [HP _].
  cbn zeta. intros Hv. apply new_entity_has_no_component; assumption.
Qed.

(* when a deletion takes effect (delete_components over the deleted handles - the killed prefix of a
   failing batch, the whole batch, the join of delete_all, or the entities freed by maintain) the
   component is removed from every storage known to the world *)
Theorem C05_deletion_purges_everywhere : forall e ents ent, EInv e -> table_covers e -> In ent ents ->
  forall sid ms', NM.find sid (se_stores (env_delete_components e ents)) = Some ms' -> NS.mem (fst ent) (ms_mask ms') = false.
Proof. exact deletion_purges_everywhere. Qed.

(* ... and every entity that is not being deleted keeps its component unchanged *)
Theorem C05_purge_keeps_the_others : forall ids ms m c, MInv ms m ->
  exists m', MInv (fst (m_drop_all ms ids c)) m' /\ forall j, ~ In j ids -> NM.find j m' = NM.find j m.
Proof. exact purge_keeps_the_others. Qed.

(* non-vacuity: components attached by builders; a failing batch purges exactly the killed prefix;
   the reused index starts empty; storages made known by different paths *)
Example C05_nonvacuous :
  let os := [OStore (SRegister 1); OStore (SRegister 9);
             OCreate [(1, (1, 10%Z)); (9, (2, 20%Z))]; OCreate [(1, (3, 30%Z))]; OCreate [(9, (4, 40%Z))];
             ODeleteMany [0%nat; 0%nat; 1%nat]; OStore (SMask 1); OStore (SMask 9);
             OCreate []; OStore (SGet 1 3%nat); OStore (SGet 9 3%nat); OStore (SGet 1 1%nat)] in
  skipn 5 (snd (wrun true w_init os)) =
    [WKill (Some (1%nat, (-1)%Z)); WIdx [1]; WIdx [2]; WHandles [(0, 2%Z)]; WOptTok None; WOptTok None; WOptTok (Some (3, 30%Z))]
  /\ regs_ok s_init (combine os (snd (wrun true w_init os))) = true.
Proof. vm_compute. split; reflexivity. Qed.

Print Assumptions C05_invariant.
Print Assumptions C05_new_entity_has_no_component.
Print Assumptions C05_deletion_purges_everywhere.
Print Assumptions C05_purge_keeps_the_others.
