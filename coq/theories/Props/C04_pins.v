From SV Require Import Base.PvecFacts Store.Raw Store.RawRefine Store.Masked Store.StoreInv World.Env World.StoreSim
  World.EnvSim World.WorldSpec World.Simulation World.NoStuck Props.C04.
Check (C04_raw_get : forall r m i t c, rrel r m -> NM.find i m = Some t -> u_get r i c = (t, c)).
Check (C04_raw_insert : forall r m i v c, rrel r m -> NM.find i m = None -> val_ok r v ->
  rrel (fst (u_insert r i v c)) (NM.add i v m) /\ cx_stuck (snd (u_insert r i v c)) = cx_stuck c).
Check (C04_raw_write : forall r m i t v c, rrel r m -> NM.find i m = Some t -> val_ok r v ->
  rrel (fst (u_write r i v c)) (NM.add i v m) /\ snd (u_write r i v c) = c).
Check (C04_raw_remove : forall r m i t c, rrel r m -> NM.find i m = Some t ->
  let '(r', t', c') := u_remove r i c in
  t' = t /\ rrel r' (NM.remove i m) /\ cx_stuck c' = cx_stuck c /\ cx_drops c' = cx_drops c).
Check (C04_raw_clean : forall r m mask c, rrel r m -> NoDup mask ->
  (forall i, In i mask <-> NM.find i m <> None) ->
  rrel (fst (u_clean r mask c)) (NM.empty tok) /\ cx_stuck (snd (u_clean r mask c)) = cx_stuck c).
Check (C04_slice_vec : forall s m ids c, rrel (RVec s) m -> (forall i, In i ids -> NM.find i m <> None) ->
  vec_slice_vals s ids c = (map (fun i => match NM.find i m with Some t => t | None => unit_tok end) ids, c)).
Check (C04_slice_default : forall cells m k, rrel (RDefault cells) m -> k < vlen cells ->
  pv_get cells k = Some (match NM.find k m with Some t => t | None => default_tok end)).
Check (C04_slice_dense : forall s m, rrel (RDense s) m ->
  (forall k, k < vlen (d_data s) -> exists i t, pv_get (d_eid s) k = Some i /\ pv_get (d_data s) k = Some t /\ NM.find i m = Some t) /\
  (forall i t, NM.find i m = Some t -> exists k, k < vlen (d_data s) /\ pv_get (d_eid s) k = Some i /\ pv_get (d_data s) k = Some t) /\
  (forall k1 k2 i, pv_get (d_eid s) k1 = Some i -> pv_get (d_eid s) k2 = Some i -> k1 = k2)).
Check (C04_api_same_on_all_kinds : forall a b av ent so ca cb, srel a b ->
  let '(a', oa, ca') := ms_sop a av ent so ca in
  let '(b', ob, cb') := ms_sop b av ent so cb in
  wout_sim oa ob /\ srel a' b' /\ cx_stuck ca' = cx_stuck ca /\ cx_stuck cb' = cx_stuck cb).
Check (C04_world_same_as_plain_map : forall tr,
  Forall2 wout_sim (snd (srun (s_init_env false) tr)) (snd (srun (s_init_env true) tr))).
Check (C04_faithful_same_as_plain_map : forall os,
  Forall2 wout_sim (snd (wrun true w_init os))
                   (snd (srun (s_init_env true) (combine os (snd (wrun true w_init os)))))).
Check (C04_never_stuck : forall os,
  regs_ok s_init (combine os (snd (wrun true w_init os))) = true ->
  w_is_stuck (fst (wrun true w_init os)) = false).
