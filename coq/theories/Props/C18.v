(* C18 - Derived component and save/load conversions behave as field-wise
   definitions.  Only statements; each proof is [exact <lemma>].  Pins: C18_pins.v.
   The model (SaveLoad/Derive.v) is of the macros' output as a function of the
   shape of the type definition; it is tied to specs-derive by generated crates
   (gen/derive_gen.py, lib/svlib/derive_check.py). *)
From SV Require Import SaveLoad.Derive SaveLoad.DeriveProps.

(* every definition, every value, every instantiation of the type parameter:
   if the derived convert_into returns data, the derived convert_from turns
   that data back into the value, for any second mapping that undoes the first
   on the entities occurring in the value *)
Theorem C18_round_trip : forall E d targ v x ids ids',
  (forall e m, In e (ents v) -> ids e = Some m -> ids' m = Some e) ->
  derive_into E d targ v ids = Ok x ->
  derive_from E d targ x ids' = Ok v.
Proof. exact derive_round_trip. Qed.

(* supported shape, value of it, mutually inverse mappings defined on its
   entities: convert_into succeeds with the value whose entity leaves are
   replaced by their markers, and convert_from returns the value *)
Theorem C18_round_trip_supported : forall E d targ v ids ids',
  sup_env E = true -> sup_def E d = true -> sup_targ E targ = true ->
  value_of_def E d targ v = true ->
  (forall e, In e (ents v) -> exists m, ids e = Some m /\ ids' m = Some e) ->
  derive_into E d targ v ids = Ok (map_ent ids v) /\
  derive_from E d targ (map_ent ids v) ids' = Ok v.
Proof. exact derive_round_trip_total. Qed.

(* the data is the value with every entity leaf mapped through the marker
   mapping; every other leaf, the structure, field order and names unchanged *)
Theorem C18_entities_through_mapping : forall E d targ v x ids,
  derive_into E d targ v ids = Ok x -> x = map_ent ids v.
Proof. exact derive_into_maps_leaves. Qed.

(* the generated code panics only at an entity of the value without a marker *)
Theorem C18_panic_only_unmarked : forall E d targ v ids,
  derive_into E d targ v ids = Panic -> exists e, In e (ents v) /\ ids e = None.
Proof. exact derive_into_panic. Qed.

(* supported shapes never fail on their values when every entity has a marker *)
Theorem C18_supported_never_fails : forall E d targ v ids,
  sup_env E = true -> sup_def E d = true -> sup_targ E targ = true ->
  value_of_def E d targ v = true ->
  (forall e, In e (ents v) -> ids e <> None) ->
  exists x, derive_into E d targ v ids = Ok x.
Proof. exact derive_into_total. Qed.

(* field-wise, in declaration order: tuple structs *)
Theorem C18_tuple_fields_in_order : forall E g fs targ vs x ids,
  derive_into E (DStruct g (FTuple fs)) targ (Tup vs) ids = Ok x ->
  exists ds, x = Tup ds /\ length vs = length fs /\ length ds = length fs /\
    forall i f v, nth_error fs i = Some f -> nth_error vs i = Some v ->
      exists d, nth_error ds i = Some d /\ field_conv_into E targ ids f v = Ok d.
Proof. exact derive_into_tuple_struct_fieldwise. Qed.

(* field-wise, in declaration order, same names: structs with named fields *)
Theorem C18_named_fields_in_order : forall E g fs targ vs x ids,
  derive_into E (DStruct g (FNamed fs)) targ (Rec vs) ids = Ok x ->
  exists ds, x = Rec ds /\ length vs = length fs /\ length ds = length fs /\
    forall i f nv, nth_error fs i = Some f -> nth_error vs i = Some nv ->
      fst nv = fname f /\
      exists d, nth_error ds i = Some (fname f, d) /\ field_conv_into E targ ids f (snd nv) = Ok d.
Proof. exact derive_into_named_struct_fieldwise. Qed.

(* enums: the variant of the value's name, to the variant of the same name *)
Theorem C18_enum_by_name : forall E g ws targ vn body x ids,
  derive_into E (DEnum g ws) targ (Var vn body) ids = Ok x ->
  exists w body', find (fun w => N.eqb (vname w) vn) ws = Some w /\ x = Var vn body' /\
    conv_fields (into_leaf ids) (conv_env (into_leaf ids) E) (param_conv (into_leaf ids) E targ) (vfields w) body = Ok body'.
Proof. exact derive_into_enum_by_name. Qed.

(* ... whose fields are converted like those of a struct (both directions: any leaf conversion) *)
Theorem C18_variant_tuple_fields_in_order : forall leaf rec p fs vs x,
  conv_fields leaf rec p (FTuple fs) (Tup vs) = Ok x ->
  exists ds, x = Tup ds /\ length vs = length fs /\ length ds = length fs /\
    forall i f v, nth_error fs i = Some f -> nth_error vs i = Some v ->
      exists d, nth_error ds i = Some d /\ conv_field leaf rec p f v = Ok d.
Proof. exact conv_fields_tuple_fieldwise. Qed.

Theorem C18_variant_named_fields_in_order : forall leaf rec p fs vs x,
  conv_fields leaf rec p (FNamed fs) (Rec vs) = Ok x ->
  exists ds, x = Rec ds /\ length vs = length fs /\ length ds = length fs /\
    forall i f nv, nth_error fs i = Some f -> nth_error vs i = Some nv ->
      fst nv = fname f /\
      exists d, nth_error ds i = Some (fname f, d) /\ conv_field leaf rec p f (snd nv) = Ok d.
Proof. exact conv_fields_named_fieldwise. Qed.

(* #[convert_save_load_skip_convert]: copied verbatim (into and from) *)
Theorem C18_skip_verbatim : forall leaf rec p f v d,
  fskip f = true -> conv_field leaf rec p f v = Ok d -> d = v.
Proof. exact skipped_field_verbatim. Qed.

(* any other field: through the conversion of its own type *)
Theorem C18_own_conversion : forall leaf rec p f v,
  fskip f = false -> conv_field leaf rec p f v = conv_ty leaf rec p (fty f) v.
Proof. exact converted_field_own_conversion. Qed.

(* the data is a value of the generated Data definition (every path type
   replaced by its Data, forwarded attributes kept, skip attributes dropped) *)
Theorem C18_data_has_derived_shape : forall E d targ v x ids,
  derive_into E d targ v ids = Ok x ->
  exists dd, data_def d = Some dd /\ data_of_def E dd targ x = true.
Proof. exact derive_into_data_shape. Qed.

(* #[derive(Component)] *)
Theorem C18_storage_default : forall attrs,
  (forall a, In a attrs -> ca_name a <> id_storage) ->
  storage_type attrs = Some [(id_DenseVecStorage, PAngle [id_Self])].
Proof. exact storage_default. Qed.

Theorem C18_storage_explicit : forall attrs a p n args,
  find (fun a => N.eqb (ca_name a) id_storage) attrs = Some a ->
  ca_arg a = p ++ [(n, PAngle args)] ->
  storage_type attrs = Some (p ++ [(n, PAngle args)]).
Proof. exact storage_explicit. Qed.

Theorem C18_storage_implicit : forall attrs a p n,
  find (fun a => N.eqb (ca_name a) id_storage) attrs = Some a ->
  ca_arg a = p ++ [(n, PNone)] ->
  storage_type attrs = Some (p ++ [(n, PAngle [id_Self])]).
Proof. exact storage_implicit. Qed.

(* non-vacuity: three definitions, nested and generic,
     struct T0 { f1: Entity, #[skip] f2: (u32, u32), #[attr(7)] f3: u32 }
     enum   T1<T> { V1, V2(T, T0), V3 { f4: Entity, f5: [u32; 2] } }
     struct T2(T1<Entity>, #[skip] u32, T1<u32>)
   a value of T2 with four entities, a mapping with generations 1 and 2:
   the shape is supported, the value is a value of it, the data is as
   expected (markers for entities, skipped fields verbatim), its shape is
   the generated one, and it converts back to the value *)
Definition ex_T0 : def := DStruct false (FNamed [mkField 1 [] TEntity; mkField 2 [ASkip] (TTuple [TPrim; TPrim]); mkField 3 [AFwd 7] TPrim]).
Definition ex_T1 : def := DEnum true [mkVariant 1 [] FUnit;
                                      mkVariant 2 [AFwd 8] (FTuple [mkField 0 [] TParam; mkField 0 [] (TNamed 0 None)]);
                                      mkVariant 3 [] (FNamed [mkField 4 [] TEntity; mkField 5 [] (TArray TPrim 2)])].
Definition ex_T2 : def := DStruct false (FTuple [mkField 0 [] (TNamed 1 (Some TEntity)); mkField 0 [ASkip] TPrim;
                                                  mkField 0 [] (TNamed 1 (Some TPrim))]).
Definition ex_env : env := [ex_T1; ex_T0].
Definition ex_t0 (e : entity) : tree := Rec [(1, Ent e); (2, Seq [Prim 5; Prim 6]); (3, Prim 7)].
Definition ex_val : tree :=
  Tup [Var 2 (Tup [Ent (3, 1%Z); ex_t0 (0, 2%Z)]); Prim 9; Var 3 (Rec [(4, Ent (1, 2%Z)); (5, Seq [Prim 1; Prim 2])])].
Definition ex_ids (e : entity) : option Z :=
  if entity_eqb e (3, 1%Z) then Some 10%Z else if entity_eqb e (0, 2%Z) then Some 4%Z
  else if entity_eqb e (1, 2%Z) then Some 0%Z else None.
Definition ex_ids' (m : Z) : option entity :=
  if Z.eqb m 10 then Some (3, 1%Z) else if Z.eqb m 4 then Some (0, 2%Z) else if Z.eqb m 0 then Some (1, 2%Z) else None.
Definition ex_data : tree :=
  Tup [Var 2 (Tup [Mark 10; Rec [(1, Mark 4); (2, Seq [Prim 5; Prim 6]); (3, Prim 7)]]); Prim 9;
       Var 3 (Rec [(4, Mark 0); (5, Seq [Prim 1; Prim 2])])].

Example C18_nonvacuous :
  sup_env ex_env = true /\ sup_def ex_env ex_T2 = true /\ value_of_def ex_env ex_T2 None ex_val = true /\
  derive_into ex_env ex_T2 None ex_val ex_ids = Ok ex_data /\
  derive_from ex_env ex_T2 None ex_data ex_ids' = Ok ex_val /\
  (exists dd, data_def ex_T2 = Some dd /\ data_of_def ex_env dd None ex_data = true) /\
  (* an entity without a marker: the generated code panics *)
  derive_into ex_env ex_T2 None ex_val (fun _ => None) = Panic /\
  (* a unit struct, a reference-typed field, an all-unit enum: no derived code *)
  derive_into [] (DStruct false FUnit) None Unit ex_ids = Bad /\
  derive_into [] (DStruct false (FTuple [mkField 0 [] TOther])) None (Tup [Prim 1]) ex_ids = Bad /\
  derive_into [] (DEnum false [mkVariant 1 [] FUnit]) None (Var 1 Unit) ex_ids = Bad /\
  (* storages *)
  storage_type [] = Some [(id_DenseVecStorage, PAngle [id_Self])] /\
  storage_type [mkCattr 8 []; mkCattr id_storage [(6, PNone); (0, PNone); (2, PNone)]] = Some [(6, PNone); (0, PNone); (2, PAngle [id_Self])] /\
  storage_type [mkCattr id_storage [(5, PAngle [0; 1])]; mkCattr id_storage [(2, PNone)]] = Some [(5, PAngle [0; 1])].
Proof. vm_compute. repeat split; try reflexivity. eexists. split; reflexivity. Qed.

Print Assumptions C18_round_trip.
Print Assumptions C18_round_trip_supported.
Print Assumptions C18_entities_through_mapping.
Print Assumptions C18_panic_only_unmarked.
Print Assumptions C18_supported_never_fails.
Print Assumptions C18_tuple_fields_in_order.
Print Assumptions C18_named_fields_in_order.
Print Assumptions C18_enum_by_name.
Print Assumptions C18_variant_tuple_fields_in_order.
Print Assumptions C18_variant_named_fields_in_order.
Print Assumptions C18_skip_verbatim.
Print Assumptions C18_own_conversion.
Print Assumptions C18_data_has_derived_shape.
Print Assumptions C18_storage_default.
Print Assumptions C18_storage_explicit.
Print Assumptions C18_storage_implicit.
