From SV Require Import Dispatch.Stage Dispatch.Borrow Dispatch.Exec Dispatch.StageInv Dispatch.BorrowInv
  Dispatch.ExecInv Dispatch.FineExec Dispatch.FineInv Checkers.DispatchChk Props.C11.
From Coq Require Import Permutation.
Check (C11_stages_conflict_free : forall os, Forall stage_free (b_stages (d_sb (d_build os)))).
Check (C11_stages_respect_deps : forall os, deps_stages [] (b_stages (d_sb (d_build os)))).
Check (C11_staged_exactly_once : forall os, d_stuck (d_build os) = false ->
  Permutation (all_sys (b_stages (d_sb (d_build os)))) (d_systems 0 os)).
Check (C11_staged_ids_distinct : forall os, NoDup (all_ids (b_stages (d_sb (d_build os))))).
Check (C11_group_size_bounded : forall os, sizes_ok (b_stages (d_sb (d_build os)))).
Check (C11_builder_panics_only_on_unknown_dependency : forall os,
  d_stuck (d_build os) = true <->
  exists os1 r w deps t os2 d, os = os1 ++ DSys r w deps t :: os2 /\ In d deps /\
     (N.of_nat (length (d_systems 0 os1)) <= d)%N).
Check (C11_run_exactly_once : forall os, d_stuck (d_build os) = false ->
  forall tr, stages_trace (b_stages (d_sb (d_build os))) tr ->
  Permutation tr (flat_map sys_trace (d_systems 0 os))).
Check (C11_dependencies_complete_first : forall os, d_stuck (d_build os) = false ->
  (forall s, In s (d_systems 0 os) -> self_ok s) ->
  forall tr p s q, stages_trace (b_stages (d_sb (d_build os))) tr -> tr = p ++ EStart s :: q ->
  forall d, In d (s_deps s) -> In d (ends p)).
Check (C11_no_conflicting_overlap : forall os, d_stuck (d_build os) = false ->
  (forall s, In s (d_systems 0 os) -> self_ok s) ->
  forall tr p s q, stages_trace (b_stages (d_sb (d_build os))) tr -> tr = p ++ EStart s :: q ->
  forall s', In s' (running_after p []) -> sys_conflict s s' = false).
Check (C11_borrow_never_refused : forall os, d_stuck (d_build os) = false ->
  (forall s, In s (d_systems 0 os) -> self_ok s) ->
  forall tr p q, stages_trace (b_stages (d_sb (d_build os))) tr -> tr = p ++ q ->
  m_stuck (m_run m_init p) = false).
Check (C11_all_steps_safe : forall os, d_stuck (d_build os) = false ->
  (forall s, In s (d_systems 0 os) -> self_ok s) ->
  forall tr, stages_trace (b_stages (d_sb (d_build os))) tr ->
  safe_run m_init tr /\ m_stuck (m_run m_init tr) = false /\ m_running (m_run m_init tr) = []).
Check (C11_borrow_never_refused_fine : forall os, d_stuck (d_build os) = false ->
  (forall s, In s (d_systems 0 os) -> self_ok s) ->
  forall tr p q, fstages_trace (b_stages (d_sb (d_build os))) tr -> tr = p ++ q ->
  f_run (Some bs_init) p <> None).
Check (C11_decl_matches_fetch : forall h,
  shared_of (fetch_borrows h) = fst (decl h) /\ excl_of (fetch_borrows h) = snd (decl h)).
Check (C11_decl_matches_fetch_tuple : forall hs,
  shared_of (fetch_all hs) = decl_reads hs /\ excl_of (fetch_all hs) = decl_writes hs).
Check (C11_fetch_then_probe : forall h,
  exists b, acquire_all bs_init (fetch_borrows h) = Some b /\
    forall r, probe b r =
      if existsb (N.eqb r) (snd (decl h)) then 2%Z
      else if existsb (N.eqb r) (fst (decl h)) then 1%Z else 0%Z).
Check (C11_fetch_order_irrelevant : forall hs id deps t b,
  let s := {| s_id := id; s_reads := decl_reads hs; s_writes := decl_writes hs; s_deps := deps; s_time := t |} in
  can_take b (sys_borrows s) ->
  exists b1 b2, acquire_all b (sys_borrows s) = Some b1 /\ acquire_all b (fetch_all hs) = Some b2 /\
    forall r, readers b1 r = readers b2 r /\ writer b1 r = writer b2 r).
Check (C11_handles_self_ok : forall hs id deps t, handles_ok hs ->
  self_ok {| s_id := id; s_reads := decl_reads hs; s_writes := decl_writes hs; s_deps := deps; s_time := t |}).
