From SV Require Import Base.ListX Store.Masked World.Env World.Join World.JoinProps World.CsProps World.JoinAbs
  World.JoinRefine World.JoinAbsProps World.JoinSafe.
From Coq Require Import Sorting.Sorted.
From SV Require Import Props.C16.
Check (C16_accumulates_in_arrival_order : forall l m i,
  NM.find i (cs_add_all m l) = fold_amt (NM.find i m) (amts_of i l)).
Check (C16_collect : forall l i, NM.find i (cs_add_all (NM.empty Z) l) = fold_amt None (amts_of i l)).
Check (C16_nothing_for_others : forall l i, amts_of i l = [] -> NM.find i (cs_add_all (NM.empty Z) l) = None).
Check (C16_every_mentioned_entity : forall l i, amts_of i l <> [] -> NM.find i (cs_add_all (NM.empty Z) l) <> None).
Check (C16_extend_is_append : forall l1 l2 m, cs_add_all (cs_add_all m l1) l2 = cs_add_all m (l1 ++ l2)).
Check (C16_add_is_extend_by_one : forall m i a, cs_add m i a = cs_add_all m [(i, a)]).
Check (C16_ops_collect : forall e hs k l ps, res_pairs hs l = Some ps ->
  cs_get (fst (env_csop e hs (CsCollect k l))) k = cs_add_all (NM.empty Z) ps).
Check (C16_ops_extend : forall e hs k l ps, res_pairs hs l = Some ps ->
  cs_get (fst (env_csop e hs (CsExtend k l))) k = cs_add_all (cs_get e k) ps).
Check (C16_ops_add : forall e hs k h a ent, pv_get hs (N.of_nat h) = Some ent ->
  cs_get (fst (env_csop e hs (CsAdd k h a))) k = cs_add (cs_get e k) (fst ent) a).
Check (C16_ops_other_slots : forall e hs c k',
  (match c with CsNew k | CsAdd k _ _ | CsCollect k _ | CsExtend k _ | CsClear k | CsDump k => k <> k' end) ->
  cs_get (fst (env_csop e hs c)) k' = cs_get e k').
Check (C16_member_of_a_join : forall e eids k mode d i,
  m_has e eids (MChange k mode d) i = NM.mem i (cs_get e k)).
Check (C16_each_index_once : forall e eids ms keys, jkeys e eids ms = Some keys ->
  NoDup keys /\ (forall i, In i keys <-> all_have e eids ms i = true)).
Check (C16_item_is_the_accumulated_amount : forall av hs excl eids k mode d i e a, NM.find i (cs_get e k) = Some a ->
  snd (m_get av hs excl eids (MChange k mode d) i e) = JAmt a /\
  (mode = 2 -> NM.find i (cs_get (fst (m_get av hs excl eids (MChange k mode d) i e)) k) = None) /\
  (mode = 1 -> NM.find i (cs_get (fst (m_get av hs excl eids (MChange k mode d) i e)) k) = Some (amt_add a d)) /\
  (mode = 0 -> fst (m_get av hs excl eids (MChange k mode d) i e) = e)).
Check (C16_consumed_by_value : forall ms k e, (exists m, In m ms /\ m_taken m = Some k) ->
  cs_get (consume_cs ms e) k = NM.empty Z).
Check (C16_each_amount_paired_once_with_its_entity : forall unit av hs excl eids pre post k mode d keys S, NoDup keys ->
  forallb (fun m => negb (m_cs_owns m k)) pre = true ->
  forall j xs, In (j, xs) (snd (a_visit_keys unit av hs excl eids (pre ++ MChange k mode d :: post) keys S)) ->
  nth_error xs (length pre) = Some (JAmt (match cscell S k j with Some a => a | None => 0%Z end))).
Check (C16_change_set_after_a_join : forall unit av hs excl eids pre post k mode d keys S j, NoDup keys ->
  forallb (fun m => negb (m_cs_owns m k)) pre = true -> forallb (fun m => negb (m_cs_owns m k)) post = true ->
  cscell (fst (a_visit_keys unit av hs excl eids (pre ++ MChange k mode d :: post) keys S)) k j =
    if in_dec N.eq_dec j keys
    then (if N.eqb mode 1 then option_map (fun a => amt_add a d) (cscell S k j) else if N.eqb mode 2 then None else cscell S k j)
    else cscell S k j).
Check (C16_join_refines_the_join_on_maps : forall unit av hs excl eids ms keys e S, absrel unit e S ->
  snd (visit_keys av hs excl eids ms keys e) = snd (a_visit_keys unit av hs excl eids ms keys S) /\
  absrel unit (fst (visit_keys av hs excl eids ms keys e)) (fst (a_visit_keys unit av hs excl eids ms keys S))).
