From SV Require Import SaveLoad.Derive SaveLoad.DeriveProps Props.C18.
Check (C18_round_trip : forall E d targ v x ids ids',
  (forall e m, In e (ents v) -> ids e = Some m -> ids' m = Some e) ->
  derive_into E d targ v ids = Ok x ->
  derive_from E d targ x ids' = Ok v).
Check (C18_round_trip_supported : forall E d targ v ids ids',
  sup_env E = true -> sup_def E d = true -> sup_targ E targ = true ->
  value_of_def E d targ v = true ->
  (forall e, In e (ents v) -> exists m, ids e = Some m /\ ids' m = Some e) ->
  derive_into E d targ v ids = Ok (map_ent ids v) /\
  derive_from E d targ (map_ent ids v) ids' = Ok v).
Check (C18_entities_through_mapping : forall E d targ v x ids,
  derive_into E d targ v ids = Ok x -> x = map_ent ids v).
Check (C18_panic_only_unmarked : forall E d targ v ids,
  derive_into E d targ v ids = Panic -> exists e, In e (ents v) /\ ids e = None).
Check (C18_supported_never_fails : forall E d targ v ids,
  sup_env E = true -> sup_def E d = true -> sup_targ E targ = true ->
  value_of_def E d targ v = true ->
  (forall e, In e (ents v) -> ids e <> None) ->
  exists x, derive_into E d targ v ids = Ok x).
Check (C18_tuple_fields_in_order : forall E g fs targ vs x ids,
  derive_into E (DStruct g (FTuple fs)) targ (Tup vs) ids = Ok x ->
  exists ds, x = Tup ds /\ length vs = length fs /\ length ds = length fs /\
    forall i f v, nth_error fs i = Some f -> nth_error vs i = Some v ->
      exists d, nth_error ds i = Some d /\ field_conv_into E targ ids f v = Ok d).
Check (C18_named_fields_in_order : forall E g fs targ vs x ids,
  derive_into E (DStruct g (FNamed fs)) targ (Rec vs) ids = Ok x ->
  exists ds, x = Rec ds /\ length vs = length fs /\ length ds = length fs /\
    forall i f nv, nth_error fs i = Some f -> nth_error vs i = Some nv ->
      fst nv = fname f /\
      exists d, nth_error ds i = Some (fname f, d) /\ field_conv_into E targ ids f (snd nv) = Ok d).
Check (C18_enum_by_name : forall E g ws targ vn body x ids,
  derive_into E (DEnum g ws) targ (Var vn body) ids = Ok x ->
  exists w body', find (fun w => N.eqb (vname w) vn) ws = Some w /\ x = Var vn body' /\
    conv_fields (into_leaf ids) (conv_env (into_leaf ids) E) (param_conv (into_leaf ids) E targ) (vfields w) body = Ok body').
Check (C18_variant_tuple_fields_in_order : forall leaf rec p fs vs x,
  conv_fields leaf rec p (FTuple fs) (Tup vs) = Ok x ->
  exists ds, x = Tup ds /\ length vs = length fs /\ length ds = length fs /\
    forall i f v, nth_error fs i = Some f -> nth_error vs i = Some v ->
      exists d, nth_error ds i = Some d /\ conv_field leaf rec p f v = Ok d).
Check (C18_variant_named_fields_in_order : forall leaf rec p fs vs x,
  conv_fields leaf rec p (FNamed fs) (Rec vs) = Ok x ->
  exists ds, x = Rec ds /\ length vs = length fs /\ length ds = length fs /\
    forall i f nv, nth_error fs i = Some f -> nth_error vs i = Some nv ->
      fst nv = fname f /\
      exists d, nth_error ds i = Some (fname f, d) /\ conv_field leaf rec p f (snd nv) = Ok d).
Check (C18_skip_verbatim : forall leaf rec p f v d,
  fskip f = true -> conv_field leaf rec p f v = Ok d -> d = v).
Check (C18_own_conversion : forall leaf rec p f v,
  fskip f = false -> conv_field leaf rec p f v = conv_ty leaf rec p (fty f) v).
Check (C18_data_has_derived_shape : forall E d targ v x ids,
  derive_into E d targ v ids = Ok x ->
  exists dd, data_def d = Some dd /\ data_of_def E dd targ x = true).
Check (C18_storage_default : forall attrs,
  (forall a, In a attrs -> ca_name a <> id_storage) ->
  storage_type attrs = Some [(id_DenseVecStorage, PAngle [id_Self])]).
Check (C18_storage_explicit : forall attrs a p n args,
  find (fun a => N.eqb (ca_name a) id_storage) attrs = Some a ->
  ca_arg a = p ++ [(n, PAngle args)] ->
  storage_type attrs = Some (p ++ [(n, PAngle args)])).
Check (C18_storage_implicit : forall attrs a p n,
  find (fun a => N.eqb (ca_name a) id_storage) attrs = Some a ->
  ca_arg a = p ++ [(n, PNone)] ->
  storage_type attrs = Some (p ++ [(n, PAngle [id_Self])])).
