(* C12 - Change-tracking storages report every insertion, removal and mutable access. *)
From SV Require Import Store.Raw Store.Masked Store.StoreInv World.Env World.StoreSim Store.Events World.World World.Join World.JoinEvents World.JoinEventStream.

(* Every operation of the Storage API other than the bulk clear() and the emission switch, on any
   wrapper over any inner kind: the events it appends (oldest first), replayed over the membership
   before the operation, give the membership after it; with emission off, or on a plain storage,
   nothing is appended.  [evrel] is transitive, so this holds for every history of such operations
   between the registration of a reader and any later read. *)
Theorem C12_events_replay_membership : forall ms m av ent so c, MInv ms m ->
  (forall s, so <> SClear s) -> (forall s b, so <> SSetEmission s b) ->
  evrel ms (fst (fst (ms_sop ms av ent so c))).
Proof. exact ms_sop_evrel. Qed.

Theorem C12_replay_composes : forall a b c, evrel a b -> evrel b c -> evrel a c.
Proof. exact evrel_trans. Qed.

(* components attached by builders, and lazily, go through Storage::insert *)
Theorem C12_insert_reports : forall ms m av e v c, MInv ms m -> evrel ms (fst (fst (st_insert ms av e v c))).
Proof. exact st_insert_evrel. Qed.

(* deletion of entities reaches the wrapper: drop is the trait default, i.e. remove *)
Theorem C12_entity_deletion_reports : forall ids ms m c, MInv ms m -> evrel ms (fst (m_drop_all ms ids c)).
Proof. exact m_drop_all_evrel. Qed.

(* Modified is produced exactly by mutable access: FlaggedStorage on every get_mut,
   DerefFlaggedStorage exactly when the returned access was dereferenced mutably or written through *)
Theorem C12_modified_exactly_on_mutable_access : forall ms m av e touch nv c, MInv ms m -> present ms av e = true ->
  ms_chan (fst (fst (st_get_mut ms av e touch nv c))) =
  (if ms_emit ms then
     match ms_wrap ms with
     | WFlagged => [EModified (fst e)]
     | WDeref => if touch || (match nv with Some _ => true | None => false end) then [EModified (fst e)] else []
     | WPlain => []
     end
   else []) ++ ms_chan ms.
Proof. exact get_mut_events. Qed.

Theorem C12_read_only_is_silent : forall ms av e so c,
  match so with SGet _ _ | SContains _ _ | SCount _ | SIsEmpty _ | SMask _ | SSlice _ => True | _ => False end ->
  ms_chan (fst (fst (ms_sop ms av e so c))) = ms_chan ms.
Proof. exact read_only_is_silent. Qed.

(* non-vacuity: Flagged<Dense> and DerefFlagged<Vec> through inserts, accesses, removal by deletion *)
Example C12_nonvacuous :
  let os := [OStore (SRegister 7); OStore (SRegister 11); OStore (SRegReader 7); OStore (SRegReader 11);
             OCreate [(7, (1, 10%Z)); (11, (2, 20%Z))];
             OStore (SGetMut 7 0%nat false None); OStore (SGetMut 11 0%nat false None);
             OStore (SGetMut 11 0%nat true None); OStore (SGet 7 0%nat);
             OStore (SInsert 7 0%nat (3, 30%Z)); ODelete 0%nat;
             OStore (SReadEvents 7 0%nat); OStore (SReadEvents 11 0%nat)] in
  skipn 11 (snd (wrun true w_init os)) =
    [WEvents [EInserted 0; EModified 0; EModified 0; ERemoved 0]; WEvents [EInserted 0; EModified 0; ERemoved 0]].
Proof. vm_compute. reflexivity. Qed.

(* joins: the three primitives a join uses on a storage append exactly these events - nothing for reading an item,
   Modified for a mutable fetch (FlaggedStorage: on the fetch itself; DerefFlaggedStorage: exactly when the item was
   dereferenced mutably or written), Removed for a drained item - and nothing while emission is off or on a plain storage *)
Theorem C12_events_of_join_accesses : forall ms m a c, MInv ms m ->
  NS.mem (match a with JRead i | JAccess i _ _ | JRemove i => i end) (ms_mask ms) = true ->
  ms_chan (fst (fst (ms_jact ms a c))) = (if ms_emit ms then ev_of_act (ms_wrap ms) a else []) ++ ms_chan ms.
Proof. exact ms_jact_chan. Qed.

(* joins as a whole: whatever the tuple and the kind of join, a tracked storage's channel receives exactly the events
   of the mutable accesses and removals the join's rows show, in visit order (most recent first in the model's list),
   and nothing else; nothing when emission is off *)
Theorem C12_a_join_reports_exactly_its_mutable_accesses_and_removals : forall e av eids hs k ms s, TInv e ->
  cx_stuck (se_cx (fst (env_join e av eids hs k ms))) = false ->
  env_chan (fst (env_join e av eids hs k ms)) s = jout_evs s (tag e s) hs ms (snd (env_join e av eids hs k ms)) ++ env_chan e s.
Proof. exact join_event_stream. Qed.

Print Assumptions C12_events_replay_membership.
Print Assumptions C12_replay_composes.
Print Assumptions C12_insert_reports.
Print Assumptions C12_entity_deletion_reports.
Print Assumptions C12_modified_exactly_on_mutable_access.
Print Assumptions C12_read_only_is_silent.
Print Assumptions C12_events_of_join_accesses.
Print Assumptions C12_a_join_reports_exactly_its_mutable_accesses_and_removals.
