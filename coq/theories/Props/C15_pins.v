From SV Require Import Alloc.LifeProps SaveLoad.Marker SaveLoad.SerDe SaveLoad.SLOps
  SaveLoad.MarkerProps SaveLoad.SerDeProps SaveLoad.SLProps.
From SV Require Import Props.C15.
Check (C15_history_invariant : forall nc os w, Inv w -> run_ok nc w os -> Inv (sl_run nc w os)).
Check (C15_batch_deletion_in_statement_order : forall es w, sl_delete_many_stmt w es = sl_delete_many w es).
Check (C15_batch_deletion_keeps_invariant : forall es w, Inv w -> Inv (fst (sl_delete_many w es))).
Check (C15_invariant_empty : Inv sl_empty).
Check (C15_invariant_meaning : forall w, Inv w <->
  (LInv (sl_life w) /\ NoDup (sl_free w) /\ (forall i, In i (sl_free w) <-> is_free (cell (sl_life w) i) = true)) /\
  (forall i m, NM.find i (sl_markers w) = Some m -> occupied (cell (sl_life w) i) = true) /\
  (forall k i c, cfind w k i = Some c -> occupied (cell (sl_life w) i) = true) /\
  (forall e m, mk_get w e = Some m -> NM.find m (sl_mapping w) = Some e) /\
  (forall m e, NM.find m (sl_mapping w) = Some e -> w_alive w e = true -> NM.find (fst e) (sl_markers w) = Some m) /\
  (forall i m, NM.find i (sl_markers w) = Some m -> m < sl_index w) /\
  (forall m e, NM.find m (sl_mapping w) = Some e -> m < sl_index w) /\
  (forall m e, NM.find m (sl_mapping w) = Some e -> (snd e <= top (cell (sl_life w) (fst e)))%Z)).
Check (C15_ids_unique : forall nc w, reachable nc w ->
  forall e1 e2 m, mk_get w e1 = Some m -> mk_get w e2 = Some m -> e1 = e2).
Check (C15_mapping_agrees : forall nc w, reachable nc w ->
  forall e m, mk_get w e = Some m -> NM.find m (sl_mapping w) = Some e).
Check (C15_counter_above : forall nc w, reachable nc w ->
  (forall e m, mk_get w e = Some m -> m < sl_index w) /\
  (forall m e, NM.find m (sl_mapping w) = Some e -> m < sl_index w)).
Check (C15_mark_existing : forall w e m, mk_get w e = Some m -> ma_mark w e = (w, Some (m, false))).
Check (C15_mark_fresh : forall nc w e, reachable nc w -> w_alive w e = true -> mk_get w e = None ->
  snd (ma_mark w e) = Some (sl_index w, true) /\ id_fresh w (sl_index w)).
Check (C15_load_merges : forall w d, Inv w ->
  let w' := deserialize w d in
  Inv w' /\
  (forall e, w_alive w e = true -> w_alive w' e = true /\ mk_get w' e = mk_get w e) /\
  (forall e, w_alive w' e = true -> w_alive w e = false ->
     exists m, mk_get w' e = Some m /\ id_fresh w m /\ In m (data_ids d)) /\
  (forall id, In id (data_ids d) -> exists e, mk_get w' e = Some id)).
Check (C15_load_components : forall w d d1 r d2, Inv w -> d = d1 ++ r :: d2 -> ~ In (fst r) (map fst d2) ->
  let w' := deserialize w d in
  forall e, mk_get w' e = Some (fst r) ->
  forall j, (j < length (snd r))%nat -> slot_rel w' (nth j (snd r) None) (st_get w' (N.of_nat j) e)).
Check (C15_load_removes_absent : forall w d d1 r d2, Inv w -> d = d1 ++ r :: d2 -> ~ In (fst r) (map fst d2) ->
  forall e, mk_get (deserialize w d) e = Some (fst r) ->
  forall j, (j < length (snd r))%nat -> nth j (snd r) None = None -> st_get (deserialize w d) (N.of_nat j) e = None).
Check (C15_load_untouched : forall w d, Inv w ->
  forall e, (forall m, mk_get (deserialize w d) e = Some m -> ~ In m (map fst d)) ->
  forall k, st_get (deserialize w d) k e = st_get w k e).
Check (C15_repeated_load : forall w d, Inv w ->
  let w1 := deserialize w d in let w2 := deserialize w1 d in
  forall e, w_alive w2 e = w_alive w1 e).
Check (C15_stale_not_trusted : forall w id e, Inv w -> NM.find id (sl_mapping w) = Some e -> w_alive w e = false ->
  let t := snd (ma_retrieve w id) in
  t <> e /\ w_alive w t = false /\ mk_get (fst (ma_retrieve w id)) t = Some id).
Check (C15_alloc_maintain_exact : forall w m e, Inv w ->
  (NM.find m (sl_mapping (ma_maintain w)) = Some e <-> mk_get w e = Some m)).
