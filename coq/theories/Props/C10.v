(* C10 - Concurrent creation, deletion and lazy queuing via shared access lose
   nothing.  Statements about the interleaving model Conc/AtomicLTS.v, for
   every number of threads, all programs and every schedule (a schedule is an
   arbitrary list of thread indices), starting from any allocator state [a0]
   related by R to a lifecycle state [s0], with initial handles [I] that the
   allocator has issued ([hinit_okb]: index below the counter, positive
   generation, not a generation of the future).
   Only statements; each proof is [exact <lemma>].  Pins: C10_pins.v. *)
From SV Require Import Alloc.LifeProps Alloc.AllocRefine World.World Conc.AtomicLTS Conc.AtomicInv
  Checkers.ConcChk.
From Coq Require Import Permutation.

(* (a) the handles returned to all threads are pairwise distinct -- even
   their indices are -- and distinct from every handle alive at the start *)
Theorem C10_handles_distinct : forall a0 s0 I progs,
  R a0 s0 -> LInv s0 -> forallb (hinit_okb a0) I = true -> forall s,
  let c := run (c_new a0 I progs) s in
  NoDup (all_mine c) /\ NoDup (map fst (all_mine c)) /\
  forall e e0, In e (all_mine c) -> l_is_alive s0 e0 = true -> fst e <> fst e0.
Proof. exact conc_handles_distinct. Qed.

(* (b) a returned handle is alive from the state in which the call returns
   (s1) in every later state (s1 ++ s2) of the phase *)
Theorem C10_alive_from_return : forall a0 s0 I progs,
  R a0 s0 -> LInv s0 -> forallb (hinit_okb a0) I = true -> forall s1 s2 k t e,
  nth_error (threads (run (c_new a0 I progs) s1)) k = Some t -> In e (mine t) ->
  a_is_alive (sh (run (c_new a0 I progs) (s1 ++ s2))) e = true.
Proof. exact conc_alive_from_return. Qed.

(* (c) a deletion request for a handle alive at the start or returned earlier
   to the same thread: the is_alive check of kill_atomic passes, the result is
   Ok, and the index is in [killed] in every later state *)
Theorem C10_delete_check_passes : forall a0 s0 I progs,
  R a0 s0 -> LInv s0 -> forallb (hinit_okb a0) I = true -> forall s k t h r e,
  nth_error (threads (run (c_new a0 I progs) s)) k = Some t ->
  tpc t = PIdle -> prog t = CDelete h :: r -> resolve I t h = Some e ->
  (l_is_alive s0 e = true \/ In e (mine t)) ->
  a_is_alive (sh (run (c_new a0 I progs) s)) e = true.
Proof. exact conc_delete_check_passes. Qed.

Theorem C10_delete_of_live_ok : forall a0 s0 I progs,
  R a0 s0 -> LInv s0 -> forallb (hinit_okb a0) I = true -> forall s k t e r,
  nth_error (threads (run (c_new a0 I progs) s)) k = Some t -> In (OKill e r) (outs t) ->
  (l_is_alive s0 e = true \/ In e (mine t)) -> r = None.
Proof. exact conc_delete_of_live_ok. Qed.

Theorem C10_delete_recorded : forall a0 s0 I progs,
  R a0 s0 -> LInv s0 -> forallb (hinit_okb a0) I = true -> forall s1 s2 k t e,
  nth_error (threads (run (c_new a0 I progs) s1)) k = Some t -> In (OKill e None) (outs t) ->
  NS.mem (fst e) (killed (sh (run (c_new a0 I progs) (s1 ++ s2)))) = true.
Proof. exact conc_delete_recorded. Qed.

(* (d) when all threads have finished, the shared state is the state the
   faithful sequential model (a_alloc_atomic / a_kill_atomic) reaches by
   running the creations and deletion requests in the order in which they
   linearised (equality up to the tree shape of the two sets written) ... *)
Theorem C10_final_state_sequential : forall a0 s0 I progs,
  R a0 s0 -> LInv s0 -> forallb (hinit_okb a0) I = true -> forall s,
  all_finished (run (c_new a0 I progs) s) = true ->
  aeq (sh (run (c_new a0 I progs) s)) (fst (arun true a0 (lin_ops (run (c_new a0 I progs) s)))).
Proof. exact conc_final_state_sequential. Qed.

(* ... hence R-related to the lifecycle state reached by the same creations
   (each with the index chosen, every choice valid) and deferred deletions:
   the sequential theorems (C01, C02, C17) take over for the next maintain *)
Theorem C10_final_state_refines : forall a0 s0 I progs,
  R a0 s0 -> LInv s0 -> forallb (hinit_okb a0) I = true -> forall s,
  all_finished (run (c_new a0 I progs) s) = true ->
  let ops := lin_ops (run (c_new a0 I progs) s) in
  let outs := snd (arun true a0 ops) in
  lvalid s0 (with_choices ops outs) = true /\
  snd (lrun s0 (with_choices ops outs)) = outs /\
  R (sh (run (c_new a0 I progs) s)) (fst (lrun s0 (with_choices ops outs))) /\
  LInv (fst (lrun s0 (with_choices ops outs))).
Proof. exact conc_final_state_refines. Qed.

(* (d), results: the run is linearisable with respect to the sequential model --
   the results the replay of the linearisation history returns for thread k's
   operations (trun: arun with thread tags, lemma trun_arun) are exactly the
   allocator results thread k received (handles, deletion results, is_alive
   results), followed by the handle of a creation that has linearised but
   not returned yet *)
Theorem C10_results_linearisable : forall a0 s0 I progs,
  R a0 s0 -> LInv s0 -> forallb (hinit_okb a0) I = true -> forall s k t,
  nth_error (threads (run (c_new a0 I progs) s)) k = Some t ->
  thread_results a0 k (lin (run (c_new a0 I progs) s)) = flat_map lin_out (outs t) ++ pending_of a0 (tpc t) /\
  (finished t = true -> thread_results a0 k (lin (run (c_new a0 I progs) s)) = flat_map lin_out (outs t)).
Proof. exact conc_results_linearisable. Qed.

(* (e) the final queue is an interleaving of the threads' pushes: every push
   exactly once, each thread's pushes in program order *)
Theorem C10_queue_interleaving : forall a0 s0 I progs,
  R a0 s0 -> LInv s0 -> forallb (hinit_okb a0) I = true -> forall s,
  all_finished (run (c_new a0 I progs) s) = true ->
  interleaving (map pushes progs) (queue (run (c_new a0 I progs) s)) /\
  Permutation (concat (map pushes progs)) (queue (run (c_new a0 I progs) s)).
Proof. exact conc_queue_interleaving. Qed.

(* no reachable state is stuck: no step of the modelled code panics *)
Theorem C10_never_stuck : forall a0 s0 I progs,
  R a0 s0 -> LInv s0 -> forallb (hinit_okb a0) I = true -> forall s,
  a_stuck (sh (run (c_new a0 I progs) s)) = false /\
  forall t, In t (threads (run (c_new a0 I progs) s)) -> ~ In OPanic (outs t).
Proof. exact conc_never_stuck. Qed.

(* every thread executes its program in order, operation by operation *)
Theorem C10_programs_in_order : forall a0 s0 I progs,
  R a0 s0 -> LInv s0 -> forallb (hinit_okb a0) I = true -> forall s,
  map (fun t => done t ++ prog t) (threads (run (c_new a0 I progs) s)) = progs.
Proof. exact conc_programs_in_order. Qed.

(* the hypotheses R, LInv hold after every sequential history of the world *)
Theorem C10_after_any_history : forall os,
  exists s0, R (w_alloc (fst (wrun true w_init os))) s0 /\ LInv s0.
Proof. exact after_any_history. Qed.

(* non-vacuity: free list [0; 1]; two threads race for its top entry.  After
   the schedule 0 1 0 1 both have loaded len = 2, thread 0's CAS has won
   position 2 and thread 1's CAS has failed and retries with the value it
   saw (PDecCas 1).  At the end the handles are distinct, the deletion
   request is recorded, the queue holds the push, and the linearisation
   history has the two creations and the deletion request. *)
Example C10_nonvacuous :
  let w := fst (wrun true w_init (setup_ops 3 2 1)) in
  let a0 := w_alloc w in
  let I := rev (w_hl w) in
  let c0 := c_new a0 I [[CCreate; CDelete (HOwn 0)]; [CCreate; CPush 7]] in
  let c := run c0 [0; 1; 0; 1; 0; 1; 0; 1; 0; 1; 0; 1; 0; 1]%nat in
  forallb (hinit_okb a0) I = true /\
  map tpc (threads (run c0 [0; 1; 0; 1]%nat)) = [PRead 2; PDecCas 1] /\
  all_finished c = true /\
  all_mine c = [(1, 2%Z); (0, 2%Z)] /\
  map outs (threads c) = [[OHandle (1, 2%Z); OKill (1, 2%Z) None]; [OHandle (0, 2%Z); OPush 7]] /\
  lin c = [(0%nat, ACreate true); (1%nat, ACreate true); (0%nat, AKillDef (1, 2%Z))] /\
  queue c = [7] /\
  (clen (sh c), max_id (sh c), NS.elements (raised (sh c)), NS.elements (killed (sh c))) = (0, 3, [0; 1], [1]).
Proof. vm_compute. repeat split; reflexivity. Qed.

Print Assumptions C10_handles_distinct.
Print Assumptions C10_alive_from_return.
Print Assumptions C10_delete_check_passes.
Print Assumptions C10_delete_of_live_ok.
Print Assumptions C10_delete_recorded.
Print Assumptions C10_final_state_sequential.
Print Assumptions C10_final_state_refines.
Print Assumptions C10_results_linearisable.
Print Assumptions C10_queue_interleaving.
Print Assumptions C10_never_stuck.
Print Assumptions C10_programs_in_order.
Print Assumptions C10_after_any_history.
