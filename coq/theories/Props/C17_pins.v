From SV Require Import Alloc.LifeProps Alloc.AllocRefine World.WorldSpec World.Simulation World.Micro.
From SV Require Import Props.C17.
Check (C17_index_bounded : forall tr pre pend c post, saccept s_init tr 0 = None ->
  micro_run s_init tr = pre ++ (ACreate pend, c) :: post ->
  c < lpeak l_init (pre ++ [(ACreate pend, c)]) 0).
Check (C17_fresh_only_when_full : forall tr pre pend c post, saccept s_init tr 0 = None ->
  micro_run s_init tr = pre ++ (ACreate pend, c) :: post ->
  let s := fst (lrun l_init pre) in
  (cell s c = Never -> c = used s /\ forall j, j < c -> occupied (cell s j) = true) /\
  (cell s c <> Never -> is_free (cell s c) = true)).
Check (C17_faithful_refines_spec : forall os,
  saccept s_init (combine os (snd (wrun true w_init os))) 0 = None).
Check (C17_refuted_unfixed : exists os,
  saccept s_init (combine os (snd (wrun false w_init os))) 0 = Some (2%nat, 2%nat) /\
  nth 2 (snd (wrun false w_init os)) WSkip = WHandles [(4, 1%Z)]).
