From SV Require Import Alloc.AllocStep Alloc.LifeProps World.WorldSpec World.Micro Props.C17.
Check (C17_index_bounded : forall tr pre pend c post, saccept s_init tr 0 = None ->
  micro_run s_init tr = pre ++ (ACreate pend, c) :: post ->
  c < lpeak l_init (pre ++ [(ACreate pend, c)]) 0).
Check (C17_faithful_refines_spec : forall os, saccept s_init (combine os (snd (wrun true w_init os))) 0 = None).
Check (C17_refuted_unfixed : exists os,
  saccept s_init (combine os (snd (wrun false w_init os))) 0 = Some (2%nat, 2%nat) /\
  nth 2 (snd (wrun false w_init os)) WSkip = WHandles [(4, 1%Z)]).
