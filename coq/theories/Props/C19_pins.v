(* pins: the full statement of every theorem of Props/C19.v *)
From SV Require Import Store.Raw Store.RawRefine Store.Masked Store.StoreInv.
From SV Require Import Unwind.Fault Unwind.UWorld Unwind.RelP Unwind.FaultBasics Unwind.CleanProps Unwind.StoreProps
  Unwind.LedgerInv Unwind.UWorldProps Unwind.Summary Unwind.ChangeSet Unwind.ChangeSetProps Props.C19.
Check (C19_nofault_clear : forall hord ms c, hord = None \/ hord = Some [] ->
  m_clear_f hord ms (f_of c O) = (fst (m_clear ms c), f_of (snd (m_clear ms c)) O)).
Check (C19_nofault_drop : forall ids ms c,
  m_drop_all_f ms ids (f_of c O) = (fst (m_drop_all ms ids c), f_of (snd (m_drop_all ms ids c)) O)).
Check (C19_nofault_insert : forall ms av e v c,
  st_insert_f ms av e v (f_of c O) =
  let '(ms1, r, c1) := st_insert ms av e v c in
  (ms1, r, f_of (match r with InsOld old => cx_drop c1 old | _ => c1 end) O)).
Check (C19_nofault_remove : forall ms av e c,
  st_remove_f ms av e (f_of c O) =
  let '(ms1, o, c1) := st_remove ms av e c in
  (ms1, o, f_of (match o with Some t => cx_drop c1 t | None => c1 end) O)).
Check (C19_strong_is_MInv : forall ms m, MInvP (eq default_tok) ms m <-> MInv ms m).
Check (C19_MInv_implies_weak : forall (P : tok -> Prop) ms m, P default_tok -> MInv ms m -> MInvP P ms m).
Check (C19_abandoned_loop : forall l f, f_pan f = false ->
  cx_drops (fx (f_drop_stop f l)) = rev (map fst (cut (f_arm f) l)) ++ cx_drops (fx f) /\
  cx_stuck (fx (f_drop_stop f l)) = cx_stuck (fx f) /\ cx_mints (fx (f_drop_stop f l)) = cx_mints (fx f) /\
  f_arm (f_drop_stop f l) = (f_arm f - length l)%nat /\
  f_pan (f_drop_stop f l) = fired (f_arm f) (length l)).
Check (C19_drop_glue : forall l f,
  cx_drops (fx (f_drop_all f l)) = rev (map fst l) ++ cx_drops (fx f) /\
  cx_stuck (fx (f_drop_all f l)) = cx_stuck (fx f) /\ cx_mints (fx (f_drop_all f l)) = cx_mints (fx f) /\
  f_arm (f_drop_all f l) = (f_arm f - length l)%nat /\
  f_pan (f_drop_all f l) = f_pan f || fired (f_arm f) (length l)).
Check (C19_clear : forall (P : tok -> Prop) hord ms m f, MInvP P ms m -> f_pan f = false ->
  exists cl : list (N * tok),
    let ds := if goes_on hord (ms_raw ms) then cl else cut (f_arm f) cl in
    let ms' := fst (m_clear_f hord ms f) in
    let f' := snd (m_clear_f hord ms f) in
    NoDup (map fst cl) /\ (forall i t, In (i, t) cl <-> own ms m i t) /\
    cx_drops (fx f') = rev (map uid_of ds) ++ cx_drops (fx f) /\
    f_pan f' = fired (f_arm f) (length cl) /\ f_arm f' = (f_arm f - length cl)%nat /\
    cx_stuck (fx f') = cx_stuck (fx f) /\
    MInv ms' (NM.empty tok) /\ (forall i t, ~ own ms' (NM.empty tok) i t) /\
    ms_mask ms' = NS.empty /\ ms_chan ms' = ms_chan ms /\ same_shape ms ms' /\
    (match ms_raw ms with RVec _ | RNull => map fst cl = NS.elements (ms_mask ms) | _ => True end)).
Check (C19_clear_leaks : forall (P : tok -> Prop) hord ms m f, MInvP P ms m -> f_pan f = false ->
  exists dest leaked : list (N * tok),
    NoDup (map fst (dest ++ leaked)) /\
    (forall i t, In (i, t) (dest ++ leaked) <-> own ms m i t) /\
    cx_drops (fx (snd (m_clear_f hord ms f))) = rev (map uid_of dest) ++ cx_drops (fx f) /\
    (goes_on hord (ms_raw ms) = true -> leaked = []) /\
    (goes_on hord (ms_raw ms) = false ->
       dest = cut (f_arm f) (dest ++ leaked) /\ leaked = leak_of (f_arm f) (dest ++ leaked)) /\
    (f_pan (snd (m_clear_f hord ms f)) = false -> leaked = []) /\
    f_pan (snd (m_clear_f hord ms f)) = fired (f_arm f) (length (dest ++ leaked)) /\
    (forall i t, ~ own (fst (m_clear_f hord ms f)) (NM.empty tok) i t) /\
    MInv (fst (m_clear_f hord ms f)) (NM.empty tok)).
Check (C19_drop_components : forall (P : tok -> Prop), P default_tok ->
  forall ids ms m f, MInvP P ms m -> f_pan f = false ->
  let ms' := fst (m_drop_all_f ms ids f) in
  let f' := snd (m_drop_all_f ms ids f) in
  exists (m' : NM.t tok) (ds : list (N * tok)),
    MInvP P ms' m' /\
    NoDup (map fst ds) /\ (forall i t, In (i, t) ds -> NM.find i m = Some t /\ In i ids) /\
    (forall i, NM.find i m' = if in_dec N.eq_dec i (map fst ds) then None else NM.find i m) /\
    cx_drops (fx f') = rev (map uid_of ds) ++ cx_drops (fx f) /\
    (f_pan f' = false -> (forall i, In i ids -> NM.find i m' = None) /\ f_arm f' = (f_arm f - length ds)%nat /\
                          fired (f_arm f) (length ds) = false) /\
    (f_pan f' = true -> length ds = f_arm f /\ f_arm f' = O /\ (1 <= f_arm f)%nat) /\
    cx_stuck (fx f') = cx_stuck (fx f) /\ same_shape ms ms' /\
    (forall i t, own ms' m' i t -> (own ms m i t /\ ~ In i (map fst ds)) \/ t = default_tok)).
Check (C19_insert : forall (P : tok -> Prop), P default_tok ->
  forall ms m av e v0 f, MInvP P ms m -> f_pan f = false ->
  let v := tnorm ms v0 in
  let id := fst e in
  let ms' := fst (fst (st_insert_f ms av e v0 f)) in
  let r := snd (fst (st_insert_f ms av e v0 f)) in
  let f' := snd (st_insert_f ms av e v0 f) in
  cx_stuck (fx f') = cx_stuck (fx f) /\ same_shape ms ms' /\
  (f_arm f = O -> f_arm f' = O /\ f_pan f' = false) /\
  if av_alive av e then
    match NM.find id m with
    | Some old =>
        r = InsOld old /\ MInvP P ms' (NM.add id v m) /\ cx_drops (fx f') = fst old :: cx_drops (fx f) /\
        f_pan f' = Nat.eqb (f_arm f) 1 /\ ms_mask ms' = ms_mask ms /\
        (forall i t, own ms' (NM.add id v m) i t -> (own ms m i t /\ i <> id) \/ (i = id /\ t = v))
    | None =>
        r = InsNew /\
        (exists ds : list (N * tok),
           (ds = [] \/ exists t0, ds = [(id, t0)] /\ own ms m id t0) /\
           cx_drops (fx f') = rev (map uid_of ds) ++ cx_drops (fx f) /\
           f_pan f' = fired (f_arm f) (length ds)) /\
        (f_pan f' = false -> MInvP P ms' (NM.add id v m) /\ ms_mask ms' = NS.add id (ms_mask ms)) /\
        (f_pan f' = true -> (P v -> MInvP P ms' m) /\ ms_mask ms' = ms_mask ms) /\
        (forall i t, own ms' (if f_pan f' then m else NM.add id v m) i t ->
           (own ms m i t /\ i <> id) \/ (i = id /\ t = v) \/ t = default_tok)
    end
  else ms' = ms /\ r = InsErr (av_cur_gen av id) /\ cx_drops (fx f') = fst v :: cx_drops (fx f) /\
       f_pan f' = Nat.eqb (f_arm f) 1).
Check (C19_remove : forall (P : tok -> Prop), P default_tok ->
  forall ms m av e f, MInvP P ms m -> f_pan f = false ->
  let id := fst e in
  let ms' := fst (fst (st_remove_f ms av e f)) in
  let o := snd (fst (st_remove_f ms av e f)) in
  let f' := snd (st_remove_f ms av e f) in
  cx_stuck (fx f') = cx_stuck (fx f) /\ same_shape ms ms' /\
  if av_alive av e then
    match NM.find id m with
    | Some t =>
        o = Some t /\ MInvP P ms' (NM.remove id m) /\ cx_drops (fx f') = fst t :: cx_drops (fx f) /\
        f_pan f' = Nat.eqb (f_arm f) 1 /\ ms_mask ms' = NS.remove id (ms_mask ms) /\
        (forall i t', own ms' (NM.remove id m) i t' -> (own ms m i t' /\ i <> id) \/ t' = default_tok)
    | None => o = None /\ ms' = ms /\ f' = f
    end
  else o = None /\ ms' = ms /\ f' = f).
Check (C19_get_returns_owned : forall (P : tok -> Prop) ms m av e c, MInvP P ms m ->
  snd (st_get ms av e c) = c /\
  forall t, fst (st_get ms av e c) = Some t -> NM.find (fst e) m = Some t /\ av_alive av e = true).
Check (C19_join_returns_owned : forall (P : tok -> Prop) ms m c, MInvP P ms m ->
  snd (join_vals (ms_raw ms) (NS.elements (ms_mask ms)) c) = c /\
  forall i t, In (i, t) (fst (join_vals (ms_raw ms) (NS.elements (ms_mask ms)) c)) -> NM.find i m = Some t).
Check (C19_slice_returns_owned : forall (P : tok -> Prop) ms m c, MInvP P ms m ->
  snd (u_slice (ms_raw ms) (NS.elements (ms_mask ms)) c) = c /\
  forall t, In t (slice_toks (fst (u_slice (ms_raw ms) (NS.elements (ms_mask ms)) c))) -> exists i, own ms m i t).
Check (C19_step : forall (P : tok -> Prop), P default_tok ->
  forall orc w o G L used,
  LJ P (uw_stores w) G L used -> fresh (intro_uids o) used -> orphan_ok P w o (plan w o) ->
  (exists G', LJ P (uw_stores (fst (fst (ustep orc w o)))) G' (cx_drops (fx (snd (ustep orc w o))) ++ L) (intro_uids o ++ used)) /\
  cx_stuck (fx (snd (ustep orc w o))) = false /\
  (forall t, In t (out_toks (snd (fst (ustep orc w o)))) -> real (fst t) = true -> ~ In (fst t) L)).
Check (C19_no_double_drop : forall orcs os, ndr (hist_uids os) -> ndr (snd (urun orcs uw_init [] os))).
Check (C19_teardown_no_double_drop : forall orcs orc os, ndr (hist_uids os) ->
  ndr (cx_drops (fx (uw_teardown orc (fst (urun orcs uw_init [] os)))) ++ snd (urun orcs uw_init [] os))).
Check (C19_no_stale_read : forall orcs orc os o, ndr (hist_uids (os ++ [o])) ->
  let w := fst (urun orcs uw_init [] os) in
  let L := snd (urun orcs uw_init [] os) in
  (forall t, In t (out_toks (snd (fst (ustep orc w o)))) -> real (fst t) = true -> ~ In (fst t) L) /\
  cx_stuck (fx (snd (ustep orc w o))) = false).
Check (C19_invariant_after_any_history : forall orcs os, ndr (hist_uids os) ->
  exists G, WJ anyP (uw_stores (fst (urun orcs uw_init [] os))) G).
Check (C19_faulting_delete_leaves : forall (P : tok -> Prop), P default_tok ->
  forall ids tbl stores G f, WJ P stores G -> f_pan f = false ->
  let stores' := fst (purge_tbl_f stores tbl ids f) in
  let f' := snd (purge_tbl_f stores tbl ids f) in
  (exists G', WJ P stores' G') /\
  (forall sid, match NM.find sid stores, NM.find sid stores' with
               | Some ms, Some ms' => mask_le ids ms ms' /\ (~ In sid tbl -> ms' = ms)
               | None, None => True
               | _, _ => False
               end) /\
  (f_pan f' = false -> forall sid ms', In sid tbl -> NM.find sid stores' = Some ms' ->
     forall i, In i ids -> NS.mem i (ms_mask ms') = false)).
Check (C19_delete_kills_first : forall orc w hs es, uhget_all (uw_hs w) hs = Some es ->
  uw_alloc (fst (fst (ustep orc w (UDeleteMany hs)))) = fst (a_kill true (uw_alloc w) es) /\
  uw_hs (fst (fst (ustep orc w (UDeleteMany hs)))) = uw_hs w).
Check (C19_maintain_merges_first : forall orc w,
  uw_alloc (fst (fst (ustep orc w UMaintain))) = fst (a_merge (uw_alloc w))).
Check (C19_other_storages_untouched : forall orc w sid sid',
  sid' <> sid ->
  NM.find sid' (uw_stores (fst (fst (ustep orc w (UClear sid))))) = NM.find sid' (uw_stores w) /\
  NM.find sid' (uw_stores (fst (fst (ustep orc w (UDropStorage sid))))) = NM.find sid' (uw_stores w) /\
  (forall h, NM.find sid' (uw_stores (fst (fst (ustep orc w (URemove sid h))))) = NM.find sid' (uw_stores w)) /\
  (forall h v, NM.find sid' (uw_stores (fst (fst (ustep orc w (UInsert sid h v))))) = NM.find sid' (uw_stores w))).
Check (C19_changeset_add : forall ms m id v f, MInvP csP ms m -> cs_shape ms -> f_pan f = false ->
  let ms' := fst (cs_add_f ms id v f) in
  let f' := snd (cs_add_f ms id v f) in
  cs_shape ms' /\ cx_stuck (fx f') = cx_stuck (fx f) /\
  match NM.find id m with
  | Some old =>
      MInvP csP ms' (NM.add id (fst old, (snd old + snd v)%Z) m) /\
      cx_drops (fx f') = fst v :: cx_drops (fx f) /\ f_pan f' = Nat.eqb (f_arm f) 1 /\
      (forall i t, own ms' (NM.add id (fst old, (snd old + snd v)%Z) m) i t ->
         (own ms m i t /\ i <> id) \/ (i = id /\ t = (fst old, (snd old + snd v)%Z)))
  | None =>
      MInvP csP ms' (NM.add id v m) /\ cx_drops (fx f') = cx_drops (fx f) /\ f_pan f' = false /\
      (forall i t, own ms' (NM.add id v m) i t -> (own ms m i t /\ i <> id) \/ (i = id /\ t = v))
  end).
Check (C19_changeset_no_double_drop : forall os, ndr (cs_hist_uids os) ->
  ndr (snd (cs_run cs_init [] os)) /\
  ndr (cx_drops (fx (cs_teardown (fst (cs_run cs_init [] os)))) ++ snd (cs_run cs_init [] os))).
Check (C19_changeset_no_stale_read : forall os o, ndr (cs_hist_uids (os ++ [o])) ->
  let s := fst (cs_run cs_init [] os) in
  let L := snd (cs_run cs_init [] os) in
  (forall t, In t (out_toks (snd (fst (cs_step s o)))) -> real (fst t) = true -> ~ In (fst t) L) /\
  cx_stuck (fx (snd (cs_step s o))) = false).
