(* C02 - Aliveness follows the create / delete / maintain timeline exactly. *)
From SV Require Import Alloc.LifeProps Alloc.AllocRefine World.WorldSpec World.Simulation World.Micro.
From Coq Require Import Sorting.Sorted.

(* alive from the moment the creation call returns (both creation kinds, any index) *)
Theorem C02_alive_on_return : forall pend s i,
  l_is_alive (fst (l_create pend s i)) (snd (l_create pend s i)) = true.
Proof. exact life_alive_on_return. Qed.

(* never reported alive again: any accepted continuation of any accepted history *)
Theorem C02_dead_forever : forall tr tr' e,
  saccept s_init (tr ++ tr') 0 = None -> In e (all_returned tr) ->
  l_is_alive (s_life (fst (srun s_init tr))) e = false ->
  l_is_alive (s_life (fst (srun s_init (tr ++ tr')))) e = false.
Proof. exact accepted_dead_forever. Qed.

(* deleting through a dead handle fails and changes nothing (immediate and deferred) *)
Theorem C02_failed_delete_changes_nothing : forall s e,
  l_is_alive s e = false ->
  (forall l pos, l_kill s (e :: l) pos = (s, Some pos)) /\ l_kill_def s e = (s, false).
Proof.
  intros s e H. split; [intros l pos; exact (life_kill_dead_nop s e l pos H) | exact (life_kill_def_dead_nop s e H)].
Qed.

(* a batch that meets a dead handle deletes exactly the handles before it and reports that position *)
Theorem C02_batch_stops_at_first_dead : forall l1 s pos d l2,
  snd (l_kill s l1 pos) = None -> l_is_alive (fst (l_kill s l1 pos)) d = false ->
  l_kill s (l1 ++ d :: l2) pos = (fst (l_kill s l1 pos), Some (pos + length l1)%nat).
Proof. exact life_kill_prefix. Qed.

(* the entities join yields exactly the handles reported alive, all of them returned earlier *)
Theorem C02_join_is_alive_set : forall tr e, saccept s_init tr 0 = None ->
  let s := s_life (fst (srun s_init tr)) in
  (In e (l_entities s) <-> l_is_alive s e = true) /\ (In e (l_entities s) -> In e (all_returned tr)).
Proof.
  intros tr e H. split; [apply life_entities_alive | apply accepted_entities_returned; exact H].
Qed.

Theorem C02_join_sorted : forall s, Sorted (fun a b : entity => fst a < fst b) (l_entities s).
Proof. exact life_entities_sorted. Qed.

Theorem C02_faithful_refines_spec : forall os,
  saccept s_init (combine os (snd (wrun true w_init os))) 0 = None.
Proof. intros os. exact (proj1 (wrun_accepted os w_init s_init 0%nat RW_init)). Qed.

(* non-vacuity: a history in which a handle dies, its index is reused, and the
   stale handle is probed afterwards *)
Example C02_nonvacuous :
  let os := [OCreate []; OEDelete 0%nat; OProbeAll; OMaintain; OProbeAll; OCreate []; OProbeAll; ODelete 0%nat] in
  snd (wrun true w_init os) =
    [WHandles [(0, 1%Z)]; WKillDef None; WBools [true]; WUnit; WBools [false];
     WHandles [(0, 2%Z)]; WBools [false; true]; WKill (Some (0%nat, 2%Z))].
Proof. vm_compute. reflexivity. Qed.

Print Assumptions C02_alive_on_return.
Print Assumptions C02_dead_forever.
Print Assumptions C02_failed_delete_changes_nothing.
Print Assumptions C02_batch_stops_at_first_dead.
Print Assumptions C02_join_is_alive_set.
Print Assumptions C02_join_sorted.
Print Assumptions C02_faithful_refines_spec.
