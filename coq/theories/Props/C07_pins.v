From SV Require Import Base.ListX Store.Masked World.Env World.Join World.JoinProps World.EnvSim.
From SV Require Import Props.C07.
Check (C07_parallel_is_sequential : forall e av eids hs n ms,
  join_ok e (JPar n) ms = true -> join_ok e (JSeq None) ms = true ->
  env_join e av eids hs (JPar n) ms = env_join e av eids hs (JSeq None) ms).
Check (C07_pool_size_irrelevant : forall e av eids hs n n' ms,
  env_join e av eids hs (JPar n) ms = env_join e av eids hs (JPar n') ms).
Check (C07_each_index_exactly_once : forall e av eids hs n ms l e',
  env_join e av eids hs (JPar n) ms = (e', JItems l) ->
  NoDup (map fst l) /\ (forall i, In i (map fst l) <-> all_have e eids ms i = true)).
Check (C07_any_storage_kind : forall e1 e2 av eids hs n ms, env_rel e1 e2 ->
  snd (env_join e1 av eids hs (JPar n) ms) = snd (env_join e2 av eids hs (JPar n) ms) /\
  env_rel (fst (env_join e1 av eids hs (JPar n) ms)) (fst (env_join e2 av eids hs (JPar n) ms))).
