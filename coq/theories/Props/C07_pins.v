From SV Require Import Base.ListX Store.Masked World.Env World.Join World.JoinProps World.JoinAbs World.JoinRefine
  World.JoinAbsProps World.EnvSim Bits.Hibit Bits.HibitIter Bits.HibitOrder Bits.HibitSet Bits.HibitExpr.
From Coq Require Import Sorting.Permutation Sorting.Sorted.
From SV Require Import Props.C07.
Check (C07_parallel_is_sequential : forall e av eids hs n ms,
  join_ok e (JPar n) ms = true -> join_ok e (JSeq None) ms = true ->
  env_join e av eids hs (JPar n) ms = env_join e av eids hs (JSeq None) ms).
Check (C07_pool_size_irrelevant : forall e av eids hs n n' ms,
  env_join e av eids hs (JPar n) ms = env_join e av eids hs (JPar n') ms).
Check (C07_each_index_exactly_once : forall e av eids hs n ms l e',
  env_join e av eids hs (JPar n) ms = (e', JItems l) ->
  NoDup (map fst l) /\ (forall i, In i (map fst l) <-> all_have e eids ms i = true)).
Check (C07_any_storage_kind : forall e1 e2 av eids hs n ms, env_rel e1 e2 ->
  snd (env_join e1 av eids hs (JPar n) ms) = snd (env_join e2 av eids hs (JPar n) ms) /\
  env_rel (fst (env_join e1 av eids hs (JPar n) ms)) (fst (env_join e2 av eids hs (JPar n) ms))).
Check (C07_any_split_same_final_storages : forall unit av hs excl eids ms keys keys' S s j, NoDup keys -> Permutation keys keys' ->
  cell (fst (a_visit_keys unit av hs excl eids ms keys S)) s j = cell (fst (a_visit_keys unit av hs excl eids ms keys' S)) s j).
Check (C07_any_split_same_indices : forall unit av hs excl eids ms keys keys' S, Permutation keys keys' ->
  Permutation (map fst (snd (a_visit_keys unit av hs excl eids ms keys S))) (map fst (snd (a_visit_keys unit av hs excl eids ms keys' S)))).
Check (C07_any_split_same_items : forall unit av hs excl eids pre m post s keys keys' S, NoDup keys -> Permutation keys keys' ->
  reads_cell m s = true -> forallb (fun m' => negb (m_owns m' s)) pre = true ->
  forall j xs xs', In (j, xs) (snd (a_visit_keys unit av hs excl eids (pre ++ m :: post) keys S)) ->
                   In (j, xs') (snd (a_visit_keys unit av hs excl eids (pre ++ m :: post) keys' S)) ->
  nth_error xs (length pre) = nth_error xs' (length pre)).
Check (C07_visits_of_distinct_indices_do_not_interfere : forall unit av hs excl eids ms i S s j, i <> j ->
  cell (fst (a_visit_members unit av hs excl eids ms i S)) s j = cell S s j).
Check (C07_join_refines_the_join_on_maps : forall unit av hs excl eids ms keys e S, absrel unit e S ->
  snd (visit_keys av hs excl eids ms keys e) = snd (a_visit_keys unit av hs excl eids ms keys S) /\
  absrel unit (fst (visit_keys av hs excl eids ms keys e)) (fst (a_visit_keys unit av hs excl eids ms keys S))).
Check (C07_every_split_tree_yields_each_member_exactly_once : forall g P t, exact g P ->
  exists outs, Forall2 (fun it o => drain_iter g (S (weight it)) it = Some o) (leaves g average_ones (fresh g) t) outs /\
               concat outs = den g (fresh g) /\
               StronglySorted N.lt (concat outs) /\ forall x, In x (concat outs) <-> P x).
Check (C07_a_split_loses_and_repeats_nothing : forall g avg,
  (forall w, avg w = None -> (length w <= 1)%nat) -> (forall l i, sorted (g l i)) -> forall it, top_only it ->
  match split g avg it with
  | (a, Some b) => den g a ++ den g b = den g it /\ top_only a /\ top_only b
  | (a, None) => den g a = den g it /\ top_only a
  end).
