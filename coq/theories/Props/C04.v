(* C04 - Every storage kind behaves as the same map from live entity to component. *)
From SV Require Import Base.PvecFacts Store.Raw Store.RawRefine Store.Masked Store.StoreInv World.Env World.StoreSim
  World.EnvSim World.WorldSpec World.Simulation World.NoStuck.

(* --- the five raw kinds against the plain map, under the UnprotectedStorage protocol --- *)

Theorem C04_raw_get : forall r m i t c, rrel r m -> NM.find i m = Some t -> u_get r i c = (t, c).
Proof. exact u_get_ref. Qed.

Theorem C04_raw_insert : forall r m i v c, rrel r m -> NM.find i m = None -> val_ok r v ->
  rrel (fst (u_insert r i v c)) (NM.add i v m) /\ cx_stuck (snd (u_insert r i v c)) = cx_stuck c.
Proof. exact u_insert_ref. Qed.

Theorem C04_raw_write : forall r m i t v c, rrel r m -> NM.find i m = Some t -> val_ok r v ->
  rrel (fst (u_write r i v c)) (NM.add i v m) /\ snd (u_write r i v c) = c.
Proof. exact u_write_ref. Qed.

Theorem C04_raw_remove : forall r m i t c, rrel r m -> NM.find i m = Some t ->
  let '(r', t', c') := u_remove r i c in
  t' = t /\ rrel r' (NM.remove i m) /\ cx_stuck c' = cx_stuck c /\ cx_drops c' = cx_drops c.
Proof. exact u_remove_ref. Qed.

Theorem C04_raw_clean : forall r m mask c, rrel r m -> NoDup mask ->
  (forall i, In i mask <-> NM.find i m <> None) ->
  rrel (fst (u_clean r mask c)) (NM.empty tok) /\ cx_stuck (snd (u_clean r mask c)) = cx_stuck c.
Proof. exact u_clean_ref. Qed.

(* --- slice views --- *)

Theorem C04_slice_vec : forall s m ids c, rrel (RVec s) m -> (forall i, In i ids -> NM.find i m <> None) ->
  vec_slice_vals s ids c = (map (fun i => match NM.find i m with Some t => t | None => unit_tok end) ids, c).
Proof. exact vec_slice_ref. Qed.

Theorem C04_slice_default : forall cells m k, rrel (RDefault cells) m -> k < vlen cells ->
  pv_get cells k = Some (match NM.find k m with Some t => t | None => default_tok end).
Proof. exact default_slice_ref. Qed.

Theorem C04_slice_dense : forall s m, rrel (RDense s) m ->
  (forall k, k < vlen (d_data s) -> exists i t, pv_get (d_eid s) k = Some i /\ pv_get (d_data s) k = Some t /\ NM.find i m = Some t) /\
  (forall i t, NM.find i m = Some t -> exists k, k < vlen (d_data s) /\ pv_get (d_eid s) k = Some i /\ pv_get (d_data s) k = Some t) /\
  (forall k1 k2 i, pv_get (d_eid s) k1 = Some i -> pv_get (d_eid s) k2 = Some i -> k1 = k2).
Proof. exact dense_slice_ref. Qed.

(* --- the Storage API: same results on any two representations of the same map --- *)

Theorem C04_api_same_on_all_kinds : forall a b av ent so ca cb, srel a b ->
  let '(a', oa, ca') := ms_sop a av ent so ca in
  let '(b', ob, cb') := ms_sop b av ent so cb in
  wout_sim oa ob /\ srel a' b' /\ cx_stuck ca' = cx_stuck ca /\ cx_stuck cb' = cx_stuck cb.
Proof. exact ms_sop_pair. Qed.

(* --- whole histories: real kinds vs plain maps, any transcript --- *)

Theorem C04_world_same_as_plain_map : forall tr,
  Forall2 wout_sim (snd (srun (s_init_env false) tr)) (snd (srun (s_init_env true) tr)).
Proof. intros tr. exact (proj1 (srun_pair tr _ _ SW_init)). Qed.

(* the faithful world model against the plain-map specification *)
Theorem C04_faithful_same_as_plain_map : forall os,
  Forall2 wout_sim (snd (wrun true w_init os))
                   (snd (srun (s_init_env true) (combine os (snd (wrun true w_init os))))).
Proof.
  intros os. destruct (wrun_sim os w_init s_init RW_init) as [E _]. cbn zeta in E. rewrite <- E at 1.
  exact (proj1 (srun_pair _ _ _ SW_init)).
Qed.

(* no step is ever stuck when components are registered before use *)
Theorem C04_never_stuck : forall os,
  regs_ok s_init (combine os (snd (wrun true w_init os))) = true ->
  w_is_stuck (fst (wrun true w_init os)) = false.
Proof. exact wrun_never_stuck_at_all. Qed.

(* non-vacuity: a dense storage after removal from the middle, compared with the map *)
Example C04_nonvacuous :
  let os := [OStore (SRegister 1); OCreateIter 3;
             OStore (SInsert 1 0%nat (11, 1%Z)); OStore (SInsert 1 1%nat (12, 2%Z)); OStore (SInsert 1 2%nat (13, 3%Z));
             OStore (SRemove 1 0%nat); OStore (SSlice 1); OStore (SGet 1 2%nat); OStore (SMask 1)] in
  skipn 5 (snd (wrun true w_init os)) =
    [WOptTok (Some (11, 1%Z)); WSlice (SliceAll [(13, 3%Z); (12, 2%Z)]); WOptTok (Some (13, 3%Z)); WIdx [1; 2]] /\
  regs_ok s_init (combine os (snd (wrun true w_init os))) = true.
Proof. vm_compute. split; reflexivity. Qed.

Print Assumptions C04_raw_get.
Print Assumptions C04_raw_insert.
Print Assumptions C04_raw_write.
Print Assumptions C04_raw_remove.
Print Assumptions C04_raw_clean.
Print Assumptions C04_slice_vec.
Print Assumptions C04_slice_default.
Print Assumptions C04_slice_dense.
Print Assumptions C04_api_same_on_all_kinds.
Print Assumptions C04_world_same_as_plain_map.
Print Assumptions C04_faithful_same_as_plain_map.
Print Assumptions C04_never_stuck.
