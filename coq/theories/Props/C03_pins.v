From SV Require Import Alloc.AllocStep Store.Raw Store.Masked Store.DeadHandle World.WorldSpec World.Micro Props.C03.
Check (C03_dead_handle_is_absent : forall ms av e c, av_alive av e = false ->
  st_get ms av e c = (None, c) /\
  st_contains ms av e = false /\
  (forall touch nv, st_get_mut ms av e touch nv c = (ms, None, c)) /\
  st_remove ms av e c = (ms, None, c) /\
  (forall v, st_insert ms av e v c = (ms, InsErr (av_cur_gen av (fst e)), cx_drop c (tnorm ms v))) /\
  (forall o, exists c', st_entry ms av e o c = (ms, EnErr (av_err_gen av (fst e)), c') /\
                        cx_stuck c' = cx_stuck c /\ cx_mints c' = cx_mints c) /\
  st_get_mut_or_default ms av e c =
    (ms, None, cx_drop (cx_mint c) (tnorm ms (if ms_unit ms then unit_tok else default_tok)))).
Check (C03_stale_forever : forall tr tr' e,
  saccept s_init (tr ++ tr') 0 = None -> In e (all_returned tr) ->
  l_is_alive (s_life (fst (srun s_init tr))) e = false ->
  av_alive (l_view (s_life (fst (srun s_init (tr ++ tr'))))) e = false).
