From SV Require Import Alloc.AllocStep Store.Raw Store.Masked Store.DeadHandle World.Env World.Join World.JoinProps
  World.WorldSpec World.Micro.
From SV Require Import Props.C03.
Check (C03_dead_handle_is_absent : forall ms av e c, av_alive av e = false ->
  st_get ms av e c = (None, c) /\
  st_contains ms av e = false /\
  (forall touch nv, st_get_mut ms av e touch nv c = (ms, None, c)) /\
  st_remove ms av e c = (ms, None, c) /\
  (forall v, st_insert ms av e v c = (ms, InsErr (av_cur_gen av (fst e)), cx_drop c (tnorm ms v))) /\
  (forall o, exists c', st_entry ms av e o c = (ms, EnErr (av_err_gen av (fst e)), c') /\
                        cx_stuck c' = cx_stuck c /\ cx_mints c' = cx_mints c) /\
  st_get_mut_or_default ms av e c =
    (ms, None, cx_drop (cx_mint c) (tnorm ms (if ms_unit ms then unit_tok else default_tok)))).
Check (C03_stale_forever : forall tr tr' e,
  saccept s_init (tr ++ tr') 0 = None -> In e (all_returned tr) ->
  l_is_alive (s_life (fst (srun s_init tr))) e = false ->
  av_alive (l_view (s_life (fst (srun s_init (tr ++ tr'))))) e = false).
Check (C03_lending_lookup_of_a_dead_handle : forall e av eids hs ms h ent,
  pv_get hs (N.of_nat h) = Some ent -> av_alive av ent = false ->
  env_join e av eids hs (JLendGet h) ms = (e, JOne None) \/ env_join e av eids hs (JLendGet h) ms = (e, JSkipped) \/
  env_join e av eids hs (JLendGet h) ms = (env_fail e, JSkipped)).
Check (C03_restricted_lookup_of_a_dead_handle : forall av hs sid mutably l e n h ent,
  nth_error l n = Some h -> pv_get hs (N.of_nat h) = Some ent -> av_alive av ent = false ->
  nth_error (snd (others_lookup av hs sid mutably l e)) n = Some None).
