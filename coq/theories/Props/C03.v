(* C03 - A dead or stale handle can never read or change a live entity's components. *)
From SV Require Import Alloc.AllocStep Store.Raw Store.Masked Store.DeadHandle World.WorldSpec World.Micro.

(* every handle-taking access path of the Storage API, any storage kind and wrapper, any mask
   (in particular when a newer entity occupies the handle's index): absent outcome, storage unchanged *)
Theorem C03_dead_handle_is_absent : forall ms av e c, av_alive av e = false ->
  st_get ms av e c = (None, c) /\
  st_contains ms av e = false /\
  (forall touch nv, st_get_mut ms av e touch nv c = (ms, None, c)) /\
  st_remove ms av e c = (ms, None, c) /\
  (forall v, st_insert ms av e v c = (ms, InsErr (av_cur_gen av (fst e)), cx_drop c (tnorm ms v))) /\
  (forall o, exists c', st_entry ms av e o c = (ms, EnErr (av_err_gen av (fst e)), c') /\
                        cx_stuck c' = cx_stuck c /\ cx_mints c' = cx_mints c) /\
  st_get_mut_or_default ms av e c =
    (ms, None, cx_drop (cx_mint c) (tnorm ms (if ms_unit ms then unit_tok else default_tok))).
Proof.
  intros ms av e c H. split; [apply dead_get; exact H|]. split; [apply dead_contains; exact H|].
  split; [intros; apply dead_get_mut; exact H|]. split; [apply dead_remove; exact H|].
  split; [intros; apply dead_insert; exact H|]. split; [intros; apply dead_entry; exact H|].
  apply dead_get_mut_or_default; exact H.
Qed.

(* ... and a handle that is dead stays dead in every continuation of the history (reuse of its
   index, merged or not, any number of times), so the above applies forever *)
Theorem C03_stale_forever : forall tr tr' e,
  saccept s_init (tr ++ tr') 0 = None -> In e (all_returned tr) ->
  l_is_alive (s_life (fst (srun s_init tr))) e = false ->
  av_alive (l_view (s_life (fst (srun s_init (tr ++ tr'))))) e = false.
Proof. exact accepted_dead_forever. Qed.

(* non-vacuity: a stale handle whose index was taken over; every path, real run of the model *)
Example C03_nonvacuous :
  let os := [OStore (SRegister 0); OCreate [(0, (1, 10%Z))]; ODelete 0%nat; OCreate [(0, (2, 20%Z))];
             OStore (SGet 0 0%nat); OStore (SInsert 0 0%nat (3, 30%Z)); OStore (SRemove 0 0%nat);
             OStore (SGetMut 0 0%nat true (Some 99%Z)); OStore (SEntry 0 0%nat EnRemove); OStore (SGet 0 1%nat)] in
  skipn 4 (snd (wrun true w_init os)) =
    [WOptTok None; WIns (InsErr 2%Z); WOptTok None; WOptTok None; WEntry (EnErr 2%Z); WOptTok (Some (2, 20%Z))].
Proof. vm_compute. reflexivity. Qed.

Print Assumptions C03_dead_handle_is_absent.
Print Assumptions C03_stale_forever.
