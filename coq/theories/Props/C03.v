(* C03 - A dead or stale handle can never read or change a live entity's components. *)
From SV Require Import Alloc.AllocStep Store.Raw Store.Masked Store.DeadHandle World.Env World.Join World.JoinProps
  World.WorldSpec World.Micro.

(* every handle-taking access path of the Storage API, any storage kind and wrapper, any mask
   (in particular when a newer entity occupies the handle's index): absent outcome, storage unchanged *)
Theorem C03_dead_handle_is_absent : forall ms av e c, av_alive av e = false ->
  st_get ms av e c = (None, c) /\
  st_contains ms av e = false /\
  (forall touch nv, st_get_mut ms av e touch nv c = (ms, None, c)) /\
  st_remove ms av e c = (ms, None, c) /\
  (forall v, st_insert ms av e v c = (ms, InsErr (av_cur_gen av (fst e)), cx_drop c (tnorm ms v))) /\
  (forall o, exists c', st_entry ms av e o c = (ms, EnErr (av_err_gen av (fst e)), c') /\
                        cx_stuck c' = cx_stuck c /\ cx_mints c' = cx_mints c) /\
  st_get_mut_or_default ms av e c =
    (ms, None, cx_drop (cx_mint c) (tnorm ms (if ms_unit ms then unit_tok else default_tok))).
Proof.
  intros ms av e c H. split; [apply dead_get; exact H|]. split; [apply dead_contains; exact H|].
  split; [intros; apply dead_get_mut; exact H|]. split; [apply dead_remove; exact H|].
  split; [intros; apply dead_insert; exact H|]. split; [intros; apply dead_entry; exact H|].
  apply dead_get_mut_or_default; exact H.
Qed.

(* ... and a handle that is dead stays dead in every continuation of the history (reuse of its
   index, merged or not, any number of times), so the above applies forever *)
Theorem C03_stale_forever : forall tr tr' e,
  saccept s_init (tr ++ tr') 0 = None -> In e (all_returned tr) ->
  l_is_alive (s_life (fst (srun s_init tr))) e = false ->
  av_alive (l_view (s_life (fst (srun s_init (tr ++ tr'))))) e = false.
Proof. exact accepted_dead_forever. Qed.

(* the lending join's lookup by entity: a dead handle gets no item and nothing is touched, whatever occupies its
   index now *)
Theorem C03_lending_lookup_of_a_dead_handle : forall e av eids hs ms h ent,
  pv_get hs (N.of_nat h) = Some ent -> av_alive av ent = false ->
  env_join e av eids hs (JLendGet h) ms = (e, JOne None) \/ env_join e av eids hs (JLendGet h) ms = (e, JSkipped) \/
  env_join e av eids hs (JLendGet h) ms = (env_fail e, JSkipped).
Proof.
  intros e av eids hs ms h ent Hh Ha. unfold env_join.
  destruct (negb (join_ok e (JLendGet h) ms)); [right; left; reflexivity|].
  destruct (negb (handles_ok hs (JLendGet h) ms)); [right; left; reflexivity|].
  destruct (negb (forallb (m_registered e) ms)); [right; right; reflexivity|].
  rewrite Hh, Ha, andb_false_r. left. reflexivity.
Qed.

(* looking another entity up through a restricted item (get_other / get_other_mut): a dead handle is answered with
   nothing, and no lookup changes any membership *)
Theorem C03_restricted_lookup_of_a_dead_handle : forall av hs sid mutably l e n h ent,
  nth_error l n = Some h -> pv_get hs (N.of_nat h) = Some ent -> av_alive av ent = false ->
  nth_error (snd (others_lookup av hs sid mutably l e)) n = Some None.
Proof.
  intros av hs sid mutably l e n h ent Hn Hh Ha.
  destruct (others_lookup_spec av hs sid mutably l e) as [Hs _].
  assert (nth_error (map is_some (snd (others_lookup av hs sid mutably l e))) n = Some false) as X.
  { rewrite Hs. rewrite (map_nth_error (other_present e av hs sid) n l Hn). unfold other_present. rewrite Hh, Ha, andb_false_r. reflexivity. }
  destruct (nth_error (snd (others_lookup av hs sid mutably l e)) n) as [[t|]|] eqn:E;
    [rewrite (map_nth_error is_some n _ E) in X; cbn in X; congruence | reflexivity |].
  assert (nth_error (map is_some (snd (others_lookup av hs sid mutably l e))) n = None) as Y.
  { apply nth_error_None. rewrite map_length. apply nth_error_None. exact E. }
  congruence.
Qed.

(* non-vacuity: a stale handle whose index was taken over; every path, real run of the model *)
Example C03_nonvacuous :
  let os := [OStore (SRegister 0); OCreate [(0, (1, 10%Z))]; ODelete 0%nat; OCreate [(0, (2, 20%Z))];
             OStore (SGet 0 0%nat); OStore (SInsert 0 0%nat (3, 30%Z)); OStore (SRemove 0 0%nat);
             OStore (SGetMut 0 0%nat true (Some 99%Z)); OStore (SEntry 0 0%nat EnRemove); OStore (SGet 0 1%nat)] in
  skipn 4 (snd (wrun true w_init os)) =
    [WOptTok None; WIns (InsErr 2%Z); WOptTok None; WOptTok None; WEntry (EnErr 2%Z); WOptTok (Some (2, 20%Z))].
Proof. vm_compute. reflexivity. Qed.

Print Assumptions C03_dead_handle_is_absent.
Print Assumptions C03_stale_forever.
Print Assumptions C03_lending_lookup_of_a_dead_handle.
Print Assumptions C03_restricted_lookup_of_a_dead_handle.
