From SV Require Import Base.ListX Store.Raw Store.RawRefine Store.CleanProps Store.Masked Store.StoreInv Store.Bag Store.Ledger
  Store.ClearLedger Store.DefaultLedger Store.DeadHandle
  World.Env World.Join World.SopLedger World.WorldLedger World.JoinLedger World.HistoryLedger World.WorldSpec World.World World.Simulation World.NoStuck.
From Coq Require Import Sorting.Permutation.
From SV Require Import Props.C08.
Check (C08_never_exposes_an_unwritten_or_moved_out_slot : forall os,
  regs_ok s_init (combine os (snd (wrun true w_init os))) = true ->
  w_is_stuck (fst (wrun true w_init os)) = false).
Check (C08_remove_hands_back_the_stored_value : forall ms m id c, MInv ms m ->
  let '(ms', o, c') := m_remove ms id c in
  o = NM.find id m /\
  MInv ms' (if NS.mem id (ms_mask ms) then NM.remove id m else m) /\
  cx_stuck c' = cx_stuck c /\ cx_drops c' = cx_drops c /\
  ms_mask ms' = (if NS.mem id (ms_mask ms) then NS.remove id (ms_mask ms) else ms_mask ms) /\
  ms_chan ms' = (if NS.mem id (ms_mask ms) then ms_chan (ms_event ms (ERemoved id)) else ms_chan ms) /\
  same_shape ms ms').
Check (C08_overwrite_hands_back_the_old_value : forall ms m id t v c, MInv ms m -> NM.find id m = Some t ->
  v = tnorm ms v ->
  let '(ms', old, c') := w_access_mut ms id true (USwap v) c in
  old = t /\ MInv ms' (NM.add id v m) /\ c' = c).
Check (C08_refused_insert_destroys_the_refused_value : forall ms av e v c, av_alive av e = false ->
  st_insert ms av e v c = (ms, InsErr (av_cur_gen av (fst e)), cx_drop c (tnorm ms v))).
Check (C08_delete_destroys_exactly_that_value : forall ms m id c, MInv ms m ->
  let '(ms', c') := m_drop ms id c in
  MInv ms' (if NS.mem id (ms_mask ms) then NM.remove id m else m) /\ cx_stuck c' = cx_stuck c /\
  cx_drops c' = (match NM.find id m with Some t => fst t :: cx_drops c | None => cx_drops c end) /\
  ms_mask ms' = (if NS.mem id (ms_mask ms) then NS.remove id (ms_mask ms) else ms_mask ms) /\
  ms_chan ms' = (if NS.mem id (ms_mask ms) then ms_chan (ms_event ms (ERemoved id)) else ms_chan ms) /\
  same_shape ms ms').
Check (C08_clear_empties : forall ms m c, MInv ms m ->
  let '(ms', c') := m_clear ms c in
  MInv ms' (NM.empty tok) /\ cx_stuck c' = cx_stuck c /\ ms_mask ms' = NS.empty /\ ms_chan ms' = ms_chan ms /\
  same_shape ms ms').
Check (C08_vec_clean_destroys_the_masked_slots_once : forall ids s c, NoDup ids ->
  (forall i, In i ids -> i < v_len s /\ exists t, NM.find i (v_slots s) = Some (SInit t)) ->
  cx_drops (snd (vec_clean s ids c)) = rev (map (slot_uid s) ids) ++ cx_drops c /\
  cx_stuck (snd (vec_clean s ids c)) = cx_stuck c /\
  (forall i, In i ids -> exists t, NM.find i (v_slots (fst (vec_clean s ids c))) = Some (SMoved t) /\ fst t = slot_uid s i) /\
  (forall j, ~ In j ids -> NM.find j (v_slots (fst (vec_clean s ids c))) = NM.find j (v_slots s)) /\
  v_len (fst (vec_clean s ids c)) = v_len s).
Check (C08_map_clean_destroys_every_value_once : forall m mask c,
  u_clean (RMap m) mask c = (RMap (NM.empty tok), cx_drop_all c (map snd (NM.elements m))) /\
  cx_drops (snd (u_clean (RMap m) mask c)) = rev (map (fun p => fst (snd p)) (NM.elements m)) ++ cx_drops c).
Check (C08_null_clean_materialises_one_unit_per_member : forall ids c,
  cx_drops (null_clean ids c) = repeat (fst unit_tok) (length ids) ++ cx_drops c).
Check (C08_lazy_values_are_applied_or_destroyed : forall e av hs so,
  env_sop_quiet e av hs so =
    (let '(e', out) := env_sop e av hs so in
     match out with
     | WIns (InsOld t) | WOptTok (Some t) => env_cx e' (cx_drop (se_cx e') t)
     | _ => e'
     end)).
Check (C08_insert_conserves : forall ms m av e v c, LInvS ms m ->
  let '(ms', r, c') := st_insert ms av e v c in
  exists m', LInvS ms' m' /\ cx_stuck c' = cx_stuck c /\
    conserves m m' [fst (tnorm ms v)] (match r with InsOld t => [fst t] | _ => [] end) c c').
Check (C08_remove_conserves : forall ms m av e c, LInvS ms m ->
  let '(ms', o, c') := st_remove ms av e c in
  exists m', LInvS ms' m' /\ cx_stuck c' = cx_stuck c /\
    conserves m m' [] (match o with Some t => [fst t] | None => [] end) c c').
Check (C08_get_mut_conserves : forall ms m av e touch nv c, LInvS ms m ->
  let '(ms', o, c') := st_get_mut ms av e touch nv c in
  exists m', LInvS ms' m' /\ c' = c /\ Permutation (bag m') (bag m)).
Check (C08_drain_conserves : forall ids ms m c, LInvS ms m ->
  let '(ms', l, c') := st_drain_ids ms ids c in
  exists m', LInvS ms' m' /\ cx_drops c' = cx_drops c /\ Permutation (bag m' ++ map fst l) (bag m)).
Check (C08_deleting_entities_conserves : forall ids ms m c, LInvS ms m ->
  let '(ms', c') := m_drop_all ms ids c in
  cx_stuck c' = cx_stuck c /\ exists m', LInvS ms' m' /\ conserves m m' [] [] c c').
Check (C08_entry_api_conserves : forall ms m av e o c, LInvS ms m ->
  let '(ms', r, c') := st_entry ms av e o c in
  exists m', LInvS ms' m' /\ cx_stuck c' = cx_stuck c /\ conserves m m' (entry_ins ms o) (entry_rets o r) c c').
Check (C08_clear_conserves : forall ms m c, LInvS ms m ->
  let '(ms', c') := m_clear ms c in
  LInvS ms' (NM.empty tok) /\ cx_stuck c' = cx_stuck c /\
  exists d, cx_drops c' = d ++ cx_drops c /\ Permutation d (bag m)).
Check (C08_get_mut_or_default_conserves : forall ms m av e c, LInvS ms m ->
  let '(ms', o, c') := st_get_mut_or_default ms av e c in
  exists m', LInvS ms' m' /\
    conserves m m' (if present ms av e then [] else [fst (tnorm ms (if ms_unit ms then unit_tok else default_tok))]) [] c c').
Check (C08_every_storage_operation_conserves : forall ms m av ent so c, LInvS ms m ->
  let '(ms', out, c') := ms_sop ms av ent so c in
  exists m', LInvS ms' m' /\ conserves m m' (sop_ins ms av ent so) (sop_rets so out) c c').
Check (C08_default_filled_insert_conserves : forall cells id v c, full cells ->
  match u_insert (RDefault cells) id v c with
  | (RDefault cells', c') =>
      cx_stuck c' = cx_stuck c /\ full cells' /\
      exists d, cx_drops c' = d ++ cx_drops c /\ Permutation (uids cells' ++ d) (uids cells ++ fst v :: minted c c')
  | _ => False
  end).
Check (C08_default_filled_remove_conserves : forall cells id c, full cells -> (id < vlen cells)%N ->
  match u_remove (RDefault cells) id c with
  | (RDefault cells', t, c') =>
      cx_stuck c' = cx_stuck c /\ cx_drops c' = cx_drops c /\ full cells' /\ pv_get cells id = Some t /\
      Permutation (uids cells' ++ [fst t]) (uids cells ++ minted c c')
  | _ => False
  end).
Check (C08_default_filled_clear_destroys_every_cell_once : forall cells mask c,
  match u_clean (RDefault cells) mask c with
  | (RDefault cells', c') =>
      uids cells' = [] /\ cx_stuck c' = cx_stuck c /\ cx_mints c' = cx_mints c /\
      exists d, cx_drops c' = d ++ cx_drops c /\ Permutation d (uids cells)
  | _ => False
  end).
Check (C08_history_conserves : forall tr w L0, WInv w -> regs_ok w tr = true ->
  forallb (fun p => ledger_op (fst p)) tr = true -> env_content (s_env w) L0 ->
  exists Lf, env_content (s_env (fst (srun w tr))) Lf /\
             Permutation (Lf ++ run_rets w tr ++ run_drops w tr) (L0 ++ run_ins w tr)).
Check (C08_everything_handed_back_or_destroyed_exactly_once : forall tr,
  regs_ok (s_init_env true) tr = true -> forallb (fun p => ledger_op (fst p)) tr = true ->
  keys_of (s_env (fst (srun (s_init_env true) tr))) = [] ->
  Permutation (run_rets (s_init_env true) tr ++ run_drops (s_init_env true) tr) (run_ins (s_init_env true) tr)).
Check (C08_a_join_hands_out_exactly_what_it_drained : forall e av eids hs k ms, plain_env e ->
  cx_stuck (se_cx (fst (env_join e av eids hs k ms))) = false ->
  estep_ok e (fst (env_join e av eids hs k ms)) [] (jout_rets ms (snd (env_join e av eids hs k ms)))).
