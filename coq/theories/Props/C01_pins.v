From SV Require Import Alloc.LifeProps Alloc.AllocRefine World.WorldSpec World.Simulation World.Micro.
From SV Require Import Props.C01.
Check (C01_handles_unique : forall tr, saccept s_init tr 0 = None -> NoDup (all_returned tr)).
Check (C01_one_per_index : forall s e1 e2,
  l_is_alive s e1 = true -> l_is_alive s e2 = true -> fst e1 = fst e2 -> e1 = e2).
Check (C01_faithful_refines_spec : forall os,
  saccept s_init (combine os (snd (wrun true w_init os))) 0 = None).
Check (C01_faithful_never_stuck : forall os, w_alloc_stuck (fst (wrun true w_init os)) = false).
