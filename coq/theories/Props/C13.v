(* C13 - Restricted storages expose the same components without changing membership. *)
From SV Require Import Base.ListX Store.Masked World.Env World.Join World.JoinProps World.JoinAbs World.JoinRefine
  World.JoinAbsProps World.EnvSim World.JoinEvents World.JoinEventStream.
From SV Require Import Store.StoreInv.

(* a restricted view is a member exactly where the storage is *)
Theorem C13_visits_the_storages_members : forall e eids sid mode selmod selrem d others i,
  m_has e eids (MRestrict sid mode selmod selrem d others) i = NS.mem i (env_mask e sid) /\
  m_has e eids (MRestrict sid mode selmod selrem d others) i = m_has e eids (MRead sid) i.
Proof. intros. split; reflexivity. Qed.

(* reading through the item is the read of the item's own index (the same primitive a direct join of
   the storage uses); item types without get_other report no other-entity lookups *)
Theorem C13_item_reads_its_own_index : forall av hs excl eids sid mode selmod selrem d others i e,
  match snd (m_get av hs excl eids (MRestrict sid mode selmod selrem d others) i e) with
  | JPaired g os => g = snd (env_jact e sid (JRead i)) /\
                    (negb (N.eqb mode 1) || excl = false -> os = [])
  | _ => False
  end.
Proof. exact restricted_item_reads_own. Qed.

Theorem C13_direct_read_is_the_same : forall av hs excl eids sid i e,
  snd (m_get av hs excl eids (MRead sid) i e) = JTok (snd (env_jact e sid (JRead i))).
Proof. intros. cbn [m_get]. destruct (env_jact e sid (JRead i)) as [e1 t]. reflexivity. Qed.

(* looking up another entity through the item follows the storage's own rule: an answer exactly for
   handles that are alive and whose index is in the mask (live, dead, stale, without component) *)
Theorem C13_other_entity_lookup : forall av hs sid mutably l e,
  map is_some (snd (others_lookup av hs sid mutably l e)) = map (other_present e av hs sid) l /\
  (forall s', env_mask (fst (others_lookup av hs sid mutably l e)) s' = env_mask e s').
Proof. exact others_lookup_spec. Qed.

(* nothing done through a restricted item changes membership of any storage *)
Theorem C13_membership_unchanged : forall av hs excl eids sid mode selmod selrem d others i e s',
  env_mask (fst (m_get av hs excl eids (MRestrict sid mode selmod selrem d others) i e)) s' = env_mask e s'.
Proof. exact m_get_restricted_masks. Qed.

(* every storage kind behaves as the plain map under restricted joins *)
Theorem C13_any_storage_kind : forall e1 e2 av eids hs k ms, env_rel e1 e2 ->
  snd (env_join e1 av eids hs k ms) = snd (env_join e2 av eids hs k ms) /\
  env_rel (fst (env_join e1 av eids hs k ms)) (fst (env_join e2 av eids hs k ms)).
Proof. exact env_join_rel. Qed.


(* writing changes only that entity's component: of the visited cells exactly those the caller chose to fetch
   mutably change (by what was written), every other cell of the storage keeps its value (on the maps the
   storages represent: C06_join_refines_the_join_on_maps relates them to the real storages) *)
Theorem C13_writes_only_the_chosen_items : forall unit av hs excl eids pre post s selmod selrem d others keys S j, NoDup keys ->
  forallb (fun m => negb (m_owns m s)) pre = true -> forallb (fun m => negb (m_owns m s)) post = true ->
  cell (fst (a_visit_keys unit av hs excl eids (pre ++ MRestrict s 1 selmod selrem d others :: post) keys S)) s j =
    if in_dec N.eq_dec j keys then (if N.eqb (N.modulo j selmod) selrem then bump (unit s) d (cell S s j) else cell S s j)
    else cell S s j.
Proof. exact join_restricted_writes_the_chosen_cells_only. Qed.

(* read-only restrictions (restrict(), or a shared reference to restrict_mut()) change nothing *)
Theorem C13_read_only_views_change_nothing : forall unit av hs excl eids ms keys S s j, NoDup keys ->
  forallb (fun m => negb (m_owns m s)) ms = true ->
  cell (fst (a_visit_keys unit av hs excl eids ms keys S)) s j = cell S s j.
Proof. exact join_leaves_unowned_storages_alone. Qed.

Theorem C13_join_refines_the_join_on_maps : forall unit av hs excl eids ms keys e S, absrel unit e S ->
  snd (visit_keys av hs excl eids ms keys e) = snd (a_visit_keys unit av hs excl eids ms keys S) /\
  absrel unit (fst (visit_keys av hs excl eids ms keys e)) (fst (a_visit_keys unit av hs excl eids ms keys S)).
Proof. exact visit_keys_abs. Qed.

(* on a change-tracking storage a modification event is emitted only for the items that were actually fetched
   mutably: a restricted item (no other-entity lookups) appends exactly one Modified for its index when the caller
   fetches it mutably (storage tracked, emission on) and nothing otherwise; reading never emits *)
Theorem C13_event_only_for_items_fetched_mutably : forall av hs excl eids sid mode selmod selrem d i e ms m,
  NM.find sid (se_stores e) = Some ms -> MInv ms m -> NS.mem i (ms_mask ms) = true ->
  env_chan (fst (m_get av hs excl eids (MRestrict sid mode selmod selrem d []) i e)) sid =
    (if N.eqb mode 1 && N.eqb (N.modulo i selmod) selrem
     then match ms_wrap ms with WPlain => [] | _ => if ms_emit ms then [EModified i] else [] end
     else []) ++ env_chan e sid.
Proof. exact restricted_item_events. Qed.

Theorem C13_reading_emits_nothing : forall e sid i ms m, NM.find sid (se_stores e) = Some ms -> MInv ms m ->
  NS.mem i (ms_mask ms) = true -> forall s, env_chan (fst (env_jact e sid (JRead i))) s = env_chan e s.
Proof. exact reading_emits_nothing. Qed.

(* the whole join: for every tuple of members, every kind of join and every storage s, what the join appends to the
   channel of s is a function of the rows it delivered (most recent first): per delivered item of a restricted view one
   Modified when the caller fetched it mutably, one Modified per mutable other-entity lookup that found something (on the
   wrapper that reports every mutable access; the dereference-tracking wrapper reports none for an access nothing is
   written through), the same for plain mutable members, one Removed per drained item - and nothing else; all of it nothing
   when s is not tracked or its emission is switched off.  (A join that goes wrong - stuck - is outside the statement;
   joins with registered members never are: C06.) *)
Theorem C13_events_of_a_whole_join : forall e av eids hs k ms s, TInv e ->
  cx_stuck (se_cx (fst (env_join e av eids hs k ms))) = false ->
  env_chan (fst (env_join e av eids hs k ms)) s = jout_evs s (tag e s) hs ms (snd (env_join e av eids hs k ms)) ++ env_chan e s.
Proof. exact join_event_stream. Qed.

(* non-vacuity: a tracked storage, only the odd indices fetched mutably (Modified 1, Modified 5; nothing
   for index 2), lookups of a live handle (through get_other_mut: Modified 1 each time on this wrapper)
   and of a dead one *)
Example C13_nonvacuous :
  let e0 := env_register (env_init false) 6 in
  let hs := pv_push (pv_push (pv_push pv_empty (1, 1%Z)) (2, 1%Z)) (5, 1%Z) in
  let av := {| av_alive := fun e => negb (N.eqb (fst e) 5); av_cur_gen := fun _ => 1%Z; av_err_gen := fun _ => 1%Z |} in
  let av1 := {| av_alive := fun _ => true; av_cur_gen := fun _ => 1%Z; av_err_gen := fun _ => 1%Z |} in
  let ins e h v := fst (env_sop e av1 hs (SInsert 6 h v)) in
  let e := ins (ins (ins e0 0%nat (10, 1%Z)) 1%nat (11, 2%Z)) 2%nat (12, 3%Z) in
  let r := env_join e av NS.empty hs (JLend None) [MRestrict 6 1 2 1 7%Z [0%nat; 2%nat]] in
  snd r = JItems [(1, [JPaired (10, 1%Z) [Some (10, 8%Z); None]]);
                  (2, [JPaired (11, 2%Z) [Some (10, 8%Z); None]]);
                  (5, [JPaired (12, 3%Z) [Some (10, 8%Z); None]])] /\
  match NM.find 6 (se_stores (fst r)) with
  | Some ms => rev (firstn 5 (ms_chan ms)) = [EModified 1; EModified 1; EModified 1; EModified 5; EModified 1] /\
               NS.elements (ms_mask ms) = [1; 2; 5]
  | None => False
  end.
Proof. vm_compute. repeat split; reflexivity. Qed.

Example C13_stream_nonvacuous :
  let e0 := env_register (env_init false) 6 in
  let hs := pv_push (pv_push (pv_push pv_empty (1, 1%Z)) (2, 1%Z)) (5, 1%Z) in
  let av := {| av_alive := fun e => negb (N.eqb (fst e) 5); av_cur_gen := fun _ => 1%Z; av_err_gen := fun _ => 1%Z |} in
  let av1 := {| av_alive := fun _ => true; av_cur_gen := fun _ => 1%Z; av_err_gen := fun _ => 1%Z |} in
  let ins e h v := fst (env_sop e av1 hs (SInsert 6 h v)) in
  let e := ins (ins (ins e0 0%nat (10, 1%Z)) 1%nat (11, 2%Z)) 2%nat (12, 3%Z) in
  let ms := [MRestrict 6 1 2 1 7%Z [0%nat; 2%nat]] in
  let r := env_join e av NS.empty hs (JLend None) ms in
  cx_stuck (se_cx (fst r)) = false /\
  jout_evs 6 (tag e 6) hs ms (snd r) = [EModified 1; EModified 5; EModified 1; EModified 1; EModified 1] /\
  jout_evs 6 (Some (WFlagged, false)) hs ms (snd r) = [] /\ jout_evs 7 (tag e 7) hs ms (snd r) = [].
Proof. vm_compute. repeat split; reflexivity. Qed.

Print Assumptions C13_visits_the_storages_members.
Print Assumptions C13_item_reads_its_own_index.
Print Assumptions C13_direct_read_is_the_same.
Print Assumptions C13_other_entity_lookup.
Print Assumptions C13_membership_unchanged.
Print Assumptions C13_any_storage_kind.
Print Assumptions C13_writes_only_the_chosen_items.
Print Assumptions C13_read_only_views_change_nothing.
Print Assumptions C13_join_refines_the_join_on_maps.
Print Assumptions C13_event_only_for_items_fetched_mutably.
Print Assumptions C13_reading_emits_nothing.
Print Assumptions C13_events_of_a_whole_join.
