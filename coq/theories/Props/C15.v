(* C15 - Loading into a populated world merges by marker; marker ids stay unique.
   Only statements; each proof is [exact <lemma>].  Pins: C15_pins.v.
   Model: SaveLoad/Marker.v, SerDe.v, SLOps.v.  [reachable nc w]: w is the
   world after some history of Create / Insert / Remove / Mark / MarkId /
   Delete / EDelete / Maintain / AllocMaintain / Serialize / SerializeRec /
   Deserialize(arbitrary data) steps from the empty world, the only proviso
   ([run_ok]) being that an id handed to allocate(e, Some(id)) by the caller
   is not held by a live entity.  Marker ids are unbounded here (u64 in the
   code: everything is about ids < 2^64-1). *)
From SV Require Import Alloc.LifeProps SaveLoad.Marker SaveLoad.SerDe SaveLoad.SLOps
  SaveLoad.MarkerProps SaveLoad.SerDeProps SaveLoad.SLProps.

(* the invariant holds after every history, and this is what it says *)
Theorem C15_history_invariant : forall nc os w, Inv w -> run_ok nc w os -> Inv (sl_run nc w os).
Proof. exact Inv_run. Qed.

(* world.delete_entities: modelled one entity at a time (kill, purge, next);
   that is the same function as the statement order of the code (kill the
   whole slice up to the first handle that is not alive, then purge the killed
   prefix), and a batch - failing or not - keeps the invariant *)
Theorem C15_batch_deletion_in_statement_order : forall es w, sl_delete_many_stmt w es = sl_delete_many w es.
Proof. exact delete_many_stmt_eq. Qed.

Theorem C15_batch_deletion_keeps_invariant : forall es w, Inv w -> Inv (fst (sl_delete_many w es)).
Proof. exact Inv_delete_many. Qed.

Theorem C15_invariant_empty : Inv sl_empty.
Proof. exact Inv_empty. Qed.

Theorem C15_invariant_meaning : forall w, Inv w <->
  (LInv (sl_life w) /\ NoDup (sl_free w) /\ (forall i, In i (sl_free w) <-> is_free (cell (sl_life w) i) = true)) /\
  (forall i m, NM.find i (sl_markers w) = Some m -> occupied (cell (sl_life w) i) = true) /\
  (forall k i c, cfind w k i = Some c -> occupied (cell (sl_life w) i) = true) /\
  (forall e m, mk_get w e = Some m -> NM.find m (sl_mapping w) = Some e) /\
  (forall m e, NM.find m (sl_mapping w) = Some e -> w_alive w e = true -> NM.find (fst e) (sl_markers w) = Some m) /\
  (forall i m, NM.find i (sl_markers w) = Some m -> m < sl_index w) /\
  (forall m e, NM.find m (sl_mapping w) = Some e -> m < sl_index w) /\
  (forall m e, NM.find m (sl_mapping w) = Some e -> (snd e <= top (cell (sl_life w) (fst e)))%Z).
Proof. exact Inv_meaning. Qed.

(* no two live entities ever carry the same marker id *)
Theorem C15_ids_unique : forall nc w, reachable nc w ->
  forall e1 e2 m, mk_get w e1 = Some m -> mk_get w e2 = Some m -> e1 = e2.
Proof. exact c15_unique. Qed.

(* (1) the mapping knows every live marked entity *)
Theorem C15_mapping_agrees : forall nc w, reachable nc w ->
  forall e m, mk_get w e = Some m -> NM.find m (sl_mapping w) = Some e.
Proof. exact c15_mapping. Qed.

(* (2) the counter is above every id held by a live entity or in the mapping,
   whatever ids were loaded *)
Theorem C15_counter_above : forall nc w, reachable nc w ->
  (forall e m, mk_get w e = Some m -> m < sl_index w) /\
  (forall m e, NM.find m (sl_mapping w) = Some e -> m < sl_index w).
Proof. exact c15_counter_above. Qed.

(* marking a marked entity returns the existing marker and false, and changes nothing *)
Theorem C15_mark_existing : forall w e m, mk_get w e = Some m -> ma_mark w e = (w, Some (m, false)).
Proof. exact c15_mark_existing. Qed.

(* marking an unmarked live entity hands out the counter, which no live entity holds *)
Theorem C15_mark_fresh : forall nc w e, reachable nc w -> w_alive w e = true -> mk_get w e = None ->
  snd (ma_mark w e) = Some (sl_index w, true) /\ id_fresh w (sl_index w).
Proof. exact c15_mark_fresh. Qed.

(* loading: in place for known ids, creation only for unknown ids of the data *)
Theorem C15_load_merges : forall w d, Inv w ->
  let w' := deserialize w d in
  Inv w' /\
  (forall e, w_alive w e = true -> w_alive w' e = true /\ mk_get w' e = mk_get w e) /\
  (forall e, w_alive w' e = true -> w_alive w e = false ->
     exists m, mk_get w' e = Some m /\ id_fresh w m /\ In m (data_ids d)) /\
  (forall id, In id (data_ids d) -> exists e, mk_get w' e = Some id).
Proof. exact c15_load_merges. Qed.

(* the holder of an id gets the components of the last record with that id *)
Theorem C15_load_components : forall w d d1 r d2, Inv w -> d = d1 ++ r :: d2 -> ~ In (fst r) (map fst d2) ->
  let w' := deserialize w d in
  forall e, mk_get w' e = Some (fst r) ->
  forall j, (j < length (snd r))%nat -> slot_rel w' (nth j (snd r) None) (st_get w' (N.of_nat j) e).
Proof. exact c15_load_components. Qed.

(* ... in particular a component type recorded as absent is removed *)
Theorem C15_load_removes_absent : forall w d d1 r d2, Inv w -> d = d1 ++ r :: d2 -> ~ In (fst r) (map fst d2) ->
  forall e, mk_get (deserialize w d) e = Some (fst r) ->
  forall j, (j < length (snd r))%nat -> nth j (snd r) None = None -> st_get (deserialize w d) (N.of_nat j) e = None.
Proof. exact c15_load_removes_absent. Qed.

(* entities the data has no record for keep their components *)
Theorem C15_load_untouched : forall w d, Inv w ->
  forall e, (forall m, mk_get (deserialize w d) e = Some m -> ~ In m (map fst d)) ->
  forall k, st_get (deserialize w d) k e = st_get w k e.
Proof. exact c15_load_untouched. Qed.

(* loading the same data again creates nothing *)
Theorem C15_repeated_load : forall w d, Inv w ->
  let w1 := deserialize w d in let w2 := deserialize w1 d in
  forall e, w_alive w2 e = w_alive w1 e.
Proof. exact c15_repeated_load. Qed.

(* a stale mapping entry is never trusted: a new entity is created instead *)
Theorem C15_stale_not_trusted : forall w id e, Inv w -> NM.find id (sl_mapping w) = Some e -> w_alive w e = false ->
  let t := snd (ma_retrieve w id) in
  t <> e /\ w_alive w t = false /\ mk_get (fst (ma_retrieve w id)) t = Some id.
Proof. exact c15_stale_not_trusted. Qed.

(* after allocator.maintain the mapping is exactly id -> live holder *)
Theorem C15_alloc_maintain_exact : forall w m e, Inv w ->
  (NM.find m (sl_mapping (ma_maintain w)) = Some e <-> mk_get w e = Some m).
Proof. exact ma_maintain_find. Qed.

(* the proviso is needed: allocate(e, Some(id)) with an id in use *)
Theorem C15_nonfresh_id_refuted :
  let w := sl_run 3 sl_empty [SCreate false; SCreate false; SMark (0, 1%Z); SMarkId (1, 1%Z) 0] in
  mk_get w (0, 1%Z) = Some 0 /\ mk_get w (1, 1%Z) = Some 0.
Proof. exact nonfresh_id_breaks_uniqueness. Qed.

(* OUTSIDE the machine bound (ids < 2^64-1): in a build without overflow
   checks `self.index = id + 1` wraps for id = 2^64-1; the counter restarts at
   0 and the next mark repeats an id in use (reproduced on the real code, see
   harness/src/bin/c15_u64_wrap.rs; a debug build panics instead) *)
Theorem C15_u64_wrap_refuted :
  let w0 := sl_run 3 sl_empty [SCreate false; SCreate false; SCreate false] in
  let w1 := ma_mark_wrap w0 (0, 1%Z) None in
  let w2 := ma_mark_wrap w1 (1, 1%Z) (Some (U64 - 1)) in
  let w3 := ma_mark_wrap w2 (2, 1%Z) None in
  mk_get w3 (0, 1%Z) = Some 0 /\ mk_get w3 (2, 1%Z) = Some 0 /\ sl_index w2 = 0 /\ sl_index w3 = 1.
Proof. exact u64_wrap_breaks_uniqueness. Qed.

(* non-vacuity: a history with deletion, index reuse, a stale mapping entry,
   a load mentioning an id above the counter and a forward reference *)
Example C15_nonvacuous :
  let os := [SCreate false; SCreate false; SMark (0, 1%Z); SMark (1, 1%Z); SInsert (1, 1%Z) 1 (Plain 9);
             SDelete (0, 1%Z);
             SDeserialize [(0, [Some (DPlain 5); None; Some (DRef 7)]); (1, [None; None; None]); (7, [None; None; None])];
             SCreate true; SMark (3, 1%Z)] in
  let w := sl_run 3 sl_empty os in
  run_ok 3 sl_empty os /\
  mk_get w (0, 2%Z) = Some 0 /\ mk_get w (1, 1%Z) = Some 1 /\ mk_get w (2, 1%Z) = Some 7 /\ mk_get w (3, 1%Z) = Some 8 /\
  sl_index w = 9 /\ w_alive w (0, 1%Z) = false /\
  st_get w 2 (0, 2%Z) = Some (Ref (2, 1%Z)) /\ st_get w 1 (1, 1%Z) = None.
Proof. vm_compute. repeat split; auto. Qed.

(* a failing batch deletion: the marked entity killed before the repeated
   (hence stale) handle loses its marker with its life, the entity after it is
   untouched, and the entity that takes the freed index is marked afresh *)
Example C15_failing_batch_nonvacuous :
  let os := [SCreate false; SCreate false; SCreate false; SMark (0, 1%Z); SMark (1, 1%Z); SMark (2, 1%Z);
             SDeleteMany [(0, 1%Z); (0, 1%Z); (2, 1%Z)]; SCreate false; SMark (0, 2%Z)] in
  let w := sl_run 3 sl_empty os in
  run_ok 3 sl_empty os /\
  snd (sl_step 3 (sl_run 3 sl_empty (firstn 6 os)) (SDeleteMany [(0, 1%Z); (0, 1%Z); (2, 1%Z)])) = OBool false /\
  w_alive w (0, 1%Z) = false /\ w_alive w (2, 1%Z) = true /\
  mk_get w (0, 2%Z) = Some 3 /\ mk_get w (1, 1%Z) = Some 1 /\ mk_get w (2, 1%Z) = Some 2 /\ sl_index w = 4.
Proof. vm_compute. repeat split; auto. Qed.

Print Assumptions C15_history_invariant.
Print Assumptions C15_batch_deletion_in_statement_order.
Print Assumptions C15_batch_deletion_keeps_invariant.
Print Assumptions C15_invariant_meaning.
Print Assumptions C15_ids_unique.
Print Assumptions C15_counter_above.
Print Assumptions C15_load_merges.
Print Assumptions C15_load_components.
Print Assumptions C15_repeated_load.
Print Assumptions C15_stale_not_trusted.
