From SV Require Import Alloc.AllocStep World.WorldSpec Props.C02.
From Coq Require Import Sorting.Sorted.
Check (C02_alive_on_return : forall pend s i, l_is_alive (fst (l_create pend s i)) (snd (l_create pend s i)) = true).
Check (C02_dead_forever : forall tr tr' e,
  saccept s_init (tr ++ tr') 0 = None -> In e (all_returned tr) ->
  l_is_alive (s_life (fst (srun s_init tr))) e = false ->
  l_is_alive (s_life (fst (srun s_init (tr ++ tr')))) e = false).
Check (C02_failed_delete_changes_nothing : forall s e, l_is_alive s e = false ->
  (forall l pos, l_kill s (e :: l) pos = (s, Some pos)) /\ l_kill_def s e = (s, false)).
Check (C02_batch_stops_at_first_dead : forall l1 s pos d l2,
  snd (l_kill s l1 pos) = None -> l_is_alive (fst (l_kill s l1 pos)) d = false ->
  l_kill s (l1 ++ d :: l2) pos = (fst (l_kill s l1 pos), Some (pos + length l1)%nat)).
Check (C02_join_is_alive_set : forall tr e, saccept s_init tr 0 = None ->
  let s := s_life (fst (srun s_init tr)) in
  (In e (l_entities s) <-> l_is_alive s e = true) /\ (In e (l_entities s) -> In e (all_returned tr))).
Check (C02_join_sorted : forall s, Sorted (fun a b : entity => fst a < fst b) (l_entities s)).
Check (C02_faithful_refines_spec : forall os, saccept s_init (combine os (snd (wrun true w_init os))) 0 = None).
