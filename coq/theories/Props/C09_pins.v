From SV Require Import Store.Raw Store.Masked Store.DeadHandle World.Lazy World.LazyProps World.World Props.C09.
Check (C09_actions_after_merge_and_purge : forall st os,
  flatten_from st (OMaintain :: os) =
  OMaintain :: snd (drain (S (qsize (f_queue st))) st) ++ flatten_from (fst (drain (S (qsize (f_queue st))) st)) os).
Check (C09_fifo_exactly_once : forall fuel st, (qsize (f_queue st) <= fuel)%nat ->
  fst (drain_log fuel st) = f_queue st ++ snd (drain_log fuel st)).
Check (C09_performs_popped_actions : forall fuel st,
  snd (drain fuel st) = flat_map (map norm) (fst (drain_log fuel st))).
Check (C09_action_runs_its_operations : forall st a, snd (run_action st a) = map norm a).
Check (C09_queue_empty_after_maintain : forall st, f_queue (fst (drain (S (qsize (f_queue st))) st)) = []).
Check (C09_lazy_insert_on_dead_target : forall ms av e v c, av_alive av e = false ->
  st_insert ms av e v c = (ms, InsErr (av_cur_gen av (fst e)), cx_drop c (tnorm ms v)) /\
  st_remove ms av e c = (ms, None, c)).
Check (C09_plain_history_unchanged : forall os st, f_queue st = [] -> forallb no_lazy os = true -> flatten_from st os = os).
