(* C17 - Indices of dead entities are recycled, keeping the index space bounded. *)
From SV Require Import Alloc.LifeProps Alloc.AllocRefine World.WorldSpec World.Simulation World.Micro.

(* In every accepted transcript, each creation (the k-th allocator step of the
   history, [pre] being the steps before it) takes an index smaller than the
   largest number of simultaneously not-yet-dead entities seen up to and
   including that creation. *)
Theorem C17_index_bounded : forall tr pre pend c post, saccept s_init tr 0 = None ->
  micro_run s_init tr = pre ++ (ACreate pend, c) :: post ->
  c < lpeak l_init (pre ++ [(ACreate pend, c)]) 0.
Proof. exact accepted_index_bounded. Qed.

(* The property's second form ("equivalently, a never-used index is taken only
   when every lower index is occupied by an entity that is alive or awaiting
   maintain"): at every creation of an accepted transcript, [s] being the
   allocator's lifecycle state just before it, a never-used index is the next
   one and everything below it is occupied; every other creation reuses an
   index whose death has been merged (or that was killed at once). *)
Theorem C17_fresh_only_when_full : forall tr pre pend c post, saccept s_init tr 0 = None ->
  micro_run s_init tr = pre ++ (ACreate pend, c) :: post ->
  let s := fst (lrun l_init pre) in
  (cell s c = Never -> c = used s /\ forall j, j < c -> occupied (cell s j) = true) /\
  (cell s c <> Never -> is_free (cell s c) = true).
Proof. exact accepted_fresh_only_when_full. Qed.

Theorem C17_faithful_refines_spec : forall os,
  saccept s_init (combine os (snd (wrun true w_init os))) 0 = None.
Proof. intros os. exact (proj1 (wrun_accepted os w_init s_init 0%nat RW_init)). Qed.

(* The code as found (a failing batch forgets the killed prefix) does NOT
   satisfy the specification: after the failing batch a fresh index (4) is
   taken although indices 0 and 1 are free; four entities were the peak. *)
Theorem C17_refuted_unfixed : exists os,
  saccept s_init (combine os (snd (wrun false w_init os))) 0 = Some (2%nat, 2%nat) /\
  nth 2 (snd (wrun false w_init os)) WSkip = WHandles [(4, 1%Z)].
Proof.
  exists [OCreateIter 4; ODeleteMany [0%nat; 1%nat; 0%nat]; OCreate []]. vm_compute. split; reflexivity.
Qed.

(* non-vacuity: the repaired model on the same history reuses index 1 *)
Example C17_nonvacuous :
  let os := [OCreateIter 4; ODeleteMany [0%nat; 1%nat; 0%nat]; OCreate []] in
  nth 2 (snd (wrun true w_init os)) WSkip = WHandles [(1, 2%Z)] /\
  micro_run s_init (combine os (snd (wrun true w_init os))) =
    [(ACreate false, 0); (ACreate false, 1); (ACreate false, 2); (ACreate false, 3);
     (AKill [(0, 1%Z); (1, 1%Z); (0, 1%Z)], 0); (ACreate false, 1)].
Proof. vm_compute. split; reflexivity. Qed.

Print Assumptions C17_index_bounded.
Print Assumptions C17_fresh_only_when_full.
Print Assumptions C17_faithful_refines_spec.
Print Assumptions C17_refuted_unfixed.
