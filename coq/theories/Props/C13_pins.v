From SV Require Import Base.ListX Store.Masked World.Env World.Join World.JoinProps World.JoinAbs World.JoinRefine
  World.JoinAbsProps World.EnvSim World.JoinEvents World.JoinEventStream.
From SV Require Import Store.StoreInv.
From SV Require Import Props.C13.
Check (C13_visits_the_storages_members : forall e eids sid mode selmod selrem d others i,
  m_has e eids (MRestrict sid mode selmod selrem d others) i = NS.mem i (env_mask e sid) /\
  m_has e eids (MRestrict sid mode selmod selrem d others) i = m_has e eids (MRead sid) i).
Check (C13_item_reads_its_own_index : forall av hs excl eids sid mode selmod selrem d others i e,
  match snd (m_get av hs excl eids (MRestrict sid mode selmod selrem d others) i e) with
  | JPaired g os => g = snd (env_jact e sid (JRead i)) /\
                    (negb (N.eqb mode 1) || excl = false -> os = [])
  | _ => False
  end).
Check (C13_direct_read_is_the_same : forall av hs excl eids sid i e,
  snd (m_get av hs excl eids (MRead sid) i e) = JTok (snd (env_jact e sid (JRead i)))).
Check (C13_other_entity_lookup : forall av hs sid mutably l e,
  map is_some (snd (others_lookup av hs sid mutably l e)) = map (other_present e av hs sid) l /\
  (forall s', env_mask (fst (others_lookup av hs sid mutably l e)) s' = env_mask e s')).
Check (C13_membership_unchanged : forall av hs excl eids sid mode selmod selrem d others i e s',
  env_mask (fst (m_get av hs excl eids (MRestrict sid mode selmod selrem d others) i e)) s' = env_mask e s').
Check (C13_any_storage_kind : forall e1 e2 av eids hs k ms, env_rel e1 e2 ->
  snd (env_join e1 av eids hs k ms) = snd (env_join e2 av eids hs k ms) /\
  env_rel (fst (env_join e1 av eids hs k ms)) (fst (env_join e2 av eids hs k ms))).
Check (C13_writes_only_the_chosen_items : forall unit av hs excl eids pre post s selmod selrem d others keys S j, NoDup keys ->
  forallb (fun m => negb (m_owns m s)) pre = true -> forallb (fun m => negb (m_owns m s)) post = true ->
  cell (fst (a_visit_keys unit av hs excl eids (pre ++ MRestrict s 1 selmod selrem d others :: post) keys S)) s j =
    if in_dec N.eq_dec j keys then (if N.eqb (N.modulo j selmod) selrem then bump (unit s) d (cell S s j) else cell S s j)
    else cell S s j).
Check (C13_read_only_views_change_nothing : forall unit av hs excl eids ms keys S s j, NoDup keys ->
  forallb (fun m => negb (m_owns m s)) ms = true ->
  cell (fst (a_visit_keys unit av hs excl eids ms keys S)) s j = cell S s j).
Check (C13_join_refines_the_join_on_maps : forall unit av hs excl eids ms keys e S, absrel unit e S ->
  snd (visit_keys av hs excl eids ms keys e) = snd (a_visit_keys unit av hs excl eids ms keys S) /\
  absrel unit (fst (visit_keys av hs excl eids ms keys e)) (fst (a_visit_keys unit av hs excl eids ms keys S))).
Check (C13_event_only_for_items_fetched_mutably : forall av hs excl eids sid mode selmod selrem d i e ms m,
  NM.find sid (se_stores e) = Some ms -> MInv ms m -> NS.mem i (ms_mask ms) = true ->
  env_chan (fst (m_get av hs excl eids (MRestrict sid mode selmod selrem d []) i e)) sid =
    (if N.eqb mode 1 && N.eqb (N.modulo i selmod) selrem
     then match ms_wrap ms with WPlain => [] | _ => if ms_emit ms then [EModified i] else [] end
     else []) ++ env_chan e sid).
Check (C13_reading_emits_nothing : forall e sid i ms m, NM.find sid (se_stores e) = Some ms -> MInv ms m ->
  NS.mem i (ms_mask ms) = true -> forall s, env_chan (fst (env_jact e sid (JRead i))) s = env_chan e s).
Check (C13_events_of_a_whole_join : forall e av eids hs k ms s, TInv e ->
  cx_stuck (se_cx (fst (env_join e av eids hs k ms))) = false ->
  env_chan (fst (env_join e av eids hs k ms)) s = jout_evs s (tag e s) hs ms (snd (env_join e av eids hs k ms)) ++ env_chan e s).
