From SV Require Import Store.Raw Store.Masked Store.StoreInv World.Env World.StoreSim Store.Events World.World World.Join World.JoinEvents World.JoinEventStream.
From SV Require Import Props.C12.
Check (C12_events_replay_membership : forall ms m av ent so c, MInv ms m ->
  (forall s, so <> SClear s) -> (forall s b, so <> SSetEmission s b) ->
  evrel ms (fst (fst (ms_sop ms av ent so c)))).
Check (C12_replay_composes : forall a b c, evrel a b -> evrel b c -> evrel a c).
Check (C12_insert_reports : forall ms m av e v c, MInv ms m -> evrel ms (fst (fst (st_insert ms av e v c)))).
Check (C12_entity_deletion_reports : forall ids ms m c, MInv ms m -> evrel ms (fst (m_drop_all ms ids c))).
Check (C12_modified_exactly_on_mutable_access : forall ms m av e touch nv c, MInv ms m -> present ms av e = true ->
  ms_chan (fst (fst (st_get_mut ms av e touch nv c))) =
  (if ms_emit ms then
     match ms_wrap ms with
     | WFlagged => [EModified (fst e)]
     | WDeref => if touch || (match nv with Some _ => true | None => false end) then [EModified (fst e)] else []
     | WPlain => []
     end
   else []) ++ ms_chan ms).
Check (C12_read_only_is_silent : forall ms av e so c,
  match so with SGet _ _ | SContains _ _ | SCount _ | SIsEmpty _ | SMask _ | SSlice _ => True | _ => False end ->
  ms_chan (fst (fst (ms_sop ms av e so c))) = ms_chan ms).
Check (C12_events_of_join_accesses : forall ms m a c, MInv ms m ->
  NS.mem (match a with JRead i | JAccess i _ _ | JRemove i => i end) (ms_mask ms) = true ->
  ms_chan (fst (fst (ms_jact ms a c))) = (if ms_emit ms then ev_of_act (ms_wrap ms) a else []) ++ ms_chan ms).
Check (C12_a_join_reports_exactly_its_mutable_accesses_and_removals : forall e av eids hs k ms s, TInv e ->
  cx_stuck (se_cx (fst (env_join e av eids hs k ms))) = false ->
  env_chan (fst (env_join e av eids hs k ms)) s = jout_evs s (tag e s) hs ms (snd (env_join e av eids hs k ms)) ++ env_chan e s).
