(* C16 - A change set accumulates per entity and applies each sum exactly once. *)
From SV Require Import Base.ListX Store.Masked World.Env World.Join World.JoinProps World.CsProps World.JoinAbs
  World.JoinRefine World.JoinAbsProps World.JoinSafe.
From Coq Require Import Sorting.Sorted.

(* whatever the sequence of pairs: per index, the combination of its amounts in arrival order *)
Theorem C16_accumulates_in_arrival_order : forall l m i,
  NM.find i (cs_add_all m l) = fold_amt (NM.find i m) (amts_of i l).
Proof. exact cs_add_all_spec. Qed.

Theorem C16_collect : forall l i, NM.find i (cs_add_all (NM.empty Z) l) = fold_amt None (amts_of i l).
Proof. exact collect_spec. Qed.

(* nothing for an entity that is not mentioned, something for every entity that is *)
Theorem C16_nothing_for_others : forall l i, amts_of i l = [] -> NM.find i (cs_add_all (NM.empty Z) l) = None.
Proof. exact collect_nothing_else. Qed.
Theorem C16_every_mentioned_entity : forall l i, amts_of i l <> [] -> NM.find i (cs_add_all (NM.empty Z) l) <> None.
Proof. exact collect_mentions. Qed.

(* collected, extended or added one by one: the same change set *)
Theorem C16_extend_is_append : forall l1 l2 m, cs_add_all (cs_add_all m l1) l2 = cs_add_all m (l1 ++ l2).
Proof. exact extend_is_append. Qed.
Theorem C16_add_is_extend_by_one : forall m i a, cs_add m i a = cs_add_all m [(i, a)].
Proof. exact add_is_extend. Qed.

(* the operations on slots are these functions, and touch no other slot *)
Theorem C16_ops_collect : forall e hs k l ps, res_pairs hs l = Some ps ->
  cs_get (fst (env_csop e hs (CsCollect k l))) k = cs_add_all (NM.empty Z) ps.
Proof. exact csop_collect. Qed.
Theorem C16_ops_extend : forall e hs k l ps, res_pairs hs l = Some ps ->
  cs_get (fst (env_csop e hs (CsExtend k l))) k = cs_add_all (cs_get e k) ps.
Proof. exact csop_extend. Qed.
Theorem C16_ops_add : forall e hs k h a ent, pv_get hs (N.of_nat h) = Some ent ->
  cs_get (fst (env_csop e hs (CsAdd k h a))) k = cs_add (cs_get e k) (fst ent) a.
Proof. exact csop_add. Qed.
Theorem C16_ops_other_slots : forall e hs c k',
  (match c with CsNew k | CsAdd k _ _ | CsCollect k _ | CsExtend k _ | CsClear k | CsDump k => k <> k' end) ->
  cs_get (fst (env_csop e hs c)) k' = cs_get e k'.
Proof. exact csop_other_slot. Qed.

(* joined with anything, a change set constrains the join to its own indices; the join visits each
   index of the intersection once, so each accumulated amount is paired once *)
Theorem C16_member_of_a_join : forall e eids k mode d i,
  m_has e eids (MChange k mode d) i = NM.mem i (cs_get e k).
Proof. reflexivity. Qed.
Theorem C16_each_index_once : forall e eids ms keys, jkeys e eids ms = Some keys ->
  NoDup keys /\ (forall i, In i keys <-> all_have e eids ms i = true).
Proof. intros e eids ms keys H. split; [eapply jkeys_once; eassumption | intros i; eapply jkeys_exact; eassumption]. Qed.

(* the item handed out for an index is the amount accumulated for it; by value it is taken out *)
Theorem C16_item_is_the_accumulated_amount : forall av hs excl eids k mode d i e a, NM.find i (cs_get e k) = Some a ->
  snd (m_get av hs excl eids (MChange k mode d) i e) = JAmt a /\
  (mode = 2 -> NM.find i (cs_get (fst (m_get av hs excl eids (MChange k mode d) i e)) k) = None) /\
  (mode = 1 -> NM.find i (cs_get (fst (m_get av hs excl eids (MChange k mode d) i e)) k) = Some (amt_add a d)) /\
  (mode = 0 -> fst (m_get av hs excl eids (MChange k mode d) i e) = e).
Proof.
  intros av hs excl eids k mode d i e a H. cbn [m_get]. rewrite H. cbn [fst snd]. split; [reflexivity|].
  split; [|split]; intros ->.
  - change (N.eqb 2 1) with false. change (N.eqb 2 2) with true. cbv iota. rewrite cs_get_put.
    destruct (N.eq_dec k k); [|congruence]. rewrite find_remove. destruct (N.eq_dec i i); [reflexivity|congruence].
  - change (N.eqb 1 1) with true. cbv iota. rewrite cs_get_put.
    destruct (N.eq_dec k k); [|congruence]. rewrite find_add. destruct (N.eq_dec i i); [reflexivity|congruence].
  - reflexivity.
Qed.

(* consuming the change set leaves it empty *)
Theorem C16_consumed_by_value : forall ms k e, (exists m, In m ms /\ m_taken m = Some k) ->
  cs_get (consume_cs ms e) k = NM.empty Z.
Proof. exact consume_cs_empties. Qed.

(* joined with storages (any tuple around the change-set member, any keys): the item paired with index j is the amount
   accumulated for j when the join started - each accumulated amount is paired exactly once, with that entity's row *)
Theorem C16_each_amount_paired_once_with_its_entity : forall unit av hs excl eids pre post k mode d keys S, NoDup keys ->
  forallb (fun m => negb (m_cs_owns m k)) pre = true ->
  forall j xs, In (j, xs) (snd (a_visit_keys unit av hs excl eids (pre ++ MChange k mode d :: post) keys S)) ->
  nth_error xs (length pre) = Some (JAmt (match cscell S k j with Some a => a | None => 0%Z end)).
Proof. exact join_pairs_each_accumulated_amount_once. Qed.

(* ... and afterwards: joined mutably, every visited amount is combined with the delta exactly once; joined by value,
   every visited amount is gone; joined by reference, nothing changes; amounts of other indices are untouched *)
Theorem C16_change_set_after_a_join : forall unit av hs excl eids pre post k mode d keys S j, NoDup keys ->
  forallb (fun m => negb (m_cs_owns m k)) pre = true -> forallb (fun m => negb (m_cs_owns m k)) post = true ->
  cscell (fst (a_visit_keys unit av hs excl eids (pre ++ MChange k mode d :: post) keys S)) k j =
    if in_dec N.eq_dec j keys
    then (if N.eqb mode 1 then option_map (fun a => amt_add a d) (cscell S k j) else if N.eqb mode 2 then None else cscell S k j)
    else cscell S k j.
Proof. exact join_change_set_cells. Qed.

(* the join on the real storages and change sets refines the join on the maps these theorems speak about *)
Theorem C16_join_refines_the_join_on_maps : forall unit av hs excl eids ms keys e S, absrel unit e S ->
  snd (visit_keys av hs excl eids ms keys e) = snd (a_visit_keys unit av hs excl eids ms keys S) /\
  absrel unit (fst (visit_keys av hs excl eids ms keys e)) (fst (a_visit_keys unit av hs excl eids ms keys S)).
Proof. exact visit_keys_abs. Qed.

Example C16_nonvacuous :
  let hs := pv_push (pv_push (pv_push pv_empty (0, 1%Z)) (7, 1%Z)) (64, 2%Z) in
  let e := fst (env_csop (env_init false) hs (CsCollect 0 [(1%nat, 32%Z); (2%nat, 12%Z); (1%nat, 13%Z); (2%nat, (-5)%Z); (1%nat, 1%Z)])) in
  let av := {| av_alive := fun _ => true; av_cur_gen := fun _ => 1%Z; av_err_gen := fun _ => 1%Z |} in
  NM.elements (cs_get e 0) = [(7, 328%Z); (64, 31%Z)] /\
  snd (env_join e av NS.empty hs (JSeq None) [MChange 0 2 0%Z]) = JItems [(7, [JAmt 328%Z]); (64, [JAmt 31%Z])] /\
  NM.elements (cs_get (fst (env_join e av NS.empty hs (JSeq None) [MChange 0 2 0%Z])) 0) = [].
Proof. vm_compute. repeat split; reflexivity. Qed.

Print Assumptions C16_accumulates_in_arrival_order.
Print Assumptions C16_collect.
Print Assumptions C16_nothing_for_others.
Print Assumptions C16_every_mentioned_entity.
Print Assumptions C16_extend_is_append.
Print Assumptions C16_add_is_extend_by_one.
Print Assumptions C16_ops_collect.
Print Assumptions C16_ops_extend.
Print Assumptions C16_ops_add.
Print Assumptions C16_ops_other_slots.
Print Assumptions C16_member_of_a_join.
Print Assumptions C16_each_index_once.
Print Assumptions C16_item_is_the_accumulated_amount.
Print Assumptions C16_consumed_by_value.
Print Assumptions C16_each_amount_paired_once_with_its_entity.
Print Assumptions C16_change_set_after_a_join.
Print Assumptions C16_join_refines_the_join_on_maps.
