From SV Require Import Alloc.LifeProps SaveLoad.Marker SaveLoad.SerDe SaveLoad.SLOps   SaveLoad.MarkerProps SaveLoad.SerDeProps SaveLoad.SLProps Props.C14.
From Coq Require Import Sorting.Permutation.
Check (C14_serialize_image :
  forall w nc d, Inv w -> serialize w nc = Some d ->
  NoDup (map fst d) /\
  (forall e m, mk_get w e = Some m -> exists cs, In (m, cs) d) /\
  (forall m cs, In (m, cs) d -> exists e, mk_get w e = Some m /\ length cs = nc /\
     forall j, (j < nc)%nat -> ser_slot (mk_get w) (st_get w (N.of_nat j) e) (nth j cs None))).
Check (C14_serialize_panics_only_on_dangling :
  forall w nc, Inv w -> serialize w nc = None ->
  exists e m j e', mk_get w e = Some m /\ (j < nc)%nat /\ st_get w (N.of_nat j) e = Some (Ref e') /\ mk_get w e' = None).
Check (C14_round_trip :
  forall src nc d d', Inv src -> serialize src nc = Some d -> Permutation d d' ->
  let tgt := deserialize sl_empty d' in
  Inv tgt /\
  (forall e m, mk_get src e = Some m -> exists t, mk_get tgt t = Some m) /\
  (forall t, w_alive tgt t = true -> exists e, same_marker src tgt e t) /\
  (forall e t, same_marker src tgt e t -> forall j, (j < nc)%nat ->
     comp_rel src tgt (st_get src (N.of_nat j) e) (st_get tgt (N.of_nat j) t))).
Check (C14_bijection :
  forall src nc d d', Inv src -> ser_data_spec src nc d -> Permutation d d' ->
  let tgt := deserialize sl_empty d' in
  (forall e m, mk_get src e = Some m -> exists t, same_marker src tgt e t) /\
  (forall t, w_alive tgt t = true -> exists e, same_marker src tgt e t) /\
  (forall e t1 t2, same_marker src tgt e t1 -> same_marker src tgt e t2 -> t1 = t2) /\
  (forall e1 e2 t, same_marker src tgt e1 t -> same_marker src tgt e2 t -> e1 = e2)).
Check (C14_entity_count :
  forall src nc d d', Inv src -> ser_data_spec src nc d -> Permutation d d' ->
  length (l_entities (sl_life (deserialize sl_empty d'))) = length d).
Check (C14_serialize_data_spec :
  forall w nc d, Inv w -> serialize w nc = Some d -> ser_data_spec w nc d).
Check (C14_recursive_closure :
  forall w nc, Inv w ->
  let res := serialize_recursive w nc in
  Inv (fst res) /\ mext w (fst res) /\
  forall d, snd res = Some d ->
    ser_data_spec (fst res) nc d /\ (forall x, mk_get (fst res) x <> None <-> reach w nc x)).
Check (C14_recursive_round_trip :
  forall w nc d d', Inv w -> snd (serialize_recursive w nc) = Some d -> Permutation d d' ->
  let src := fst (serialize_recursive w nc) in
  let tgt := deserialize sl_empty d' in
  Inv tgt /\
  (forall e m, mk_get src e = Some m -> exists t, mk_get tgt t = Some m) /\
  (forall t, w_alive tgt t = true -> exists e, same_marker src tgt e t) /\
  (forall e t, same_marker src tgt e t -> forall j, (j < nc)%nat ->
     comp_rel src tgt (st_get src (N.of_nat j) e) (st_get tgt (N.of_nat j) t))).
Check (C14_recursive_fuel_enough :
  forall w nc fuel', Inv w -> (S (length (l_entities (sl_life w))) <= fuel')%nat ->
  ser_loop fuel' w nc (join_marked w) = serialize_recursive w nc).
