(* What a join does to the maps (C06, C13, C16): every cell outside the visited
   indices is left alone; a visited cell receives exactly the effects of the
   members that own its storage; a storage that is only read is not changed at
   all; what a member reads is the cell as the members before it left it. *)
From SV Require Import Base.ListX World.Env World.Join World.JoinAbs.

Definition cell (S : astate) (s j : N) : option tok := NM.find j (as_st S s).

Definition bump (u : bool) (z : Z) (v : option tok) : option tok :=
  match v with Some t => Some (tn u (fst t, (snd t + z)%Z)) | None => None end.

Definition act_idx (a : jact) : N := match a with JRead i | JAccess i _ _ | JRemove i => i end.
Definition act_eff (u : bool) (a : jact) (v : option tok) : option tok :=
  match a with
  | JRead _ | JAccess _ _ None => v
  | JAccess _ _ (Some z) => bump u z v
  | JRemove _ => None
  end.

Lemma upd_eq {A} (f : N -> A) k x j : upd f k x j = if N.eq_dec k j then x else f j.
Proof. reflexivity. Qed.

Section Cells.
  Variable unit : N -> bool.

  (* one primitive: only the cell (sid, index) can change *)
  Lemma a_jact_cell S sid a s j :
    cell (fst (a_jact unit S sid a)) s j =
      if N.eq_dec sid s then (if N.eq_dec (act_idx a) j then act_eff (unit sid) a (cell S sid j) else cell S s j) else cell S s j.
  Proof.
    unfold a_jact, cell. destruct a as [i|i touch d|i]; cbn [a_act1 act_idx act_eff].
    - destruct (NM.find i (as_st S sid)) as [t|] eqn:Hf; cbn [fst as_set as_fail as_st]; rewrite ?upd_eq;
        destruct (N.eq_dec sid s) as [<-|Hs]; destruct (N.eq_dec i j) as [<-|Hj]; reflexivity.
    - destruct (NM.find i (as_st S sid)) as [t|] eqn:Hf; cbn [fst as_set as_fail as_st].
      + destruct d as [z|]; cbn [as_set as_st]; rewrite upd_eq; destruct (N.eq_dec sid s) as [<-|Hs]; try reflexivity.
        * rewrite find_add. destruct (N.eq_dec i j) as [<-|Hj]; [rewrite Hf|]; reflexivity.
        * destruct (N.eq_dec i j); reflexivity.
      + destruct (N.eq_dec sid s) as [<-|Hs]; [|reflexivity]. destruct (N.eq_dec i j) as [<-|Hj]; [|reflexivity].
        rewrite Hf. destruct d; reflexivity.
    - destruct (NM.find i (as_st S sid)) as [t|] eqn:Hf; cbn [fst as_set as_fail as_st].
      + rewrite upd_eq. destruct (N.eq_dec sid s) as [<-|Hs]; [|reflexivity]. rewrite find_remove.
        destruct (N.eq_dec i j); reflexivity.
      + destruct (N.eq_dec sid s) as [<-|Hs]; [|reflexivity]. destruct (N.eq_dec i j) as [<-|Hj]; [|reflexivity]. exact Hf.
  Qed.

  Lemma a_jact_cs S sid a : as_cs (fst (a_jact unit S sid a)) = as_cs S.
  Proof. unfold a_jact. destruct (a_act1 _ _ a) as [[mp t] ok]. destruct ok; reflexivity. Qed.

  (* reading and fetching without writing change no cell at all *)
  Lemma a_jact_quiet S sid a s j : act_eff (unit sid) a = (fun v => v) -> cell (fst (a_jact unit S sid a)) s j = cell S s j.
  Proof.
    intros H. rewrite a_jact_cell. destruct (N.eq_dec sid s) as [<-|]; [|reflexivity].
    destruct (N.eq_dec (act_idx a) j); [rewrite H|]; reflexivity.
  Qed.

  Lemma a_others_cell av hs sid mutably l : forall S s j,
    cell (fst (a_others unit av hs sid mutably l S)) s j = cell S s j /\
    as_cs (fst (a_others unit av hs sid mutably l S)) = as_cs S.
  Proof.
    induction l as [|h l IH]; intros S s j; cbn [a_others]; [cbn [fst]; auto|].
    destruct (pv_get hs (N.of_nat h)) as [ent|].
    - destruct (NM.mem (fst ent) (as_st S sid) && av_alive av ent).
      + pose proof (a_jact_quiet S sid (if mutably then JAccess (fst ent) false None else JRead (fst ent)) s j) as Q.
        pose proof (a_jact_cs S sid (if mutably then JAccess (fst ent) false None else JRead (fst ent))) as C.
        destruct (a_jact unit S sid _) as [S1 t]. cbn [fst] in *.
        destruct (IH S1 s j) as [I1 I2]. destruct (a_others unit av hs sid mutably l S1) as [S2 r]. cbn [fst] in *.
        rewrite I1, I2, C. split; [|reflexivity]. apply Q. destruct mutably; reflexivity.
      + destruct (IH S s j) as [I1 I2]. destruct (a_others unit av hs sid mutably l S) as [S2 r]. cbn [fst] in *. auto.
    - destruct (IH S s j) as [I1 I2]. destruct (a_others unit av hs sid mutably l S) as [S2 r]. cbn [fst] in *. auto.
  Qed.

  (* what visiting member m at index i does to the cell (s, i) *)
  Fixpoint m_cell_eff (m : member) (i : N) (s : N) (v : option tok) : option tok :=
    match m with
    | MWrite sid _ (Some z) => if N.eq_dec sid s then bump (unit sid) z v else v
    | MDrain sid => if N.eq_dec sid s then None else v
    | MRestrict sid mode selmod selrem d _ =>
        if N.eq_dec sid s then (if N.eqb mode 1 && N.eqb (N.modulo i selmod) selrem then bump (unit sid) d v else v) else v
    | MMaybe m' => m_cell_eff m' i s v
    | _ => v
    end.

  Lemma m_cell_eff_none m i s : m_cell_eff m i s None = None.
  Proof.
    induction m; cbn [m_cell_eff]; try reflexivity; try assumption.
    - destruct d; [destruct (N.eq_dec sid s)|]; reflexivity.
    - destruct (N.eq_dec sid s); [destruct (_ && _)|]; reflexivity.
    - destruct (N.eq_dec sid s); reflexivity.
  Qed.

  Lemma a_has_false_cell S eids m i s : a_has S eids m i = false ->
    m_cell_eff m i s (cell S s i) = cell S s i.
  Proof.
    intros H. assert (forall sid, NM.mem i (as_st S sid) = false -> cell S sid i = None) as Hn.
    { intros sid Hm. unfold cell. rewrite NMF.mem_find_b in Hm. destruct (NM.find i (as_st S sid)); [discriminate|reflexivity]. }
    destruct m; cbn [a_has m_cell_eff] in *; try reflexivity; try discriminate.
    - destruct d; [|reflexivity]. destruct (N.eq_dec sid s) as [<-|]; [|reflexivity]. rewrite (Hn _ H). reflexivity.
    - destruct (N.eq_dec sid s) as [<-|]; [|reflexivity]. rewrite (Hn _ H). destruct (_ && _); reflexivity.
    - destruct (N.eq_dec sid s) as [<-|]; [|reflexivity]. rewrite (Hn _ H). reflexivity.
  Qed.

  Theorem a_mget_cell av hs excl eids m i : forall S s j,
    cell (fst (a_mget unit av hs excl eids m i S)) s j =
      if N.eq_dec i j then m_cell_eff m i s (cell S s i) else cell S s j.
  Proof.
    induction m as [sid|sid touch d| |l|sid|m IH|sid mode selmod selrem d others|k mode d|sid|bop ba bb]; intros S s j; cbn [a_mget m_cell_eff].
    - pose proof (a_jact_quiet S sid (JRead i) s j eq_refl) as Q. destruct (a_jact unit S sid (JRead i)) as [S1 t]. cbn [fst] in *.
      rewrite Q. destruct (N.eq_dec i j) as [<-|]; reflexivity.
    - pose proof (a_jact_cell S sid (JAccess i touch d) s j) as Q. destruct (a_jact unit S sid _) as [S1 t]. cbn [fst act_idx act_eff] in *.
      rewrite Q. destruct (N.eq_dec sid s) as [<-|]; destruct (N.eq_dec i j) as [<-|]; destruct d; reflexivity.
    - destruct (N.eq_dec i j) as [<-|]; reflexivity.
    - destruct (N.eq_dec i j) as [<-|]; reflexivity.
    - destruct (N.eq_dec i j) as [<-|]; reflexivity.
    - destruct (a_has S eids m i) eqn:Eh.
      + specialize (IH S s j). destruct (a_mget unit av hs excl eids m i S) as [S1 x]. exact IH.
      + cbn [fst]. destruct (N.eq_dec i j) as [<-|]; [|reflexivity]. symmetry. eapply a_has_false_cell. eassumption.
    - pose proof (fun s' j' => a_jact_quiet S sid (JRead i) s' j' eq_refl) as Q. destruct (a_jact unit S sid (JRead i)) as [S1 t]. cbn [fst] in Q.
      set (S2 := if N.eqb mode 1 && N.eqb (N.modulo i selmod) selrem then fst (a_jact unit S1 sid (JAccess i true (Some d))) else S1).
      assert (forall j', cell S2 s j' = if N.eq_dec i j'
               then (if N.eq_dec sid s then (if N.eqb mode 1 && N.eqb (N.modulo i selmod) selrem then bump (unit sid) d (cell S s i) else cell S s i) else cell S s i)
               else cell S s j') as H2.
      { intros j'. subst S2. destruct (N.eqb mode 1 && N.eqb (N.modulo i selmod) selrem).
        - rewrite a_jact_cell. cbn [act_idx act_eff]. rewrite !Q.
          destruct (N.eq_dec sid s) as [<-|]; destruct (N.eq_dec i j') as [<-|]; reflexivity.
        - rewrite Q. destruct (N.eq_dec i j') as [<-|]; destruct (N.eq_dec sid s); reflexivity. }
      destruct (negb (N.eqb mode 1) || excl).
      + destruct (a_others_cell av hs sid (N.eqb mode 1 && Z.odd d) others S2 s j) as [O1 _].
        destruct (a_others unit av hs sid _ others S2) as [S3 os]. cbn [fst] in *. rewrite O1, H2.
        destruct (N.eq_dec i j); destruct (N.eq_dec sid s); reflexivity.
      + cbn [fst]. rewrite H2. destruct (N.eq_dec i j); destruct (N.eq_dec sid s); reflexivity.
    - destruct (NM.find i (as_cs S k)) as [a|]; cbn [fst].
      + destruct (N.eqb mode 1); [|destruct (N.eqb mode 2)]; cbn [as_set_cs]; unfold cell; cbn [as_st];
          destruct (N.eq_dec i j) as [<-|]; reflexivity.
      + unfold cell. cbn [as_fail as_st]. destruct (N.eq_dec i j) as [<-|]; reflexivity.
    - pose proof (a_jact_cell S sid (JRemove i) s j) as Q. destruct (a_jact unit S sid _) as [S1 t]. cbn [fst act_idx act_eff] in *.
      rewrite Q. destruct (N.eq_dec sid s) as [<-|]; destruct (N.eq_dec i j) as [<-|]; reflexivity.
    - destruct (N.eq_dec i j) as [<-|]; reflexivity.
  Qed.

  Definition members_eff (ms : list member) (i s : N) (v : option tok) : option tok :=
    fold_left (fun v m => m_cell_eff m i s v) ms v.

  Theorem a_visit_members_cell av hs excl eids ms i : forall S s j,
    cell (fst (a_visit_members unit av hs excl eids ms i S)) s j =
      if N.eq_dec i j then members_eff ms i s (cell S s i) else cell S s j.
  Proof.
    induction ms as [|m r IH]; intros S s j; cbn [a_visit_members members_eff fold_left].
    - cbn [fst]. destruct (N.eq_dec i j) as [<-|]; reflexivity.
    - pose proof (a_mget_cell av hs excl eids m i S s) as Q. destruct (a_mget unit av hs excl eids m i S) as [S1 x]. cbn [fst] in Q.
      specialize (IH S1 s j). destruct (a_visit_members unit av hs excl eids r i S1) as [S2 xs]. cbn [fst] in *.
      rewrite IH. destruct (N.eq_dec i j) as [<-|Hne].
      + rewrite Q. destruct (N.eq_dec i i); [reflexivity|congruence].
      + rewrite Q. destruct (N.eq_dec i j); [congruence|reflexivity].
  Qed.

  (* the whole walk: a cell outside the visited indices is untouched; a visited cell gets the members' effects, once *)
  Theorem a_visit_keys_cell av hs excl eids ms keys : forall S s j, NoDup keys ->
    cell (fst (a_visit_keys unit av hs excl eids ms keys S)) s j =
      if in_dec N.eq_dec j keys then members_eff ms j s (cell S s j) else cell S s j.
  Proof.
    induction keys as [|i keys IH]; intros S s j Hnd; cbn [a_visit_keys].
    - cbn [fst]. destruct (in_dec N.eq_dec j []) as [[]|]. reflexivity.
    - inversion Hnd as [|? ? Hni Hnd']; subst.
      pose proof (a_visit_members_cell av hs excl eids ms i S s) as Q.
      destruct (a_visit_members unit av hs excl eids ms i S) as [S1 xs]. cbn [fst] in Q.
      specialize (IH S1 s j Hnd'). destruct (a_visit_keys unit av hs excl eids ms keys S1) as [S2 r]. cbn [fst] in *.
      rewrite IH. destruct (in_dec N.eq_dec j (i :: keys)) as [Hin|Hnin]; destruct (in_dec N.eq_dec j keys) as [Hin'|Hnin'].
      + assert (i <> j) as Hne by (intros ->; contradiction). rewrite (Q j). destruct (N.eq_dec i j); [congruence|reflexivity].
      + destruct Hin as [<-|]; [|contradiction]. rewrite (Q i). destruct (N.eq_dec i i); [reflexivity|congruence].
      + exfalso. apply Hnin. right. assumption.
      + assert (i <> j) as Hne by (intros ->; apply Hnin; left; reflexivity).
        rewrite (Q j). destruct (N.eq_dec i j); [congruence|reflexivity].
  Qed.
End Cells.

(* ------------------------------------------------------------------ *)
(* who changes what *)

Section Owners.
  Variable unit : N -> bool.

  (* the members that can change a cell of storage s: a mutable member that writes, a drain, a mutable restriction *)
  Fixpoint m_owns (m : member) (s : N) : bool :=
    match m with
    | MWrite sid _ (Some _) | MDrain sid => N.eqb sid s
    | MRestrict sid mode _ _ _ _ => N.eqb sid s && N.eqb mode 1
    | MMaybe m' => m_owns m' s
    | _ => false
    end.

  Lemma not_owner_no_effect m i s v : m_owns m s = false -> m_cell_eff unit m i s v = v.
  Proof.
    induction m; cbn [m_owns m_cell_eff]; intros H; try reflexivity; auto.
    - destruct d; [|reflexivity]. destruct (N.eq_dec sid s) as [<-|]; [rewrite N.eqb_refl in H; discriminate | reflexivity].
    - destruct (N.eq_dec sid s) as [<-|]; [|reflexivity]. rewrite N.eqb_refl in H. cbn [andb] in H. rewrite H. reflexivity.
    - destruct (N.eq_dec sid s) as [<-|]; [rewrite N.eqb_refl in H; discriminate | reflexivity].
  Qed.

  Lemma no_owner_no_effect ms i s : forallb (fun m => negb (m_owns m s)) ms = true -> forall v, members_eff unit ms i s v = v.
  Proof.
    induction ms as [|m r IH]; intros H v; cbn [members_eff fold_left]; [reflexivity|].
    cbn [forallb] in H. apply andb_true_iff in H. destruct H as [H1 H2]. apply negb_true_iff in H1.
    rewrite (not_owner_no_effect m i s v H1). apply IH. assumption.
  Qed.

  Lemma members_eff_app ms1 ms2 i s v : members_eff unit (ms1 ++ ms2) i s v = members_eff unit ms2 i s (members_eff unit ms1 i s v).
  Proof. unfold members_eff. apply fold_left_app. Qed.

  (* a storage that no member owns is not changed at all by the join: "on that entity and on no other" for every
     other storage, and the whole statement for joins that only read *)
  Theorem join_leaves_unowned_storages_alone av hs excl eids ms keys S s j : NoDup keys ->
    forallb (fun m => negb (m_owns m s)) ms = true ->
    cell (fst (a_visit_keys unit av hs excl eids ms keys S)) s j = cell S s j.
  Proof.
    intros Hnd Hno. rewrite (a_visit_keys_cell unit av hs excl eids ms keys S s j Hnd).
    destruct (in_dec N.eq_dec j keys); [apply no_owner_no_effect; assumption | reflexivity].
  Qed.

  (* a mutable member that adds z: every visited cell of its storage gets z added exactly once, every other cell of
     that storage keeps its value *)
  Theorem join_write_lands_on_the_visited_cells_only av hs excl eids pre post s touch z keys S j : NoDup keys ->
    forallb (fun m => negb (m_owns m s)) pre = true -> forallb (fun m => negb (m_owns m s)) post = true ->
    cell (fst (a_visit_keys unit av hs excl eids (pre ++ MWrite s touch (Some z) :: post) keys S)) s j =
      if in_dec N.eq_dec j keys then bump (unit s) z (cell S s j) else cell S s j.
  Proof.
    intros Hnd H1 H2. rewrite (a_visit_keys_cell unit av hs excl eids _ keys S s j Hnd).
    destruct (in_dec N.eq_dec j keys); [|reflexivity].
    rewrite members_eff_app, (no_owner_no_effect pre j s H1). cbn [members_eff fold_left m_cell_eff].
    destruct (N.eq_dec s s); [|congruence]. apply (no_owner_no_effect post j s H2).
  Qed.

  (* a drain removes exactly the visited cells *)
  Theorem join_drain_removes_the_visited_cells_only av hs excl eids pre post s keys S j : NoDup keys ->
    forallb (fun m => negb (m_owns m s)) pre = true -> forallb (fun m => negb (m_owns m s)) post = true ->
    cell (fst (a_visit_keys unit av hs excl eids (pre ++ MDrain s :: post) keys S)) s j =
      if in_dec N.eq_dec j keys then None else cell S s j.
  Proof.
    intros Hnd H1 H2. rewrite (a_visit_keys_cell unit av hs excl eids _ keys S s j Hnd).
    destruct (in_dec N.eq_dec j keys); [|reflexivity].
    rewrite members_eff_app, (no_owner_no_effect pre j s H1). cbn [members_eff fold_left m_cell_eff].
    destruct (N.eq_dec s s); [|congruence]. apply (no_owner_no_effect post j s H2).
  Qed.

  (* a mutable restriction: exactly the visited cells the caller chose to fetch mutably change *)
  Theorem join_restricted_writes_the_chosen_cells_only av hs excl eids pre post s selmod selrem d others keys S j : NoDup keys ->
    forallb (fun m => negb (m_owns m s)) pre = true -> forallb (fun m => negb (m_owns m s)) post = true ->
    cell (fst (a_visit_keys unit av hs excl eids (pre ++ MRestrict s 1 selmod selrem d others :: post) keys S)) s j =
      if in_dec N.eq_dec j keys then (if N.eqb (N.modulo j selmod) selrem then bump (unit s) d (cell S s j) else cell S s j)
      else cell S s j.
  Proof.
    intros Hnd H1 H2. rewrite (a_visit_keys_cell unit av hs excl eids _ keys S s j Hnd).
    destruct (in_dec N.eq_dec j keys); [|reflexivity].
    rewrite members_eff_app, (no_owner_no_effect pre j s H1). cbn [members_eff fold_left m_cell_eff].
    destruct (N.eq_dec s s); [|congruence]. change (N.eqb 1 1) with true. cbn [andb]. apply (no_owner_no_effect post j s H2).
  Qed.
End Owners.

(* ------------------------------------------------------------------ *)
(* what the members read *)

Section Items.
  Variable unit : N -> bool.

  Definition tok_of (v : option tok) : tok := match v with Some t => t | None => unit_tok end.

  Lemma a_jact_reads S sid a : snd (a_jact unit S sid a) = tok_of (cell S sid (act_idx a)).
  Proof.
    unfold a_jact, cell. destruct a as [i|i touch d|i]; cbn [a_act1 act_idx];
      destruct (NM.find i (as_st S sid)); reflexivity.
  Qed.

  (* a storage member hands out the cell of its own storage at the visited index *)
  Definition reads_cell (m : member) (s : N) : bool :=
    match m with MRead sid | MWrite sid _ _ | MDrain sid => N.eqb sid s | _ => false end.

  Lemma a_mget_reads av hs excl eids m s i S : reads_cell m s = true ->
    snd (a_mget unit av hs excl eids m i S) = JTok (tok_of (cell S s i)).
  Proof.
    destruct m; cbn [reads_cell]; try discriminate; intros H; apply N.eqb_eq in H; subst; cbn [a_mget].
    - pose proof (a_jact_reads S s (JRead i)) as R. destruct (a_jact unit S s (JRead i)) as [S1 t]. cbn [snd act_idx] in *. subst. reflexivity.
    - pose proof (a_jact_reads S s (JAccess i touch d)) as R. destruct (a_jact unit S s _) as [S1 t]. cbn [snd act_idx] in *. subst. reflexivity.
    - pose proof (a_jact_reads S s (JRemove i)) as R. destruct (a_jact unit S s _) as [S1 t]. cbn [snd act_idx] in *. subst. reflexivity.
  Qed.

  Lemma a_visit_members_app av hs excl eids pre r i S :
    a_visit_members unit av hs excl eids (pre ++ r) i S =
      (fst (a_visit_members unit av hs excl eids r i (fst (a_visit_members unit av hs excl eids pre i S))),
       snd (a_visit_members unit av hs excl eids pre i S) ++
       snd (a_visit_members unit av hs excl eids r i (fst (a_visit_members unit av hs excl eids pre i S)))).
  Proof.
    revert S. induction pre as [|m pre IH]; intros S; cbn [app a_visit_members].
    - cbn [fst snd app]. destruct (a_visit_members unit av hs excl eids r i S). reflexivity.
    - destruct (a_mget unit av hs excl eids m i S) as [S1 x]. rewrite IH.
      destruct (a_visit_members unit av hs excl eids pre i S1) as [S2 xs]. cbn [fst snd app]. reflexivity.
  Qed.

  Lemma a_visit_members_len av hs excl eids ms i : forall S, length (snd (a_visit_members unit av hs excl eids ms i S)) = length ms.
  Proof.
    induction ms as [|m r IH]; intros S; cbn [a_visit_members]; [reflexivity|].
    destruct (a_mget unit av hs excl eids m i S) as [S1 x]. specialize (IH S1).
    destruct (a_visit_members unit av hs excl eids r i S1) as [S2 xs]. cbn [snd length] in *. rewrite IH. reflexivity.
  Qed.

  (* in one visit: the member at position |pre| reads the cell as the members before it left it *)
  Lemma a_visit_members_item av hs excl eids pre m post s i S : reads_cell m s = true ->
    nth_error (snd (a_visit_members unit av hs excl eids (pre ++ m :: post) i S)) (length pre) =
      Some (JTok (tok_of (members_eff unit pre i s (cell S s i)))).
  Proof.
    intros Hr. rewrite a_visit_members_app. cbn [snd].
    rewrite nth_error_app2 by (rewrite a_visit_members_len; lia). rewrite a_visit_members_len, Nat.sub_diag.
    pose proof (a_visit_members_cell unit av hs excl eids pre i S s i) as Q.
    destruct (a_visit_members unit av hs excl eids pre i S) as [S1 xs]. cbn [fst] in *.
    cbn [a_visit_members]. pose proof (a_mget_reads av hs excl eids m s i S1 Hr) as R.
    destruct (a_mget unit av hs excl eids m i S1) as [S2 x]. cbn [snd] in R. subst x.
    destruct (a_visit_members unit av hs excl eids post i S2) as [S3 ys]. cbn [snd nth_error].
    rewrite Q. destruct (N.eq_dec i i); [reflexivity|congruence].
  Qed.

  Lemma a_visit_keys_indices av hs excl eids ms keys : forall S,
    map fst (snd (a_visit_keys unit av hs excl eids ms keys S)) = keys.
  Proof.
    induction keys as [|i keys IH]; intros S; cbn [a_visit_keys]; [reflexivity|].
    destruct (a_visit_members unit av hs excl eids ms i S) as [S1 xs]. specialize (IH S1).
    destruct (a_visit_keys unit av hs excl eids ms keys S1) as [S2 r]. cbn [snd map fst] in *. rewrite IH. reflexivity.
  Qed.

  (* the whole join: a storage member whose predecessors in the tuple do not own its storage hands out, for every
     visited index, the value that index had in the storage when the join started - the direct lookup *)
  Theorem join_items_are_the_initial_cells av hs excl eids pre m post s keys : forall S, NoDup keys ->
    reads_cell m s = true -> forallb (fun m' => negb (m_owns m' s)) pre = true ->
    forall j xs, In (j, xs) (snd (a_visit_keys unit av hs excl eids (pre ++ m :: post) keys S)) ->
    nth_error xs (length pre) = Some (JTok (tok_of (cell S s j))).
  Proof.
    induction keys as [|i keys IH]; intros S Hnd Hr Hpre j xs Hin; cbn [a_visit_keys] in Hin; [destruct Hin|].
    inversion Hnd as [|? ? Hni Hnd']; subst.
    pose proof (a_visit_members_item av hs excl eids pre m post s i S Hr) as It.
    pose proof (a_visit_members_cell unit av hs excl eids (pre ++ m :: post) i S s) as Q.
    destruct (a_visit_members unit av hs excl eids (pre ++ m :: post) i S) as [S1 ys]. cbn [fst snd] in *.
    pose proof (a_visit_keys_indices av hs excl eids (pre ++ m :: post) keys S1) as Ix.
    specialize (IH S1 Hnd' Hr Hpre j xs).
    destruct (a_visit_keys unit av hs excl eids (pre ++ m :: post) keys S1) as [S2 r]. cbn [snd] in *.
    destruct Hin as [E|Hin].
    - inversion E; subst. rewrite It, (no_owner_no_effect unit pre j s Hpre). reflexivity.
    - rewrite (IH Hin). assert (In j keys) as Hj by (rewrite <- Ix; apply (in_map fst _ _ Hin)).
      rewrite (Q j). destruct (N.eq_dec i j); [subst; contradiction | reflexivity].
  Qed.
End Items.

(* ------------------------------------------------------------------ *)
(* any order of the visits (C07): however the index space is split and in whatever order the pieces are
   processed, the storages end up cell for cell the same and every storage member hands out the same values *)
From Coq Require Import Sorting.Permutation.

Theorem any_visit_order_same_cells unit av hs excl eids ms keys keys' S s j : NoDup keys -> Permutation keys keys' ->
  cell (fst (a_visit_keys unit av hs excl eids ms keys S)) s j = cell (fst (a_visit_keys unit av hs excl eids ms keys' S)) s j.
Proof.
  intros Hnd Hp. assert (NoDup keys') as Hnd' by (eapply Permutation_NoDup; eassumption).
  rewrite !a_visit_keys_cell by assumption.
  destruct (in_dec N.eq_dec j keys) as [H1|H1]; destruct (in_dec N.eq_dec j keys') as [H2|H2]; try reflexivity; exfalso.
  - apply H2. eapply Permutation_in; eassumption.
  - apply H1. eapply Permutation_in; [apply Permutation_sym|]; eassumption.
Qed.

Theorem any_visit_order_same_items unit av hs excl eids pre m post s keys keys' S : NoDup keys -> Permutation keys keys' ->
  reads_cell m s = true -> forallb (fun m' => negb (m_owns m' s)) pre = true ->
  forall j xs xs', In (j, xs) (snd (a_visit_keys unit av hs excl eids (pre ++ m :: post) keys S)) ->
                   In (j, xs') (snd (a_visit_keys unit av hs excl eids (pre ++ m :: post) keys' S)) ->
  nth_error xs (length pre) = nth_error xs' (length pre).
Proof.
  intros Hnd Hp Hr Hpre j xs xs' H1 H2. assert (NoDup keys') as Hnd' by (eapply Permutation_NoDup; eassumption).
  rewrite (join_items_are_the_initial_cells unit av hs excl eids pre m post s keys S Hnd Hr Hpre j xs H1).
  rewrite (join_items_are_the_initial_cells unit av hs excl eids pre m post s keys' S Hnd' Hr Hpre j xs' H2). reflexivity.
Qed.

(* every index is delivered once in any order: the rows' indices are the keys *)
Theorem any_visit_order_same_indices unit av hs excl eids ms keys keys' S : Permutation keys keys' ->
  Permutation (map fst (snd (a_visit_keys unit av hs excl eids ms keys S))) (map fst (snd (a_visit_keys unit av hs excl eids ms keys' S))).
Proof. intros Hp. rewrite !a_visit_keys_indices. exact Hp. Qed.
