(* The allocator part of every specification-world step is a short run of the
   lifecycle specification; this lifts the theorems of LifeProps.v (stated
   over arbitrary lifecycle runs with valid choices) to accepted world
   transcripts. *)
From SV Require Import Base.ListX Alloc.LifeProps World.WorldSpec.

Ltac fin := repeat split; auto; try (intros; discriminate);
  try match goal with H : ?P -> _ /\ _, H' : ?P |- _ => apply H; exact H' end.

Definition creates (pend : bool) (cs : list N) : list (aop * N) := map (fun i => (ACreate pend, i)) cs.

Definition micro (sw : sworld) (o : op) (cs : list N) : list (aop * N) :=
  match o with
  | OCreate _ => [(ACreate false, hd_choice cs)]
  | OCreateDropped _ =>
      let i := hd_choice cs in [(ACreate false, i); (AKillDef (snd (l_create false (s_life sw) i)), 0)]
  | OCreateIter n => creates false (firstn n cs)
  | OECreate => [(ACreate true, hd_choice cs)]
  | OECreateIter n => creates true (firstn n cs)
  | OEBuild built _ =>
      let i := hd_choice cs in
      if built then [(ACreate true, i)]
      else [(ACreate true, i); (AKillDef (snd (l_create true (s_life sw) i)), 0)]
  | OLazyCreate _ => [(ACreate true, hd_choice cs)]
  | ODelete h => match hget (s_hs sw) h with Some e => [(AKill [e], 0)] | None => [] end
  | ODeleteMany hs => match hget_all (s_hs sw) hs with Some es => [(AKill es, 0)] | None => [] end
  | OEDelete h => match hget (s_hs sw) h with Some e => [(AKillDef e, 0)] | None => [] end
  | ODeleteAll => [(AKill (l_entities (s_life sw)), 0)]
  | OMaintain => [(AMerge, 0)]
  | _ => []
  end.

(* s_ok is sticky *)
Lemma s_create_ok pend sw i : s_ok (fst (s_create pend sw i)) = s_ok sw && valid_choice (s_life sw) i.
Proof.
  unfold s_create. destruct (l_create pend (s_life sw) i) as [s' e].
  destruct (valid_choice (s_life sw) i); cbn; [rewrite andb_true_r|rewrite andb_false_r]; reflexivity.
Qed.

Lemma s_create_life pend sw i : s_life (fst (s_create pend sw i)) = fst (l_create pend (s_life sw) i).
Proof.
  unfold s_create. destruct (l_create pend (s_life sw) i) as [s' e].
  destruct (valid_choice (s_life sw) i); reflexivity.
Qed.

Lemma s_create_ent pend sw i : snd (s_create pend sw i) = snd (l_create pend (s_life sw) i).
Proof. unfold s_create. destruct (l_create pend (s_life sw) i) as [s' e]. reflexivity. Qed.

Lemma s_create_hl pend sw i : s_hl (fst (s_create pend sw i)) = snd (l_create pend (s_life sw) i) :: s_hl sw.
Proof.
  unfold s_create. destruct (l_create pend (s_life sw) i) as [s' e].
  destruct (valid_choice (s_life sw) i); reflexivity.
Qed.

Lemma s_builder_drop_life sw e : s_life (s_builder_drop sw e) = fst (l_kill_def (s_life sw) e).
Proof. unfold s_builder_drop. destruct (l_kill_def (s_life sw) e) as [s' [|]]; reflexivity. Qed.

Lemma s_builder_drop_ok sw e : s_ok (s_builder_drop sw e) = true -> s_ok sw = true.
Proof. unfold s_builder_drop. destruct (l_kill_def (s_life sw) e) as [s' [|]]; cbn; congruence. Qed.

Lemma s_builder_drop_hl sw e : s_hl (s_builder_drop sw e) = s_hl sw.
Proof. unfold s_builder_drop. destruct (l_kill_def (s_life sw) e) as [s' [|]]; reflexivity. Qed.

Lemma s_builder_drop_env w env e : s_builder_drop (s_with_env w env) e = s_with_env (s_builder_drop w e) env.
Proof. unfold s_builder_drop. cbn [s_life s_with_env]. destruct (l_kill_def (s_life w) e) as [s' [|]]; reflexivity. Qed.

Ltac envn := unfold s_insert_comps, s_purge_killed; rewrite ?s_builder_drop_env;
  cbn [s_life s_ok s_hl s_hs s_env s_with_env].

Lemma lrun_creates pend cs : forall s,
  fst (lrun s (creates pend cs)) = fst (fold_left (fun st i => (fst (l_create pend (fst st) i), tt)) cs (s, tt)).
Proof.
  induction cs as [|i cs IH]; intros s; [reflexivity|].
  cbn [creates map]. rewrite lrun_cons. cbn [fst lstep fold_left].
  destruct (l_create pend s i) as [s' e]. cbn [fst]. apply IH.
Qed.

(* the facts about s_create_n, by induction *)
Lemma s_create_n_spec pend n : forall sw cs,
  let r := s_create_n pend n sw cs in
  (s_ok (fst r) = true -> s_ok sw = true /\ (n <= length cs)%nat /\ lvalid (s_life sw) (creates pend (firstn n cs)) = true) /\
  s_life (fst r) = fst (lrun (s_life sw) (creates pend (firstn n cs))) /\
  snd r = lhandles (s_life sw) (creates pend (firstn n cs)) /\
  s_hl (fst r) = rev (snd r) ++ s_hl sw.
Proof.
  induction n as [|n IH]; intros sw cs; cbn [s_create_n firstn].
  - cbn. repeat split; auto. lia.
  - destruct cs as [|i cs]; cbn [firstn].
    + cbn. fin.
    + pose proof (s_create_ok pend sw i) as Hok. pose proof (s_create_life pend sw i) as Hl.
      pose proof (s_create_ent pend sw i) as He. pose proof (s_create_hl pend sw i) as Hh.
      destruct (s_create pend sw i) as [sw1 e]. cbn [fst snd] in *.
      specialize (IH sw1 cs). destruct (s_create_n pend n sw1 cs) as [sw2 l]. cbn [fst snd] in *.
      destruct IH as [I1 [I2 [I3 I4]]].
      cbn [creates map]. rewrite lrun_cons, lhandles_cons. cbn [lvalid lstep choice_ok fst snd handle_of length].
      destruct (l_create pend (s_life sw) i) as [s' e'] eqn:El. cbn [fst snd handle_of] in *. subst e.
      rewrite Hl in *. repeat split.
      * apply I1 in H. destruct H as [H _]. rewrite Hok in H. apply andb_true_iff in H. tauto.
      * apply I1 in H. lia.
      * pose proof H as H'. apply I1 in H. destruct H as [H [_ V]]. rewrite Hok in H. apply andb_true_iff in H.
        destruct H as [_ ->]. exact V.
      * exact I2.
      * rewrite I3. reflexivity.
      * rewrite I4, Hh. cbn [rev]. rewrite <- app_assoc. reflexivity.
Qed.

Definition is_obs (o : op) : bool :=
  match o with OIsAlive _ | OWIsAlive _ | OJoinEntities | OEntityAt _ | OProbeAll | OBad => true | _ => false end.

(* one specification-world step, seen from the lifecycle specification *)
Lemma sstep_core_micro sw o cs :
  let r := sstep_core sw o cs in
  s_life (fst r) = fst (lrun (s_life sw) (micro sw o cs)) /\
  (s_ok (fst r) = true -> s_ok sw = true /\ lvalid (s_life sw) (micro sw o cs) = true) /\
  (is_creation o = true -> match snd r with WHandles l => l = lhandles (s_life sw) (micro sw o cs) | _ => False end) /\
  (is_creation o = false -> lhandles (s_life sw) (micro sw o cs) = []) /\
  s_hl (fst r) = rev (lhandles (s_life sw) (micro sw o cs)) ++ s_hl sw.
Proof.
  assert (forall pend i, let '(w1, e) := s_create pend sw i in
            s_life w1 = fst (lrun (s_life sw) [(ACreate pend, i)]) /\
            (s_ok w1 = true -> s_ok sw = true /\ lvalid (s_life sw) [(ACreate pend, i)] = true) /\
            [e] = lhandles (s_life sw) [(ACreate pend, i)] /\
            s_hl w1 = rev (lhandles (s_life sw) [(ACreate pend, i)]) ++ s_hl sw) as Hone.
  { intros pend i. pose proof (s_create_ok pend sw i) as Hok. pose proof (s_create_life pend sw i) as Hl.
    pose proof (s_create_ent pend sw i) as He. pose proof (s_create_hl pend sw i) as Hh.
    destruct (s_create pend sw i) as [w1 e]. cbn [fst snd] in *.
    rewrite lrun_cons, lhandles_cons. cbn [lrun lvalid lstep choice_ok fst snd].
    destruct (l_create pend (s_life sw) i) as [s' e']. cbn [fst snd handle_of lhandles handles_of map app rev] in *.
    subst e. repeat split; auto.
    - rewrite Hok in H. apply andb_true_iff in H. tauto.
    - rewrite Hok in H. apply andb_true_iff in H. rewrite andb_true_r. tauto. }
  assert (forall pend i, let '(w1, e) := s_create pend sw i in
            s_life (s_builder_drop w1 e) =
              fst (lrun (s_life sw) [(ACreate pend, i); (AKillDef (snd (l_create pend (s_life sw) i)), 0)]) /\
            (s_ok (s_builder_drop w1 e) = true -> s_ok sw = true /\
              lvalid (s_life sw) [(ACreate pend, i); (AKillDef (snd (l_create pend (s_life sw) i)), 0)] = true) /\
            [e] = lhandles (s_life sw) [(ACreate pend, i); (AKillDef (snd (l_create pend (s_life sw) i)), 0)] /\
            s_hl (s_builder_drop w1 e) =
              rev (lhandles (s_life sw) [(ACreate pend, i); (AKillDef (snd (l_create pend (s_life sw) i)), 0)]) ++ s_hl sw) as Htwo.
  { intros pend i. pose proof (s_create_ok pend sw i) as Hok. pose proof (s_create_life pend sw i) as Hl.
    pose proof (s_create_ent pend sw i) as He. pose proof (s_create_hl pend sw i) as Hh.
    destruct (s_create pend sw i) as [w1 e]. cbn [fst snd] in *.
    rewrite s_builder_drop_life, s_builder_drop_hl, Hl, Hh.
    rewrite !lrun_cons, !lhandles_cons. cbn [lrun lvalid lstep choice_ok fst snd].
    destruct (l_create pend (s_life sw) i) as [s' e'] eqn:El. cbn [fst snd handle_of lhandles handles_of map app rev] in *.
    subst e. destruct (l_kill_def s' e') as [s'' ok] eqn:Ek. cbn [fst snd handle_of app rev].
    repeat split; auto.
    - apply s_builder_drop_ok in H. rewrite Hok in H. apply andb_true_iff in H. tauto.
    - apply s_builder_drop_ok in H. rewrite Hok in H. apply andb_true_iff in H. rewrite !andb_true_r. tauto. }
  destruct o as [c|c|n| |n|built c|c|h|hs|h| | |h|h| |h| |so| |lsid lh lv|lsid ll|lsid lh|prog|qso|jk jms|cso| ]; cbn [sstep_core micro is_creation is_obs].
  - specialize (Hone false (hd_choice cs)). destruct (s_create false sw (hd_choice cs)) as [w1 e]. cbn [fst snd].
    destruct Hone as [H1 [H2 [H3 H4]]]. envn. fin.
  - specialize (Htwo false (hd_choice cs)). destruct (s_create false sw (hd_choice cs)) as [w1 e]. cbn [fst snd].
    destruct Htwo as [H1 [H2 [H3 H4]]]. envn. fin.
  - pose proof (s_create_n_spec false n sw cs) as X. destruct (s_create_n false n sw cs) as [w1 l]. cbn [fst snd] in *.
    destruct X as [X1 [X2 [X3 X4]]]. rewrite <- X3. fin; apply X1; assumption.
  - specialize (Hone true (hd_choice cs)). destruct (s_create true sw (hd_choice cs)) as [w1 e]. cbn [fst snd].
    destruct Hone as [H1 [H2 [H3 H4]]]. fin.
  - pose proof (s_create_n_spec true n sw cs) as X. destruct (s_create_n true n sw cs) as [w1 l]. cbn [fst snd] in *.
    destruct X as [X1 [X2 [X3 X4]]]. rewrite <- X3. fin; apply X1; assumption.
  - destruct built.
    + specialize (Hone true (hd_choice cs)). destruct (s_create true sw (hd_choice cs)) as [w1 e]. cbn [fst snd].
      destruct Hone as [H1 [H2 [H3 H4]]]. envn. fin.
    + specialize (Htwo true (hd_choice cs)). destruct (s_create true sw (hd_choice cs)) as [w1 e]. cbn [fst snd].
      destruct Htwo as [H1 [H2 [H3 H4]]]. envn. fin.
  - specialize (Hone true (hd_choice cs)). destruct (s_create true sw (hd_choice cs)) as [w1 e]. cbn [fst snd].
    destruct Hone as [H1 [H2 [H3 H4]]]. fin.
  - destruct (hget (s_hs sw) h) as [e|]; [|cbn; fin].
    rewrite lrun_cons, lhandles_cons. cbn [lrun lvalid lstep choice_ok fst snd].
    destruct (l_kill_res (s_life sw) [e]) as [s' r]. envn. cbn. fin.
  - destruct (hget_all (s_hs sw) hs) as [es|]; [|cbn; fin].
    rewrite lrun_cons, lhandles_cons. cbn [lrun lvalid lstep choice_ok fst snd].
    destruct (l_kill_res (s_life sw) es) as [s' r]. envn. cbn. fin.
  - destruct (hget (s_hs sw) h) as [e|]; [|cbn; fin].
    rewrite lrun_cons, lhandles_cons. cbn [lrun lvalid lstep choice_ok fst snd].
    destruct (l_kill_def (s_life sw) e) as [s' ok]. cbn. fin.
  - rewrite lrun_cons, lhandles_cons. cbn [lrun lvalid lstep choice_ok fst snd].
    destruct (l_kill_res (s_life sw) (l_entities (s_life sw))) as [s' [p|]]; envn; cbn; fin.
  - rewrite lrun_cons, lhandles_cons. cbn [lrun lvalid lstep choice_ok fst snd].
    destruct (l_merge (s_life sw)) as [s' [|x d]]; envn; cbn; fin.
  - destruct (hget (s_hs sw) h); cbn; fin.
  - destruct (hget (s_hs sw) h); cbn; fin.
  - cbn; fin.
  - destruct (hget (s_hs sw) h); cbn; fin.
  - cbn; fin.
  - destruct (env_sop (s_env sw) (l_view (s_life sw)) (s_hs sw) so) as [e' out]. cbn; fin.
  - cbn; fin.
  - destruct (hget (s_hs sw) lh); cbn; fin.
  - destruct (hget_all (s_hs sw) (map fst ll)); cbn; fin.
  - destruct (hget (s_hs sw) lh); cbn; fin.
  - cbn; fin.
  - cbn; fin.
  - destruct (env_join (s_env sw) (l_view (s_life sw)) _ (s_hs sw) jk jms) as [e' j]. cbn; fin.
  - destruct (env_csop (s_env sw) (s_hs sw) cso) as [e' r]. cbn; fin.
  - cbn; fin.
Qed.

Lemma sstep_micro sw o cs :
  let r := sstep sw o cs in
  s_life (fst r) = fst (lrun (s_life sw) (micro sw o cs)) /\
  (s_ok (fst r) = true -> s_ok sw = true /\ lvalid (s_life sw) (micro sw o cs) = true) /\
  (is_creation o = true -> match snd r with WHandles l => l = lhandles (s_life sw) (micro sw o cs) | _ => False end) /\
  (is_creation o = false -> lhandles (s_life sw) (micro sw o cs) = []) /\
  s_hl (fst r) = rev (lhandles (s_life sw) (micro sw o cs)) ++ s_hl sw.
Proof. exact (sstep_core_micro (s_begin sw) o cs). Qed.

(* ------------------------------------------------------------------ *)
(* transcripts *)

Fixpoint micro_run (sw : sworld) (tr : list (op * wout)) : list (aop * N) :=
  match tr with
  | [] => []
  | (o, out) :: tr' => micro sw o (choices_of out) ++ micro_run (fst (sstep sw o (choices_of out))) tr'
  end.

Lemma srun_cons sw o out tr :
  srun sw ((o, out) :: tr) =
  (fst (srun (fst (sstep sw o (choices_of out))) tr),
   snd (sstep sw o (choices_of out)) :: snd (srun (fst (sstep sw o (choices_of out))) tr)).
Proof. cbn [srun]. destruct (sstep sw o (choices_of out)) as [w1 o1]. cbn [fst snd]. destruct (srun w1 tr). reflexivity. Qed.

Lemma ents_eqb_eq a : forall b, ents_eqb a b = true -> a = b.
Proof.
  induction a as [|x a IH]; intros [|y b]; cbn; try discriminate; [reflexivity|].
  intros H. apply andb_true_iff in H. destruct H as [H1 H2]. apply entity_eqb_eq in H1. subst. f_equal. auto.
Qed.

Lemma wout_eqb_handles out l : wout_eqb out (WHandles l) = true -> out = WHandles l.
Proof.
  destruct out as [l'|[[p g]|]|[g|]|b|l'|l'| | |r|o|n|l'|l'|r|v|l'|k|j|l'|l']; unfold wout_eqb; try discriminate.
  intros H. apply ents_eqb_eq in H. subst. reflexivity.
Qed.

(* an accepted transcript: its allocator part is a valid lifecycle run, the
   handles it reports are the handles of that run *)
Theorem accepted_micro tr : forall sw pos, s_ok sw = true -> saccept sw tr pos = None ->
  lvalid (s_life sw) (micro_run sw tr) = true /\
  s_life (fst (srun sw tr)) = fst (lrun (s_life sw) (micro_run sw tr)) /\
  all_returned tr = lhandles (s_life sw) (micro_run sw tr) /\
  s_ok (fst (srun sw tr)) = true /\
  s_hl (fst (srun sw tr)) = rev (all_returned tr) ++ s_hl sw.
Proof.
  induction tr as [|[o out] tr IH]; intros sw pos Hok Hacc.
  - cbn. auto.
  - cbn [saccept] in Hacc. rewrite srun_cons. cbn [micro_run all_returned fst].
    pose proof (sstep_micro sw o (choices_of out)) as X.
    destruct (sstep sw o (choices_of out)) as [sw1 out1] eqn:Es. cbn [fst snd] in *.
    destruct (s_ok sw1) eqn:Hok1; [|discriminate]. cbn [negb] in Hacc.
    destruct (wout_eqb out out1) eqn:Heq; [|discriminate].
    destruct X as [X1 [X2 [X3 [X4 X5]]]]. destruct (X2 eq_refl) as [_ Hv].
    destruct (IH sw1 (S pos) Hok1 Hacc) as [I1 [I2 [I3 [I4 I5]]]].
    rewrite lvalid_app, Hv, <- X1, I1. cbn [andb].
    destruct (lrun_app (micro sw o (choices_of out)) (s_life sw) (micro_run sw1 tr)) as [E1 _].
    rewrite E1, <- X1, lhandles_app, <- X1, <- I3.
    assert (returned o out = lhandles (s_life sw) (micro sw o (choices_of out))) as Hret.
    { unfold returned. destruct (is_creation o) eqn:Ec.
      - specialize (X3 eq_refl). destruct out1 as [l| | | | | | | | | | | | | | | | | | | ]; try contradiction.
        apply wout_eqb_handles in Heq. subst. cbn [is_creation]. exact X3.
      - symmetry. apply X4. reflexivity. }
    rewrite Hret. repeat split; auto.
    rewrite I5, X5, rev_app_distr, <- app_assoc. reflexivity.
Qed.

Lemma saccept_app tr1 : forall sw pos tr2, saccept sw (tr1 ++ tr2) pos = None ->
  saccept sw tr1 pos = None /\ saccept (fst (srun sw tr1)) tr2 (pos + length tr1)%nat = None.
Proof.
  induction tr1 as [|[o out] tr1 IH]; intros sw pos tr2 H.
  - cbn. rewrite Nat.add_0_r. auto.
  - cbn [app saccept] in *. rewrite srun_cons. cbn [fst length].
    destruct (sstep sw o (choices_of out)) as [sw1 out1]. cbn [fst].
    destruct (negb (s_ok sw1)); [discriminate|]. destruct (wout_eqb out out1); [|discriminate].
    replace (pos + S (length tr1))%nat with (S pos + length tr1)%nat by lia. apply IH. assumption.
Qed.

Lemma srun_app tr1 : forall sw tr2, fst (srun sw (tr1 ++ tr2)) = fst (srun (fst (srun sw tr1)) tr2).
Proof.
  induction tr1 as [|[o out] tr1 IH]; intros sw tr2; [reflexivity|].
  cbn [app]. rewrite !srun_cons. cbn [fst]. apply IH.
Qed.

Lemma micro_run_app tr1 : forall sw tr2,
  micro_run sw (tr1 ++ tr2) = micro_run sw tr1 ++ micro_run (fst (srun sw tr1)) tr2.
Proof.
  induction tr1 as [|[o out] tr1 IH]; intros sw tr2; [reflexivity|].
  cbn [app micro_run]. rewrite srun_cons. cbn [fst]. rewrite IH, app_assoc. reflexivity.
Qed.

Lemma all_returned_app tr1 tr2 : all_returned (tr1 ++ tr2) = all_returned tr1 ++ all_returned tr2.
Proof. induction tr1 as [|[o out] tr1 IH]; [reflexivity|]. cbn [app all_returned]. rewrite IH, app_assoc. reflexivity. Qed.

(* ------------------------------------------------------------------ *)
(* the lifted statements *)

Theorem accepted_handles_unique tr : saccept s_init tr 0 = None -> NoDup (all_returned tr).
Proof.
  intros H. destruct (accepted_micro tr s_init 0%nat eq_refl H) as [Hv [_ [Hr _]]].
  rewrite Hr. apply life_handles_unique. exact Hv.
Qed.

Theorem accepted_dead_forever tr tr' e : saccept s_init (tr ++ tr') 0 = None ->
  In e (all_returned tr) ->
  l_is_alive (s_life (fst (srun s_init tr))) e = false ->
  l_is_alive (s_life (fst (srun s_init (tr ++ tr')))) e = false.
Proof.
  intros H Hin Hd.
  destruct (accepted_micro (tr ++ tr') s_init 0%nat eq_refl H) as [Hv [Hl _]].
  destruct (saccept_app tr s_init 0%nat tr' H) as [H1 _].
  destruct (accepted_micro tr s_init 0%nat eq_refl H1) as [_ [Hl1 [Hr1 _]]].
  rewrite Hl. rewrite Hl1 in Hd. rewrite micro_run_app in *. change (s_life s_init) with l_init in *.
  apply life_dead_forever; [exact Hv | rewrite <- Hr1; exact Hin | exact Hd].
Qed.

Theorem accepted_entities_returned tr e : saccept s_init tr 0 = None ->
  In e (l_entities (s_life (fst (srun s_init tr)))) -> In e (all_returned tr).
Proof.
  intros H Hin. destruct (accepted_micro tr s_init 0%nat eq_refl H) as [Hv [Hl [Hr _]]].
  change (s_life s_init) with l_init in *. rewrite Hr. apply life_entities_returned; [exact Hv|]. rewrite <- Hl. exact Hin.
Qed.

Theorem accepted_index_bounded tr pre pend c post : saccept s_init tr 0 = None ->
  micro_run s_init tr = pre ++ (ACreate pend, c) :: post ->
  c < lpeak l_init (pre ++ [(ACreate pend, c)]) 0.
Proof.
  intros H E. destruct (accepted_micro tr s_init 0%nat eq_refl H) as [Hv _].
  cbn [s_life s_init] in Hv. rewrite E in Hv.
  replace (pre ++ (ACreate pend, c) :: post) with ((pre ++ [(ACreate pend, c)]) ++ post) in Hv
    by (rewrite <- app_assoc; reflexivity).
  rewrite lvalid_app in Hv. apply andb_true_iff in Hv. destruct Hv as [Hv _].
  pose proof (life_index_bounded pre pend c (snd (l_create pend (fst (lrun l_init pre)) c)) Hv) as X.
  cbn [lstep] in X. destruct (l_create pend (fst (lrun l_init pre)) c) as [s' e] eqn:El. cbn [snd] in X.
  specialize (X eq_refl). unfold l_create in El. inversion El; subst. exact X.
Qed.

(* C17, second form: in an accepted transcript a creation that takes a
   never-used index [c] finds every lower index occupied by an entity that is
   alive or awaiting maintain; any other creation reuses a Free index *)
Theorem accepted_fresh_only_when_full tr pre pend c post : saccept s_init tr 0 = None ->
  micro_run s_init tr = pre ++ (ACreate pend, c) :: post ->
  let s := fst (lrun l_init pre) in
  (cell s c = Never -> c = used s /\ forall j, j < c -> occupied (cell s j) = true) /\
  (cell s c <> Never -> is_free (cell s c) = true).
Proof.
  intros H E. destruct (accepted_micro tr s_init 0%nat eq_refl H) as [Hv _].
  cbn [s_life s_init] in Hv. rewrite E in Hv.
  rewrite lvalid_app in Hv. apply andb_true_iff in Hv. destruct Hv as [Hv1 Hv2].
  cbn [lvalid] in Hv2. apply andb_true_iff in Hv2. destruct Hv2 as [Hc _]. cbn [choice_ok] in Hc.
  destruct (lrun_inv pre l_init [] LInv_init HInv_init Hv1) as [HI _].
  cbv zeta. split.
  - intros En. exact (life_fresh_only_when_full _ _ HI Hc En).
  - intros Hn. exact (life_reuse_is_free _ _ Hc Hn).
Qed.
