(* C04 lifted to whole worlds: the specification machine run with the real
   storage kinds and run with plain maps produce the same outputs (slice views
   aside) on every history, and their panic flags agree. *)
From SV Require Import Base.ListX Store.Raw Store.Masked Store.StoreInv World.Env World.Join World.JoinPres World.StoreSim World.WorldSpec.

Definition store_rel (oa ob : option mstore) : Prop :=
  match oa, ob with
  | Some a, Some b => srel a b
  | None, None => True
  | _, _ => False
  end.

Record env_rel (e1 e2 : senv) : Prop := {
  ER_table : se_table e1 = se_table e2;
  ER_stores : forall sid, store_rel (NM.find sid (se_stores e1)) (NM.find sid (se_stores e2));
  ER_stuck : cx_stuck (se_cx e1) = cx_stuck (se_cx e2);
  ER_cs : se_cs e1 = se_cs e2 }.

Lemma env_rel_init : env_rel (env_init false) (env_init true).
Proof. split; cbn; auto. Qed.

Lemma env_rel_put e1 e2 sid a b c1 c2 : env_rel e1 e2 -> srel a b -> cx_stuck c1 = cx_stuck c2 ->
  env_rel (env_put e1 sid a c1) (env_put e2 sid b c2).
Proof.
  intros [T S K C] H Hc. split; cbn [env_put se_table se_stores se_cx]; auto.
  intros j. rewrite !find_add. destruct (N.eq_dec sid j); [exact H | apply S].
Qed.

Lemma env_rel_cx e1 e2 c1 c2 : env_rel e1 e2 -> cx_stuck c1 = cx_stuck c2 -> env_rel (env_cx e1 c1) (env_cx e2 c2).
Proof. intros [T S K C] Hc. split; cbn; auto. Qed.

Lemma env_rel_begin e1 e2 : env_rel e1 e2 -> env_rel (env_begin e1) (env_begin e2).
Proof. intros H. unfold env_begin. apply env_rel_cx; [assumption|]. cbn. apply (ER_stuck _ _ H). Qed.

Lemma env_rel_fail e1 e2 : env_rel e1 e2 -> env_rel (env_fail e1) (env_fail e2).
Proof. intros H. unfold env_fail. apply env_rel_cx; [assumption|reflexivity]. Qed.

Lemma srel_new k1 k2 w u : (k1 = KNull -> u = true) -> (k2 = KNull -> u = true) -> srel (ms_new k1 w u) (ms_new k2 w u).
Proof.
  intros H1 H2. split; [repeat split|]. exists (NM.empty tok). split; apply MInv_new; assumption.
Qed.

Lemma env_register_rel e1 e2 sid : env_rel e1 e2 -> se_ideal e1 = false -> se_ideal e2 = true ->
  env_rel (env_register e1 sid) (env_register e2 sid).
Proof.
  intros H I1 I2. pose proof H as [T S K C]. unfold env_register. destruct (kind_of sid) as [[k w]|]; [|apply env_rel_fail; assumption].
  rewrite T, I1, I2. split; cbn [se_table se_stores se_cx]; auto.
  intros j. specialize (S sid). pose proof (ER_stores _ _ H j) as Sj.
  destruct (NM.find sid (se_stores e1)) as [a|] eqn:E1; destruct (NM.find sid (se_stores e2)) as [b|] eqn:E2; cbn in S; try contradiction.
  - exact Sj.
  - rewrite !find_add. destruct (N.eq_dec sid j); [|exact Sj]. cbn.
    apply srel_new; [intros ->; reflexivity | discriminate].
Qed.

Lemma drop_all_pair ids : forall a b ca cb, srel a b ->
  srel (fst (m_drop_all a ids ca)) (fst (m_drop_all b ids cb)) /\
  cx_stuck (snd (m_drop_all a ids ca)) = cx_stuck ca /\ cx_stuck (snd (m_drop_all b ids cb)) = cx_stuck cb.
Proof.
  induction ids as [|i ids IH]; intros a b ca cb H; cbn [m_drop_all]; [auto|].
  pose proof (m_drop_pair a b i ca cb H) as X.
  destruct (m_drop a i ca) as [a1 ca1]. destruct (m_drop b i cb) as [b1 cb1]. cbn [fst snd] in X.
  destruct X as [X1 [X2 X3]]. destruct (IH a1 b1 ca1 cb1 X1) as [I1 [I2 I3]].
  split; [assumption|]. split; congruence.
Qed.

Lemma purge_tbl_rel tbl : forall s1 s2 ids c1 c2,
  (forall sid, store_rel (NM.find sid s1) (NM.find sid s2)) -> cx_stuck c1 = cx_stuck c2 ->
  (forall sid, store_rel (NM.find sid (fst (env_purge_tbl s1 tbl ids c1))) (NM.find sid (fst (env_purge_tbl s2 tbl ids c2)))) /\
  cx_stuck (snd (env_purge_tbl s1 tbl ids c1)) = cx_stuck (snd (env_purge_tbl s2 tbl ids c2)).
Proof.
  induction tbl as [|sid tbl IH]; intros s1 s2 ids c1 c2 S K; cbn [env_purge_tbl]; [auto|].
  pose proof (S sid) as Ss.
  destruct (NM.find sid s1) as [a|]; destruct (NM.find sid s2) as [b|]; cbn in Ss; try contradiction.
  - destruct (drop_all_pair ids a b c1 c2 Ss) as [D1 [D2 D3]].
    destruct (m_drop_all a ids c1) as [a1 c1']. destruct (m_drop_all b ids c2) as [b1 c2']. cbn [fst snd] in *.
    apply IH; [|congruence]. intros j. rewrite !find_add. destruct (N.eq_dec sid j); [exact D1 | apply S].
  - apply IH; [assumption|reflexivity].
Qed.

Lemma delete_components_rel e1 e2 ents : env_rel e1 e2 ->
  env_rel (env_delete_components e1 ents) (env_delete_components e2 ents).
Proof.
  intros [T S K C]. unfold env_delete_components. rewrite T.
  destruct (purge_tbl_rel (se_table e2) (se_stores e1) (se_stores e2) (map fst ents) (se_cx e1) (se_cx e2) S K) as [P1 P2].
  destruct (env_purge_tbl (se_stores e1) (se_table e2) (map fst ents) (se_cx e1)) as [s1' c1'].
  destruct (env_purge_tbl (se_stores e2) (se_table e2) (map fst ents) (se_cx e2)) as [s2' c2'].
  split; cbn; auto.
Qed.

Lemma insert_comps_rel cs : forall e1 e2 av ent, env_rel e1 e2 ->
  env_rel (env_insert_comps e1 av ent cs) (env_insert_comps e2 av ent cs).
Proof.
  induction cs as [|[sid v] cs IH]; intros e1 e2 av ent H; cbn [env_insert_comps]; [assumption|].
  pose proof (ER_stores _ _ H sid) as Ss.
  destruct (NM.find sid (se_stores e1)) as [a|]; destruct (NM.find sid (se_stores e2)) as [b|]; cbn in Ss; try contradiction.
  - pose proof (st_insert_pair a b av ent v (se_cx e1) (se_cx e2) Ss) as X.
    destruct (st_insert a av ent v (se_cx e1)) as [[a1 ra] c1]. destruct (st_insert b av ent v (se_cx e2)) as [[b1 rb] c2].
    destruct X as [-> [X2 [X3 X4]]]. apply IH. apply env_rel_put; [assumption|assumption|].
    pose proof (ER_stuck _ _ H). destruct rb; cbn; congruence.
  - apply IH. apply env_rel_cx; [assumption|reflexivity].
Qed.

Lemma env_sop_rel e1 e2 av hs so : env_rel e1 e2 -> se_ideal e1 = false -> se_ideal e2 = true ->
  wout_sim (snd (env_sop e1 av hs so)) (snd (env_sop e2 av hs so)) /\
  env_rel (fst (env_sop e1 av hs so)) (fst (env_sop e2 av hs so)).
Proof.
  intros H I1 I2. unfold env_sop.
  assert (forall ent,
    let go1 := match NM.find (sop_sid so) (se_stores e1) with
               | Some ms => let '(ms1, out, c1) := ms_sop ms av ent so (se_cx e1) in (env_put e1 (sop_sid so) ms1 c1, out)
               | None => (env_fail e1, WSkip) end in
    let go2 := match NM.find (sop_sid so) (se_stores e2) with
               | Some ms => let '(ms1, out, c1) := ms_sop ms av ent so (se_cx e2) in (env_put e2 (sop_sid so) ms1 c1, out)
               | None => (env_fail e2, WSkip) end in
    wout_sim (snd go1) (snd go2) /\ env_rel (fst go1) (fst go2)) as Hgo.
  { intros ent. cbv zeta. pose proof (ER_stores _ _ H (sop_sid so)) as Ss.
    destruct (NM.find (sop_sid so) (se_stores e1)) as [a|]; destruct (NM.find (sop_sid so) (se_stores e2)) as [b|];
      cbn in Ss; try contradiction.
    - pose proof (ms_sop_pair a b av ent so (se_cx e1) (se_cx e2) Ss) as X.
      destruct (ms_sop a av ent so (se_cx e1)) as [[a1 oa] c1]. destruct (ms_sop b av ent so (se_cx e2)) as [[b1 ob] c2].
      destruct X as [X1 [X2 [X3 X4]]]. cbn [fst snd]. split; [assumption|].
      apply env_rel_put; [assumption|assumption|]. pose proof (ER_stuck _ _ H). congruence.
    - cbn [fst snd]. split; [reflexivity | apply env_rel_fail; assumption]. }
  destruct so; cbn [sop_handle];
  try (destruct (pv_get hs (N.of_nat h)); [apply Hgo | cbn [fst snd]; split; [reflexivity|assumption]]);
  try apply Hgo.
  cbn [fst snd]. split; [reflexivity|]. apply env_register_rel; assumption.
Qed.


(* ------------------------------------------------------------------ *)
(* joins: the guarded primitives, then everything built from them *)

Lemma ms_jact_pair a b act ca cb : srel a b -> cx_stuck ca = cx_stuck cb ->
  snd (fst (ms_jact a act ca)) = snd (fst (ms_jact b act cb)) /\
  srel (fst (fst (ms_jact a act ca))) (fst (fst (ms_jact b act cb))) /\
  cx_stuck (snd (ms_jact a act ca)) = cx_stuck (snd (ms_jact b act cb)).
Proof.
  intros H Hc. pose proof (srel_mask a b H) as Em. destruct act as [i|i touch d|i]; cbn [ms_jact].
  - rewrite <- Em. destruct (NS.mem i (ms_mask a)) eqn:Hm.
    + destruct (srel_get a b i ca cb H Hm) as [G1 [G2 G3]].
      destruct (u_get (ms_raw a) i ca) as [ta ca']. destruct (u_get (ms_raw b) i cb) as [tb cb'].
      cbn [fst snd] in *. subst. auto.
    + cbn [fst snd]. auto.
  - rewrite <- Em. destruct (NS.mem i (ms_mask a)) eqn:Hm.
    + destruct (srel_get a b i ca cb H Hm) as [G1 [G2 G3]].
      destruct (u_get (ms_raw a) i ca) as [ta ca']. destruct (u_get (ms_raw b) i cb) as [tb cb'].
      cbn [fst snd] in *. subst.
      pose proof (access_pair a b i touch (match d with Some z => USetVal (snd tb + z) | None => UNone end) ca cb H Hm) as X.
      destruct (w_access_mut a i touch _ ca) as [[a' xa] ca']. destruct (w_access_mut b i touch _ cb) as [[b' xb] cb'].
      destruct X as [X1 [X2 [X3 X4]]]; [destruct d; exact I|]. cbn [fst snd]. subst. auto.
    + cbn [fst snd]. auto.
  - pose proof (m_remove_pair a b i ca cb H) as X.
    destruct (m_remove a i ca) as [[a' oa] ca']. destruct (m_remove b i cb) as [[b' ob] cb'].
    destruct X as [X1 [X2 [X3 X4]]]. subst ob. destruct oa; cbn [fst snd]; (split; [reflexivity|]); (split; [assumption|]); cbn; congruence.
Qed.

Lemma env_jact_rel e1 e2 sid act : env_rel e1 e2 ->
  snd (env_jact e1 sid act) = snd (env_jact e2 sid act) /\ env_rel (fst (env_jact e1 sid act)) (fst (env_jact e2 sid act)).
Proof.
  intros H. unfold env_jact. pose proof (ER_stores _ _ H sid) as Ss.
  destruct (NM.find sid (se_stores e1)) as [a|]; destruct (NM.find sid (se_stores e2)) as [b|]; cbn in Ss; try contradiction.
  - destruct (ms_jact_pair a b act (se_cx e1) (se_cx e2) Ss (ER_stuck _ _ H)) as [X1 [X2 X3]].
    destruct (ms_jact a act (se_cx e1)) as [[a' ta] ca]. destruct (ms_jact b act (se_cx e2)) as [[b' tb] cb].
    cbn [fst snd] in *. split; [assumption|]. apply env_rel_put; assumption.
  - cbn [fst snd]. split; [reflexivity | apply env_rel_fail; assumption].
Qed.

Lemma env_mask_rel e1 e2 sid : env_rel e1 e2 -> env_mask e1 sid = env_mask e2 sid.
Proof.
  intros H. unfold env_mask. pose proof (ER_stores _ _ H sid) as Ss.
  destruct (NM.find sid (se_stores e1)) as [a|]; destruct (NM.find sid (se_stores e2)) as [b|]; cbn in Ss; try contradiction.
  - apply srel_mask. assumption.
  - reflexivity.
Qed.

Lemma cs_get_rel e1 e2 k : env_rel e1 e2 -> cs_get e1 k = cs_get e2 k.
Proof. intros H. unfold cs_get. rewrite (ER_cs _ _ H). reflexivity. Qed.

Lemma env_rel_cs_put e1 e2 k m : env_rel e1 e2 -> env_rel (cs_put e1 k m) (cs_put e2 k m).
Proof. intros [T S K C]. split; cbn [cs_put se_table se_stores se_cx se_cs]; auto. rewrite C. reflexivity. Qed.

Lemma m_has_rel e1 e2 eids m i : env_rel e1 e2 -> m_has e1 eids m i = m_has e2 eids m i.
Proof.
  intros H. destruct m; cbn [m_has]; rewrite ?(env_mask_rel e1 e2 _ H), ?(cs_get_rel e1 e2 _ H); reflexivity.
Qed.

Lemma all_have_rel e1 e2 eids ms i : env_rel e1 e2 -> all_have e1 eids ms i = all_have e2 eids ms i.
Proof.
  intros H. unfold all_have. induction ms as [|m r IH]; cbn [forallb]; [reflexivity|].
  rewrite (m_has_rel e1 e2 eids m i H), IH. reflexivity.
Qed.

Lemma first_cands_rel e1 e2 eids ms : env_rel e1 e2 -> first_cands e1 eids ms = first_cands e2 eids ms.
Proof.
  intros H. induction ms as [|m r IH]; cbn [first_cands]; [reflexivity|].
  assert (m_cands e1 eids m = m_cands e2 eids m) as ->.
  { destruct m; cbn [m_cands]; rewrite ?(env_mask_rel e1 e2 _ H), ?(cs_get_rel e1 e2 _ H); reflexivity. }
  rewrite IH. reflexivity.
Qed.

Lemma jkeys_rel e1 e2 eids ms : env_rel e1 e2 -> jkeys e1 eids ms = jkeys e2 eids ms.
Proof.
  intros H. unfold jkeys. rewrite (first_cands_rel e1 e2 eids ms H).
  destruct (first_cands e2 eids ms) as [l|]; [|reflexivity]. f_equal.
  apply filter_ext. intros i. apply all_have_rel. assumption.
Qed.

Lemma others_lookup_rel av hs sid mutably l : forall e1 e2, env_rel e1 e2 ->
  snd (others_lookup av hs sid mutably l e1) = snd (others_lookup av hs sid mutably l e2) /\
  env_rel (fst (others_lookup av hs sid mutably l e1)) (fst (others_lookup av hs sid mutably l e2)).
Proof.
  induction l as [|h l IH]; intros e1 e2 H; cbn [others_lookup]; [cbn [fst snd]; auto|].
  destruct (pv_get hs (N.of_nat h)) as [ent|].
  - rewrite (env_mask_rel e1 e2 sid H). destruct (NS.mem (fst ent) (env_mask e2 sid) && av_alive av ent).
    + destruct (env_jact_rel e1 e2 sid (if mutably then JAccess (fst ent) false None else JRead (fst ent)) H) as [X1 X2].
      destruct (env_jact e1 sid _) as [a1 t1]. destruct (env_jact e2 sid _) as [a2 t2]. cbn [fst snd] in *. subst t2.
      destruct (IH a1 a2 X2) as [Y1 Y2].
      destruct (others_lookup av hs sid mutably l a1) as [b1 r1]. destruct (others_lookup av hs sid mutably l a2) as [b2 r2].
      cbn [fst snd] in *. subst. auto.
    + destruct (IH e1 e2 H) as [Y1 Y2].
      destruct (others_lookup av hs sid mutably l e1) as [b1 r1]. destruct (others_lookup av hs sid mutably l e2) as [b2 r2].
      cbn [fst snd] in *. subst. auto.
  - destruct (IH e1 e2 H) as [Y1 Y2].
    destruct (others_lookup av hs sid mutably l e1) as [b1 r1]. destruct (others_lookup av hs sid mutably l e2) as [b2 r2].
    cbn [fst snd] in *. subst. auto.
Qed.

Lemma m_get_rel av hs excl eids m i : forall e1 e2, env_rel e1 e2 ->
  snd (m_get av hs excl eids m i e1) = snd (m_get av hs excl eids m i e2) /\
  env_rel (fst (m_get av hs excl eids m i e1)) (fst (m_get av hs excl eids m i e2)).
Proof.
  induction m as [sid|sid touch d| |l|sid|m IH|sid mode selmod selrem d others|k mode d|sid|bop ba bb]; intros e1 e2 H; cbn [m_get].
  - destruct (env_jact_rel e1 e2 sid (JRead i) H) as [X1 X2].
    destruct (env_jact e1 sid _) as [a1 t1]. destruct (env_jact e2 sid _) as [a2 t2]. cbn [fst snd] in *. subst. auto.
  - destruct (env_jact_rel e1 e2 sid (JAccess i touch d) H) as [X1 X2].
    destruct (env_jact e1 sid _) as [a1 t1]. destruct (env_jact e2 sid _) as [a2 t2]. cbn [fst snd] in *. subst. auto.
  - cbn [fst snd]. auto.
  - cbn [fst snd]. auto.
  - cbn [fst snd]. auto.
  - rewrite (m_has_rel e1 e2 eids m i H). destruct (m_has e2 eids m i); [|cbn [fst snd]; auto].
    destruct (IH e1 e2 H) as [X1 X2].
    destruct (m_get av hs excl eids m i e1) as [a1 x1]. destruct (m_get av hs excl eids m i e2) as [a2 x2].
    cbn [fst snd] in *. subst. auto.
  - destruct (env_jact_rel e1 e2 sid (JRead i) H) as [X1 X2].
    destruct (env_jact e1 sid (JRead i)) as [a1 t1]. destruct (env_jact e2 sid (JRead i)) as [a2 t2]. cbn [fst snd] in *. subst t2.
    assert (env_rel (if N.eqb mode 1 && N.eqb (N.modulo i selmod) selrem then fst (env_jact a1 sid (JAccess i true (Some d))) else a1)
                    (if N.eqb mode 1 && N.eqb (N.modulo i selmod) selrem then fst (env_jact a2 sid (JAccess i true (Some d))) else a2)) as X3.
    { destruct (N.eqb mode 1 && N.eqb (N.modulo i selmod) selrem); [|assumption].
      apply (env_jact_rel a1 a2 sid (JAccess i true (Some d)) X2). }
    destruct (negb (N.eqb mode 1) || excl); [|cbn [fst snd]; auto].
    destruct (others_lookup_rel av hs sid (N.eqb mode 1 && Z.odd d) others _ _ X3) as [Y1 Y2].
    destruct (others_lookup av hs sid _ others _) as [b1 r1]. destruct (others_lookup av hs sid _ others _) as [b2 r2].
    cbn [fst snd] in *. subst. auto.
  - rewrite (cs_get_rel e1 e2 k H). destruct (NM.find i (cs_get e2 k)) as [a|]; cbn [fst snd].
    + split; [reflexivity|]. destruct (N.eqb mode 1); [apply env_rel_cs_put; assumption|].
      destruct (N.eqb mode 2); [apply env_rel_cs_put; assumption | assumption].
    + split; [reflexivity | apply env_rel_fail; assumption].
  - destruct (env_jact_rel e1 e2 sid (JRemove i) H) as [X1 X2].
    destruct (env_jact e1 sid _) as [a1 t1]. destruct (env_jact e2 sid _) as [a2 t2]. cbn [fst snd] in *. subst. auto.
  - cbn [fst snd]. auto.
Qed.

Lemma visit_members_rel av hs excl eids ms i : forall e1 e2, env_rel e1 e2 ->
  snd (visit_members av hs excl eids ms i e1) = snd (visit_members av hs excl eids ms i e2) /\
  env_rel (fst (visit_members av hs excl eids ms i e1)) (fst (visit_members av hs excl eids ms i e2)).
Proof.
  induction ms as [|m r IH]; intros e1 e2 H; cbn [visit_members]; [cbn [fst snd]; auto|].
  destruct (m_get_rel av hs excl eids m i e1 e2 H) as [X1 X2].
  destruct (m_get av hs excl eids m i e1) as [a1 x1]. destruct (m_get av hs excl eids m i e2) as [a2 x2]. cbn [fst snd] in *. subst x2.
  destruct (IH a1 a2 X2) as [Y1 Y2].
  destruct (visit_members av hs excl eids r i a1) as [b1 r1]. destruct (visit_members av hs excl eids r i a2) as [b2 r2].
  cbn [fst snd] in *. subst. auto.
Qed.

Lemma visit_keys_rel av hs excl eids ms keys : forall e1 e2, env_rel e1 e2 ->
  snd (visit_keys av hs excl eids ms keys e1) = snd (visit_keys av hs excl eids ms keys e2) /\
  env_rel (fst (visit_keys av hs excl eids ms keys e1)) (fst (visit_keys av hs excl eids ms keys e2)).
Proof.
  induction keys as [|i keys IH]; intros e1 e2 H; cbn [visit_keys]; [cbn [fst snd]; auto|].
  destruct (visit_members_rel av hs excl eids ms i e1 e2 H) as [X1 X2].
  destruct (visit_members av hs excl eids ms i e1) as [a1 x1]. destruct (visit_members av hs excl eids ms i e2) as [a2 x2].
  cbn [fst snd] in *. subst x2.
  destruct (IH a1 a2 X2) as [Y1 Y2].
  destruct (visit_keys av hs excl eids ms keys a1) as [b1 r1]. destruct (visit_keys av hs excl eids ms keys a2) as [b2 r2].
  cbn [fst snd] in *. subst. auto.
Qed.

Lemma consume_cs_rel ms : forall e1 e2, env_rel e1 e2 -> env_rel (consume_cs ms e1) (consume_cs ms e2).
Proof.
  induction ms as [|m r IH]; intros e1 e2 H; cbn [consume_cs]; [assumption|].
  apply IH. destruct (m_taken m); [apply env_rel_cs_put|]; assumption.
Qed.

Lemma m_registered_rel e1 e2 m : env_rel e1 e2 -> m_registered e1 m = m_registered e2 m.
Proof.
  intros H. induction m; cbn [m_registered m_sid]; try reflexivity; try assumption;
  match goal with |- context [NM.find ?s (se_stores e1)] =>
    pose proof (ER_stores _ _ H s) as Ss;
    destruct (NM.find s (se_stores e1)); destruct (NM.find s (se_stores e2)); cbn in Ss; try contradiction; reflexivity end.
Qed.

Lemma join_ok_rel e1 e2 k ms : env_rel e1 e2 -> join_ok e1 k ms = join_ok e2 k ms.
Proof. intros H. unfold join_ok. rewrite (first_cands_rel e1 e2 NS.empty ms H). reflexivity. Qed.

Lemma all_registered_rel e1 e2 ms : env_rel e1 e2 -> forallb (m_registered e1) ms = forallb (m_registered e2) ms.
Proof.
  intros H. induction ms as [|m r IH]; cbn [forallb]; [reflexivity|]. rewrite (m_registered_rel e1 e2 m H), IH. reflexivity.
Qed.

Lemma env_join_rel e1 e2 av eids hs k ms : env_rel e1 e2 ->
  snd (env_join e1 av eids hs k ms) = snd (env_join e2 av eids hs k ms) /\
  env_rel (fst (env_join e1 av eids hs k ms)) (fst (env_join e2 av eids hs k ms)).
Proof.
  intros H. unfold env_join. rewrite (join_ok_rel e1 e2 k ms H), (all_registered_rel e1 e2 ms H).
  destruct (join_ok e2 k ms); cbn [negb]; [|cbn [fst snd]; auto].
  destruct (handles_ok hs k ms); cbn [negb]; [|cbn [fst snd]; auto].
  destruct (forallb (m_registered e2) ms); cbn [negb]; [|cbn [fst snd]; split; [reflexivity | apply env_rel_fail; assumption]].
  assert (forall keys,
    snd (let '(e1', r) := visit_keys av hs (is_lending k) eids ms keys e1 in (consume_cs ms e1', JItems r)) =
    snd (let '(e1', r) := visit_keys av hs (is_lending k) eids ms keys e2 in (consume_cs ms e1', JItems r)) /\
    env_rel (fst (let '(e1', r) := visit_keys av hs (is_lending k) eids ms keys e1 in (consume_cs ms e1', JItems r)))
            (fst (let '(e1', r) := visit_keys av hs (is_lending k) eids ms keys e2 in (consume_cs ms e1', JItems r)))) as Hseq.
  { intros keys. destruct (visit_keys_rel av hs (is_lending k) eids ms keys e1 e2 H) as [X1 X2].
    destruct (visit_keys av hs (is_lending k) eids ms keys e1) as [a1 r1].
    destruct (visit_keys av hs (is_lending k) eids ms keys e2) as [a2 r2]. cbn [fst snd] in *. subst.
    split; [reflexivity | apply consume_cs_rel; assumption]. }
  destruct k as [lim|lim|n|h|i]; cbn [is_lending] in *.
  - rewrite (jkeys_rel e1 e2 eids ms H). destruct (jkeys e2 eids ms) as [keys|]; [apply Hseq | cbn [fst snd]; auto].
  - rewrite (jkeys_rel e1 e2 eids ms H). destruct (jkeys e2 eids ms) as [keys|]; [apply Hseq | cbn [fst snd]; auto].
  - rewrite (jkeys_rel e1 e2 eids ms H). destruct (jkeys e2 eids ms) as [keys|]; [| cbn [fst snd]; auto].
    destruct (visit_keys_rel av hs false eids ms keys e1 e2 H) as [X1 X2].
    destruct (visit_keys av hs false eids ms keys e1) as [a1 r1].
    destruct (visit_keys av hs false eids ms keys e2) as [a2 r2]. cbn [fst snd] in *. subst. auto.
  - destruct (pv_get hs (N.of_nat h)) as [ent|]; [|cbn [fst snd]; auto].
    rewrite (all_have_rel e1 e2 eids ms (fst ent) H). destruct (all_have e2 eids ms (fst ent) && av_alive av ent); [|cbn [fst snd]; auto].
    destruct (visit_members_rel av hs true eids ms (fst ent) e1 e2 H) as [X1 X2].
    destruct (visit_members av hs true eids ms (fst ent) e1) as [a1 r1].
    destruct (visit_members av hs true eids ms (fst ent) e2) as [a2 r2]. cbn [fst snd] in *. subst. auto.
  - rewrite (all_have_rel e1 e2 eids ms i H). destruct (all_have e2 eids ms i); [|cbn [fst snd]; auto].
    destruct (visit_members_rel av hs true eids ms i e1 e2 H) as [X1 X2].
    destruct (visit_members av hs true eids ms i e1) as [a1 r1].
    destruct (visit_members av hs true eids ms i e2) as [a2 r2]. cbn [fst snd] in *. subst. auto.
Qed.

Lemma env_csop_rel e1 e2 hs c : env_rel e1 e2 ->
  snd (env_csop e1 hs c) = snd (env_csop e2 hs c) /\ env_rel (fst (env_csop e1 hs c)) (fst (env_csop e2 hs c)).
Proof.
  intros H. destruct c as [k|k h a|k l|k l|k|k]; cbn [env_csop]; rewrite ?(cs_get_rel e1 e2 _ H).
  - cbn [fst snd]. split; [reflexivity | apply env_rel_cs_put; assumption].
  - destruct (pv_get hs (N.of_nat h)); cbn [fst snd]; (split; [reflexivity|]); [apply env_rel_cs_put|]; assumption.
  - destruct (res_pairs hs l); cbn [fst snd]; (split; [reflexivity|]); [apply env_rel_cs_put|]; assumption.
  - destruct (res_pairs hs l); cbn [fst snd]; (split; [reflexivity|]); [apply env_rel_cs_put|]; assumption.
  - cbn [fst snd]. split; [reflexivity | apply env_rel_cs_put; assumption].
  - cbn [fst snd]. auto.
Qed.

(* the [ideal] flag is never changed by a join or a change-set operation *)
Lemma ideal_jact e sid act : se_ideal (fst (env_jact e sid act)) = se_ideal e.
Proof.
  unfold env_jact. destruct (NM.find sid (se_stores e)) as [ms|]; [|reflexivity].
  destruct (ms_jact ms act (se_cx e)) as [[ms' t] c]. reflexivity.
Qed.

Lemma env_drop_all_stuck l : forall c, (forall sid ms, In (sid, ms) l -> exists m, MInv ms m) ->
  cx_stuck (env_drop_all l c) = cx_stuck c.
Proof.
  induction l as [|[sid ms] l IH]; intros c H; cbn [env_drop_all]; [reflexivity|].
  destruct (H sid ms (or_introl eq_refl)) as [m HM]. pose proof (m_clear_char ms m c HM) as X.
  destruct (m_clear ms c) as [ms1 c1]. destruct X as [_ [X2 _]]. rewrite IH; [assumption|].
  intros s' ms' Hin. apply (H s' ms'). right. assumption.
Qed.

Lemma in_elements_find {A} (m : NM.t A) k v : In (k, v) (NM.elements m) -> NM.find k m = Some v.
Proof.
  intros H. apply NMF.find_mapsto_iff, NMF.elements_mapsto_iff, SetoidList.InA_alt.
  exists (k, v). split; [split; reflexivity|assumption].
Qed.

Lemma env_drop_world_rel e1 e2 : env_rel e1 e2 -> env_rel (env_drop_world e1) (env_drop_world e2).
Proof.
  intros H. pose proof H as [T S K C]. unfold env_drop_world. split; cbn [se_table se_stores se_cx]; auto.
  - intros sid. rewrite !find_empty. exact I.
  - rewrite !env_drop_all_stuck; [assumption| |].
    + intros sid ms Hin. apply in_elements_find in Hin. specialize (S sid). rewrite Hin in S.
      destruct (NM.find sid (se_stores e1)); cbn in S; [|contradiction]. destruct S as [_ [mm [_ Hb]]]. eauto.
    + intros sid ms Hin. apply in_elements_find in Hin. specialize (S sid). rewrite Hin in S.
      destruct (NM.find sid (se_stores e2)); cbn in S; [|contradiction]. destruct S as [_ [mm [Ha _]]]. eauto.
Qed.

Lemma env_sop_quiet_rel e1 e2 av hs so : env_rel e1 e2 -> se_ideal e1 = false -> se_ideal e2 = true ->
  env_rel (env_sop_quiet e1 av hs so) (env_sop_quiet e2 av hs so).
Proof.
  intros H I1 I2. unfold env_sop_quiet. destruct (env_sop_rel e1 e2 av hs so H I1 I2) as [X1 X2].
  destruct (env_sop e1 av hs so) as [a1 o1]. destruct (env_sop e2 av hs so) as [a2 o2]. cbn [fst snd] in *.
  destruct o1; destruct o2; cbn in X1; try discriminate; try assumption; try contradiction.
  - inversion X1; subst. destruct r0; try assumption. apply env_rel_cx; [assumption|]. cbn. apply (ER_stuck _ _ X2).
  - inversion X1; subst. destruct o0; try assumption. apply env_rel_cx; [assumption|]. cbn. apply (ER_stuck _ _ X2).
Qed.

(* ------------------------------------------------------------------ *)
(* worlds *)

Record SW (w1 w2 : sworld) : Prop := {
  SW_life : s_life w1 = s_life w2;
  SW_hs : s_hs w1 = s_hs w2;
  SW_hl : s_hl w1 = s_hl w2;
  SW_ok : s_ok w1 = s_ok w2;
  SW_env : env_rel (s_env w1) (s_env w2);
  SW_i1 : se_ideal (s_env w1) = false;
  SW_i2 : se_ideal (s_env w2) = true }.

Lemma SW_init : SW (s_init_env false) (s_init_env true).
Proof. split; cbn; auto. apply env_rel_init. Qed.

Lemma SW_env_upd w1 w2 e1 e2 : SW w1 w2 -> env_rel e1 e2 -> se_ideal e1 = false -> se_ideal e2 = true ->
  SW (s_with_env w1 e1) (s_with_env w2 e2).
Proof. intros [A B C D E F G] H I1 I2. split; cbn; auto. Qed.

Lemma ideal_put e sid ms c : se_ideal (env_put e sid ms c) = se_ideal e.
Proof. reflexivity. Qed.

Lemma ideal_insert_comps cs : forall e av ent, se_ideal (env_insert_comps e av ent cs) = se_ideal e.
Proof.
  induction cs as [|[sid v] cs IH]; intros e av ent; cbn [env_insert_comps]; [reflexivity|].
  destruct (NM.find sid (se_stores e)).
  - destruct (st_insert m av ent v (se_cx e)) as [[ms1 r] c1]. rewrite IH. reflexivity.
  - rewrite IH. reflexivity.
Qed.

Lemma ideal_delete_components e ents : se_ideal (env_delete_components e ents) = se_ideal e.
Proof. unfold env_delete_components. destruct (env_purge_tbl _ _ _ _). reflexivity. Qed.

Lemma ideal_register e sid : se_ideal (env_register e sid) = se_ideal e.
Proof. unfold env_register. destruct (kind_of sid) as [[k w]|]; reflexivity. Qed.

Lemma ideal_sop e av hs so : se_ideal (fst (env_sop e av hs so)) = se_ideal e.
Proof.
  unfold env_sop.
  assert (forall ent, se_ideal (fst (match NM.find (sop_sid so) (se_stores e) with
     | Some ms => let '(ms1, out, c1) := ms_sop ms av ent so (se_cx e) in (env_put e (sop_sid so) ms1 c1, out)
     | None => (env_fail e, WSkip) end)) = se_ideal e) as Hgo.
  { intros ent. destruct (NM.find (sop_sid so) (se_stores e)); [|reflexivity].
    destruct (ms_sop m av ent so (se_cx e)) as [[ms1 out] c1]. reflexivity. }
  destruct so; cbn [sop_handle]; try (destruct (pv_get hs (N.of_nat h)); [apply Hgo|reflexivity]); try apply Hgo.
  cbn [fst]. apply ideal_register.
Qed.

Lemma ideal_sop_quiet e av hs so : se_ideal (env_sop_quiet e av hs so) = se_ideal e.
Proof.
  unfold env_sop_quiet. pose proof (ideal_sop e av hs so) as X. destruct (env_sop e av hs so) as [e' out]. cbn [fst] in X.
  destruct out; try exact X; [destruct r|destruct o]; exact X.
Qed.

Lemma SW_life_upd w1 w2 s : SW w1 w2 -> SW (with_life w1 s) (with_life w2 s).
Proof. intros [A B C D E F G]. split; cbn; auto. Qed.

Lemma SW_fail w1 w2 : SW w1 w2 -> SW (s_fail w1) (s_fail w2).
Proof. intros [A B C D E F G]. split; cbn; auto. Qed.

Lemma SW_push w1 w2 e : SW w1 w2 -> SW (s_push_h w1 e) (s_push_h w2 e).
Proof. intros [A B C D E F G]. split; cbn; auto; congruence. Qed.

Lemma s_create_pair pend w1 w2 i : SW w1 w2 ->
  snd (s_create pend w1 i) = snd (s_create pend w2 i) /\ SW (fst (s_create pend w1 i)) (fst (s_create pend w2 i)).
Proof.
  intros H. unfold s_create. rewrite (SW_life _ _ H).
  destruct (l_create pend (s_life w2) i) as [s' e]. destruct (valid_choice (s_life w2) i); cbn [fst snd].
  - split; [reflexivity|]. apply SW_push, SW_life_upd. assumption.
  - split; [reflexivity|]. apply SW_fail, SW_push, SW_life_upd. assumption.
Qed.

Lemma s_create_n_pair pend n : forall w1 w2 cs, SW w1 w2 ->
  snd (s_create_n pend n w1 cs) = snd (s_create_n pend n w2 cs) /\ SW (fst (s_create_n pend n w1 cs)) (fst (s_create_n pend n w2 cs)).
Proof.
  induction n as [|n IH]; intros w1 w2 cs H; cbn [s_create_n]; [auto|].
  destruct cs as [|i cs]; [cbn [fst snd]; split; [reflexivity | apply SW_fail; assumption]|].
  destruct (s_create_pair pend w1 w2 i H) as [E1 E2].
  destruct (s_create pend w1 i) as [a1 e1]. destruct (s_create pend w2 i) as [a2 e2]. cbn [fst snd] in *. subst e2.
  destruct (IH a1 a2 cs E2) as [I1 I2].
  destruct (s_create_n pend n a1 cs) as [b1 l1]. destruct (s_create_n pend n a2 cs) as [b2 l2]. cbn [fst snd] in *.
  subst. auto.
Qed.

Lemma s_builder_drop_pair w1 w2 e : SW w1 w2 -> SW (s_builder_drop w1 e) (s_builder_drop w2 e).
Proof.
  intros H. unfold s_builder_drop. rewrite (SW_life _ _ H).
  destruct (l_kill_def (s_life w2) e) as [s' [|]]; [apply SW_life_upd | apply SW_fail, SW_life_upd]; assumption.
Qed.

Lemma s_insert_comps_pair w1 w2 e cs : SW w1 w2 -> SW (s_insert_comps w1 e cs) (s_insert_comps w2 e cs).
Proof.
  intros H. unfold s_insert_comps. rewrite (SW_life _ _ H).
  apply SW_env_upd; [assumption | apply insert_comps_rel; apply (SW_env _ _ H) | |];
  rewrite ideal_insert_comps; [apply (SW_i1 _ _ H) | apply (SW_i2 _ _ H)].
Qed.

Lemma s_purge_pair w1 w2 es r : SW w1 w2 -> SW (s_purge_killed w1 es r) (s_purge_killed w2 es r).
Proof.
  intros H. unfold s_purge_killed.
  apply SW_env_upd; [assumption | apply delete_components_rel; apply (SW_env _ _ H) | |];
  rewrite ideal_delete_components; [apply (SW_i1 _ _ H) | apply (SW_i2 _ _ H)].
Qed.

Lemma ideal_join e av eids hs k ms : se_ideal (fst (env_join e av eids hs k ms)) = se_ideal e.
Proof.
  apply (env_join_pres (fun e' => se_ideal e' = se_ideal e)); try reflexivity.
  - intros e' sid a H. rewrite ideal_jact. assumption.
  - intros e' k' m H. exact H.
  - intros e' H. exact H.
Qed.
Lemma ideal_csop e hs c : se_ideal (fst (env_csop e hs c)) = se_ideal e.
Proof.
  apply (env_csop_pres (fun e' => se_ideal e' = se_ideal e)); try reflexivity.
  intros e' k' m H. exact H.
Qed.

(* one step of the specification machine, with the real kinds and with plain maps *)
Theorem sstep_core_pair w1 w2 o cs : SW w1 w2 ->
  wout_sim (snd (sstep_core w1 o cs)) (snd (sstep_core w2 o cs)) /\ SW (fst (sstep_core w1 o cs)) (fst (sstep_core w2 o cs)).
Proof.
  intros H. pose proof H as [L Hs Hl Ok E I1 I2].
  destruct o as [k|k|n| |n|built k|k|h|hs|h| | |h|h| |h| |so| |lsid lh lv|lsid ll|lsid lh|prog|qso|jk jms|cso| ]; cbn [sstep_core].
  - destruct (s_create_pair false w1 w2 (hd_choice cs) H) as [E1 E2].
    destruct (s_create false w1 (hd_choice cs)) as [a1 e1]. destruct (s_create false w2 (hd_choice cs)) as [a2 e2].
    cbn [fst snd] in *. subst e2. split; [reflexivity|]. apply s_insert_comps_pair. assumption.
  - destruct (s_create_pair false w1 w2 (hd_choice cs) H) as [E1 E2].
    destruct (s_create false w1 (hd_choice cs)) as [a1 e1]. destruct (s_create false w2 (hd_choice cs)) as [a2 e2].
    cbn [fst snd] in *. subst e2. split; [reflexivity|]. apply s_builder_drop_pair, s_insert_comps_pair. assumption.
  - destruct (s_create_n_pair false n w1 w2 cs H) as [E1 E2].
    destruct (s_create_n false n w1 cs) as [a1 l1]. destruct (s_create_n false n w2 cs) as [a2 l2].
    cbn [fst snd] in *. subst l2. split; [reflexivity|assumption].
  - destruct (s_create_pair true w1 w2 (hd_choice cs) H) as [E1 E2].
    destruct (s_create true w1 (hd_choice cs)) as [a1 e1]. destruct (s_create true w2 (hd_choice cs)) as [a2 e2].
    cbn [fst snd] in *. subst e2. split; [reflexivity|assumption].
  - destruct (s_create_n_pair true n w1 w2 cs H) as [E1 E2].
    destruct (s_create_n true n w1 cs) as [a1 l1]. destruct (s_create_n true n w2 cs) as [a2 l2].
    cbn [fst snd] in *. subst l2. split; [reflexivity|assumption].
  - destruct (s_create_pair true w1 w2 (hd_choice cs) H) as [E1 E2].
    destruct (s_create true w1 (hd_choice cs)) as [a1 e1]. destruct (s_create true w2 (hd_choice cs)) as [a2 e2].
    cbn [fst snd] in *. subst e2. split; [reflexivity|].
    destruct built; [|apply s_builder_drop_pair]; apply s_insert_comps_pair; assumption.
  - destruct (s_create_pair true w1 w2 (hd_choice cs) H) as [E1 E2].
    destruct (s_create true w1 (hd_choice cs)) as [a1 e1]. destruct (s_create true w2 (hd_choice cs)) as [a2 e2].
    cbn [fst snd] in *. subst e2. split; [reflexivity|assumption].
  - rewrite Hs, L. destruct (hget (s_hs w2) h) as [e|]; [|cbn [fst snd]; split; [reflexivity|assumption]].
    destruct (l_kill_res (s_life w2) [e]) as [s' r]. cbn [fst snd]. split; [reflexivity|].
    apply s_purge_pair, SW_life_upd. assumption.
  - rewrite Hs, L. destruct (hget_all (s_hs w2) hs) as [es|]; [|cbn [fst snd]; split; [reflexivity|assumption]].
    destruct (l_kill_res (s_life w2) es) as [s' r]. cbn [fst snd]. split; [reflexivity|].
    apply s_purge_pair, SW_life_upd. assumption.
  - rewrite Hs, L. destruct (hget (s_hs w2) h) as [e|]; [|cbn [fst snd]; split; [reflexivity|assumption]].
    destruct (l_kill_def (s_life w2) e) as [s' ok]. cbn [fst snd]. split; [reflexivity|]. apply SW_life_upd. assumption.
  - rewrite L. destruct (l_kill_res (s_life w2) (l_entities (s_life w2))) as [s' r]. cbn [fst snd]. split; [reflexivity|].
    destruct r; [apply SW_fail|]; apply s_purge_pair, SW_life_upd; assumption.
  - rewrite L. destruct (l_merge (s_life w2)) as [s' d]. cbn [fst snd]. split; [reflexivity|].
    destruct d as [|x d]; [apply SW_life_upd; assumption|].
    apply SW_env_upd; [apply SW_life_upd; assumption | | |]; cbn [with_life s_env].
    + apply delete_components_rel. assumption.
    + rewrite ideal_delete_components. assumption.
    + rewrite ideal_delete_components. assumption.
  - rewrite Hs, L. destruct (hget (s_hs w2) h); cbn [fst snd]; split; try reflexivity; assumption.
  - rewrite Hs, L. destruct (hget (s_hs w2) h); cbn [fst snd]; split; try reflexivity; assumption.
  - rewrite L. cbn [fst snd]. split; [reflexivity|assumption].
  - rewrite Hs, L. destruct (hget (s_hs w2) h); cbn [fst snd]; split; try reflexivity; assumption.
  - rewrite L, Hl. cbn [fst snd]. split; [reflexivity|assumption].
  - rewrite L, Hs. destruct (env_sop_rel (s_env w1) (s_env w2) (l_view (s_life w2)) (s_hs w2) so E I1 I2) as [X1 X2].
    pose proof (ideal_sop (s_env w1) (l_view (s_life w2)) (s_hs w2) so) as J1.
    pose proof (ideal_sop (s_env w2) (l_view (s_life w2)) (s_hs w2) so) as J2.
    destruct (env_sop (s_env w1) _ _ so) as [e1 o1]. destruct (env_sop (s_env w2) _ _ so) as [e2 o2]. cbn [fst snd] in *.
    split; [assumption|]. apply SW_env_upd; auto; congruence.
  - cbn [fst snd]. split; [reflexivity|]. apply SW_env_upd; auto. apply env_drop_world_rel. assumption.
  - rewrite Hs. cbn [fst snd]. split; [apply wout_sim_refl|assumption].
  - rewrite Hs. cbn [fst snd]. split; [apply wout_sim_refl|assumption].
  - rewrite Hs. cbn [fst snd]. split; [apply wout_sim_refl|assumption].
  - cbn [fst snd]. split; [cbn; reflexivity|assumption].
  - rewrite L, Hs. cbn [fst snd]. split; [cbn; reflexivity|].
    apply SW_env_upd; auto; [apply env_sop_quiet_rel; assumption | |]; rewrite ideal_sop_quiet; assumption.
  - rewrite L, Hs.
    destruct (env_join_rel (s_env w1) (s_env w2) (l_view (s_life w2)) (eids_of (l_entities (s_life w2))) (s_hs w2) jk jms E) as [X1 X2].
    pose proof (ideal_join (s_env w1) (l_view (s_life w2)) (eids_of (l_entities (s_life w2))) (s_hs w2) jk jms) as J1.
    pose proof (ideal_join (s_env w2) (l_view (s_life w2)) (eids_of (l_entities (s_life w2))) (s_hs w2) jk jms) as J2.
    destruct (env_join (s_env w1) _ _ _ jk jms) as [e1 o1]. destruct (env_join (s_env w2) _ _ _ jk jms) as [e2 o2].
    cbn [fst snd] in *. subst o2. split; [apply wout_sim_refl|]. apply SW_env_upd; auto; congruence.
  - rewrite Hs. destruct (env_csop_rel (s_env w1) (s_env w2) (s_hs w2) cso E) as [X1 X2].
    pose proof (ideal_csop (s_env w1) (s_hs w2) cso) as J1. pose proof (ideal_csop (s_env w2) (s_hs w2) cso) as J2.
    destruct (env_csop (s_env w1) _ cso) as [e1 o1]. destruct (env_csop (s_env w2) _ cso) as [e2 o2].
    cbn [fst snd] in *. subst o2. split; [apply wout_sim_refl|]. apply SW_env_upd; auto; congruence.
  - cbn [fst snd]. split; [reflexivity|assumption].
Qed.

Theorem sstep_pair w1 w2 o cs : SW w1 w2 ->
  wout_sim (snd (sstep w1 o cs)) (snd (sstep w2 o cs)) /\ SW (fst (sstep w1 o cs)) (fst (sstep w2 o cs)).
Proof.
  intros H. unfold sstep. apply sstep_core_pair. unfold s_begin.
  apply SW_env_upd; [assumption | apply env_rel_begin; apply (SW_env _ _ H) | apply (SW_i1 _ _ H) | apply (SW_i2 _ _ H)].
Qed.

(* ------------------------------------------------------------------ *)
(* runs *)

Theorem srun_pair tr : forall w1 w2, SW w1 w2 ->
  Forall2 wout_sim (snd (srun w1 tr)) (snd (srun w2 tr)) /\ SW (fst (srun w1 tr)) (fst (srun w2 tr)).
Proof.
  induction tr as [|[o out] tr IH]; intros w1 w2 H; cbn [srun]; [split; [constructor|assumption]|].
  destruct (sstep_pair w1 w2 o (choices_of out) H) as [X1 X2].
  destruct (sstep w1 o (choices_of out)) as [a1 o1]. destruct (sstep w2 o (choices_of out)) as [a2 o2]. cbn [fst snd] in *.
  destruct (IH a1 a2 X2) as [I1 I2].
  destruct (srun a1 tr) as [b1 l1]. destruct (srun a2 tr) as [b2 l2]. cbn [fst snd] in *.
  split; [constructor; assumption | assumption].
Qed.

(* ------------------------------------------------------------------ *)
(* no storage operation is ever stuck (panic, uninitialised or moved-out read),
   as long as component types are registered before they are used *)

Record EInv (e : senv) : Prop := {
  EI_stores : forall sid ms, NM.find sid (se_stores e) = Some ms -> exists m, MInv ms m;
  EI_table : forall sid, In sid (se_table e) -> NM.find sid (se_stores e) <> None }.

Lemma srel_refl a m : MInv a m -> srel a a.
Proof. intros H. split; [repeat split | exists m; auto]. Qed.

Lemma EInv_init b : EInv (env_init b).
Proof. split; cbn; [intros sid ms H; discriminate | intros sid []]. Qed.

Lemma EInv_put e sid a c : EInv e -> (exists m, MInv a m) -> EInv (env_put e sid a c).
Proof.
  intros [S T] H. split; cbn [env_put se_stores se_table].
  - intros j ms Hj. rewrite find_add in Hj. destruct (N.eq_dec sid j); [inversion Hj; subst; assumption | eauto].
  - intros j Hj. rewrite find_add. destruct (N.eq_dec sid j); [discriminate | auto].
Qed.

Lemma EInv_cx e c : EInv e -> EInv (env_cx e c).
Proof. intros [S T]. split; cbn; auto. Qed.

Lemma register_ok e sid : EInv e -> kind_of sid <> None ->
  EInv (env_register e sid) /\ se_cx (env_register e sid) = se_cx e /\ NM.find sid (se_stores (env_register e sid)) <> None /\
  (forall j, NM.find j (se_stores e) <> None -> NM.find j (se_stores (env_register e sid)) <> None).
Proof.
  intros [S T] Hk. unfold env_register. destruct (kind_of sid) as [[k w]|] eqn:Ek; [|congruence].
  cbn [se_cx se_stores se_table]. split; [|split; [reflexivity|]].
  - split; cbn [se_stores se_table].
    + intros j ms Hj. destruct (NM.find sid (se_stores e)) eqn:Es; [eauto|].
      rewrite find_add in Hj. destruct (N.eq_dec sid j); [|eauto]. inversion Hj; subst.
      exists (NM.empty tok). apply MInv_new. destruct (se_ideal e); [discriminate|]. intros ->. reflexivity.
    + intros j Hj. assert (In j (se_table e) \/ j = sid) as [Hin|Hjs].
      { destruct (existsb (N.eqb sid) (se_table e)); [left; assumption|]. apply in_app_or in Hj.
        destruct Hj as [|[<-|[]]]; auto. }
      * specialize (T j Hin). destruct (NM.find sid (se_stores e)); [assumption|]. rewrite find_add.
        destruct (N.eq_dec sid j); [discriminate|assumption].
      * subst j. destruct (NM.find sid (se_stores e)) eqn:Es; [congruence|]. rewrite find_add.
        destruct (N.eq_dec sid sid); [discriminate|congruence].
  - split.
    + destruct (NM.find sid (se_stores e)) eqn:Es; [congruence|]. rewrite find_add. destruct (N.eq_dec sid sid); [discriminate|congruence].
    + intros j Hj. destruct (NM.find sid (se_stores e)); [assumption|]. rewrite find_add. destruct (N.eq_dec sid j); [discriminate|assumption].
Qed.

Lemma sop_ok e av hs so : EInv e -> NM.find (sop_sid so) (se_stores e) <> None -> kind_of (sop_sid so) <> None ->
  EInv (fst (env_sop e av hs so)) /\ cx_stuck (se_cx (fst (env_sop e av hs so))) = cx_stuck (se_cx e) /\
  (forall j, NM.find j (se_stores e) <> None -> NM.find j (se_stores (fst (env_sop e av hs so))) <> None).
Proof.
  intros HE Hreg Hk. unfold env_sop.
  assert (forall ent,
    let go := match NM.find (sop_sid so) (se_stores e) with
              | Some ms => let '(ms1, out, c1) := ms_sop ms av ent so (se_cx e) in (env_put e (sop_sid so) ms1 c1, out)
              | None => (env_fail e, WSkip) end in
    EInv (fst go) /\ cx_stuck (se_cx (fst go)) = cx_stuck (se_cx e) /\
    (forall j, NM.find j (se_stores e) <> None -> NM.find j (se_stores (fst go)) <> None)) as Hgo.
  { intros ent. cbv zeta. destruct (NM.find (sop_sid so) (se_stores e)) as [a|] eqn:Ea; [|congruence].
    destruct (EI_stores _ HE _ _ Ea) as [m Hm].
    pose proof (ms_sop_pair a a av ent so (se_cx e) (se_cx e) (srel_refl a m Hm)) as X.
    destruct (ms_sop a av ent so (se_cx e)) as [[a1 o1] c1]. destruct X as [_ [[_ [m' [Hm' _]]] [X3 _]]].
    cbn [fst env_put se_cx se_stores]. split; [apply EInv_put; eauto|]. split; [assumption|].
    intros j Hj. rewrite find_add. destruct (N.eq_dec (sop_sid so) j); [discriminate|assumption]. }
  destruct so; cbn [sop_handle];
  try (destruct (pv_get hs (N.of_nat h)); [apply Hgo | cbn [fst]; auto]); try apply Hgo.
  cbn [fst sop_sid] in *. destruct (register_ok e sid HE Hk) as [R1 [R2 [_ R4]]]. rewrite R2. auto.
Qed.

Lemma drop_all_ok ids : forall a m c, MInv a m ->
  (exists m', MInv (fst (m_drop_all a ids c)) m') /\ cx_stuck (snd (m_drop_all a ids c)) = cx_stuck c.
Proof.
  intros a m c Hm. destruct (drop_all_pair ids a a c c (srel_refl a m Hm)) as [[_ [m' [H1 _]]] [H2 _]]. eauto.
Qed.

Lemma purge_tbl_ok tbl : forall s ids c,
  (forall sid ms, NM.find sid s = Some ms -> exists m, MInv ms m) ->
  (forall sid, In sid tbl -> NM.find sid s <> None) ->
  let r := env_purge_tbl s tbl ids c in
  (forall sid ms, NM.find sid (fst r) = Some ms -> exists m, MInv ms m) /\
  (forall sid, NM.find sid s <> None -> NM.find sid (fst r) <> None) /\
  cx_stuck (snd r) = cx_stuck c.
Proof.
  induction tbl as [|sid tbl IH]; intros s ids c S T; cbn [env_purge_tbl]; [auto|].
  destruct (NM.find sid s) as [a|] eqn:Ea; [|exfalso; apply (T sid (or_introl eq_refl)); assumption].
  destruct (S sid a Ea) as [m Hm]. destruct (drop_all_ok ids a m c Hm) as [[m' Hm'] Hc].
  destruct (m_drop_all a ids c) as [a1 c1]. cbn [fst snd] in *.
  destruct (IH (NM.add sid a1 s) ids c1) as [I1 [I2 I3]].
  - intros j ms Hj. rewrite find_add in Hj. destruct (N.eq_dec sid j); [inversion Hj; subst; eauto | eauto].
  - intros j Hj. rewrite find_add. destruct (N.eq_dec sid j); [discriminate | apply T; right; assumption].
  - split; [assumption|]. split; [|congruence].
    intros j Hj. apply I2. rewrite find_add. destruct (N.eq_dec sid j); [discriminate|assumption].
Qed.

Lemma delete_components_ok e ents : EInv e ->
  EInv (env_delete_components e ents) /\ cx_stuck (se_cx (env_delete_components e ents)) = cx_stuck (se_cx e) /\
  (forall j, NM.find j (se_stores e) <> None -> NM.find j (se_stores (env_delete_components e ents)) <> None).
Proof.
  intros [S T]. unfold env_delete_components.
  destruct (purge_tbl_ok (se_table e) (se_stores e) (map fst ents) (se_cx e) S T) as [P1 [P2 P3]].
  destruct (env_purge_tbl (se_stores e) (se_table e) (map fst ents) (se_cx e)) as [s' c']. cbn [fst snd] in *.
  split; [|split; [assumption|assumption]]. split; cbn; auto.
Qed.

Lemma insert_comps_ok cs : forall e av ent, EInv e -> av_alive av ent = true ->
  (forall sid v, In (sid, v) cs -> NM.find sid (se_stores e) <> None) ->
  EInv (env_insert_comps e av ent cs) /\ cx_stuck (se_cx (env_insert_comps e av ent cs)) = cx_stuck (se_cx e) /\
  (forall j, NM.find j (se_stores e) <> None -> NM.find j (se_stores (env_insert_comps e av ent cs)) <> None).
Proof.
  induction cs as [|[sid v] cs IH]; intros e av ent HE Ha Hreg; cbn [env_insert_comps]; [auto|].
  destruct (NM.find sid (se_stores e)) as [a|] eqn:Ea; [|exfalso; apply (Hreg sid v (or_introl eq_refl)); assumption].
  destruct (EI_stores _ HE _ _ Ea) as [m Hm].
  pose proof (st_insert_pair a a av ent v (se_cx e) (se_cx e) (srel_refl a m Hm)) as X.
  assert (forall r c1 ms1, st_insert a av ent v (se_cx e) = (ms1, r, c1) -> match r with InsErr _ => False | _ => True end) as Hne.
  { intros r c1 ms1. unfold st_insert. cbv zeta. rewrite Ha. destruct (NS.mem (fst ent) (ms_mask a)).
    - destruct (w_access_mut _ _ _ _ _) as [[? ?] ?]. intros E; inversion E; exact I.
    - destruct (not_present_insert _ _ _ _) as [? ?]. intros E; inversion E; exact I. }
  destruct (st_insert a av ent v (se_cx e)) as [[a1 r] c1] eqn:Es. specialize (Hne r c1 a1 eq_refl).
  destruct X as [_ [[_ [m' [Hm' _]]] [X3 _]]].
  destruct (IH (env_put e sid a1 (match r with InsErr _ => cx_fail c1 | InsOld t => cx_drop c1 t | _ => c1 end)) av ent) as [I1 [I2 I3]].
  - apply EInv_put; eauto.
  - assumption.
  - intros j w Hj. cbn [env_put se_stores]. rewrite find_add. destruct (N.eq_dec sid j); [discriminate|].
    apply (Hreg j w). right. assumption.
  - split; [assumption|]. split.
    + rewrite I2. cbn [env_put se_cx]. destruct r; try contradiction; cbn [cx_drop cx_stuck]; assumption.
    + intros j Hj. apply I3. cbn [env_put se_stores]. rewrite find_add. destruct (N.eq_dec sid j); [discriminate|assumption].
Qed.
