(* The lazy-update queue (src/world/lazy.rs, WorldExt::maintain):
   operations queued on the LazyUpdate resource run during the next maintain,
   after the entities were merged and the deleted entities' components purged,
   in the order in which they were queued; operations queued by a running
   action are appended to the same queue and run later in the same maintain.

   [flatten] turns a history with lazy operations into the sequence of
   operations in the order in which the world performs them (the queue with
   its pop-until-empty loop is modelled literally, with explicit fuel).
   Definitions only. *)
From SV Require Export World.Ops.

Definition action := list op.        (* what one queued closure does *)

(* handles an operation returns (known without running it) *)
Definition n_created (o : op) : nat :=
  match o with
  | OCreate _ | OCreateDropped _ | OECreate | OEBuild _ _ | OLazyCreate _ => 1
  | OCreateIter n | OECreateIter n => n
  | _ => 0
  end.

(* the action an operation queues, [nh] handles having been returned so far *)
Definition action_of (nh : nat) (o : op) : option action :=
  match o with
  | OLazyInsert sid h v => if Nat.ltb h nh then Some [OQuiet (SInsert sid h v)] else None
  | OLazyInsertAll sid l =>
      if forallb (fun p => Nat.ltb (fst p) nh) l
      then Some (map (fun p => OQuiet (SInsert sid (fst p) (snd p))) l) else None
  | OLazyRemove sid h => if Nat.ltb h nh then Some [OQuiet (SRemove sid h)] else None
  | OLazyExec prog => Some prog
  | OLazyCreate cs => Some (map (fun c => OQuiet (SInsert (fst c) nh (snd c))) cs)   (* the new handle is number nh *)
  | _ => None
  end.

(* what the world performs when it meets [o] outside a maintain: the operation
   itself (a queueing operation only queues) *)
Definition strip (o : op) : op :=
  match o with
  | OLazyCreate _ => OLazyCreate []
  | o => o
  end.

Record fstate := { f_nh : nat; f_queue : list action }.

(* one operation performed now: emitted, its action (if any) appended to the queue *)
Definition perform (st : fstate) (o : op) : fstate * op :=
  let q := match action_of (f_nh st) o with Some a => f_queue st ++ [a] | None => f_queue st end in
  ({| f_nh := f_nh st + n_created o; f_queue := q |}, strip o).

(* running one action: its operations in order; maintain / drop(world) inside a closure are not modelled *)
Fixpoint run_action (st : fstate) (a : action) : fstate * list op :=
  match a with
  | [] => (st, [])
  | o :: a' =>
      let o' := match o with OMaintain | ODropWorld => OBad | _ => o end in
      let '(st1, e) := perform st o' in
      let '(st2, es) := run_action st1 a' in (st2, e :: es)
  end.

(* LazyUpdate::maintain: while let Some(l) = queue.pop() { l.update(world) } *)
Fixpoint drain (fuel : nat) (st : fstate) : fstate * list op :=
  match fuel with
  | O => (st, [])
  | S fuel' =>
      match f_queue st with
      | [] => (st, [])
      | a :: q =>
          let '(st1, es) := run_action {| f_nh := f_nh st; f_queue := q |} a in
          let '(st2, es') := drain fuel' st1 in (st2, es ++ es')
      end
  end.

(* number of queueing operations inside an operation / an action / the queue *)
Fixpoint osize (o : op) : nat :=
  match o with
  | OLazyExec prog => S (fold_right (fun x n => osize x + n)%nat O prog)
  | OLazyInsert _ _ _ | OLazyInsertAll _ _ | OLazyRemove _ _ | OLazyCreate _ => 1
  | _ => 0
  end.
Definition asize (a : action) : nat := fold_right (fun x n => osize x + n)%nat O a.
Definition qsize (q : list action) : nat := fold_right (fun a n => S (asize a) + n)%nat O q.

Fixpoint flatten_from (st : fstate) (os : list op) : list op :=
  match os with
  | [] => []
  | OMaintain :: os' =>
      let '(st1, es) := drain (S (qsize (f_queue st))) st in
      OMaintain :: es ++ flatten_from st1 os'
  | o :: os' => let '(st1, e) := perform st o in e :: flatten_from st1 os'
  end.

Definition flatten (os : list op) : list op := flatten_from {| f_nh := 0; f_queue := [] |} os.
