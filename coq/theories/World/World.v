(* The faithful world machine: the code's data structures and statement
   order, deterministic.  (Phase A: the entity part of WorldExt.)
   Definitions only. *)
From SV Require Export World.Ops World.Env World.Join Alloc.AllocStep.

Record world := {
  w_alloc : astate;
  w_hs : pvec entity;          (* handles returned so far, by position *)
  w_hl : list entity;          (* the same, most recent first *)
  w_stuck : bool;              (* a panic outside the allocator (unwrap/expect) *)
  w_env : senv }.              (* component storages *)

Definition w_init : world :=
  {| w_alloc := a_init; w_hs := pv_empty; w_hl := []; w_stuck := false; w_env := env_init false |}.

Definition with_alloc (w : world) (a : astate) : world :=
  {| w_alloc := a; w_hs := w_hs w; w_hl := w_hl w; w_stuck := w_stuck w; w_env := w_env w |}.
Definition push_h (w : world) (e : entity) : world :=
  {| w_alloc := w_alloc w; w_hs := pv_push (w_hs w) e; w_hl := e :: w_hl w; w_stuck := w_stuck w; w_env := w_env w |}.
Definition w_set_stuck (w : world) : world :=
  {| w_alloc := w_alloc w; w_hs := w_hs w; w_hl := w_hl w; w_stuck := true; w_env := w_env w |}.
Definition with_env (w : world) (e : senv) : world :=
  {| w_alloc := w_alloc w; w_hs := w_hs w; w_hl := w_hl w; w_stuck := w_stuck w; w_env := e |}.

(* what the storage layer sees of the allocator *)
Definition a_view (a : astate) : aview :=
  {| av_alive := a_is_alive a; av_cur_gen := cur_gen a; av_err_gen := err_gen a |}.

Definition w_insert_comps (w : world) (e : entity) (cs : comps) : world :=
  with_env w (env_insert_comps (w_env w) (a_view (w_alloc w)) e cs).

(* delete_entities after the allocator's kill: purge the killed prefix (all on success) *)
Definition w_purge_killed (w : world) (es : list entity) (r : option (nat * Z)) : world :=
  let killed := match r with None => es | Some (pos, _) => firstn pos es end in
  with_env w (env_delete_components (w_env w) killed).

Definition hget (hs : pvec entity) (h : href) : option entity := pv_get hs (N.of_nat h).

Fixpoint hget_all (hs : pvec entity) (l : list href) : option (list entity) :=
  match l with
  | [] => Some []
  | h :: l' => match hget hs h, hget_all hs l' with
               | Some e, Some r => Some (e :: r)
               | _, _ => None
               end
  end.

(* one creation; [pend] = through the shared entities resource *)
Definition w_create (pend : bool) (w : world) : world * entity :=
  let '(a', e) := if pend then a_alloc_atomic (w_alloc w) else a_alloc (w_alloc w) in
  (push_h (with_alloc w a') e, e).

Fixpoint w_create_n (pend : bool) (n : nat) (w : world) : world * list entity :=
  match n with
  | O => (w, [])
  | S n' => let '(w1, e) := w_create pend w in
            let '(w2, l) := w_create_n pend n' w1 in (w2, e :: l)
  end.

(* dropping an unfinished builder: entities.delete(entity).unwrap() *)
Definition w_builder_drop (w : world) (e : entity) : world :=
  let '(a', r) := a_kill_atomic (w_alloc w) e in
  match r with None => with_alloc w a' | Some _ => w_set_stuck (with_alloc w a') end.

Definition wstep_core (fixed : bool) (w : world) (o : op) : world * wout :=
  match o with
  | OCreate cs => let '(w1, e) := w_create false w in (w_insert_comps w1 e cs, WHandles [e])
  | OCreateDropped cs =>
      let '(w1, e) := w_create false w in (w_builder_drop (w_insert_comps w1 e cs) e, WHandles [e])
  | OCreateIter n => let '(w1, l) := w_create_n false n w in (w1, WHandles l)
  | OECreate => let '(w1, e) := w_create true w in (w1, WHandles [e])
  | OECreateIter n => let '(w1, l) := w_create_n true n w in (w1, WHandles l)
  | OEBuild built cs =>
      let '(w1, e) := w_create true w in
      let w2 := w_insert_comps w1 e cs in
      ((if built then w2 else w_builder_drop w2 e), WHandles [e])
  | OLazyCreate _ => let '(w1, e) := w_create true w in (w1, WHandles [e])
  | ODelete h =>
      match hget (w_hs w) h with
      | Some e => let '(a', r) := a_kill fixed (w_alloc w) [e] in (w_purge_killed (with_alloc w a') [e] r, WKill r)
      | None => (w, WSkip)
      end
  | ODeleteMany hs =>
      match hget_all (w_hs w) hs with
      | Some es => let '(a', r) := a_kill fixed (w_alloc w) es in (w_purge_killed (with_alloc w a') es r, WKill r)
      | None => (w, WSkip)
      end
  | OEDelete h =>
      match hget (w_hs w) h with
      | Some e => let '(a', r) := a_kill_atomic (w_alloc w) e in (with_alloc w a', WKillDef r)
      | None => (w, WSkip)
      end
  | ODeleteAll =>
      let es := a_entities (w_alloc w) in
      let '(a', r) := a_kill fixed (w_alloc w) es in
      let w1 := w_purge_killed (with_alloc w a') es r in
      ((match r with None => w1 | Some _ => w_set_stuck w1 end), WEnts es)
  | OMaintain =>
      let '(a', deleted) := a_merge (w_alloc w) in
      let w1 := with_alloc w a' in
      ((match deleted with [] => w1 | _ => with_env w1 (env_delete_components (w_env w1) deleted) end), WUnit)
  | OIsAlive h =>
      match hget (w_hs w) h with
      | Some e => (w, WBool (a_is_alive (w_alloc w) e))
      | None => (w, WSkip)
      end
  | OWIsAlive h =>
      match hget (w_hs w) h with
      | Some e => (w, WBool (a_is_alive_merged (w_alloc w) e))
      | None => (w, WSkip)
      end
  | OJoinEntities => (w, WEnts (a_entities (w_alloc w)))
  | OEntityAt h =>
      match hget (w_hs w) h with
      | Some e => (w, WHandles [a_entity_at (w_alloc w) (fst e)])
      | None => (w, WSkip)
      end
  | OProbeAll => (w, WBools (rev (map (a_is_alive (w_alloc w)) (w_hl w))))
  | OStore so =>
      let '(e', out) := env_sop (w_env w) (a_view (w_alloc w)) (w_hs w) so in (with_env w e', out)
  | ODropWorld => (with_env w (env_drop_world (w_env w)), WUnit)
  | OQuiet so =>
      (with_env w (env_sop_quiet (w_env w) (a_view (w_alloc w)) (w_hs w) so), WUnit)
  (* queueing a lazy action: the action itself is placed by World/Lazy.v after the next maintain *)
  | OLazyInsert _ h _ | OLazyRemove _ h => (w, match hget (w_hs w) h with Some _ => WUnit | None => WSkip end)
  | OLazyInsertAll _ l => (w, match hget_all (w_hs w) (map fst l) with Some _ => WUnit | None => WSkip end)
  | OLazyExec _ => (w, WUnit)
  | OJoin k ms =>
      let '(e', j) := env_join (w_env w) (a_view (w_alloc w)) (eids_of (a_entities (w_alloc w))) (w_hs w) k ms in
      (with_env w e', jout_wout j)
  | OCs c => let '(e', r) := env_csop (w_env w) (w_hs w) c in (with_env w e', cs_out r)
  | OBad => (w, WSkip)
  end.

(* the effects of the previous operation are forgotten at the start of each step *)
Definition w_begin (w : world) : world := with_env w (env_begin (w_env w)).
Definition wstep (fixed : bool) (w : world) (o : op) : world * wout := wstep_core fixed (w_begin w) o.

Fixpoint wrun (fixed : bool) (w : world) (os : list op) : world * list wout :=
  match os with
  | [] => (w, [])
  | o :: os' => let '(w1, out) := wstep fixed w o in
                let '(w2, outs) := wrun fixed w1 os' in (w2, out :: outs)
  end.

(* a panic of the allocator or of the world-level glue (unwrap / expect / assert) *)
Definition w_alloc_stuck (w : world) : bool := w_stuck w || a_stuck (w_alloc w).
Definition w_is_stuck (w : world) : bool := w_stuck w || a_stuck (w_alloc w) || cx_stuck (se_cx (w_env w)).
