(* The faithful world machine: the code's data structures and statement
   order, deterministic.  (Phase A: the entity part of WorldExt.)
   Definitions only. *)
From SV Require Export World.Ops Alloc.AllocStep.

Record world := {
  w_alloc : astate;
  w_hs : pvec entity;          (* handles returned so far, by position *)
  w_hl : list entity;          (* the same, most recent first *)
  w_stuck : bool }.            (* a panic outside the allocator (unwrap/expect) *)

Definition w_init : world :=
  {| w_alloc := a_init; w_hs := pv_empty; w_hl := []; w_stuck := false |}.

Definition with_alloc (w : world) (a : astate) : world :=
  {| w_alloc := a; w_hs := w_hs w; w_hl := w_hl w; w_stuck := w_stuck w |}.
Definition push_h (w : world) (e : entity) : world :=
  {| w_alloc := w_alloc w; w_hs := pv_push (w_hs w) e; w_hl := e :: w_hl w; w_stuck := w_stuck w |}.
Definition w_set_stuck (w : world) : world :=
  {| w_alloc := w_alloc w; w_hs := w_hs w; w_hl := w_hl w; w_stuck := true |}.

Definition hget (hs : pvec entity) (h : href) : option entity := pv_get hs (N.of_nat h).

Fixpoint hget_all (hs : pvec entity) (l : list href) : option (list entity) :=
  match l with
  | [] => Some []
  | h :: l' => match hget hs h, hget_all hs l' with
               | Some e, Some r => Some (e :: r)
               | _, _ => None
               end
  end.

(* one creation; [pend] = through the shared entities resource *)
Definition w_create (pend : bool) (w : world) : world * entity :=
  let '(a', e) := if pend then a_alloc_atomic (w_alloc w) else a_alloc (w_alloc w) in
  (push_h (with_alloc w a') e, e).

Fixpoint w_create_n (pend : bool) (n : nat) (w : world) : world * list entity :=
  match n with
  | O => (w, [])
  | S n' => let '(w1, e) := w_create pend w in
            let '(w2, l) := w_create_n pend n' w1 in (w2, e :: l)
  end.

(* dropping an unfinished builder: entities.delete(entity).unwrap() *)
Definition w_builder_drop (w : world) (e : entity) : world :=
  let '(a', r) := a_kill_atomic (w_alloc w) e in
  match r with None => with_alloc w a' | Some _ => w_set_stuck (with_alloc w a') end.

Definition wstep (fixed : bool) (w : world) (o : op) : world * wout :=
  match o with
  | OCreate _ => let '(w1, e) := w_create false w in (w1, WHandles [e])
  | OCreateDropped _ => let '(w1, e) := w_create false w in (w_builder_drop w1 e, WHandles [e])
  | OCreateIter n => let '(w1, l) := w_create_n false n w in (w1, WHandles l)
  | OECreate => let '(w1, e) := w_create true w in (w1, WHandles [e])
  | OECreateIter n => let '(w1, l) := w_create_n true n w in (w1, WHandles l)
  | OEBuild built _ =>
      let '(w1, e) := w_create true w in
      ((if built then w1 else w_builder_drop w1 e), WHandles [e])
  | OLazyCreate _ => let '(w1, e) := w_create true w in (w1, WHandles [e])
  | ODelete h =>
      match hget (w_hs w) h with
      | Some e => let '(a', r) := a_kill fixed (w_alloc w) [e] in (with_alloc w a', WKill r)
      | None => (w, WSkip)
      end
  | ODeleteMany hs =>
      match hget_all (w_hs w) hs with
      | Some es => let '(a', r) := a_kill fixed (w_alloc w) es in (with_alloc w a', WKill r)
      | None => (w, WSkip)
      end
  | OEDelete h =>
      match hget (w_hs w) h with
      | Some e => let '(a', r) := a_kill_atomic (w_alloc w) e in (with_alloc w a', WKillDef r)
      | None => (w, WSkip)
      end
  | ODeleteAll =>
      let es := a_entities (w_alloc w) in
      let '(a', r) := a_kill fixed (w_alloc w) es in
      ((match r with None => with_alloc w a' | Some _ => w_set_stuck (with_alloc w a') end), WEnts es)
  | OMaintain => let '(a', _) := a_merge (w_alloc w) in (with_alloc w a', WUnit)
  | OIsAlive h =>
      match hget (w_hs w) h with
      | Some e => (w, WBool (a_is_alive (w_alloc w) e))
      | None => (w, WSkip)
      end
  | OWIsAlive h =>
      match hget (w_hs w) h with
      | Some e => (w, WBool (a_is_alive_merged (w_alloc w) e))
      | None => (w, WSkip)
      end
  | OJoinEntities => (w, WEnts (a_entities (w_alloc w)))
  | OEntityAt h =>
      match hget (w_hs w) h with
      | Some e => (w, WHandles [a_entity_at (w_alloc w) (fst e)])
      | None => (w, WSkip)
      end
  | OProbeAll => (w, WBools (rev (map (a_is_alive (w_alloc w)) (w_hl w))))
  | OBad => (w, WSkip)
  end.

Fixpoint wrun (fixed : bool) (w : world) (os : list op) : world * list wout :=
  match os with
  | [] => (w, [])
  | o :: os' => let '(w1, out) := wstep fixed w o in
                let '(w2, outs) := wrun fixed w1 os' in (w2, out :: outs)
  end.

Definition w_is_stuck (w : world) : bool := w_stuck w || a_stuck (w_alloc w).
