(* C08 over whole histories of the specification world (every storage a plain
   map): what all storages hold at the end, everything handed back and
   everything destroyed along the way are, as multisets of values, what was held
   at the start plus everything moved in.  Joins included: what a join hands
   out for good are the values its drain members removed.  Components
   registered before use. *)
From SV Require Import Base.ListX Alloc.LifeProps Store.Raw Store.Masked Store.StoreInv Store.Bag Store.Ledger World.Env World.Join World.JoinPres
  World.SopLedger World.WorldLedger World.JoinLedger World.StoreSim World.EnvSim World.WorldSpec World.Micro World.NoStuck.
From Coq Require Import Sorting.Permutation.

Definition resolved (w : sworld) (so : sop) : option (mstore * entity) :=
  match so with
  | SRegister _ => None
  | _ =>
      match NM.find (sop_sid so) (se_stores (s_env w)) with
      | Some ms =>
          match sop_handle so with
          | Some h => match pv_get (s_hs w) (N.of_nat h) with Some ent => Some (ms, ent) | None => None end
          | None => Some (ms, (0, 0%Z))
          end
      | None => None
      end
  end.

(* what an operation moves into the world (the entity a creation attaches to is the one it creates) *)
Definition op_ins (w : sworld) (o : op) : list N :=
  match o with
  | OCreate cs | OCreateDropped cs | OEBuild _ cs => comps_ins (s_env w) cs
  | OStore so | OQuiet so =>
      match resolved w so with Some (ms, ent) => sop_ins ms (l_view (s_life w)) ent so | None => [] end
  | _ => []
  end.

(* what its result hands back to the caller *)
Definition op_rets (w : sworld) (o : op) (cs : list N) (out : wout) : list N :=
  match o with
  | OStore so => match resolved w so with Some _ => sop_rets so out | None => [] end
  | OJoin _ ms => match out with WJoin j => jout_rets ms j | _ => [] end
  | _ => []
  end.

Definition ledger_op (o : op) : bool :=
  match o with
  | OQuiet (SInsert _ _ _) | OQuiet (SRemove _ _) => true
  | OQuiet _ => false
  | _ => true
  end.

Record WInv (w : sworld) : Prop := {
  WI_e : SInvE w;
  WI_plain : plain_env (s_env w);
  WI_ideal : se_ideal (s_env w) = true }.

Lemma s_create_env pend w i : s_env (fst (s_create pend w i)) = s_env w.
Proof. apply s_create_envE. Qed.

Lemma estep_cs e k m : plain_env e -> estep_ok e (cs_put e k m) [] [].
Proof.
  intros HP. split; [intros sid ms Hs; cbn [cs_put se_stores] in Hs; eapply HP; exact Hs|].
  intros L [f [Hf P]]. exists L, []. split; [exists f; split; [intros sid ms Hs; apply Hf; exact Hs | exact P]|].
  split; [reflexivity|]. rewrite !app_nil_r. apply Permutation_refl.
Qed.

Lemma delete_components_ledger e ents : EInv e -> plain_env e -> estep_ok e (env_delete_components e ents) [] [].
Proof.
  intros HE HP. unfold env_delete_components.
  pose proof (purge_tbl_ledger (se_table e) e (map fst ents) HP (EI_table _ HE)) as X.
  destruct (env_purge_tbl (se_stores e) (se_table e) (map fst ents) (se_cx e)) as [stores c]. exact X.
Qed.

Ltac solve_sop :=
  match goal with
  | HP : plain_env (s_env ?w), Es : NM.find ?sid (se_stores (s_env ?w)) = Some ?ms
    |- context [env_sop (s_env ?w) (l_view (s_life ?w)) (s_hs ?w) ?so] =>
      first
        [ (* no handle *)
          let X := fresh "X" in
          pose proof (env_sop_ledger (s_env w) (l_view (s_life w)) (s_hs w) so (0, 0%Z) ms HP I Es eq_refl) as X;
          destruct (env_sop (s_env w) (l_view (s_life w)) (s_hs w) so) as [? ?]; cbn [fst snd s_with_env s_env] in *; exact X
        | (* a handle: resolved or not *)
          match goal with
          | |- context [pv_get (s_hs w) (N.of_nat ?h)] =>
              let Eh := fresh "Eh" in let ent := fresh "ent" in
              destruct (pv_get (s_hs w) (N.of_nat h)) as [ent|] eqn:Eh;
              [ let X := fresh "X" in
                pose proof (env_sop_ledger (s_env w) (l_view (s_life w)) (s_hs w) so ent ms HP I Es Eh) as X;
                destruct (env_sop (s_env w) (l_view (s_life w)) (s_hs w) so) as [? ?]; cbn [fst snd s_with_env s_env] in *; exact X
              | assert (env_sop (s_env w) (l_view (s_life w)) (s_hs w) so = (s_env w, WSkip)) as -> by (unfold env_sop; cbn [sop_handle]; rewrite Eh; reflexivity);
                cbn [fst snd s_with_env s_env]; apply estep_refl; exact HP ]
          end ]
  end.

(* one step of the specification world *)
Theorem sstep_core_ledger w o cs : WInv w -> op_regs_ok (s_env w) o = true -> ledger_op o = true ->
  estep_ok (s_env w) (s_env (fst (sstep_core w o cs))) (op_ins w o) (op_rets w o cs (snd (sstep_core w o cs))).
Proof.
  intros HW Hr Hl. pose proof (sstep_core_ok w o cs (WI_e _ HW) Hr) as [_ Hst']. destruct HW as [[HE Hst] HP Hi].
  assert (forall pend k, comps_ok (s_env w) k = true ->
            let '(w1, e) := s_create pend w (hd_choice cs) in
            estep_ok (s_env w) (s_env (s_insert_comps w1 e k)) (comps_ins (s_env w) k) []) as Hcr.
  { intros pend k Hk. pose proof (s_create_env pend w (hd_choice cs)) as Ee.
    destruct (s_create pend w (hd_choice cs)) as [w1 e]. cbn [fst] in Ee. unfold s_insert_comps. cbn [s_with_env s_env]. rewrite Ee.
    apply insert_comps_ledger; [exact HP|]. intros sid v Hin. apply (comps_ok_spec _ _ Hk sid v Hin). }
  assert (forall es r, estep_ok (s_env w) (s_env (s_purge_killed (with_life w (fst (l_kill_res (s_life w) es))) es r)) [] []) as Hkill.
  { intros es r. unfold s_purge_killed. cbn [s_with_env s_env with_life]. apply delete_components_ledger; assumption. }
  destruct o as [k|k|n| |n|built k|k|h|hs|h| | |h|h| |h| |so| |lsid lh lv|lsid ll|lsid lh|prog|qso|jk jms|cso| ];
    cbn [sstep_core op_regs_ok op_ins op_rets ledger_op] in *; try discriminate.
  - specialize (Hcr false k Hr). destruct (s_create false w (hd_choice cs)) as [w1 e]. exact Hcr.
  - specialize (Hcr false k Hr). destruct (s_create false w (hd_choice cs)) as [w1 e]. cbn [fst snd] in *.
    replace (s_env (s_builder_drop (s_insert_comps w1 e k) e)) with (s_env (s_insert_comps w1 e k)) by (symmetry; apply s_builder_drop_envE).
    exact Hcr.
  - pose proof (s_create_n_envE false n w cs) as E. destruct (s_create_n false n w cs) as [w1 l]. cbn [fst snd] in *. rewrite E. apply estep_refl. exact HP.
  - pose proof (s_create_env true w (hd_choice cs)) as E. destruct (s_create true w (hd_choice cs)) as [w1 e]. cbn [fst snd] in *. rewrite E. apply estep_refl. exact HP.
  - pose proof (s_create_n_envE true n w cs) as E. destruct (s_create_n true n w cs) as [w1 l]. cbn [fst snd] in *. rewrite E. apply estep_refl. exact HP.
  - specialize (Hcr true k Hr). destruct (s_create true w (hd_choice cs)) as [w1 e]. cbn [fst snd] in *.
    destruct built; [exact Hcr|].
    replace (s_env (s_builder_drop (s_insert_comps w1 e k) e)) with (s_env (s_insert_comps w1 e k)) by (symmetry; apply s_builder_drop_envE).
    exact Hcr.
  - pose proof (s_create_env true w (hd_choice cs)) as E. destruct (s_create true w (hd_choice cs)) as [w1 e]. cbn [fst snd] in *. rewrite E. apply estep_refl. exact HP.
  - destruct (hget (s_hs w) h) as [e|]; [|cbn [fst snd]; apply estep_refl; exact HP].
    specialize (Hkill [e]). destruct (l_kill_res (s_life w) [e]) as [s' r]. cbn [fst snd] in *. apply Hkill.
  - destruct (hget_all (s_hs w) hs) as [es|]; [|cbn [fst snd]; apply estep_refl; exact HP].
    specialize (Hkill es). destruct (l_kill_res (s_life w) es) as [s' r]. cbn [fst snd] in *. apply Hkill.
  - destruct (hget (s_hs w) h) as [e|]; [|cbn [fst snd]; apply estep_refl; exact HP].
    destruct (l_kill_def (s_life w) e) as [s' ok]. cbn [fst snd with_life s_env]. apply estep_refl. exact HP.
  - specialize (Hkill (l_entities (s_life w))). destruct (l_kill_res (s_life w) (l_entities (s_life w))) as [s' r]. cbn [fst snd] in *.
    destruct r as [p|]; cbn [s_fail s_env]; apply Hkill.
  - destruct (l_merge (s_life w)) as [s' d]. cbn [fst snd]. destruct d as [|x d]; cbn [with_life s_env s_with_env].
    + apply estep_refl. exact HP.
    + apply delete_components_ledger; assumption.
  - destruct (hget (s_hs w) h); cbn [fst snd]; apply estep_refl; exact HP.
  - destruct (hget (s_hs w) h); cbn [fst snd]; apply estep_refl; exact HP.
  - cbn [fst snd]. apply estep_refl. exact HP.
  - destruct (hget (s_hs w) h); cbn [fst snd]; apply estep_refl; exact HP.
  - cbn [fst snd]. apply estep_refl. exact HP.
  - (* a storage operation *)
    destruct so as [sid h v|sid h|sid h t nv|sid h|sid h|sid|sid|sid|sid|sid|sid lim|sid h eo|sid h|sid|sid|sid kk|sid b];
      try (unfold resolved; cbn [sop_sid sop_handle];
           apply andb_true_iff in Hr; destruct Hr as [R1 _]; apply registered_true in R1; cbn [sop_sid] in R1;
           destruct (NM.find sid (se_stores (s_env w))) as [ms|] eqn:Es; [|congruence]);
      try solve_sop.
    cbn [env_sop fst snd s_with_env s_env resolved]. apply estep_register; assumption.
  - cbn [fst snd s_with_env s_env]. apply drop_world_ledger. exact HP.
  - destruct (hget (s_hs w) lh); cbn [fst snd]; apply estep_refl; exact HP.
  - destruct (hget_all (s_hs w) (map fst ll)); cbn [fst snd]; apply estep_refl; exact HP.
  - destruct (hget (s_hs w) lh); cbn [fst snd]; apply estep_refl; exact HP.
  - cbn [fst snd]. apply estep_refl. exact HP.
  - (* a lazy insert / remove being applied *)
    cbn [fst snd s_with_env s_env].
    destruct qso as [sid h v|sid h|sid h t nv|sid h|sid h|sid|sid|sid|sid|sid|sid lim|sid h eo|sid h|sid|sid|sid kk|sid b]; try discriminate;
      unfold resolved; cbn [sop_sid sop_handle];
      apply andb_true_iff in Hr; destruct Hr as [R1 _]; apply registered_true in R1; cbn [sop_sid] in R1;
      (destruct (NM.find sid (se_stores (s_env w))) as [ms|] eqn:Es; [|congruence]);
      (destruct (pv_get (s_hs w) (N.of_nat h)) as [ent|] eqn:Eh;
       [| assert (env_sop_quiet (s_env w) (l_view (s_life w)) (s_hs w) _ = s_env w) as -> by (unfold env_sop_quiet, env_sop; cbn [sop_handle]; rewrite Eh; reflexivity);
          apply estep_refl; exact HP]).
    + apply (quiet_ledger (s_env w) (l_view (s_life w)) (s_hs w) (SInsert sid h v) ent ms HP I Es Eh).
    + apply (quiet_ledger (s_env w) (l_view (s_life w)) (s_hs w) (SRemove sid h) ent ms HP I Es Eh).
  - (* a join *)
    pose proof (env_join_ledger (s_env w) (l_view (s_life w)) (eids_of (l_entities (s_life w))) (s_hs w) jk jms HP) as X.
    destruct (env_join (s_env w) (l_view (s_life w)) (eids_of (l_entities (s_life w))) (s_hs w) jk jms) as [e' j].
    cbn [fst snd s_with_env s_env] in *. specialize (X Hst').
    destruct j; cbn [jout_wout jout_rets] in *; exact X.
  - (* change sets are outside the world *)
    pose proof (env_csop_pres (fun e' => estep_ok (s_env w) e' [] [])) as X.
    assert (forall e' k m, estep_ok (s_env w) e' [] [] -> estep_ok (s_env w) (cs_put e' k m) [] []) as Hcs.
    { intros e' k m S. change (@nil N) with (@nil N ++ @nil N). eapply estep_trans; [exact S|]. apply estep_cs. exact (proj1 S). }
    specialize (X Hcs (s_env w) (s_hs w) cso (estep_refl _ HP)).
    destruct (env_csop (s_env w) (s_hs w) cso) as [e' r]. cbn [fst snd s_with_env s_env] in *. exact X.
  - cbn [fst snd]. apply estep_refl. exact HP.
Qed.

(* ------------------------------------------------------------------ *)
(* whole histories *)

Lemma ideal_step_core w o cs : se_ideal (s_env (fst (sstep_core w o cs))) = se_ideal (s_env w).
Proof.
  assert (forall pend i k, let '(w1, e) := s_create pend w i in se_ideal (s_env (s_insert_comps w1 e k)) = se_ideal (s_env w)) as Hcr.
  { intros pend i k. pose proof (s_create_env pend w i) as E. destruct (s_create pend w i) as [w1 e]. cbn [fst] in E.
    unfold s_insert_comps. cbn [s_with_env s_env]. rewrite ideal_insert_comps, E. reflexivity. }
  assert (forall s' es r, se_ideal (s_env (s_purge_killed (with_life w s') es r)) = se_ideal (s_env w)) as Hk.
  { intros s' es r. unfold s_purge_killed. cbn [s_with_env s_env with_life]. apply ideal_delete_components. }
  destruct o as [k|k|n| |n|built k|k|h|hs|h| | |h|h| |h| |so| |lsid lh lv|lsid ll|lsid lh|prog|qso|jk jms|cso| ]; cbn [sstep_core].
  - specialize (Hcr false (hd_choice cs) k). destruct (s_create false w (hd_choice cs)) as [w1 e]. exact Hcr.
  - specialize (Hcr false (hd_choice cs) k). destruct (s_create false w (hd_choice cs)) as [w1 e]. cbn [fst]. rewrite s_builder_drop_envE. exact Hcr.
  - pose proof (s_create_n_envE false n w cs) as E. destruct (s_create_n false n w cs) as [w1 l]. cbn [fst] in *. rewrite E. reflexivity.
  - pose proof (s_create_env true w (hd_choice cs)) as E. destruct (s_create true w (hd_choice cs)) as [w1 e]. cbn [fst] in *. rewrite E. reflexivity.
  - pose proof (s_create_n_envE true n w cs) as E. destruct (s_create_n true n w cs) as [w1 l]. cbn [fst] in *. rewrite E. reflexivity.
  - specialize (Hcr true (hd_choice cs) k). destruct (s_create true w (hd_choice cs)) as [w1 e]. cbn [fst].
    destruct built; [|rewrite s_builder_drop_envE]; exact Hcr.
  - pose proof (s_create_env true w (hd_choice cs)) as E. destruct (s_create true w (hd_choice cs)) as [w1 e]. cbn [fst] in *. rewrite E. reflexivity.
  - destruct (hget (s_hs w) h) as [e|]; [|reflexivity]. destruct (l_kill_res (s_life w) [e]) as [s' r]. cbn [fst]. apply Hk.
  - destruct (hget_all (s_hs w) hs) as [es|]; [|reflexivity]. destruct (l_kill_res (s_life w) es) as [s' r]. cbn [fst]. apply Hk.
  - destruct (hget (s_hs w) h) as [e|]; [|reflexivity]. destruct (l_kill_def (s_life w) e) as [s' ok]. reflexivity.
  - destruct (l_kill_res (s_life w) (l_entities (s_life w))) as [s' r]. cbn [fst]. destruct r; cbn [s_fail s_env]; apply Hk.
  - destruct (l_merge (s_life w)) as [s' d]. cbn [fst]. destruct d; cbn [with_life s_with_env s_env]; [reflexivity | apply ideal_delete_components].
  - destruct (hget (s_hs w) h); reflexivity.
  - destruct (hget (s_hs w) h); reflexivity.
  - reflexivity.
  - destruct (hget (s_hs w) h); reflexivity.
  - reflexivity.
  - pose proof (ideal_sop (s_env w) (l_view (s_life w)) (s_hs w) so) as X. destruct (env_sop (s_env w) _ _ so) as [e' out]. exact X.
  - reflexivity.
  - destruct (hget (s_hs w) lh); reflexivity.
  - destruct (hget_all (s_hs w) (map fst ll)); reflexivity.
  - destruct (hget (s_hs w) lh); reflexivity.
  - reflexivity.
  - cbn [fst s_with_env s_env]. apply ideal_sop_quiet.
  - pose proof (ideal_join (s_env w) (l_view (s_life w)) (eids_of (l_entities (s_life w))) (s_hs w) jk jms) as X.
    destruct (env_join (s_env w) _ _ _ jk jms) as [e' j]. exact X.
  - pose proof (ideal_csop (s_env w) (s_hs w) cso) as X. destruct (env_csop (s_env w) (s_hs w) cso) as [e' r]. exact X.
  - reflexivity.
Qed.

Lemma WInv_begin w : WInv w -> WInv (s_begin w).
Proof.
  intros [HE HP Hi]. split; [apply SInvE_begin; exact HE | | exact Hi].
  intros sid ms Hs. unfold s_begin, env_begin in Hs. cbn [s_with_env s_env env_cx se_stores] in Hs. eapply HP. exact Hs.
Qed.

Lemma content_begin w L : env_content (s_env w) L -> env_content (s_env (s_begin w)) L.
Proof. unfold s_begin, env_begin. cbn [s_with_env s_env]. apply env_content_cx. Qed.

Fixpoint run_ins (w : sworld) (tr : list (op * wout)) : list N :=
  match tr with
  | [] => []
  | (o, out) :: tr' => op_ins (s_begin w) o ++ run_ins (fst (sstep w o (choices_of out))) tr'
  end.
Fixpoint run_rets (w : sworld) (tr : list (op * wout)) : list N :=
  match tr with
  | [] => []
  | (o, out) :: tr' =>
      op_rets (s_begin w) o (choices_of out) (snd (sstep w o (choices_of out))) ++ run_rets (fst (sstep w o (choices_of out))) tr'
  end.
(* everything destroyed along the history (each step's list starts empty) *)
Fixpoint run_drops (w : sworld) (tr : list (op * wout)) : list N :=
  match tr with
  | [] => []
  | (o, out) :: tr' =>
      cx_drops (se_cx (s_env (fst (sstep w o (choices_of out))))) ++ run_drops (fst (sstep w o (choices_of out))) tr'
  end.

Lemma perm_interleave (A r R d D : list N) : Permutation (A ++ (r ++ R) ++ (d ++ D)) ((A ++ R ++ D) ++ (r ++ d)).
Proof.
  rewrite <- !app_assoc. apply Permutation_app_head.
  apply perm_trans with ((R ++ d ++ D) ++ r); [apply Permutation_app_comm|]. rewrite <- !app_assoc. apply Permutation_app_head.
  apply perm_trans with ((D ++ r) ++ d); [apply Permutation_app_comm|]. rewrite <- app_assoc. apply Permutation_refl.
Qed.

Theorem history_conserves tr : forall w L0, WInv w -> regs_ok w tr = true -> forallb (fun p => ledger_op (fst p)) tr = true ->
  env_content (s_env w) L0 ->
  exists Lf, env_content (s_env (fst (srun w tr))) Lf /\
             Permutation (Lf ++ run_rets w tr ++ run_drops w tr) (L0 ++ run_ins w tr).
Proof.
  induction tr as [|[o out] tr IH]; intros w L0 HW Hr Hl HC.
  - exists L0. split; [exact HC|]. cbn. rewrite !app_nil_r. apply Permutation_refl.
  - cbn [regs_ok forallb fst] in Hr, Hl. apply andb_true_iff in Hr. destruct Hr as [R1 R2]. apply andb_true_iff in Hl. destruct Hl as [L1 L2].
    rewrite srun_cons. cbn [fst run_ins run_rets run_drops].
    pose proof (WInv_begin w HW) as HB.
    assert (op_regs_ok (s_env (s_begin w)) o = true) as R1' by (rewrite op_regs_ok_begin; exact R1).
    pose proof (sstep_core_ledger (s_begin w) o (choices_of out) HB R1' L1) as [P1 S1].
    fold (sstep w o (choices_of out)) in P1, S1.
    destruct (S1 L0 (content_begin w L0 HC)) as [L1' [d [C1 [D Q]]]].
    assert (cx_drops (se_cx (s_env (s_begin w))) = []) as Eb by reflexivity. rewrite Eb, app_nil_r in D.
    assert (WInv (fst (sstep w o (choices_of out)))) as HW1.
    { split; [apply sstep_ok; [exact (WI_e _ HW) | exact R1] | exact P1 |].
      unfold sstep. rewrite ideal_step_core. exact (WI_ideal _ HB). }
    destruct (IH (fst (sstep w o (choices_of out))) L1' HW1 R2 L2 C1) as [Lf [Cf Qf]].
    exists Lf. split; [exact Cf|]. rewrite D.
    set (r1 := op_rets (s_begin w) o (choices_of out) (snd (sstep w o (choices_of out)))) in *.
    set (i1 := op_ins (s_begin w) o) in *.
    set (w1 := fst (sstep w o (choices_of out))) in *.
    (* Qf : Lf ++ rets' ++ drops' ~ L1' ++ ins' ;  Q : L1' ++ r1 ++ d ~ L0 ++ i1 *)
    apply perm_trans with ((Lf ++ run_rets w1 tr ++ run_drops w1 tr) ++ (r1 ++ d)); [apply perm_interleave|].
    apply perm_trans with ((L1' ++ run_ins w1 tr) ++ (r1 ++ d)); [apply Permutation_app_tail; exact Qf|].
    apply perm_trans with ((L1' ++ (r1 ++ d)) ++ run_ins w1 tr); [apply perm_swap_tail|].
    apply perm_trans with ((L0 ++ i1) ++ run_ins w1 tr); [apply Permutation_app_tail; exact Q|].
    rewrite <- !app_assoc. apply Permutation_refl.
Qed.

(* from the empty world, to the end: if the history ends with the world dropped, nothing is held any more, so
   everything moved in was handed back or destroyed, each value exactly once *)
Theorem everything_handed_back_or_destroyed tr :
  regs_ok (s_init_env true) tr = true -> forallb (fun p => ledger_op (fst p)) tr = true ->
  keys_of (s_env (fst (srun (s_init_env true) tr))) = [] ->
  Permutation (run_rets (s_init_env true) tr ++ run_drops (s_init_env true) tr) (run_ins (s_init_env true) tr).
Proof.
  intros Hr Hl Hk.
  assert (WInv (s_init_env true)) as HW.
  { split; [apply SInvE_init | intros sid ms Hs; cbn in Hs; try rewrite find_empty in Hs; discriminate | reflexivity]. }
  assert (env_content (s_env (s_init_env true)) []) as H0.
  { exists (fun _ => NM.empty tok). split; [intros sid ms Hs; cbn in Hs; try rewrite find_empty in Hs; discriminate | constructor]. }
  destruct (history_conserves tr (s_init_env true) [] HW Hr Hl H0) as [Lf [[f [_ Pf]] Q]].
  rewrite Hk in Pf. cbn [flat_map] in Pf. apply Permutation_sym, Permutation_nil in Pf. subst Lf. exact Q.
Qed.
