(* The specification world machine: the lifecycle allocator; the index of
   every creation is supplied from outside (the [choices]: the indices of
   the handles the implementation returned for this operation).
   (Phase A: the entity part.)  Definitions only. *)
From SV Require Export World.Ops Alloc.AllocStep World.World.

Record sworld := {
  s_life : lstate;
  s_hs : pvec entity;
  s_hl : list entity;
  s_ok : bool;                 (* false once a choice was invalid or an unwrap failed *)
  s_env : senv }.

Definition s_init_env (ideal : bool) : sworld :=
  {| s_life := l_init; s_hs := pv_empty; s_hl := []; s_ok := true; s_env := env_init ideal |}.
Definition s_init : sworld := s_init_env false.

Definition with_life (w : sworld) (s : lstate) : sworld :=
  {| s_life := s; s_hs := s_hs w; s_hl := s_hl w; s_ok := s_ok w; s_env := s_env w |}.
Definition s_push_h (w : sworld) (e : entity) : sworld :=
  {| s_life := s_life w; s_hs := pv_push (s_hs w) e; s_hl := e :: s_hl w; s_ok := s_ok w; s_env := s_env w |}.
Definition s_fail (w : sworld) : sworld :=
  {| s_life := s_life w; s_hs := s_hs w; s_hl := s_hl w; s_ok := false; s_env := s_env w |}.
Definition s_with_env (w : sworld) (e : senv) : sworld :=
  {| s_life := s_life w; s_hs := s_hs w; s_hl := s_hl w; s_ok := s_ok w; s_env := e |}.

Definition l_view (s : lstate) : aview :=
  {| av_alive := l_is_alive s; av_cur_gen := fun i => snd (l_entity_at s i); av_err_gen := l_err_gen s |}.

Definition s_insert_comps (w : sworld) (e : entity) (cs : comps) : sworld :=
  s_with_env w (env_insert_comps (s_env w) (l_view (s_life w)) e cs).

Definition s_purge_killed (w : sworld) (es : list entity) (r : option (nat * Z)) : sworld :=
  let killed := match r with None => es | Some (pos, _) => firstn pos es end in
  s_with_env w (env_delete_components (s_env w) killed).

Definition s_create (pend : bool) (w : sworld) (i : N) : sworld * entity :=
  let ok := valid_choice (s_life w) i in
  let '(s', e) := l_create pend (s_life w) i in
  let w1 := s_push_h (with_life w s') e in
  ((if ok then w1 else s_fail w1), e).

Fixpoint s_create_n (pend : bool) (n : nat) (w : sworld) (cs : list N) : sworld * list entity :=
  match n with
  | O => (w, [])
  | S n' =>
      match cs with
      | [] => (s_fail w, [])
      | i :: cs' => let '(w1, e) := s_create pend w i in
                    let '(w2, l) := s_create_n pend n' w1 cs' in (w2, e :: l)
      end
  end.

Definition s_builder_drop (w : sworld) (e : entity) : sworld :=
  let '(s', ok) := l_kill_def (s_life w) e in
  if ok then with_life w s' else s_fail (with_life w s').

Definition hd_choice (cs : list N) : N := match cs with i :: _ => i | [] => 0 end.

Definition sstep_core (w : sworld) (o : op) (cs : list N) : sworld * wout :=
  match o with
  | OCreate k => let '(w1, e) := s_create false w (hd_choice cs) in (s_insert_comps w1 e k, WHandles [e])
  | OCreateDropped k =>
      let '(w1, e) := s_create false w (hd_choice cs) in (s_builder_drop (s_insert_comps w1 e k) e, WHandles [e])
  | OCreateIter n => let '(w1, l) := s_create_n false n w cs in (w1, WHandles l)
  | OECreate => let '(w1, e) := s_create true w (hd_choice cs) in (w1, WHandles [e])
  | OECreateIter n => let '(w1, l) := s_create_n true n w cs in (w1, WHandles l)
  | OEBuild built k =>
      let '(w1, e) := s_create true w (hd_choice cs) in
      let w2 := s_insert_comps w1 e k in
      ((if built then w2 else s_builder_drop w2 e), WHandles [e])
  | OLazyCreate _ => let '(w1, e) := s_create true w (hd_choice cs) in (w1, WHandles [e])
  | ODelete h =>
      match hget (s_hs w) h with
      | Some e => let '(s', r) := l_kill_res (s_life w) [e] in (s_purge_killed (with_life w s') [e] r, WKill r)
      | None => (w, WSkip)
      end
  | ODeleteMany hs =>
      match hget_all (s_hs w) hs with
      | Some es => let '(s', r) := l_kill_res (s_life w) es in (s_purge_killed (with_life w s') es r, WKill r)
      | None => (w, WSkip)
      end
  | OEDelete h =>
      match hget (s_hs w) h with
      | Some e =>
          let '(s', ok) := l_kill_def (s_life w) e in
          (with_life w s', WKillDef (if ok then None else Some (l_err_gen (s_life w) (fst e))))
      | None => (w, WSkip)
      end
  | ODeleteAll =>
      let es := l_entities (s_life w) in
      let '(s', r) := l_kill_res (s_life w) es in
      let w1 := s_purge_killed (with_life w s') es r in
      ((match r with None => w1 | Some _ => s_fail w1 end), WEnts es)
  | OMaintain =>
      let '(s', deleted) := l_merge (s_life w) in
      let w1 := with_life w s' in
      ((match deleted with [] => w1 | _ => s_with_env w1 (env_delete_components (s_env w1) deleted) end), WUnit)
  | OIsAlive h =>
      match hget (s_hs w) h with
      | Some e => (w, WBool (l_is_alive (s_life w) e))
      | None => (w, WSkip)
      end
  | OWIsAlive h =>
      match hget (s_hs w) h with
      | Some e => (w, WBool (l_is_alive_merged (s_life w) e))
      | None => (w, WSkip)
      end
  | OJoinEntities => (w, WEnts (l_entities (s_life w)))
  | OEntityAt h =>
      match hget (s_hs w) h with
      | Some e => (w, WHandles [l_entity_at (s_life w) (fst e)])
      | None => (w, WSkip)
      end
  | OProbeAll => (w, WBools (rev (map (l_is_alive (s_life w)) (s_hl w))))
  | OStore so =>
      let '(e', out) := env_sop (s_env w) (l_view (s_life w)) (s_hs w) so in (s_with_env w e', out)
  | ODropWorld => (s_with_env w (env_drop_world (s_env w)), WUnit)
  | OQuiet so =>
      (s_with_env w (env_sop_quiet (s_env w) (l_view (s_life w)) (s_hs w) so), WUnit)
  | OLazyInsert _ h _ | OLazyRemove _ h => (w, match hget (s_hs w) h with Some _ => WUnit | None => WSkip end)
  | OLazyInsertAll _ l => (w, match hget_all (s_hs w) (map fst l) with Some _ => WUnit | None => WSkip end)
  | OLazyExec _ => (w, WUnit)
  | OJoin k ms =>
      let '(e', j) := env_join (s_env w) (l_view (s_life w)) (eids_of (l_entities (s_life w))) (s_hs w) k ms in
      (s_with_env w e', jout_wout j)
  | OCs c => let '(e', r) := env_csop (s_env w) (s_hs w) c in (s_with_env w e', cs_out r)
  | OBad => (w, WSkip)
  end.

Definition s_begin (w : sworld) : sworld := s_with_env w (env_begin (s_env w)).
Definition sstep (w : sworld) (o : op) (cs : list N) : sworld * wout := sstep_core (s_begin w) o cs.

(* the choices an observed output reveals *)
Definition choices_of (out : wout) : list N :=
  match out with WHandles l => map fst l | _ => [] end.

(* specification run driven by observed outputs *)
Fixpoint srun (w : sworld) (tr : list (op * wout)) : sworld * list wout :=
  match tr with
  | [] => (w, [])
  | (o, out) :: tr' => let '(w1, out1) := sstep w o (choices_of out) in
                       let '(w2, outs) := srun w1 tr' in (w2, out1 :: outs)
  end.

(* Acceptance of an observed transcript: position of the first operation
   where the specification, fed with the observed choices, disagrees with
   the observed output (code 1) or finds a choice invalid (code 2). *)
Fixpoint saccept (w : sworld) (tr : list (op * wout)) (pos : nat) : option (nat * nat) :=
  match tr with
  | [] => None
  | (o, out) :: tr' =>
      let '(w1, out1) := sstep w o (choices_of out) in
      if negb (s_ok w1) then Some (pos, 2%nat)
      else if wout_eqb out out1 then saccept w1 tr' (S pos) else Some (pos, 1%nat)
  end.
