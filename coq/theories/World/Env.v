(* The component-storage part of a world: resources (one MaskedStorage per
   registered component type), the MetaTable (registration order), the effects
   of the current operation.  Shared by the faithful and the specification
   machine; the allocator is seen through an [aview].  Definitions only. *)
From SV Require Export World.Ops.

Definition kind_of (sid : N) : option (kind * wrap) :=
  match sid with
  | 0 => Some (KVec, WPlain) | 1 => Some (KDense, WPlain) | 2 => Some (KDefault, WPlain)
  | 3 => Some (KHash, WPlain) | 4 => Some (KBTree, WPlain) | 5 => Some (KNull, WPlain)
  | 6 => Some (KVec, WFlagged) | 7 => Some (KDense, WFlagged) | 8 => Some (KDefault, WFlagged)
  | 9 => Some (KHash, WFlagged) | 10 => Some (KBTree, WFlagged)
  | 11 => Some (KVec, WDeref) | 12 => Some (KDense, WDeref) | 13 => Some (KDefault, WDeref)
  | 14 => Some (KHash, WDeref) | 15 => Some (KBTree, WDeref)
  | _ => None
  end.

Record senv := {
  se_stores : NM.t mstore;      (* resources MaskedStorage<T>, by storage id *)
  se_table : list N;            (* MetaTable<dyn AnyStorage>: registration order *)
  se_cx : ctx;                  (* effects of the current operation *)
  se_ideal : bool }.            (* every storage is the plain map (specification level) *)

Definition env_init (ideal : bool) : senv :=
  {| se_stores := NM.empty mstore; se_table := []; se_cx := cx0; se_ideal := ideal |}.

Definition env_cx (e : senv) (c : ctx) : senv :=
  {| se_stores := se_stores e; se_table := se_table e; se_cx := c; se_ideal := se_ideal e |}.
Definition env_put (e : senv) (sid : N) (ms : mstore) (c : ctx) : senv :=
  {| se_stores := NM.add sid ms (se_stores e); se_table := se_table e; se_cx := c; se_ideal := se_ideal e |}.
Definition env_fail (e : senv) : senv := env_cx e (cx_fail (se_cx e)).

(* the effects of the previous operation are forgotten, the stuck flag is sticky *)
Definition env_begin (e : senv) : senv :=
  env_cx e {| cx_drops := []; cx_mints := 0; cx_stuck := cx_stuck (se_cx e) |}.

(* register / register_with_storage / ReadStorage::setup / WriteStorage::setup:
   entry().or_insert_with(..) and MetaTable::register (idempotent) *)
Definition env_register (e : senv) (sid : N) : senv :=
  match kind_of sid with
  | None => env_fail e
  | Some (k, w) =>
      let stores := match NM.find sid (se_stores e) with
                    | Some _ => se_stores e
                    | None => NM.add sid (ms_new (if se_ideal e then KBTree else k) w (match k with KNull => true | _ => false end)) (se_stores e)
                    end in
      let table := if existsb (N.eqb sid) (se_table e) then se_table e else se_table e ++ [sid] in
      {| se_stores := stores; se_table := table; se_cx := se_cx e; se_ideal := se_ideal e |}
  end.

(* builder.with(c): WriteStorage fetch (panics if the component is not registered), insert(..).unwrap() *)
Fixpoint env_insert_comps (e : senv) (av : aview) (ent : entity) (cs : comps) : senv :=
  match cs with
  | [] => e
  | (sid, v) :: cs' =>
      match NM.find sid (se_stores e) with
      | None => env_insert_comps (env_cx e (cx_drop (cx_fail (se_cx e)) v)) av ent cs'
      | Some ms =>
          let '(ms1, r, c1) := st_insert ms av ent v (se_cx e) in
          let c2 := match r with InsErr _ => cx_fail c1 | _ => c1 end in
          env_insert_comps (env_put e sid ms1 c2) av ent cs'
      end
  end.

(* WorldExt::delete_components: every storage of the MetaTable, in its order *)
Fixpoint env_purge_tbl (stores : NM.t mstore) (tbl : list N) (ids : list N) (c : ctx) : NM.t mstore * ctx :=
  match tbl with
  | [] => (stores, c)
  | sid :: tbl' =>
      match NM.find sid stores with
      | Some ms => let '(ms1, c1) := m_drop_all ms ids c in env_purge_tbl (NM.add sid ms1 stores) tbl' ids c1
      | None => env_purge_tbl stores tbl' ids (cx_fail c)
      end
  end.

Definition env_delete_components (e : senv) (ents : list entity) : senv :=
  let '(stores, c) := env_purge_tbl (se_stores e) (se_table e) (map fst ents) (se_cx e) in
  {| se_stores := stores; se_table := se_table e; se_cx := c; se_ideal := se_ideal e |}.

(* drop(world): every MaskedStorage clears itself *)
Fixpoint env_drop_all (l : list (N * mstore)) (c : ctx) : ctx :=
  match l with
  | [] => c
  | (_, ms) :: l' => let '(_, c1) := m_clear ms c in env_drop_all l' c1
  end.
Definition env_drop_world (e : senv) : senv :=
  {| se_stores := NM.empty mstore; se_table := []; se_cx := env_drop_all (NM.elements (se_stores e)) (se_cx e);
     se_ideal := se_ideal e |}.

(* one storage operation; [hs] resolves handle references *)
Definition env_sop (e : senv) (av : aview) (hs : pvec entity) (so : sop) : senv * wout :=
  let with_store sid (k : mstore -> senv * wout) : senv * wout :=
    match NM.find sid (se_stores e) with
    | Some ms => k ms
    | None => (env_fail e, WSkip)      (* fetching an unregistered component panics *)
    end in
  let with_handle h (k : entity -> senv * wout) : senv * wout :=
    match pv_get hs (N.of_nat h) with
    | Some ent => k ent
    | None => (e, WSkip)
    end in
  match so with
  | SInsert sid h v =>
      with_handle h (fun ent => with_store sid (fun ms =>
        let '(ms1, r, c1) := st_insert ms av ent v (se_cx e) in (env_put e sid ms1 c1, WIns r)))
  | SGet sid h =>
      with_handle h (fun ent => with_store sid (fun ms =>
        let '(r, c1) := st_get ms av ent (se_cx e) in (env_cx e c1, WOptTok r)))
  | SGetMut sid h touch nv =>
      with_handle h (fun ent => with_store sid (fun ms =>
        let '(ms1, r, c1) := st_get_mut ms av ent touch nv (se_cx e) in (env_put e sid ms1 c1, WOptTok r)))
  | SRemove sid h =>
      with_handle h (fun ent => with_store sid (fun ms =>
        let '(ms1, r, c1) := st_remove ms av ent (se_cx e) in (env_put e sid ms1 c1, WOptTok r)))
  | SContains sid h =>
      with_handle h (fun ent => with_store sid (fun ms => (e, WBool (st_contains ms av ent))))
  | SCount sid => with_store sid (fun ms => (e, WNat (N.of_nat (NS.cardinal (ms_mask ms)))))
  | SIsEmpty sid => with_store sid (fun ms => (e, WBool (NS.is_empty (ms_mask ms))))
  | SMask sid => with_store sid (fun ms => (e, WIdx (NS.elements (ms_mask ms))))
  | SSlice sid =>
      with_store sid (fun ms =>
        match ms_wrap ms with
        | WPlain =>
            let '(v, c1) := u_slice (ms_raw ms) (NS.elements (ms_mask ms)) (se_cx e) in (env_cx e c1, WSlice v)
        | _ => (e, WSlice SliceNone)       (* the wrappers do not implement SliceAccess *)
        end)
  | SClear sid =>
      with_store sid (fun ms => let '(ms1, c1) := m_clear ms (se_cx e) in (env_put e sid ms1 c1, WUnit))
  | SDrain sid =>
      with_store sid (fun ms => let '(ms1, l, c1) := st_drain ms (se_cx e) in (env_put e sid ms1 c1, WToks l))
  | SEntry sid h eo =>
      with_handle h (fun ent => with_store sid (fun ms =>
        let '(ms1, r, c1) := st_entry ms av ent eo (se_cx e) in (env_put e sid ms1 c1, WEntry r)))
  | SGetMutOrDefault sid h =>
      with_handle h (fun ent => with_store sid (fun ms =>
        let '(ms1, r, c1) := st_get_mut_or_default ms av ent (se_cx e) in (env_put e sid ms1 c1, WOptTok r)))
  | SRegister sid => (env_register e sid, WUnit)
  | SRegReader sid =>
      with_store sid (fun ms =>
        match ms_wrap ms with
        | WPlain => (e, WSkip)
        | _ => let '(ms1, k) := st_register_reader ms in (env_put e sid ms1 (se_cx e), WReader k)
        end)
  | SReadEvents sid k =>
      with_store sid (fun ms =>
        match st_read_events ms k with
        | (ms1, Some l) => (env_put e sid ms1 (se_cx e), WEvents l)
        | (_, None) => (e, WSkip)
        end)
  | SSetEmission sid b =>
      with_store sid (fun ms =>
        match ms_wrap ms with
        | WPlain => (e, WSkip)
        | _ => (env_put e sid (st_set_emission ms b) (se_cx e), WUnit)
        end)
  end.
