(* The component-storage part of a world: resources (one MaskedStorage per
   registered component type), the MetaTable (registration order), the effects
   of the current operation.  Shared by the faithful and the specification
   machine; the allocator is seen through an [aview].  Definitions only. *)
From SV Require Export World.Ops.

Definition kind_of (sid : N) : option (kind * wrap) :=
  match sid with
  | 0 => Some (KVec, WPlain) | 1 => Some (KDense, WPlain) | 2 => Some (KDefault, WPlain)
  | 3 => Some (KHash, WPlain) | 4 => Some (KBTree, WPlain) | 5 => Some (KNull, WPlain)
  | 6 => Some (KVec, WFlagged) | 7 => Some (KDense, WFlagged) | 8 => Some (KDefault, WFlagged)
  | 9 => Some (KHash, WFlagged) | 10 => Some (KBTree, WFlagged)
  | 11 => Some (KVec, WDeref) | 12 => Some (KDense, WDeref) | 13 => Some (KDefault, WDeref)
  | 14 => Some (KHash, WDeref) | 15 => Some (KBTree, WDeref)
  | 16 => Some (KNull, WFlagged) | 17 => Some (KNull, WDeref)      (* zero-sized components on the tracking wrappers *)
  | _ => None
  end.

Record senv := {
  se_stores : NM.t mstore;      (* resources MaskedStorage<T>, by storage id *)
  se_table : list N;            (* MetaTable<dyn AnyStorage>: registration order *)
  se_cx : ctx;                  (* effects of the current operation *)
  se_ideal : bool;              (* every storage is the plain map (specification level) *)
  se_cs : NM.t (NM.t Z) }.      (* change sets held by the caller, by slot: index -> accumulated amount *)

Definition env_init (ideal : bool) : senv :=
  {| se_stores := NM.empty mstore; se_table := []; se_cx := cx0; se_ideal := ideal; se_cs := NM.empty (NM.t Z) |}.

Definition env_cx (e : senv) (c : ctx) : senv :=
  {| se_stores := se_stores e; se_table := se_table e; se_cx := c; se_ideal := se_ideal e; se_cs := se_cs e |}.
Definition env_put (e : senv) (sid : N) (ms : mstore) (c : ctx) : senv :=
  {| se_stores := NM.add sid ms (se_stores e); se_table := se_table e; se_cx := c; se_ideal := se_ideal e; se_cs := se_cs e |}.
Definition env_fail (e : senv) : senv := env_cx e (cx_fail (se_cx e)).

(* the effects of the previous operation are forgotten, the stuck flag is sticky *)
Definition env_begin (e : senv) : senv :=
  env_cx e {| cx_drops := []; cx_mints := 0; cx_stuck := cx_stuck (se_cx e) |}.

(* register / register_with_storage / ReadStorage::setup / WriteStorage::setup:
   entry().or_insert_with(..) and MetaTable::register (idempotent) *)
Definition env_register (e : senv) (sid : N) : senv :=
  match kind_of sid with
  | None => env_fail e
  | Some (k, w) =>
      let stores := match NM.find sid (se_stores e) with
                    | Some _ => se_stores e
                    | None => NM.add sid (ms_new (if se_ideal e then KBTree else k) w (match k with KNull => true | _ => false end)) (se_stores e)
                    end in
      let table := if existsb (N.eqb sid) (se_table e) then se_table e else se_table e ++ [sid] in
      {| se_stores := stores; se_table := table; se_cx := se_cx e; se_ideal := se_ideal e; se_cs := se_cs e |}
  end.

(* builder.with(c): WriteStorage fetch (panics if the component is not registered), insert(..).unwrap() *)
Fixpoint env_insert_comps (e : senv) (av : aview) (ent : entity) (cs : comps) : senv :=
  match cs with
  | [] => e
  | (sid, v) :: cs' =>
      match NM.find sid (se_stores e) with
      | None => env_insert_comps (env_cx e (cx_drop (cx_fail (se_cx e)) v)) av ent cs'
      | Some ms =>
          let '(ms1, r, c1) := st_insert ms av ent v (se_cx e) in
          (* a value already there (the same component type attached twice) is swapped out and destroyed *)
          let c2 := match r with InsErr _ => cx_fail c1 | InsOld t => cx_drop c1 t | _ => c1 end in
          env_insert_comps (env_put e sid ms1 c2) av ent cs'
      end
  end.

(* WorldExt::delete_components: every storage of the MetaTable, in its order *)
Fixpoint env_purge_tbl (stores : NM.t mstore) (tbl : list N) (ids : list N) (c : ctx) : NM.t mstore * ctx :=
  match tbl with
  | [] => (stores, c)
  | sid :: tbl' =>
      match NM.find sid stores with
      | Some ms => let '(ms1, c1) := m_drop_all ms ids c in env_purge_tbl (NM.add sid ms1 stores) tbl' ids c1
      | None => env_purge_tbl stores tbl' ids (cx_fail c)
      end
  end.

Definition env_delete_components (e : senv) (ents : list entity) : senv :=
  let '(stores, c) := env_purge_tbl (se_stores e) (se_table e) (map fst ents) (se_cx e) in
  {| se_stores := stores; se_table := se_table e; se_cx := c; se_ideal := se_ideal e; se_cs := se_cs e |}.

(* drop(world): every MaskedStorage clears itself *)
Fixpoint env_drop_all (l : list (N * mstore)) (c : ctx) : ctx :=
  match l with
  | [] => c
  | (_, ms) :: l' => let '(_, c1) := m_clear ms c in env_drop_all l' c1
  end.
Definition env_drop_world (e : senv) : senv :=
  {| se_stores := NM.empty mstore; se_table := []; se_cx := env_drop_all (NM.elements (se_stores e)) (se_cx e);
     se_ideal := se_ideal e; se_cs := se_cs e |}.

(* which storage an operation addresses, and whether it takes an entity handle *)
Definition sop_sid (so : sop) : N :=
  match so with
  | SInsert s _ _ | SGet s _ | SGetMut s _ _ _ | SRemove s _ | SContains s _ | SCount s | SIsEmpty s | SMask s
  | SSlice s | SClear s | SDrain s _ | SEntry s _ _ | SGetMutOrDefault s _ | SRegister s | SRegReader s
  | SReadEvents s _ | SSetEmission s _ => s
  end.
Definition sop_handle (so : sop) : option href :=
  match so with
  | SInsert _ h _ | SGet _ h | SGetMut _ h _ _ | SRemove _ h | SContains _ h | SEntry _ h _ | SGetMutOrDefault _ h => Some h
  | _ => None
  end.

(* one operation on one (registered) storage; [ent] is the resolved handle (a
   dummy for operations without one) *)
Definition ms_sop (ms : mstore) (av : aview) (ent : entity) (so : sop) (c : ctx) : mstore * wout * ctx :=
  match so with
  | SInsert _ _ v => let '(ms1, r, c1) := st_insert ms av ent v c in (ms1, WIns r, c1)
  | SGet _ _ => let '(r, c1) := st_get ms av ent c in (ms, WOptTok r, c1)
  | SGetMut _ _ touch nv => let '(ms1, r, c1) := st_get_mut ms av ent touch nv c in (ms1, WOptTok r, c1)
  | SRemove _ _ => let '(ms1, r, c1) := st_remove ms av ent c in (ms1, WOptTok r, c1)
  | SContains _ _ => (ms, WBool (st_contains ms av ent), c)
  | SCount _ => (ms, WNat (N.of_nat (NS.cardinal (ms_mask ms))), c)
  | SIsEmpty _ => (ms, WBool (NS.is_empty (ms_mask ms)), c)
  | SMask _ => (ms, WIdx (NS.elements (ms_mask ms)), c)
  | SSlice _ =>
      match ms_wrap ms with
      | WPlain => let '(v, c1) := u_slice (ms_raw ms) (NS.elements (ms_mask ms)) c in (ms, WSlice v, c1)
      | _ => (ms, WSlice SliceNone, c)       (* the wrappers do not implement SliceAccess *)
      end
  | SClear _ => let '(ms1, c1) := m_clear ms c in (ms1, WUnit, c1)
  | SDrain _ lim => let '(ms1, l, c1) := st_drain ms lim c in (ms1, WToks l, c1)
  | SEntry _ _ eo => let '(ms1, r, c1) := st_entry ms av ent eo c in (ms1, WEntry r, c1)
  | SGetMutOrDefault _ _ => let '(ms1, r, c1) := st_get_mut_or_default ms av ent c in (ms1, WOptTok r, c1)
  | SRegister _ => (ms, WUnit, c)
  | SRegReader _ =>
      match ms_wrap ms with
      | WPlain => (ms, WSkip, c)
      | _ => let '(ms1, k) := st_register_reader ms in (ms1, WReader k, c)
      end
  | SReadEvents _ k =>
      match st_read_events ms k with
      | (ms1, Some l) => (ms1, WEvents l, c)
      | (_, None) => (ms, WSkip, c)
      end
  | SSetEmission _ b =>
      match ms_wrap ms with
      | WPlain => (ms, WSkip, c)
      | _ => (st_set_emission ms b, WUnit, c)
      end
  end.

(* one storage operation; [hs] resolves handle references *)
Definition env_sop (e : senv) (av : aview) (hs : pvec entity) (so : sop) : senv * wout :=
  match so with
  | SRegister sid => (env_register e sid, WUnit)
  | _ =>
      let go (ent : entity) : senv * wout :=
        match NM.find (sop_sid so) (se_stores e) with
        | Some ms => let '(ms1, out, c1) := ms_sop ms av ent so (se_cx e) in (env_put e (sop_sid so) ms1 c1, out)
        | None => (env_fail e, WSkip)      (* fetching an unregistered component panics *)
        end in
      match sop_handle so with
      | Some h => match pv_get hs (N.of_nat h) with Some ent => go ent | None => (e, WSkip) end
      | None => go (0, 0%Z)
      end
  end.

(* the same operation performed by a lazy insert / remove: nobody looks at the result, so a value
   handed back (the replaced or the removed one) is destroyed on the spot *)
Definition env_sop_quiet (e : senv) (av : aview) (hs : pvec entity) (so : sop) : senv :=
  let '(e', out) := env_sop e av hs so in
  match out with
  | WIns (InsOld t) | WOptTok (Some t) => env_cx e' (cx_drop (se_cx e') t)
  | _ => e'
  end.
