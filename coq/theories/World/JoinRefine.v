(* The join on real storages (World/Join.v) refines the join on plain maps
   (World/JoinAbs.v): related states give the same items and stay related;
   the real join is stuck exactly when the map join accesses a missing slot. *)
From SV Require Import Base.ListX Store.Raw Store.RawRefine Store.Masked Store.StoreInv World.Env World.Join World.JoinAbs
  World.JoinProps.

Record absrel (unit : N -> bool) (e : senv) (S : astate) : Prop := {
  AR_st : forall sid, match NM.find sid (se_stores e) with
                      | Some ms => MInv ms (as_st S sid) /\ ms_unit ms = unit sid
                      | None => forall i, NM.find i (as_st S sid) = None
                      end;
  AR_cs : forall k, cs_get e k = as_cs S k;
  AR_ok : cx_stuck (se_cx e) = negb (as_ok S) }.

Lemma mem_find_some {A} (m : NM.t A) i : NM.mem i m = match NM.find i m with Some _ => true | None => false end.
Proof. apply NMF.mem_find_b. Qed.

(* one primitive on one storage *)
Lemma ms_jact_abs ms mp u a c : MInv ms mp -> ms_unit ms = u ->
  let '(ms', t, c') := ms_jact ms a c in
  let '(mp', t', ok) := a_act1 u mp a in
  t = t' /\ MInv ms' mp' /\ ms_unit ms' = u /\ cx_stuck c' = cx_stuck c || negb ok /\ (ok = false -> mp' = mp).
Proof.
  intros HM Hu. pose proof (MI_keys _ _ HM) as Hk. destruct a as [i|i touch d|i]; cbn [ms_jact a_act1].
  - rewrite (Hk i). destruct (NM.find i mp) as [t|] eqn:Hf.
    + rewrite (u_get_ref _ mp i t c (MI_rel _ _ HM) Hf). rewrite orb_false_r. auto.
    + cbn [cx_fail cx_stuck]. rewrite orb_true_r. auto.
  - rewrite (Hk i). destruct (NM.find i mp) as [t|] eqn:Hf.
    + rewrite (u_get_ref _ mp i t c (MI_rel _ _ HM) Hf).
      pose proof (w_access_mut_char ms mp i t touch (match d with Some z => USetVal (snd t + z) | None => UNone end) c HM Hf) as X.
      destruct (w_access_mut ms i touch _ c) as [[ms' old] c'].
      destruct X as [X1 [X2 [X3 [_ [_ X6]]]]]; [destruct d; exact I|]. subst old c'.
      split; [reflexivity|]. split; [|split; [|split; [rewrite orb_false_r; reflexivity | discriminate]]].
      * destruct d as [z|]; cbn [upd_map] in X2; [|exact X2]. unfold tnorm in X2. unfold tn. rewrite <- Hu. exact X2.
      * destruct X6 as [_ [_ [_ Eu]]]. congruence.
    + cbn [cx_fail cx_stuck]. rewrite orb_true_r. auto.
  - pose proof (m_remove_char ms mp i c HM) as X. destruct (m_remove ms i c) as [[ms' o] c'].
    destruct X as [X1 [X2 [X3 [_ [_ [_ X7]]]]]]. subst o. rewrite (Hk i) in X2.
    assert (ms_unit ms' = u) as Hu' by (destruct X7 as [_ [_ [_ Eu]]]; congruence).
    destruct (NM.find i mp) as [t|] eqn:Hf.
    + rewrite orb_false_r. split; [reflexivity|]. split; [exact X2|]. split; [exact Hu'|]. split; [exact X3 | discriminate].
    + cbn [cx_fail cx_stuck]. rewrite orb_true_r. auto.
Qed.

Lemma upd_same {A} (f : N -> A) k x : upd f k x k = x.
Proof. unfold upd. destruct (N.eq_dec k k); [reflexivity|congruence]. Qed.
Lemma upd_other {A} (f : N -> A) k x j : k <> j -> upd f k x j = f j.
Proof. intros H. unfold upd. destruct (N.eq_dec k j); [congruence|reflexivity]. Qed.

Section Refine.
  Variable unit : N -> bool.

  Lemma env_jact_abs e S sid a : absrel unit e S ->
    snd (env_jact e sid a) = snd (a_jact unit S sid a) /\ absrel unit (fst (env_jact e sid a)) (fst (a_jact unit S sid a)).
  Proof.
    intros H. unfold env_jact, a_jact. pose proof (AR_st _ _ _ H sid) as Hs.
    destruct (NM.find sid (se_stores e)) as [ms|] eqn:Ef.
    - destruct Hs as [HM Hu].
      pose proof (ms_jact_abs ms (as_st S sid) (unit sid) a (se_cx e) HM Hu) as X.
      destruct (ms_jact ms a (se_cx e)) as [[ms' t] c']. destruct (a_act1 (unit sid) (as_st S sid) a) as [[mp' t'] ok].
      destruct X as [X1 [X2 [X3 [X4 X5]]]]. cbn [fst snd]. split; [exact X1|].
      split.
      + intros j. cbn [env_put se_stores]. rewrite find_add. destruct (N.eq_dec sid j) as [<-|Hne].
        * destruct ok; cbn [as_set as_fail as_st]; [rewrite upd_same; auto | rewrite <- (X5 eq_refl); auto].
        * pose proof (AR_st _ _ _ H j) as Hj.
          destruct ok; cbn [as_set as_fail as_st]; [rewrite upd_other by assumption|]; exact Hj.
      + intros k. unfold cs_get. cbn [env_put se_cs]. fold (cs_get e k). rewrite (AR_cs _ _ _ H k).
        destruct ok; reflexivity.
      + cbn [env_put se_cx]. rewrite X4, (AR_ok _ _ _ H). destruct ok; cbn [as_set as_fail as_ok negb]; [rewrite orb_false_r | rewrite orb_true_r]; reflexivity.
    - assert (a_act1 (unit sid) (as_st S sid) a = (as_st S sid, unit_tok, false)) as ->.
      { destruct a; cbn [a_act1]; rewrite Hs; reflexivity. }
      cbn [fst snd]. split; [reflexivity|]. split.
      + intros j. cbn [env_fail env_cx se_stores as_fail as_st]. apply (AR_st _ _ _ H j).
      + intros k. unfold cs_get. cbn [env_fail env_cx se_cs]. apply (AR_cs _ _ _ H k).
      + reflexivity.
  Qed.

  Lemma env_mask_abs e S sid i : absrel unit e S -> NS.mem i (env_mask e sid) = NM.mem i (as_st S sid).
  Proof.
    intros H. unfold env_mask. pose proof (AR_st _ _ _ H sid) as Hs. rewrite mem_find_some.
    destruct (NM.find sid (se_stores e)) as [ms|].
    - destruct Hs as [HM _]. apply (MI_keys _ _ HM).
    - rewrite Hs. apply NSF.empty_b.
  Qed.

  Lemma m_has_abs e S eids m i : absrel unit e S -> m_has e eids m i = a_has S eids m i.
  Proof.
    intros H. destruct m; cbn [m_has a_has]; rewrite ?(env_mask_abs e S _ i H), ?(AR_cs _ _ _ H); reflexivity.
  Qed.

  Lemma all_have_abs e S eids ms i : absrel unit e S -> all_have e eids ms i = a_all_have S eids ms i.
  Proof.
    intros H. unfold all_have, a_all_have. induction ms as [|m r IH]; cbn [forallb]; [reflexivity|].
    rewrite (m_has_abs e S eids m i H), IH. reflexivity.
  Qed.

  Lemma absrel_cs_put e S k mp : absrel unit e S -> absrel unit (cs_put e k mp) (as_set_cs S k mp).
  Proof.
    intros H. split.
    - intros sid. cbn [cs_put se_stores as_set_cs as_st]. apply (AR_st _ _ _ H sid).
    - intros k'. rewrite cs_get_put. cbn [as_set_cs as_cs]. unfold upd. destruct (N.eq_dec k k'); [reflexivity | apply (AR_cs _ _ _ H)].
    - cbn [cs_put se_cx as_set_cs as_ok]. apply (AR_ok _ _ _ H).
  Qed.

  Lemma absrel_fail e S : absrel unit e S -> absrel unit (env_fail e) (as_fail S).
  Proof.
    intros H. split.
    - intros sid. apply (AR_st _ _ _ H sid).
    - intros k. unfold cs_get. cbn [env_fail env_cx se_cs]. apply (AR_cs _ _ _ H k).
    - reflexivity.
  Qed.

  Lemma others_abs av hs sid mutably l : forall e S, absrel unit e S ->
    snd (others_lookup av hs sid mutably l e) = snd (a_others unit av hs sid mutably l S) /\
    absrel unit (fst (others_lookup av hs sid mutably l e)) (fst (a_others unit av hs sid mutably l S)).
  Proof.
    induction l as [|h l IH]; intros e S H; cbn [others_lookup a_others]; [cbn [fst snd]; auto|].
    destruct (pv_get hs (N.of_nat h)) as [ent|].
    - rewrite (env_mask_abs e S sid (fst ent) H). destruct (NM.mem (fst ent) (as_st S sid) && av_alive av ent).
      + destruct (env_jact_abs e S sid (if mutably then JAccess (fst ent) false None else JRead (fst ent)) H) as [X1 X2].
        destruct (env_jact e sid _) as [e1 t1]. destruct (a_jact unit S sid _) as [S1 t2]. cbn [fst snd] in *. subst t2.
        destruct (IH e1 S1 X2) as [Y1 Y2].
        destruct (others_lookup av hs sid mutably l e1) as [e2 r1]. destruct (a_others unit av hs sid mutably l S1) as [S2 r2].
        cbn [fst snd] in *. subst. auto.
      + destruct (IH e S H) as [Y1 Y2].
        destruct (others_lookup av hs sid mutably l e) as [e2 r1]. destruct (a_others unit av hs sid mutably l S) as [S2 r2].
        cbn [fst snd] in *. subst. auto.
    - destruct (IH e S H) as [Y1 Y2].
      destruct (others_lookup av hs sid mutably l e) as [e2 r1]. destruct (a_others unit av hs sid mutably l S) as [S2 r2].
      cbn [fst snd] in *. subst. auto.
  Qed.

  Lemma m_get_abs av hs excl eids m i : forall e S, absrel unit e S ->
    snd (m_get av hs excl eids m i e) = snd (a_mget unit av hs excl eids m i S) /\
    absrel unit (fst (m_get av hs excl eids m i e)) (fst (a_mget unit av hs excl eids m i S)).
  Proof.
    induction m as [sid|sid touch d| |l|sid|m IH|sid mode selmod selrem d others|k mode d|sid|bop ba bb]; intros e S H; cbn [m_get a_mget].
    - destruct (env_jact_abs e S sid (JRead i) H) as [X1 X2].
      destruct (env_jact e sid _) as [e1 t1]. destruct (a_jact unit S sid _) as [S1 t2]. cbn [fst snd] in *. subst. auto.
    - destruct (env_jact_abs e S sid (JAccess i touch d) H) as [X1 X2].
      destruct (env_jact e sid _) as [e1 t1]. destruct (a_jact unit S sid _) as [S1 t2]. cbn [fst snd] in *. subst. auto.
    - cbn [fst snd]. auto.
    - cbn [fst snd]. auto.
    - cbn [fst snd]. auto.
    - rewrite (m_has_abs e S eids m i H). destruct (a_has S eids m i); [|cbn [fst snd]; auto].
      destruct (IH e S H) as [X1 X2].
      destruct (m_get av hs excl eids m i e) as [e1 x1]. destruct (a_mget unit av hs excl eids m i S) as [S1 x2].
      cbn [fst snd] in *. subst. auto.
    - destruct (env_jact_abs e S sid (JRead i) H) as [X1 X2].
      destruct (env_jact e sid (JRead i)) as [e1 t1]. destruct (a_jact unit S sid (JRead i)) as [S1 t2]. cbn [fst snd] in *. subst t2.
      assert (absrel unit (if N.eqb mode 1 && N.eqb (N.modulo i selmod) selrem then fst (env_jact e1 sid (JAccess i true (Some d))) else e1)
                          (if N.eqb mode 1 && N.eqb (N.modulo i selmod) selrem then fst (a_jact unit S1 sid (JAccess i true (Some d))) else S1)) as X3.
      { destruct (N.eqb mode 1 && N.eqb (N.modulo i selmod) selrem); [|assumption].
        apply (env_jact_abs e1 S1 sid (JAccess i true (Some d)) X2). }
      destruct (negb (N.eqb mode 1) || excl); [|cbn [fst snd]; auto].
      destruct (others_abs av hs sid (N.eqb mode 1 && Z.odd d) others _ _ X3) as [Y1 Y2].
      destruct (others_lookup av hs sid _ others _) as [e3 r1]. destruct (a_others unit av hs sid _ others _) as [S3 r2].
      cbn [fst snd] in *. subst. auto.
    - rewrite (AR_cs _ _ _ H k). destruct (NM.find i (as_cs S k)) as [a|]; cbn [fst snd].
      + split; [reflexivity|]. destruct (N.eqb mode 1); [apply absrel_cs_put; assumption|].
        destruct (N.eqb mode 2); [apply absrel_cs_put; assumption | assumption].
      + split; [reflexivity | apply absrel_fail; assumption].
    - destruct (env_jact_abs e S sid (JRemove i) H) as [X1 X2].
      destruct (env_jact e sid _) as [e1 t1]. destruct (a_jact unit S sid _) as [S1 t2]. cbn [fst snd] in *. subst. auto.
    - cbn [fst snd]. auto.
  Qed.

  Lemma visit_members_abs av hs excl eids ms i : forall e S, absrel unit e S ->
    snd (visit_members av hs excl eids ms i e) = snd (a_visit_members unit av hs excl eids ms i S) /\
    absrel unit (fst (visit_members av hs excl eids ms i e)) (fst (a_visit_members unit av hs excl eids ms i S)).
  Proof.
    induction ms as [|m r IH]; intros e S H; cbn [visit_members a_visit_members]; [cbn [fst snd]; auto|].
    destruct (m_get_abs av hs excl eids m i e S H) as [X1 X2].
    destruct (m_get av hs excl eids m i e) as [e1 x1]. destruct (a_mget unit av hs excl eids m i S) as [S1 x2].
    cbn [fst snd] in *. subst x2. destruct (IH e1 S1 X2) as [Y1 Y2].
    destruct (visit_members av hs excl eids r i e1) as [e2 r1]. destruct (a_visit_members unit av hs excl eids r i S1) as [S2 r2].
    cbn [fst snd] in *. subst. auto.
  Qed.

  Theorem visit_keys_abs av hs excl eids ms keys : forall e S, absrel unit e S ->
    snd (visit_keys av hs excl eids ms keys e) = snd (a_visit_keys unit av hs excl eids ms keys S) /\
    absrel unit (fst (visit_keys av hs excl eids ms keys e)) (fst (a_visit_keys unit av hs excl eids ms keys S)).
  Proof.
    induction keys as [|i keys IH]; intros e S H; cbn [visit_keys a_visit_keys]; [cbn [fst snd]; auto|].
    destruct (visit_members_abs av hs excl eids ms i e S H) as [X1 X2].
    destruct (visit_members av hs excl eids ms i e) as [e1 x1]. destruct (a_visit_members unit av hs excl eids ms i S) as [S1 x2].
    cbn [fst snd] in *. subst x2. destruct (IH e1 S1 X2) as [Y1 Y2].
    destruct (visit_keys av hs excl eids ms keys e1) as [e2 r1]. destruct (a_visit_keys unit av hs excl eids ms keys S1) as [S2 r2].
    cbn [fst snd] in *. subst. auto.
  Qed.
End Refine.

(* ------------------------------------------------------------------ *)
(* a direct lookup of a live entity is the cell of the map *)

Lemma direct_lookup_is_the_cell unit e S sid ms av ent c : absrel unit e S -> NM.find sid (se_stores e) = Some ms ->
  av_alive av ent = true ->
  st_get ms av ent c = (NM.find (fst ent) (as_st S sid), c).
Proof.
  intros H Hf Ha. pose proof (AR_st _ _ _ H sid) as Hs. rewrite Hf in Hs. destruct Hs as [HM _].
  unfold st_get, present. rewrite Ha, andb_true_r, (MI_keys _ _ HM (fst ent)).
  destruct (NM.find (fst ent) (as_st S sid)) as [t|] eqn:E; [|reflexivity].
  rewrite (u_get_ref _ _ _ t c (MI_rel _ _ HM) E). reflexivity.
Qed.
