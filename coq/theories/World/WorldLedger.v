(* C08 over whole environments: the values held by all storages of a world,
   up to permutation, and how one operation on one storage changes them.
   (Environments in which every storage is of a kind without default-filled
   gaps - in particular the specification's plain maps.) *)
From SV Require Import Base.ListX Store.Raw Store.RawRefine Store.Masked Store.StoreInv Store.Bag Store.Ledger
  Store.ClearLedger World.Env World.SopLedger.
From Coq Require Import Sorting.Permutation SetoidList Sorting.Sorted.

(* the map a storage represents is unique up to the values it yields *)
Lemma MInv_unique ms m1 m2 : MInv ms m1 -> MInv ms m2 -> forall i, NM.find i m1 = NM.find i m2.
Proof.
  intros H1 H2 i. pose proof (MI_keys _ _ H1 i) as K1. pose proof (MI_keys _ _ H2 i) as K2. rewrite K1 in K2.
  destruct (NM.find i m1) as [t1|] eqn:E1; destruct (NM.find i m2) as [t2|] eqn:E2; try discriminate; [|reflexivity].
  pose proof (u_get_ref _ m1 i t1 cx0 (MI_rel _ _ H1) E1) as G1. pose proof (u_get_ref _ m2 i t2 cx0 (MI_rel _ _ H2) E2) as G2.
  congruence.
Qed.

Lemma LInvS_bag_unique ms m1 m2 : LInvS ms m1 -> LInvS ms m2 -> Permutation (bag m1) (bag m2).
Proof. intros [H1 _] [H2 _]. apply bag_ext. apply (MInv_unique ms); assumption. Qed.

Definition keys_of (e : senv) : list N := map fst (NM.elements (se_stores e)).

(* [env_content e L]: L lists, up to permutation, the uids of all values held by the storages of e *)
Definition env_content (e : senv) (L : list N) : Prop :=
  exists f : N -> NM.t tok,
    (forall sid ms, NM.find sid (se_stores e) = Some ms -> LInvS ms (f sid)) /\
    Permutation L (flat_map (fun k => bag (f k)) (keys_of e)).

Definition plain_env (e : senv) : Prop := forall sid ms, NM.find sid (se_stores e) = Some ms -> exists m, LInvS ms m.

Lemma keys_of_sorted e : StronglySorted N.lt (keys_of e).
Proof.
  unfold keys_of. apply Sorted_StronglySorted; [intros x y z; apply N.lt_trans|].
  pose proof (NM.elements_3 (se_stores e)) as H. induction H as [|[k v] l Hs IH Hh]; cbn [map]; constructor; auto.
  destruct Hh as [|[k' v'] l' Hlt]; cbn [map]; constructor. exact Hlt.
Qed.

Lemma keys_of_nodup e : NoDup (keys_of e).
Proof.
  pose proof (keys_of_sorted e) as H. induction H as [|x l Hs IH Hall]; constructor; [|assumption].
  intros Hin. rewrite Forall_forall in Hall. specialize (Hall x Hin). lia.
Qed.

Lemma in_keys_of e sid : In sid (keys_of e) <-> NM.find sid (se_stores e) <> None.
Proof.
  unfold keys_of. rewrite in_map_iff. split.
  - intros [[k v] [E Hin]]. cbn in E. subst.
    assert (NM.find sid (se_stores e) = Some v) as X.
    { apply NMF.find_mapsto_iff, NMF.elements_mapsto_iff, InA_alt. exists (sid, v). split; [split; reflexivity|assumption]. }
    congruence.
  - intros H. destruct (NM.find sid (se_stores e)) as [v|] eqn:E; [|congruence].
    apply NMF.find_mapsto_iff, NMF.elements_mapsto_iff, InA_alt in E. destruct E as [[k v'] [[E1 E2] Hin]]. cbn in E1, E2. subst.
    exists (k, v'). auto.
Qed.

(* replacing the storage at an existing key keeps the key list *)
Lemma keys_of_put_existing e sid ms c : NM.find sid (se_stores e) <> None -> keys_of (env_put e sid ms c) = keys_of e.
Proof.
  intros H. apply sorted_lt_unique; try apply keys_of_sorted.
  intros k. rewrite !in_keys_of. cbn [env_put se_stores]. rewrite find_add. destruct (N.eq_dec sid k) as [<-|]; [|tauto].
  split; [intros _; exact H | discriminate].
Qed.

Lemma keys_of_cx e c : keys_of (env_cx e c) = keys_of e. Proof. reflexivity. Qed.

Lemma flat_map_ext_in' (g g' : N -> list N) K : (forall j, In j K -> g' j = g j) -> flat_map g' K = flat_map g K.
Proof.
  induction K as [|x K IH]; intros H; cbn [flat_map]; [reflexivity|].
  rewrite (H x (or_introl eq_refl)), IH; [reflexivity|]. intros j Hj. apply H. right. assumption.
Qed.

(* the contents when one function value changes at a key that occurs once *)
Lemma flat_map_upd (g g' : N -> list N) k : forall K, NoDup K -> In k K -> (forall j, j <> k -> g' j = g j) ->
  Permutation (flat_map g' K ++ g k) (flat_map g K ++ g' k).
Proof.
  induction K as [|x K IH]; intros Hnd Hin Hg; [destruct Hin|]. inversion Hnd as [|? ? Hni Hnd']; subst. cbn [flat_map].
  destruct Hin as [->|Hin].
  - assert (flat_map g' K = flat_map g K) as ->.
    { apply flat_map_ext_in'. intros j Hj. apply Hg. intros ->. contradiction. }
    rewrite <- !app_assoc. rewrite (Permutation_app_comm (g' k)). rewrite !app_assoc.
    apply Permutation_app_tail. rewrite Permutation_app_comm. reflexivity.
  - assert (x <> k) as Hne by (intros ->; contradiction). rewrite (Hg x Hne). rewrite <- !app_assoc.
    apply Permutation_app_head. apply IH; assumption.
Qed.

(* one storage replaced by another: the content changes by the difference of the two bags *)
Lemma env_content_put e L sid ms m ms' m' c :
  env_content e L -> NM.find sid (se_stores e) = Some ms -> LInvS ms m -> LInvS ms' m' ->
  exists L', env_content (env_put e sid ms' c) L' /\ Permutation (L' ++ bag m) (L ++ bag m').
Proof.
  intros [f [Hf HP]] Hs HL HL'. set (f' := fun k => if N.eq_dec k sid then m' else f k).
  exists (flat_map (fun k => bag (f' k)) (keys_of e)). split.
  - exists f'. split.
    + intros k x Hk. cbn [env_put se_stores] in Hk. rewrite find_add in Hk. subst f'. cbv beta.
      destruct (N.eq_dec sid k) as [<-|Hne].
      * inversion Hk; subst. destruct (N.eq_dec sid sid); [exact HL'|congruence].
      * destruct (N.eq_dec k sid); [congruence|]. apply Hf. exact Hk.
    + rewrite keys_of_put_existing by congruence. apply Permutation_refl.
  - rewrite HP. rewrite (LInvS_bag_unique ms m (f sid) HL (Hf sid ms Hs)).
    assert (bag m' = bag (f' sid)) as -> by (subst f'; cbv beta; destruct (N.eq_dec sid sid); [reflexivity|congruence]).
    apply (flat_map_upd (fun k => bag (f k)) (fun k => bag (f' k)) sid (keys_of e) (keys_of_nodup e)).
    + apply in_keys_of. congruence.
    + intros j Hj. subst f'. cbv beta. destruct (N.eq_dec j sid); [contradiction|reflexivity].
Qed.

Lemma env_content_cx e L c : env_content e L -> env_content (env_cx e c) L.
Proof. intros [f [Hf HP]]. exists f. split; [exact Hf | exact HP]. Qed.

Lemma plain_env_put e sid ms' m' c : plain_env e -> LInvS ms' m' -> plain_env (env_put e sid ms' c).
Proof.
  intros H HL k x Hk. cbn [env_put se_stores] in Hk. rewrite find_add in Hk. destruct (N.eq_dec sid k); [inversion Hk; subst; eauto | eapply H; eassumption].
Qed.

Lemma plain_env_content e : plain_env e -> exists L, env_content e L.
Proof.
  intros H.
  assert (forall l : list (N * mstore), NoDup (map fst l) -> (forall sid ms, In (sid, ms) l -> exists m, LInvS ms m) ->
            exists f : N -> NM.t tok, forall sid ms, In (sid, ms) l -> LInvS ms (f sid)) as Hch.
  { induction l as [|[sid ms] l IH]; intros Hnd Hl.
    - exists (fun _ => NM.empty tok). intros sid ms [].
    - inversion Hnd as [|? ? Hni Hnd']; subst. destruct (IH Hnd') as [f Hf]; [intros s m Hin; apply (Hl s m); right; assumption|].
      destruct (Hl sid ms (or_introl eq_refl)) as [m Hm].
      exists (fun s => if N.eq_dec s sid then m else f s). intros s ms' [E|Hin].
      + inversion E; subst. destruct (N.eq_dec s s); [assumption|congruence].
      + destruct (N.eq_dec s sid) as [->|]; [|apply Hf; assumption]. exfalso. apply Hni. apply (in_map fst _ _ Hin). }
  destruct (Hch (NM.elements (se_stores e)) (keys_of_nodup e)) as [f Hf].
  { intros sid ms Hin. apply (H sid ms). apply NMF.find_mapsto_iff, NMF.elements_mapsto_iff, InA_alt.
    exists (sid, ms). split; [split; reflexivity|assumption]. }
  exists (flat_map (fun k => bag (f k)) (keys_of e)). exists f. split; [|apply Permutation_refl].
  intros sid ms Hs. apply Hf. apply NMF.find_mapsto_iff, NMF.elements_mapsto_iff, InA_alt in Hs.
  destruct Hs as [[k v] [[E1 E2] Hin]]. cbn in E1, E2. subst. assumption.
Qed.

(* two listings of the same environment are permutations of each other *)
Lemma env_content_unique e L1 L2 : env_content e L1 -> env_content e L2 -> Permutation L1 L2.
Proof.
  intros [f1 [H1 P1]] [f2 [H2 P2]]. rewrite P1, P2.
  assert (forall K, (forall k, In k K -> In k (keys_of e)) -> Permutation (flat_map (fun k => bag (f1 k)) K) (flat_map (fun k => bag (f2 k)) K)) as X.
  { induction K as [|k K IH]; intros HK; cbn [flat_map]; [constructor|].
    apply Permutation_app; [|apply IH; intros j Hj; apply HK; right; assumption].
    assert (In k (keys_of e)) as Hk by (apply HK; left; reflexivity). apply in_keys_of in Hk.
    destruct (NM.find k (se_stores e)) as [ms|] eqn:E; [|congruence].
    apply (LInvS_bag_unique ms); [apply H1 | apply H2]; assumption. }
  apply X. auto.
Qed.

(* ------------------------------------------------------------------ *)
(* one step of the environment: what is held afterwards, handed back and destroyed is what was held before
   plus what was moved in *)

Definition estep_ok (e e' : senv) (ins rets : list N) : Prop :=
  plain_env e' /\
  forall L, env_content e L ->
    exists L' d, env_content e' L' /\ cx_drops (se_cx e') = d ++ cx_drops (se_cx e) /\ Permutation (L' ++ rets ++ d) (L ++ ins).

Lemma estep_refl e : plain_env e -> estep_ok e e [] [].
Proof.
  intros H. split; [exact H|]. intros L HL. exists L, []. split; [exact HL|]. split; [reflexivity|]. rewrite !app_nil_r. apply Permutation_refl.
Qed.

Lemma estep_trans e e1 e2 i1 r1 i2 r2 : estep_ok e e1 i1 r1 -> estep_ok e1 e2 i2 r2 -> estep_ok e e2 (i1 ++ i2) (r1 ++ r2).
Proof.
  intros [_ H1] [P2 H2]. split; [exact P2|]. intros L HL.
  destruct (H1 L HL) as [L1 [d1 [C1 [D1 Q1]]]]. destruct (H2 L1 C1) as [L2 [d2 [C2 [D2 Q2]]]].
  exists L2, (d2 ++ d1). split; [exact C2|]. split; [rewrite D2, D1, app_assoc; reflexivity|].
  (* L2 ++ (r1 ++ r2) ++ d2 ++ d1  ~  L ++ i1 ++ i2 *)
  transitivity ((L2 ++ r2 ++ d2) ++ r1 ++ d1).
  { rewrite <- !app_assoc. apply Permutation_app_head.
    rewrite (Permutation_app_comm r1 (r2 ++ d2 ++ d1)). rewrite <- !app_assoc.
    apply Permutation_app_head. apply Permutation_app_head. apply Permutation_app_comm. }
  rewrite Q2. transitivity ((L1 ++ r1 ++ d1) ++ i2).
  { rewrite <- !app_assoc. apply Permutation_app_head. rewrite Permutation_app_comm. rewrite <- !app_assoc. reflexivity. }
  rewrite Q1. rewrite <- !app_assoc. reflexivity.
Qed.

(* only the effects change *)
Lemma estep_cx e c ins : plain_env e -> (exists d, cx_drops c = d ++ cx_drops (se_cx e) /\ Permutation d ins) ->
  estep_ok e (env_cx e c) ins [].
Proof.
  intros H [d [D P]]. split; [exact H|]. intros L HL. exists L, d. split; [apply env_content_cx; exact HL|].
  split; [exact D|]. cbn [app]. apply Permutation_app_head. exact P.
Qed.

Lemma perm_swap_tail (X Y Z : list N) : Permutation ((X ++ Y) ++ Z) ((X ++ Z) ++ Y).
Proof. rewrite <- !app_assoc. apply Permutation_app_head. apply Permutation_app_comm. Qed.
Lemma perm_pull_tail (X Y Z : list N) : Permutation (X ++ (Y ++ Z)) ((X ++ Z) ++ Y).
Proof. rewrite <- app_assoc. apply Permutation_app_head. apply Permutation_app_comm. Qed.

(* an operation on one registered storage *)
Lemma estep_put e sid ms m ms' m' c ins rets :
  plain_env e -> NM.find sid (se_stores e) = Some ms -> LInvS ms m -> LInvS ms' m' -> conserves m m' ins rets (se_cx e) c ->
  estep_ok e (env_put e sid ms' c) ins rets.
Proof.
  intros HP Hs HL HL' [d [D P]]. split; [eapply plain_env_put; eassumption|]. intros L HC.
  destruct (env_content_put e L sid ms m ms' m' c HC Hs HL HL') as [L' [C' Q]].
  exists L', d. split; [exact C'|]. split; [exact D|].
  (* Q : L' ++ bag m ~ L ++ bag m' ;  P : bag m' ++ rets ++ d ~ bag m ++ ins *)
  apply (Permutation_app_inv_r (bag m)).
  apply perm_trans with ((L' ++ bag m) ++ (rets ++ d)); [apply perm_swap_tail|].
  apply perm_trans with ((L ++ bag m') ++ (rets ++ d)); [apply Permutation_app_tail; exact Q|].
  apply perm_trans with (L ++ (bag m' ++ rets ++ d)); [rewrite <- !app_assoc; apply Permutation_refl|].
  apply perm_trans with (L ++ (bag m ++ ins)); [apply Permutation_app_head; exact P|].
  apply perm_pull_tail.
Qed.

Lemma env_sop_unfold e av (hs : pvec entity) so (ent : entity) ms :
  (match so with SRegister _ => False | _ => True end) ->
  NM.find (sop_sid so) (se_stores e) = Some ms ->
  (match sop_handle so with Some h => pv_get hs (N.of_nat h) = Some ent | None => ent = (0, 0%Z) end) ->
  env_sop e av hs so = (let '(ms1, out, c1) := ms_sop ms av ent so (se_cx e) in (env_put e (sop_sid so) ms1 c1, out)).
Proof.
  intros Hreg Hs Hh. unfold env_sop. destruct so; try contradiction; cbn [sop_handle sop_sid] in *; cbv zeta; rewrite ?Hh; cbv beta; rewrite Hs;
    try subst ent; reflexivity.
Qed.

Theorem env_sop_ledger e av (hs : pvec entity) so (ent : entity) ms : plain_env e ->
  (match so with SRegister _ => False | _ => True end) ->
  NM.find (sop_sid so) (se_stores e) = Some ms ->
  (match sop_handle so with Some h => pv_get hs (N.of_nat h) = Some ent | None => ent = (0, 0%Z) end) ->
  estep_ok e (fst (env_sop e av hs so)) (sop_ins ms av ent so) (sop_rets so (snd (env_sop e av hs so))).
Proof.
  intros HP Hreg Hs Hh. destruct (HP _ _ Hs) as [m HL].
  assert (env_sop e av hs so =
          (let '(ms1, out, c1) := ms_sop ms av ent so (se_cx e) in (env_put e (sop_sid so) ms1 c1, out))) as ->.
  { unfold env_sop. destruct so; try contradiction; cbn [sop_handle sop_sid] in *; cbv zeta; rewrite ?Hh; cbv beta; rewrite Hs;
      try subst ent; reflexivity. }
  pose proof (sop_conserves ms m av ent so (se_cx e) HL) as X. destruct (ms_sop ms av ent so (se_cx e)) as [[ms1 out] c1].
  destruct X as [m' [HL' C]]. cbn [fst snd]. eapply estep_put; eassumption.
Qed.

(* ------------------------------------------------------------------ *)
(* registration, attaching components, purging, dropping the world *)

Lemma LInvS_new w u : LInvS (ms_new KBTree w u) (NM.empty tok).
Proof. split; [apply MInv_new; discriminate | exact I]. Qed.

Lemma estep_register e sid : plain_env e -> se_ideal e = true -> estep_ok e (env_register e sid) [] [].
Proof.
  intros HP Hi. unfold env_register. destruct (kind_of sid) as [[k w]|]; [|unfold env_fail; apply estep_cx; [exact HP | exists []; split; [reflexivity | constructor]]].
  rewrite Hi. destruct (NM.find sid (se_stores e)) as [ms|] eqn:Es.
  - split.
    + intros j x Hj. cbn [se_stores] in Hj. eapply HP. eassumption.
    + intros L [f [Hf P]]. exists L, []. split; [|split; [reflexivity | rewrite !app_nil_r; apply Permutation_refl]].
      exists f. split; [intros j x Hj; cbn [se_stores] in Hj; apply Hf; exact Hj | exact P].
  - set (ms0 := ms_new KBTree w (match k with KNull => true | _ => false end)).
    match goal with |- estep_ok e ?x [] [] => set (e' := x) end.
    assert (se_stores e' = NM.add sid ms0 (se_stores e)) as Est by reflexivity.
    assert (Permutation (keys_of e') (sid :: keys_of e)) as PK.
    { apply NoDup_Permutation; [apply keys_of_nodup | constructor; [rewrite in_keys_of; rewrite Es; intros X; apply X; reflexivity | apply keys_of_nodup]|].
      intros j. rewrite in_keys_of. rewrite Est. cbn [In]. rewrite find_add, in_keys_of.
      destruct (N.eq_dec sid j) as [<-|Hne]; split; intros H; auto; try discriminate.
      - destruct H as [E|H]; [congruence|exact H]. }
    split.
    + intros j x Hj. rewrite Est in Hj. rewrite find_add in Hj. destruct (N.eq_dec sid j); [inversion Hj; subst; exists (NM.empty tok); apply LInvS_new | eapply HP; eassumption].
    + intros L [f [Hf P]]. exists L, []. split; [|split; [reflexivity | rewrite !app_nil_r; apply Permutation_refl]].
      exists (fun j => if N.eq_dec j sid then NM.empty tok else f j). split.
      * intros j x Hj. rewrite Est in Hj. rewrite find_add in Hj. destruct (N.eq_dec sid j) as [<-|Hne].
        -- inversion Hj; subst. destruct (N.eq_dec sid sid); [apply LInvS_new|congruence].
        -- destruct (N.eq_dec j sid); [congruence|]. apply Hf. exact Hj.
      * rewrite P. rewrite (Permutation_flat_map _ PK). cbn [flat_map]. destruct (N.eq_dec sid sid); [|congruence].
        rewrite bag_empty. cbn [app]. 
        assert (forall K, ~ In sid K -> flat_map (fun k0 => bag (f k0)) K = flat_map (fun k0 => bag (if N.eq_dec k0 sid then NM.empty tok else f k0)) K) as X.
        { induction K as [|x K IH]; intros Hn; cbn [flat_map]; [reflexivity|].
          destruct (N.eq_dec x sid) as [->|]; [exfalso; apply Hn; left; reflexivity|]. rewrite IH; [reflexivity|]. intros Hi'. apply Hn. right. assumption. }
        rewrite <- X; [apply Permutation_refl|]. rewrite in_keys_of, Es. intros Y. apply Y. reflexivity.
Qed.

(* builder.with(..): every attached value is stored, swapped in (the old one handed back to nobody: the model's
   insert_comps ignores it - the real builder unwraps the Ok and drops it), or - dead entity / unregistered
   component - destroyed *)
Definition comps_ins (e : senv) (cs : comps) : list N :=
  flat_map (fun p => match NM.find (fst p) (se_stores e) with
                     | Some ms => [fst (tnorm ms (snd p))]
                     | None => [fst (snd p)]
                     end) cs.

Lemma tnorm_put_same e sid ms' c j ms0 : NM.find j (se_stores e) = Some ms0 ->
  (forall x, NM.find j (se_stores (env_put e sid ms' c)) = Some x -> ms_unit x = ms_unit ms0 \/ sid = j).
Proof. intros H x Hx. cbn [env_put se_stores] in Hx. rewrite find_add in Hx. destruct (N.eq_dec sid j); [right; assumption | left; congruence]. Qed.

(* the normalisation of a value depends only on whether the storage holds the unit type, which no operation changes *)
Definition units_stable (e e' : senv) : Prop :=
  forall j ms ms', NM.find j (se_stores e) = Some ms -> NM.find j (se_stores e') = Some ms' -> ms_unit ms' = ms_unit ms.

Lemma insert_unit ms av ent v c : ms_unit (fst (fst (st_insert ms av ent v c))) = ms_unit ms.
Proof.
  unfold st_insert. cbv zeta. destruct (av_alive av ent); [|reflexivity].
  destruct (NS.mem (fst ent) (ms_mask ms)).
  - unfold w_access_mut.
    set (ms1 := match ms_wrap ms with WFlagged => ms_event ms (EModified (fst ent))
                | WDeref => if true || true then ms_event ms (EModified (fst ent)) else ms | WPlain => ms end).
    assert (ms_unit ms1 = ms_unit ms) as E.
    { subst ms1. destruct (ms_wrap ms); [reflexivity | apply ms_event_fields | apply ms_event_fields]. }
    destruct (u_get (ms_raw ms1) (fst ent) c) as [old c1]. destruct (u_write (ms_raw ms1) (fst ent) (tnorm ms v) c1) as [r c2].
    cbn [fst ms_set ms_unit]. exact E.
  - unfold not_present_insert, w_insert. destruct (u_insert (ms_raw (ms_event ms (EInserted (fst ent)))) (fst ent) (tnorm ms v) c) as [r c'].
    cbn [fst ms_set ms_unit]. apply ms_event_fields.
Qed.

(* attaching components to an entity being built: every value is moved in; a value swapped out because the same
   component type is attached twice is destroyed by the builder *)
Lemma insert_comps_ledger cs : forall e av ent, plain_env e ->
  (forall sid v, In (sid, v) cs -> NM.find sid (se_stores e) <> None) ->
  estep_ok e (env_insert_comps e av ent cs) (comps_ins e cs) [].
Proof.
  induction cs as [|[sid v] cs IH]; intros e av ent HP Hreg; cbn [env_insert_comps comps_ins flat_map fst snd].
  - apply estep_refl. exact HP.
  - destruct (NM.find sid (se_stores e)) as [ms|] eqn:Es; [|exfalso; apply (Hreg sid v (or_introl eq_refl)); exact Es].
    destruct (HP _ _ Es) as [m HL].
    pose proof (insert_conserves ms m av ent v (se_cx e) HL) as X. pose proof (insert_unit ms av ent v (se_cx e)) as U.
    destruct (st_insert ms av ent v (se_cx e)) as [[ms1 r] c1]. cbn [fst] in U. destruct X as [m1 [L1 [_ C1]]].
    set (c2 := match r with InsErr _ => cx_fail c1 | InsOld t => cx_drop c1 t | _ => c1 end).
    assert (conserves m m1 [fst (tnorm ms v)] [] (se_cx e) c2) as C2.
    { destruct C1 as [d [D P]]. destruct r as [|t|g]; subst c2.
      - exists d. split; [exact D|exact P].
      - exists (fst t :: d). split; [cbn [cx_drop cx_drops]; rewrite D; reflexivity|exact P].
      - exists d. split; [exact D|exact P]. }
    pose proof (estep_put e sid ms m ms1 m1 c2 _ _ HP Es HL L1 C2) as S1.
    assert (estep_ok (env_put e sid ms1 c2) (env_insert_comps (env_put e sid ms1 c2) av ent cs)
                     (comps_ins (env_put e sid ms1 c2) cs) []) as S2.
    { apply IH; [exact (proj1 S1)|]. intros s x Hin. cbn [env_put se_stores]. rewrite find_add.
      destruct (N.eq_dec sid s); [discriminate|]. apply (Hreg s x). right. exact Hin. }
    assert (comps_ins (env_put e sid ms1 c2) cs = comps_ins e cs) as Ec.
    { unfold comps_ins. apply flat_map_ext. intros [s x]. cbn [fst snd env_put se_stores]. rewrite find_add.
      destruct (N.eq_dec sid s) as [<-|]; [|reflexivity]. rewrite Es. unfold tnorm. rewrite U. reflexivity. }
    rewrite Ec in S2.
    exact (estep_trans e _ _ [fst (tnorm ms v)] [] (comps_ins e cs) [] S1 S2).
Qed.

(* purge: the components of the given indices are destroyed in every storage of the table *)
Lemma purge_tbl_ledger tbl : forall e ids, plain_env e -> (forall sid, In sid tbl -> NM.find sid (se_stores e) <> None) ->
  let '(stores, c) := env_purge_tbl (se_stores e) tbl ids (se_cx e) in
  estep_ok e {| se_stores := stores; se_table := se_table e; se_cx := c; se_ideal := se_ideal e; se_cs := se_cs e |} [] [].
Proof.
  induction tbl as [|sid tbl IH]; intros e ids HP Hreg; cbn [env_purge_tbl].
  - destruct e. apply estep_refl. exact HP.
  - destruct (NM.find sid (se_stores e)) as [ms|] eqn:Es; [|exfalso; apply (Hreg sid (or_introl eq_refl)); exact Es].
    destruct (HP _ _ Es) as [m HL]. pose proof (purge_conserves ids ms m (se_cx e) HL) as X.
    destruct (m_drop_all ms ids (se_cx e)) as [ms1 c1]. destruct X as [_ [m1 [L1 C1]]].
    pose proof (estep_put e sid ms m ms1 m1 c1 [] [] HP Es HL L1 C1) as S1.
    specialize (IH (env_put e sid ms1 c1) ids (proj1 S1)). cbn [env_put se_stores se_cx se_table se_ideal se_cs] in IH.
    destruct (env_purge_tbl (NM.add sid ms1 (se_stores e)) tbl ids c1) as [stores c].
    change (@nil N) with (@nil N ++ @nil N). eapply estep_trans; [exact S1|]. apply IH.
    intros s Hin. rewrite find_add. destruct (N.eq_dec sid s); [discriminate|]. apply Hreg. right. exact Hin.
Qed.

(* dropping the world: everything every storage holds is destroyed, once *)
Lemma drop_all_ledger (f : N -> NM.t tok) l : forall c, (forall sid ms, In (sid, ms) l -> LInvS ms (f sid)) ->
  exists d, cx_drops (env_drop_all l c) = d ++ cx_drops c /\ Permutation d (flat_map (fun k => bag (f k)) (map fst l)).
Proof.
  induction l as [|[sid ms] l IH]; intros c H; cbn [env_drop_all map flat_map fst].
  - exists []. split; [reflexivity | constructor].
  - pose proof (clear_conserves ms (f sid) c (H sid ms (or_introl eq_refl))) as X. destruct (m_clear ms c) as [ms1 c1].
    destruct X as [_ [_ [d1 [D1 P1]]]]. destruct (IH c1) as [d2 [D2 P2]]; [intros s x Hin; apply H; right; exact Hin|].
    exists (d2 ++ d1). split; [rewrite D2, D1, app_assoc; reflexivity|].
    rewrite Permutation_app_comm. apply Permutation_app; assumption.
Qed.

Lemma drop_world_ledger e : plain_env e -> estep_ok e (env_drop_world e) [] [].
Proof.
  intros HP. split; [intros sid ms Hf; cbn [env_drop_world se_stores] in Hf; rewrite find_empty in Hf; discriminate|].
  intros L [f [Hf P]].
  destruct (drop_all_ledger f (NM.elements (se_stores e)) (se_cx e)) as [d [D Pd]].
  { intros sid ms Hin. apply Hf. apply NMF.find_mapsto_iff, NMF.elements_mapsto_iff, InA_alt.
    exists (sid, ms). split; [split; reflexivity|assumption]. }
  exists [], d. split; [|split; [exact D|]].
  - exists (fun _ => NM.empty tok). split; [intros sid ms Hs; cbn [env_drop_world se_stores] in Hs; rewrite find_empty in Hs; discriminate|].
    unfold keys_of. cbn [env_drop_world se_stores]. constructor.
  - cbn [app]. rewrite app_nil_r. rewrite Pd, P. apply Permutation_refl.
Qed.

(* an operation whose result nobody looks at (a lazy insert or remove): what it hands back is destroyed on the spot *)
Lemma quiet_ledger e av (hs : pvec entity) so (ent : entity) ms : plain_env e ->
  (match so with SInsert _ _ _ | SRemove _ _ => True | _ => False end) ->
  NM.find (sop_sid so) (se_stores e) = Some ms ->
  (match sop_handle so with Some h => pv_get hs (N.of_nat h) = Some ent | None => ent = (0, 0%Z) end) ->
  estep_ok e (env_sop_quiet e av hs so) (sop_ins ms av ent so) [].
Proof.
  intros HP Hq Hs Hh.
  assert (match so with SRegister _ => False | _ => True end) as Hreg by (destruct so; try exact I; contradiction).
  pose proof (env_sop_ledger e av hs so ent ms HP Hreg Hs Hh) as X. unfold env_sop_quiet.
  assert (forall e' t, estep_ok e e' (sop_ins ms av ent so) [fst t] ->
                       estep_ok e (env_cx e' (cx_drop (se_cx e') t)) (sop_ins ms av ent so) []) as Hd.
  { intros e' t [P1 H1]. split; [intros j x Hj; eapply P1; exact Hj|].
    intros L HL. destruct (H1 L HL) as [L' [d [C' [D Q]]]]. exists L', (fst t :: d).
    split; [apply env_content_cx; exact C'|]. split; [cbn [env_cx se_cx cx_drop cx_drops]; rewrite D; reflexivity|].
    cbn [app] in *. exact Q. }
  rewrite (env_sop_unfold e av hs so ent ms Hreg Hs Hh) in *.
  destruct so; try contradiction; cbn [ms_sop sop_rets] in *.
  - (* insert *)
    destruct (st_insert ms av ent v (se_cx e)) as [[ms1 r] c1]. cbn [fst snd] in *. destruct r as [|t|g]; try exact X. apply Hd. exact X.
  - (* remove *)
    destruct (st_remove ms av ent (se_cx e)) as [[ms1 o] c1]. cbn [fst snd] in *. destruct o as [t|]; try exact X. apply Hd. exact X.
Qed.
