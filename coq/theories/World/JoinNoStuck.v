(* Joins are never stuck on real storages: from the refinement to the join on
   maps (JoinRefine.v) and its safety (JoinSafe.v). *)
From SV Require Import Base.ListX Store.Raw Store.Masked Store.StoreInv World.Env World.Join World.JoinPres World.JoinProps
  World.JoinAbs World.JoinRefine World.JoinAbsProps World.JoinSafe World.StoreSim World.EnvSim.
From Coq Require Import SetoidList.

(* a map for every registered storage (finitely many: no choice needed) *)
Lemma choose_maps (l : list (N * mstore)) : NoDup (map fst l) -> (forall sid ms, In (sid, ms) l -> exists m, MInv ms m) ->
  exists f : N -> NM.t tok, forall sid ms, In (sid, ms) l -> MInv ms (f sid).
Proof.
  induction l as [|[sid ms] l IH]; intros Hnd H.
  - exists (fun _ => NM.empty tok). intros sid ms [].
  - inversion Hnd as [|? ? Hni Hnd']; subst. destruct (IH Hnd') as [f Hf]; [intros s m Hin; apply (H s m); right; assumption|].
    destruct (H sid ms (or_introl eq_refl)) as [m Hm].
    exists (fun s => if N.eq_dec s sid then m else f s). intros s ms' [E|Hin].
    + inversion E; subst. destruct (N.eq_dec s s); [assumption|congruence].
    + destruct (N.eq_dec s sid) as [->|]; [|apply Hf; assumption].
      exfalso. apply Hni. apply (in_map fst _ _ Hin).
Qed.

Lemma find_in_elements {A} (m : NM.t A) k v : NM.find k m = Some v -> In (k, v) (NM.elements m).
Proof.
  intros H. apply NMF.find_mapsto_iff, NMF.elements_mapsto_iff, InA_alt in H. destruct H as [[k' v'] [[E1 E2] Hin]].
  cbn in E1, E2. subst. assumption.
Qed.

Lemma elements_keys_nodup {A} (m : NM.t A) : NoDup (map fst (NM.elements m)).
Proof.
  pose proof (NM.elements_3w m) as H. induction H as [|[k v] l Hn Hnd IH]; cbn [map]; constructor; [|assumption].
  intros Hin. apply Hn. apply in_map_iff in Hin. destruct Hin as [[k' v'] [E Hin]]. cbn in E. subst.
  apply InA_alt. exists (k, v'). split; [reflexivity|assumption].
Qed.

Definition unit_of (e : senv) (sid : N) : bool :=
  match NM.find sid (se_stores e) with Some ms => ms_unit ms | None => false end.

Theorem absrel_exists e : EInv e -> exists S, absrel (unit_of e) e S /\ as_ok S = negb (cx_stuck (se_cx e)).
Proof.
  intros [Hs _]. destruct (choose_maps (NM.elements (se_stores e)) (elements_keys_nodup _)) as [f Hf].
  { intros sid ms Hin. apply (Hs sid ms). apply in_elements_find. assumption. }
  exists {| as_st := fun sid => match NM.find sid (se_stores e) with Some _ => f sid | None => NM.empty tok end;
            as_cs := fun k => cs_get e k; as_ok := negb (cx_stuck (se_cx e)) |}.
  split; [|reflexivity]. split; cbn [as_st as_cs as_ok].
  - intros sid. unfold unit_of. destruct (NM.find sid (se_stores e)) as [ms|] eqn:E.
    + split; [|reflexivity]. apply Hf. apply find_in_elements. assumption.
    + intros i. apply find_empty.
  - reflexivity.
  - rewrite negb_involutive. reflexivity.
Qed.

Lemma absrel_EInv_stores unit e S : absrel unit e S -> forall sid ms, NM.find sid (se_stores e) = Some ms -> exists m, MInv ms m.
Proof. intros H sid ms Hf. pose proof (AR_st _ _ _ H sid) as X. rewrite Hf in X. destruct X as [X _]. eauto. Qed.

(* joins never add or drop a storage resource, nor touch the MetaTable *)
Definition same_domain (e e' : senv) : Prop :=
  se_table e' = se_table e /\ forall sid, NM.find sid (se_stores e') = None <-> NM.find sid (se_stores e) = None.

Lemma same_domain_refl e : same_domain e e. Proof. split; [reflexivity | intros; reflexivity]. Qed.

Lemma env_jact_domain e0 e sid a : same_domain e0 e -> same_domain e0 (fst (env_jact e sid a)).
Proof.
  intros [T D]. unfold env_jact. destruct (NM.find sid (se_stores e)) as [ms|] eqn:E.
  - destruct (ms_jact ms a (se_cx e)) as [[ms' t] c]. cbn [fst]. split; [exact T|]. intros s. cbn [env_put se_stores].
    rewrite find_add. destruct (N.eq_dec sid s) as [<-|]; [|apply D]. rewrite <- D, E. split; discriminate.
  - cbn [fst]. split; [exact T | exact D].
Qed.

Lemma env_join_domain e av eids hs k ms : same_domain e (fst (env_join e av eids hs k ms)).
Proof.
  apply (env_join_pres (same_domain e)).
  - intros e' sid a H. apply env_jact_domain. assumption.
  - intros e' k' m H. exact H.
  - intros e' H. exact H.
  - apply same_domain_refl.
Qed.

Lemma consume_cs_cx ms : forall e, se_cx (consume_cs ms e) = se_cx e /\ se_stores (consume_cs ms e) = se_stores e.
Proof.
  induction ms as [|m r IH]; intros e; cbn [consume_cs]; [auto|].
  destruct (IH (match m_taken m with Some k => cs_put e k (NM.empty Z) | None => e end)) as [I1 I2]. rewrite I1, I2.
  destruct (m_taken m); auto.
Qed.

Lemma join_ok_uses e k ms : join_ok e k ms = true -> uses_ok m_sid [] ms = true /\ uses_ok m_cs [] ms = true.
Proof.
  unfold join_ok. intros H. repeat (apply andb_true_iff in H; destruct H as [H ?]). auto.
Qed.

(* the heart: a walk over keys inside the intersection is never stuck *)
Lemma visit_keys_never_stuck unit av hs excl eids ms keys e S : absrel unit e S -> as_ok S = true ->
  uses_ok m_sid [] ms = true -> uses_ok m_cs [] ms = true -> NoDup keys ->
  (forall i, In i keys -> all_have e eids ms i = true) ->
  cx_stuck (se_cx (fst (visit_keys av hs excl eids ms keys e))) = false /\
  exists S', absrel unit (fst (visit_keys av hs excl eids ms keys e)) S'.
Proof.
  intros H Hok U1 U2 Hnd Hh.
  destruct (visit_keys_abs unit av hs excl eids ms keys e S H) as [_ X].
  pose proof (a_visit_keys_ok unit av hs excl eids ms keys S Hok (uses_ok_well_borrowed ms U1 U2) Hnd) as Y.
  rewrite (AR_ok _ _ _ X), Y; [split; [reflexivity | eauto]|].
  intros i Hi. rewrite <- (all_have_abs unit e S eids ms i H). apply Hh. assumption.
Qed.

Lemma visit_members_never_stuck unit av hs excl eids ms i e S : absrel unit e S -> as_ok S = true ->
  uses_ok m_sid [] ms = true -> uses_ok m_cs [] ms = true -> all_have e eids ms i = true ->
  cx_stuck (se_cx (fst (visit_members av hs excl eids ms i e))) = false /\
  exists S', absrel unit (fst (visit_members av hs excl eids ms i e)) S'.
Proof.
  intros H Hok U1 U2 Hh.
  destruct (visit_members_abs unit av hs excl eids ms i e S H) as [_ X].
  pose proof (a_visit_members_ok unit av hs excl eids ms i S Hok (uses_ok_well_borrowed ms U1 U2)) as Y.
  rewrite (AR_ok _ _ _ X), Y; [split; [reflexivity | eauto]|].
  intros m Hm. rewrite <- (m_has_abs unit e S eids m i H). unfold all_have in Hh. rewrite forallb_forall in Hh. apply Hh. assumption.
Qed.

Theorem env_join_never_stuck e av eids hs k ms : EInv e -> cx_stuck (se_cx e) = false ->
  forallb (m_registered e) ms = true ->
  cx_stuck (se_cx (fst (env_join e av eids hs k ms))) = false /\ EInv (fst (env_join e av eids hs k ms)).
Proof.
  intros HE Hst Hreg.
  assert (forall e', same_domain e e' -> (forall sid ms', NM.find sid (se_stores e') = Some ms' -> exists m, MInv ms' m) -> EInv e') as Hmk.
  { intros e' [T D] Hs. split; [exact Hs|]. intros sid Hin. rewrite T in Hin. pose proof (EI_table _ HE sid Hin) as X.
    intros Hn. apply X. apply D. assumption. }
  pose proof (env_join_domain e av eids hs k ms) as Hdom.
  destruct (absrel_exists e HE) as [S [HA Hok]]. rewrite Hst in Hok. cbn [negb] in Hok.
  revert Hdom. unfold env_join. destruct (join_ok e k ms) eqn:Ej; cbn [negb]; [|intros _; split; assumption].
  destruct (handles_ok hs k ms); cbn [negb]; [|intros _; split; assumption].
  rewrite Hreg. cbn [negb]. destruct (join_ok_uses e k ms Ej) as [U1 U2].
  assert (forall lim keys, jkeys e eids ms = Some keys ->
            let keys' := match lim with Some n => firstn n keys | None => keys end in
            NoDup keys' /\ forall i, In i keys' -> all_have e eids ms i = true) as Hkeys.
  { intros lim keys Hk. cbv zeta. pose proof (jkeys_once e eids ms keys Hk) as Hnd.
    destruct lim as [n|].
    - split; [apply firstn_nodup; assumption|]. intros i Hi. apply (jkeys_exact e eids ms keys i Hk). eapply firstn_In. eassumption.
    - split; [assumption|]. intros i Hi. apply (jkeys_exact e eids ms keys i Hk). assumption. }
  destruct k as [lim|lim|n|h|i]; cbn [is_lending].
  - destruct (jkeys e eids ms) as [keys|] eqn:Ek; [|intros _; split; assumption].
    destruct (Hkeys lim keys eq_refl) as [K1 K2].
    destruct (visit_keys_never_stuck (unit_of e) av hs false eids ms _ e S HA Hok U1 U2 K1 K2) as [V1 [S' V2]].
    destruct (visit_keys av hs false eids ms _ e) as [e1 r]. cbn [fst] in *. intros Hdom.
    destruct (consume_cs_cx ms e1) as [C1 C2]. rewrite C1. split; [assumption|]. apply Hmk; [assumption|].
    rewrite C2. apply (absrel_EInv_stores _ _ _ V2).
  - destruct (jkeys e eids ms) as [keys|] eqn:Ek; [|intros _; split; assumption].
    destruct (Hkeys lim keys eq_refl) as [K1 K2].
    destruct (visit_keys_never_stuck (unit_of e) av hs true eids ms _ e S HA Hok U1 U2 K1 K2) as [V1 [S' V2]].
    destruct (visit_keys av hs true eids ms _ e) as [e1 r]. cbn [fst] in *. intros Hdom.
    destruct (consume_cs_cx ms e1) as [C1 C2]. rewrite C1. split; [assumption|]. apply Hmk; [assumption|].
    rewrite C2. apply (absrel_EInv_stores _ _ _ V2).
  - destruct (jkeys e eids ms) as [keys|] eqn:Ek; [|intros _; split; assumption].
    destruct (Hkeys None keys eq_refl) as [K1 K2].
    destruct (visit_keys_never_stuck (unit_of e) av hs false eids ms _ e S HA Hok U1 U2 K1 K2) as [V1 [S' V2]].
    destruct (visit_keys av hs false eids ms keys e) as [e1 r]. cbn [fst] in *. intros Hdom.
    split; [assumption|]. apply Hmk; [assumption | apply (absrel_EInv_stores _ _ _ V2)].
  - destruct (pv_get hs (N.of_nat h)) as [ent|]; [|intros _; split; assumption].
    destruct (all_have e eids ms (fst ent) && av_alive av ent) eqn:Ea; [|intros _; split; assumption].
    apply andb_true_iff in Ea. destruct Ea as [Ea _].
    destruct (visit_members_never_stuck (unit_of e) av hs true eids ms (fst ent) e S HA Hok U1 U2 Ea) as [V1 [S' V2]].
    destruct (visit_members av hs true eids ms (fst ent) e) as [e1 r]. cbn [fst] in *. intros Hdom.
    split; [assumption|]. apply Hmk; [assumption | apply (absrel_EInv_stores _ _ _ V2)].
  - destruct (all_have e eids ms i) eqn:Ea; [|intros _; split; assumption].
    destruct (visit_members_never_stuck (unit_of e) av hs true eids ms i e S HA Hok U1 U2 Ea) as [V1 [S' V2]].
    destruct (visit_members av hs true eids ms i e) as [e1 r]. cbn [fst] in *. intros Hdom.
    split; [assumption|]. apply Hmk; [assumption | apply (absrel_EInv_stores _ _ _ V2)].
Qed.

(* ------------------------------------------------------------------ *)
(* joins only ever shrink masks (drains); they never add a member *)

Lemma m_remove_mask_sub ms id c i :
  NS.mem i (ms_mask (fst (fst (m_remove ms id c)))) = true -> NS.mem i (ms_mask ms) = true.
Proof.
  unfold m_remove. destruct (NS.mem id (ms_mask ms)) eqn:Hm; [|cbn [fst]; auto].
  unfold w_remove. set (ms0 := ms_set ms (NS.remove id (ms_mask ms)) (ms_raw ms)).
  destruct (ms_event_fields ms0 (ERemoved id)) as [E1 _].
  destruct (u_remove (ms_raw (ms_event ms0 (ERemoved id))) id c) as [[r t] c']. cbn [fst ms_set ms_mask].
  rewrite E1. subst ms0. cbn [ms_set ms_mask]. rewrite ns_mem_remove. destruct (N.eq_dec id i); [discriminate|auto].
Qed.

Definition masks_shrink (e e' : senv) : Prop :=
  forall sid i, NS.mem i (env_mask e' sid) = true -> NS.mem i (env_mask e sid) = true.

Lemma env_jact_masks_shrink e0 e sid a : masks_shrink e0 e -> masks_shrink e0 (fst (env_jact e sid a)).
Proof.
  intros H s i Hm. apply H.
  destruct a as [j|j touch d|j]; try (rewrite env_jact_mask_keep in Hm by exact I; exact Hm).
  unfold env_jact in Hm. destruct (NM.find sid (se_stores e)) as [ms|] eqn:Ef; [|exact Hm].
  cbn [ms_jact] in Hm. pose proof (m_remove_mask_sub ms j (se_cx e) i) as X.
  destruct (m_remove ms j (se_cx e)) as [[ms' o] c']. cbn [fst] in *.
  assert (NS.mem i (env_mask (env_put e sid ms' (match o with Some _ => c' | None => cx_fail c' end)) s) = true) as Hm'.
  { destruct o; exact Hm. }
  rewrite env_mask_put in Hm'. destruct (N.eq_dec sid s) as [<-|]; [|exact Hm'].
  unfold env_mask. rewrite Ef. apply X. exact Hm'.
Qed.

Theorem env_join_masks_shrink e av eids hs k ms : masks_shrink e (fst (env_join e av eids hs k ms)).
Proof.
  apply (env_join_pres (masks_shrink e)).
  - intros e' sid a H. apply env_jact_masks_shrink. assumption.
  - intros e' k' m H. exact H.
  - intros e' H. exact H.
  - intros s i H. exact H.
Qed.
