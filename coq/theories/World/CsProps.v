(* C16, the accumulation side: a change set built from any sequence of
   (entity, amount) pairs holds, for each index mentioned, the combination of
   its amounts in arrival order, and nothing for any other index; collecting,
   extending and adding one by one agree. *)
From SV Require Import Base.ListX World.Env World.Join.

Definition amts_of (i : N) (l : list (N * Z)) : list Z := map snd (filter (fun p => N.eqb (fst p) i) l).

(* the combination of a non-empty sequence of amounts in arrival order, starting from what is there *)
Definition fold_amt (o : option Z) (l : list Z) : option Z :=
  fold_left (fun o a => match o with Some x => Some (amt_add x a) | None => Some a end) l o.

Lemma cs_add_find m i a j :
  NM.find j (cs_add m i a) = if N.eq_dec i j then fold_amt (NM.find i m) [a] else NM.find j m.
Proof.
  unfold cs_add, fold_amt. cbn [fold_left].
  destruct (NM.find i m) as [x|]; rewrite find_add; destruct (N.eq_dec i j); reflexivity.
Qed.

Theorem cs_add_all_spec l : forall m i, NM.find i (cs_add_all m l) = fold_amt (NM.find i m) (amts_of i l).
Proof.
  induction l as [|[j a] l IH]; intros m i; cbn [cs_add_all amts_of filter map fst]; [reflexivity|].
  rewrite IH, cs_add_find. destruct (N.eq_dec j i) as [->|Hne].
  - rewrite N.eqb_refl. cbn [map snd fold_amt fold_left]. reflexivity.
  - destruct (N.eqb_spec j i); [contradiction|]. reflexivity.
Qed.

(* collect: exactly the indices mentioned, each with its amounts combined in arrival order *)
Theorem collect_spec l i : NM.find i (cs_add_all (NM.empty Z) l) = fold_amt None (amts_of i l).
Proof. rewrite cs_add_all_spec, find_empty. reflexivity. Qed.

Theorem collect_nothing_else l i : amts_of i l = [] -> NM.find i (cs_add_all (NM.empty Z) l) = None.
Proof. intros H. rewrite collect_spec, H. reflexivity. Qed.

Lemma fold_amt_some x l : fold_amt (Some x) l <> None.
Proof. revert x. induction l as [|a l IH]; intros x; cbn; [discriminate | apply IH]. Qed.

Theorem collect_mentions l i : amts_of i l <> [] -> NM.find i (cs_add_all (NM.empty Z) l) <> None.
Proof.
  intros H. rewrite collect_spec. destruct (amts_of i l) as [|a r]; [congruence|]. cbn. apply fold_amt_some.
Qed.

(* extending = collecting the concatenation; adding one by one = extending by a singleton *)
Theorem extend_is_append l1 l2 m : cs_add_all (cs_add_all m l1) l2 = cs_add_all m (l1 ++ l2).
Proof. revert m. induction l1 as [|[j a] l1 IH]; intros m; cbn [cs_add_all app]; [reflexivity | apply IH]. Qed.

Theorem add_is_extend m i a : cs_add m i a = cs_add_all m [(i, a)].
Proof. reflexivity. Qed.

(* the order of arrival shows: the combination is not commutative *)
Example order_matters : fold_amt None [1; 2]%Z <> fold_amt None [2; 1]%Z.
Proof. cbn. discriminate. Qed.

(* the operations of the model are these functions *)
Theorem csop_collect e hs k l ps : res_pairs hs l = Some ps ->
  cs_get (fst (env_csop e hs (CsCollect k l))) k = cs_add_all (NM.empty Z) ps.
Proof.
  intros H. cbn [env_csop]. rewrite H. cbn [fst]. unfold cs_get, cs_put. cbn [se_cs]. rewrite find_add.
  destruct (N.eq_dec k k); [reflexivity|congruence].
Qed.

Theorem csop_extend e hs k l ps : res_pairs hs l = Some ps ->
  cs_get (fst (env_csop e hs (CsExtend k l))) k = cs_add_all (cs_get e k) ps.
Proof.
  intros H. cbn [env_csop]. rewrite H. cbn [fst]. unfold cs_get at 1, cs_put. cbn [se_cs]. rewrite find_add.
  destruct (N.eq_dec k k); [reflexivity|congruence].
Qed.

Theorem csop_add e hs k h a ent : pv_get hs (N.of_nat h) = Some ent ->
  cs_get (fst (env_csop e hs (CsAdd k h a))) k = cs_add (cs_get e k) (fst ent) a.
Proof.
  intros H. cbn [env_csop]. rewrite H. cbn [fst]. unfold cs_get at 1, cs_put. cbn [se_cs]. rewrite find_add.
  destruct (N.eq_dec k k); [reflexivity|congruence].
Qed.

(* other slots are untouched *)
Theorem csop_other_slot e hs c k' :
  (match c with CsNew k | CsAdd k _ _ | CsCollect k _ | CsExtend k _ | CsClear k | CsDump k => k <> k' end) ->
  cs_get (fst (env_csop e hs c)) k' = cs_get e k'.
Proof.
  intros H. destruct c as [k|k h a|k l|k l|k|k]; cbn [env_csop];
    try destruct (pv_get hs (N.of_nat h)); try destruct (res_pairs hs l); cbn [fst]; try reflexivity;
    unfold cs_get, cs_put; cbn [se_cs]; rewrite find_add; destruct (N.eq_dec k k'); congruence.
Qed.
