(* C04: every storage operation of the API gives the same result on any two
   storages that represent the same abstract map (in particular on a storage of
   any kind and on the plain map), keeps them related, and is never stuck. *)
From SV Require Import Base.ListX Store.Raw Store.RawRefine Store.Masked Store.StoreInv World.Env.

Lemma tnorm_idem ms v : tnorm ms (tnorm ms v) = tnorm ms v.
Proof. unfold tnorm. destruct (ms_unit ms); reflexivity. Qed.

(* slice views are representation specific: not compared *)
Definition wout_sim (x y : wout) : Prop :=
  match x, y with WSlice _, WSlice _ => True | _, _ => x = y end.

Lemma wout_sim_refl x : wout_sim x x.
Proof. destruct x; cbn; auto. Qed.

Lemma srel_mask a b : srel a b -> ms_mask a = ms_mask b.
Proof. intros [[F1 _] _]. exact F1. Qed.

Lemma srel_get a b id ca cb : srel a b -> NS.mem id (ms_mask a) = true ->
  fst (u_get (ms_raw a) id ca) = fst (u_get (ms_raw b) id cb) /\
  snd (u_get (ms_raw a) id ca) = ca /\ snd (u_get (ms_raw b) id cb) = cb.
Proof.
  intros [HF [m [Ha Hb]]] Hmem. destruct (keys_find_some _ _ _ (MI_keys _ _ Ha) Hmem) as [t Hf].
  rewrite (u_get_ref _ m id t ca (MI_rel _ _ Ha) Hf), (u_get_ref _ m id t cb (MI_rel _ _ Hb) Hf). auto.
Qed.

Lemma st_insert_pair a b av e v ca cb : srel a b ->
  let '(a', ra, ca') := st_insert a av e v ca in
  let '(b', rb, cb') := st_insert b av e v cb in
  ra = rb /\ srel a' b' /\ cx_stuck ca' = cx_stuck ca /\ cx_stuck cb' = cx_stuck cb.
Proof.
  intros H. pose proof H as [HF _]. unfold st_insert. cbv zeta.
  rewrite <- (tnorm_fields a b v HF), <- (srel_mask a b H).
  destruct (av_alive av e); [|auto].
  destruct (NS.mem (fst e) (ms_mask a)) eqn:Hmem.
  - pose proof (access_pair a b (fst e) true (USwap (tnorm a v)) ca cb H Hmem (eq_sym (tnorm_idem a v))) as X.
    destruct (w_access_mut a (fst e) true (USwap (tnorm a v)) ca) as [[a' ta] ca'].
    destruct (w_access_mut b (fst e) true (USwap (tnorm a v)) cb) as [[b' tb] cb'].
    destruct X as [-> [X2 [-> ->]]]. auto.
  - pose proof (npi_pair a b (fst e) v ca cb H Hmem) as X. rewrite <- (tnorm_fields a b v HF) in X.
    destruct (not_present_insert a (fst e) (tnorm a v) ca) as [a' ca'].
    destruct (not_present_insert b (fst e) (tnorm a v) cb) as [b' cb']. cbn [fst snd] in X. tauto.
Qed.

Lemma present_pair a b av e : srel a b -> present a av e = present b av e.
Proof. intros H. unfold present. rewrite (srel_mask a b H). reflexivity. Qed.

Lemma st_get_pair a b av e ca cb : srel a b ->
  fst (st_get a av e ca) = fst (st_get b av e cb) /\ snd (st_get a av e ca) = ca /\ snd (st_get b av e cb) = cb.
Proof.
  intros H. unfold st_get. rewrite <- (present_pair a b av e H). unfold present.
  destruct (NS.mem (fst e) (ms_mask a)) eqn:Hmem; [|cbn [andb]; auto]. destruct (av_alive av e); [|cbn [andb]; auto]. cbn [andb].
  destruct (srel_get a b (fst e) ca cb H Hmem) as [X1 [X2 X3]].
  destruct (u_get (ms_raw a) (fst e) ca) as [ta ca']. destruct (u_get (ms_raw b) (fst e) cb) as [tb cb'].
  cbn [fst snd] in *. subst. auto.
Qed.

Lemma st_get_mut_pair a b av e touch nv ca cb : srel a b ->
  let '(a', ra, ca') := st_get_mut a av e touch nv ca in
  let '(b', rb, cb') := st_get_mut b av e touch nv cb in
  ra = rb /\ srel a' b' /\ ca' = ca /\ cb' = cb.
Proof.
  intros H. unfold st_get_mut. rewrite <- (present_pair a b av e H). unfold present.
  destruct (NS.mem (fst e) (ms_mask a)) eqn:Hmem; [|cbn [andb]; auto]. destruct (av_alive av e); [|cbn [andb]; auto]. cbn [andb].
  set (u := match nv with Some z => USetVal z | None => UNone end).
  pose proof (access_pair a b (fst e) touch u ca cb H Hmem) as X.
  destruct (w_access_mut a (fst e) touch u ca) as [[a' ta] ca']. destruct (w_access_mut b (fst e) touch u cb) as [[b' tb] cb'].
  destruct X as [-> [X2 [-> ->]]]; [destruct nv; exact I|]. auto.
Qed.

Lemma st_remove_pair a b av e ca cb : srel a b ->
  let '(a', ra, ca') := st_remove a av e ca in
  let '(b', rb, cb') := st_remove b av e cb in
  ra = rb /\ srel a' b' /\ cx_stuck ca' = cx_stuck ca /\ cx_stuck cb' = cx_stuck cb.
Proof.
  intros H. unfold st_remove. destruct (av_alive av e); [|auto]. apply m_remove_pair. assumption.
Qed.

Lemma drain_ids_pair ids : forall a b ca cb, srel a b -> NoDup ids ->
  (forall i, In i ids -> NS.mem i (ms_mask a) = true) ->
  let '(a', la, ca') := st_drain_ids a ids ca in
  let '(b', lb, cb') := st_drain_ids b ids cb in
  la = lb /\ srel a' b' /\ cx_stuck ca' = cx_stuck ca /\ cx_stuck cb' = cx_stuck cb.
Proof.
  induction ids as [|i ids IH]; intros a b ca cb H Hnd Hin; cbn [st_drain_ids]; [auto|].
  inversion Hnd as [|? ? Hni Hnd']; subst.
  pose proof (m_remove_pair a b i ca cb H) as X.
  pose proof H as [HF [m [Ha Hb]]].
  pose proof (m_remove_char a m i ca Ha) as C.
  destruct (m_remove a i ca) as [[a1 oa] ca1]. destruct (m_remove b i cb) as [[b1 ob] cb1].
  destruct X as [<- [X2 [X3 X4]]]. destruct C as [Co [_ [_ [_ [Cm _]]]]].
  rewrite (Hin i (or_introl eq_refl)) in Cm.
  destruct (keys_find_some _ _ _ (MI_keys _ _ Ha) (Hin i (or_introl eq_refl))) as [t Hf]. rewrite Hf in Co. subst oa.
  specialize (IH a1 b1 ca1 cb1 X2 Hnd').
  destruct (st_drain_ids a1 ids ca1) as [[a2 la] ca2]. destruct (st_drain_ids b1 ids cb1) as [[b2 lb] cb2].
  destruct IH as [-> [I2 [I3 I4]]].
  { intros j Hj. rewrite Cm, ns_mem_remove. destruct (N.eq_dec i j) as [<-|]; [contradiction|]. apply Hin. right. assumption. }
  split; [reflexivity|]. split; [assumption|]. split; congruence.
Qed.

Lemma firstn_In {A} k : forall (l : list A) x, In x (firstn k l) -> In x l.
Proof.
  induction k as [|k IH]; intros l x H; cbn [firstn] in H; [destruct H|]. destruct l as [|y l]; [destruct H|].
  destruct H as [->|H]; [left; reflexivity | right; apply IH; assumption].
Qed.

Lemma firstn_nodup {A} k : forall (l : list A), NoDup l -> NoDup (firstn k l).
Proof.
  induction k as [|k IH]; intros l H; cbn [firstn]; [constructor|]. destruct l as [|x l]; [constructor|].
  inversion H; subst. constructor; [|apply IH; assumption]. intros Hin. apply firstn_In in Hin. contradiction.
Qed.

Lemma st_drain_pair a b lim ca cb : srel a b ->
  let '(a', la, ca') := st_drain a lim ca in
  let '(b', lb, cb') := st_drain b lim cb in
  la = lb /\ srel a' b' /\ cx_stuck ca' = cx_stuck ca /\ cx_stuck cb' = cx_stuck cb.
Proof.
  intros H. unfold st_drain. cbv zeta. rewrite <- (srel_mask a b H).
  apply drain_ids_pair; [assumption | |].
  - destruct lim; [apply firstn_nodup|]; apply RawRefine_nodup.
  - intros i Hi. apply RawRefine_in_elements. destruct lim; [apply firstn_In in Hi|]; assumption.
Qed.

Lemma cx_drop_stuck c t : cx_stuck (cx_drop c t) = cx_stuck c.
Proof. reflexivity. Qed.

Lemma st_entry_pair a b av e o ca cb : srel a b ->
  let '(a', ra, ca') := st_entry a av e o ca in
  let '(b', rb, cb') := st_entry b av e o cb in
  ra = rb /\ srel a' b' /\ cx_stuck ca' = cx_stuck ca /\ cx_stuck cb' = cx_stuck cb.
Proof.
  intros H. pose proof H as [HF _]. unfold st_entry. cbv zeta.
  rewrite <- (srel_mask a b H).
  assert (match o with EnOrInsert v => EnOrInsert (tnorm b v) | EnReplace v => EnReplace (tnorm b v) | o0 => o0 end =
          match o with EnOrInsert v => EnOrInsert (tnorm a v) | EnReplace v => EnReplace (tnorm a v) | o0 => o0 end) as ->.
  { destruct o; try reflexivity; rewrite (tnorm_fields a b _ HF); reflexivity. }
  destruct (av_alive av e).
  2:{ destruct o; cbn; auto. }
  destruct (NS.mem (fst e) (ms_mask a)) eqn:Hmem.
  - destruct o as [|v|v| |z].
    + destruct (srel_get a b (fst e) ca cb H Hmem) as [X1 [X2 X3]].
      destruct (u_get (ms_raw a) (fst e) ca) as [ta ca']. destruct (u_get (ms_raw b) (fst e) cb) as [tb cb'].
      cbn [fst snd] in *. subst. auto.
    + pose proof (access_pair a b (fst e) false UNone ca cb H Hmem I) as X.
      destruct (w_access_mut a (fst e) false UNone ca) as [[a' ta] ca']. destruct (w_access_mut b (fst e) false UNone cb) as [[b' tb] cb'].
      destruct X as [-> [X2 [-> ->]]]. auto.
    + pose proof (access_pair a b (fst e) true (USwap (tnorm a v)) ca cb H Hmem (eq_sym (tnorm_idem a v))) as X.
      destruct (w_access_mut a (fst e) true (USwap (tnorm a v)) ca) as [[a' ta] ca'].
      destruct (w_access_mut b (fst e) true (USwap (tnorm a v)) cb) as [[b' tb] cb'].
      destruct X as [-> [X2 [-> ->]]]. auto.
    + pose proof (m_remove_pair a b (fst e) ca cb H) as X.
      destruct (m_remove a (fst e) ca) as [[a' oa] ca']. destruct (m_remove b (fst e) cb) as [[b' ob] cb'].
      destruct X as [-> [X2 [X3 X4]]]. auto.
    + pose proof (access_pair a b (fst e) true (USetVal z) ca cb H Hmem I) as X.
      destruct (w_access_mut a (fst e) true (USetVal z) ca) as [[a' ta] ca']. destruct (w_access_mut b (fst e) true (USetVal z) cb) as [[b' tb] cb'].
      destruct X as [-> [X2 [-> ->]]]. auto.
  - destruct o as [|v|v| |z]; try (split; [reflexivity|]; split; [assumption|]; split; reflexivity).
    + pose proof (npi_pair a b (fst e) v ca cb H Hmem) as X. rewrite <- (tnorm_fields a b v HF) in X.
      pose proof H as [_ [m [Ha _]]].
      pose proof (not_present_insert_char a m (fst e) v ca Ha Hmem) as [_ [_ [Cm _]]].
      destruct (not_present_insert a (fst e) (tnorm a v) ca) as [a1 ca1].
      destruct (not_present_insert b (fst e) (tnorm a v) cb) as [b1 cb1]. cbn [fst snd] in *.
      destruct X as [X1 [X2 X3]].
      assert (NS.mem (fst e) (ms_mask a1) = true) as Hmem1.
      { rewrite Cm, ns_mem_add. destruct (N.eq_dec (fst e) (fst e)); [reflexivity|congruence]. }
      pose proof (access_pair a1 b1 (fst e) false UNone ca1 cb1 X1 Hmem1 I) as Y.
      destruct (w_access_mut a1 (fst e) false UNone ca1) as [[a' ta] ca']. destruct (w_access_mut b1 (fst e) false UNone cb1) as [[b' tb] cb'].
      destruct Y as [-> [Y2 [-> ->]]]. auto.
    + pose proof (npi_pair a b (fst e) v ca cb H Hmem) as X. rewrite <- (tnorm_fields a b v HF) in X.
      pose proof H as [_ [m [Ha _]]].
      pose proof (not_present_insert_char a m (fst e) v ca Ha Hmem) as [_ [_ [Cm _]]].
      destruct (not_present_insert a (fst e) (tnorm a v) ca) as [a1 ca1].
      destruct (not_present_insert b (fst e) (tnorm a v) cb) as [b1 cb1]. cbn [fst snd] in *.
      destruct X as [X1 [X2 X3]].
      assert (NS.mem (fst e) (ms_mask a1) = true) as Hmem1.
      { rewrite Cm, ns_mem_add. destruct (N.eq_dec (fst e) (fst e)); [reflexivity|congruence]. }
      pose proof (access_pair a1 b1 (fst e) false UNone ca1 cb1 X1 Hmem1 I) as Y.
      destruct (w_access_mut a1 (fst e) false UNone ca1) as [[a' ta] ca']. destruct (w_access_mut b1 (fst e) false UNone cb1) as [[b' tb] cb'].
      destruct Y as [_ [Y2 [-> ->]]]. auto.
Qed.

Lemma st_gmd_pair a b av e ca cb : srel a b ->
  let '(a', ra, ca') := st_get_mut_or_default a av e ca in
  let '(b', rb, cb') := st_get_mut_or_default b av e cb in
  ra = rb /\ srel a' b' /\ cx_stuck ca' = cx_stuck ca /\ cx_stuck cb' = cx_stuck cb.
Proof.
  intros H. pose proof H as [HF _]. unfold st_get_mut_or_default. rewrite <- (present_pair a b av e H).
  destruct (present a av e).
  - pose proof (st_get_mut_pair a b av e false None ca cb H) as X.
    destruct (st_get_mut a av e false None ca) as [[a' ra] ca']. destruct (st_get_mut b av e false None cb) as [[b' rb] cb'].
    destruct X as [-> [X2 [-> ->]]]. auto.
  - destruct HF as [_ [_ [_ [_ [_ F6]]]]]. rewrite <- F6.
    pose proof (st_insert_pair a b av e (if ms_unit a then unit_tok else default_tok) (cx_mint ca) (cx_mint cb) H) as X.
    destruct (st_insert a av e _ (cx_mint ca)) as [[a1 ra1] ca1]. destruct (st_insert b av e _ (cx_mint cb)) as [[b1 rb1] cb1].
    destruct X as [-> [X2 [X3 X4]]]. cbn [cx_mint cx_stuck] in X3, X4.
    destruct rb1; try (split; [reflexivity|]; split; [assumption|]; split; assumption).
    + pose proof (st_get_mut_pair a1 b1 av e false None ca1 cb1 X2) as Y.
      destruct (st_get_mut a1 av e false None ca1) as [[a' ra] ca']. destruct (st_get_mut b1 av e false None cb1) as [[b' rb] cb'].
      destruct Y as [-> [Y2 [-> ->]]]. auto.
    + pose proof (st_get_mut_pair a1 b1 av e false None ca1 cb1 X2) as Y.
      destruct (st_get_mut a1 av e false None ca1) as [[a' ra] ca']. destruct (st_get_mut b1 av e false None cb1) as [[b' rb] cb'].
      destruct Y as [-> [Y2 [-> ->]]]. auto.
Qed.

(* reader bookkeeping touches neither the mask nor the raw storage *)
Lemma srel_meta a b a' b' : srel a b ->
  ms_mask a' = ms_mask a -> ms_raw a' = ms_raw a -> ms_unit a' = ms_unit a ->
  ms_mask b' = ms_mask b -> ms_raw b' = ms_raw b -> ms_unit b' = ms_unit b ->
  ms_wrap a' = ms_wrap b' -> ms_chan a' = ms_chan b' -> ms_emit a' = ms_emit b' -> ms_readers a' = ms_readers b' ->
  srel a' b'.
Proof.
  intros [[F1 [F2 [F3 [F4 [F5 F6]]]]] [m [[A1 A2 A3 A4] [B1 B2 B3 B4]]]] Ea1 Ea2 Ea3 Eb1 Eb2 Eb3 W C E R.
  split.
  - unfold fields_eq. rewrite Ea1, Eb1, Ea3, Eb3. auto 10.
  - exists m. split; split; rewrite ?Ea1, ?Ea2, ?Ea3, ?Eb1, ?Eb2, ?Eb3; assumption.
Qed.

(* the theorem: one operation, two representations of the same abstract map *)
Theorem ms_sop_pair a b av ent so ca cb : srel a b ->
  let '(a', oa, ca') := ms_sop a av ent so ca in
  let '(b', ob, cb') := ms_sop b av ent so cb in
  wout_sim oa ob /\ srel a' b' /\ cx_stuck ca' = cx_stuck ca /\ cx_stuck cb' = cx_stuck cb.
Proof.
  intros H. pose proof H as [[F1 [F2 [F3 [F4 [F5 F6]]]]] _].
  destruct so; cbn [ms_sop].
  - pose proof (st_insert_pair a b av ent v ca cb H) as X.
    destruct (st_insert a av ent v ca) as [[a' ra] ca']. destruct (st_insert b av ent v cb) as [[b' rb] cb'].
    destruct X as [-> X]. split; [apply wout_sim_refl | exact X].
  - destruct (st_get_pair a b av ent ca cb H) as [X1 [X2 X3]].
    destruct (st_get a av ent ca) as [ra ca']. destruct (st_get b av ent cb) as [rb cb']. cbn [fst snd] in *. subst.
    split; [apply wout_sim_refl | auto].
  - pose proof (st_get_mut_pair a b av ent touch nv ca cb H) as X.
    destruct (st_get_mut a av ent touch nv ca) as [[a' ra] ca']. destruct (st_get_mut b av ent touch nv cb) as [[b' rb] cb'].
    destruct X as [-> [X2 [-> ->]]]. split; [apply wout_sim_refl | auto].
  - pose proof (st_remove_pair a b av ent ca cb H) as X.
    destruct (st_remove a av ent ca) as [[a' ra] ca']. destruct (st_remove b av ent cb) as [[b' rb] cb'].
    destruct X as [-> X]. split; [apply wout_sim_refl | exact X].
  - unfold st_contains. rewrite (present_pair a b av ent H). split; [apply wout_sim_refl | auto].
  - rewrite F1. split; [apply wout_sim_refl | auto].
  - rewrite F1. split; [apply wout_sim_refl | auto].
  - rewrite F1. split; [apply wout_sim_refl | auto].
  - (* slices: not compared, but never stuck *)
    rewrite <- F2. destruct (ms_wrap a); [|split; [exact I|auto] |split; [exact I|auto]].
    destruct H as [HF [m [Ha Hb]]].
    assert (forall ms c, MInv ms m -> cx_stuck (snd (u_slice (ms_raw ms) (NS.elements (ms_mask ms)) c)) = cx_stuck c) as Hs.
    { intros ms c HM. destruct (ms_raw ms) as [s|s|cells|m'|] eqn:Er; cbn [u_slice]; try reflexivity.
      pose proof (MI_rel _ _ HM) as HR. rewrite Er in HR.
      rewrite (vec_slice_ref s m (NS.elements (ms_mask ms)) c HR); [reflexivity|].
      intros i Hi. apply RawRefine_in_elements in Hi. rewrite (MI_keys _ _ HM) in Hi.
      destruct (NM.find i m); [discriminate|discriminate]. }
    pose proof (Hs a ca Ha) as S1. pose proof (Hs b cb Hb) as S2.
    destruct (u_slice (ms_raw a) (NS.elements (ms_mask a)) ca) as [va ca'].
    destruct (u_slice (ms_raw b) (NS.elements (ms_mask b)) cb) as [vb cb']. cbn [snd] in *.
    split; [exact I|]. split; [split; [assumption | exists m; auto]|auto].
  - pose proof (m_clear_pair a b ca cb H) as X.
    destruct (m_clear a ca) as [a' ca']. destruct (m_clear b cb) as [b' cb']. cbn [fst snd] in X.
    split; [reflexivity | exact X].
  - pose proof (st_drain_pair a b lim ca cb H) as X.
    destruct (st_drain a lim ca) as [[a' la] ca']. destruct (st_drain b lim cb) as [[b' lb] cb'].
    destruct X as [-> X]. split; [apply wout_sim_refl | exact X].
  - pose proof (st_entry_pair a b av ent eo ca cb H) as X.
    destruct (st_entry a av ent eo ca) as [[a' ra] ca']. destruct (st_entry b av ent eo cb) as [[b' rb] cb'].
    destruct X as [-> X]. split; [apply wout_sim_refl | exact X].
  - pose proof (st_gmd_pair a b av ent ca cb H) as X.
    destruct (st_get_mut_or_default a av ent ca) as [[a' ra] ca']. destruct (st_get_mut_or_default b av ent cb) as [[b' rb] cb'].
    destruct X as [-> X]. split; [apply wout_sim_refl | exact X].
  - split; [reflexivity | auto].
  - rewrite <- F2. destruct (ms_wrap a) eqn:Ew; [split; [reflexivity|auto]| |];
    (unfold st_register_reader; rewrite F3, F5; split; [reflexivity|]; split; [|auto];
     apply (srel_meta a b); cbn; auto; congruence).
  - unfold st_read_events. rewrite F5, F3.
    destruct (nth_error (ms_readers b) k); [|split; [reflexivity|auto]].
    split; [reflexivity|]. split; [|auto]. apply (srel_meta a b); cbn; auto; congruence.
  - rewrite <- F2. destruct (ms_wrap a) eqn:Ew; [split; [reflexivity|auto]| |];
    (split; [reflexivity|]; split; [|auto]; apply (srel_meta a b); cbn; auto; congruence).
Qed.
