(* C08: every operation of the Storage API, as one theorem: the values held
   afterwards, handed back and destroyed are the values held before plus those
   moved in (multisets of uids), for every kind without default-filled gaps
   and both wrappers. *)
From SV Require Import Base.ListX Store.Raw Store.RawRefine Store.Masked Store.StoreInv Store.Bag Store.Ledger
  Store.ClearLedger World.Env.
From Coq Require Import Sorting.Permutation.

Lemma u_get_drops r i c : cx_drops (snd (u_get r i c)) = cx_drops c.
Proof.
  destruct r as [s|s|cells|m'|]; cbn [u_get];
    repeat match goal with
           | |- context [match ?x with _ => _ end] => destruct x
           | |- context [if ?x then _ else _] => destruct x
           end; reflexivity.
Qed.

Lemma vec_slice_drops s ids : forall c, cx_drops (snd (vec_slice_vals s ids c)) = cx_drops c.
Proof.
  induction ids as [|i ids IH]; intros c; cbn [vec_slice_vals]; [reflexivity|].
  pose proof (u_get_drops (RVec s) i c) as G. destruct (u_get (RVec s) i c) as [t c1]. cbn [snd] in G.
  specialize (IH c1). destruct (vec_slice_vals s ids c1) as [l c2]. cbn [snd] in *. congruence.
Qed.

Lemma u_slice_drops r mask c : cx_drops (snd (u_slice r mask c)) = cx_drops c.
Proof.
  destruct r as [s|s|cells|m'|]; cbn [u_slice]; try reflexivity.
  pose proof (vec_slice_drops s mask c) as V. destruct (vec_slice_vals s mask c) as [l c']. exact V.
Qed.

(* what an operation moves in, and what its result hands back *)
Definition sop_ins (ms : mstore) (av : aview) (ent : entity) (so : sop) : list N :=
  match so with
  | SInsert _ _ v => [fst (tnorm ms v)]
  | SEntry _ _ o => entry_ins ms o
  | SGetMutOrDefault _ _ => if present ms av ent then [] else [fst (tnorm ms (if ms_unit ms then unit_tok else default_tok))]
  | _ => []
  end.

Definition sop_rets (so : sop) (out : wout) : list N :=
  match so, out with
  | SInsert _ _ _, WIns (InsOld t) => [fst t]
  | SRemove _ _, WOptTok (Some t) => [fst t]
  | SDrain _ _, WToks l => map fst l
  | SEntry _ _ o, WEntry r => entry_rets o r
  | _, _ => []
  end.

Lemma LInvS_fields ms ms' m : LInvS ms m -> ms_mask ms' = ms_mask ms -> ms_raw ms' = ms_raw ms -> ms_unit ms' = ms_unit ms -> LInvS ms' m.
Proof.
  intros [[K R U Nl] P] E1 E2 E3. split; [split|]; rewrite ?E1, ?E2, ?E3; assumption.
Qed.

Theorem sop_conserves ms m av ent so c : LInvS ms m ->
  let '(ms', out, c') := ms_sop ms av ent so c in
  exists m', LInvS ms' m' /\ conserves m m' (sop_ins ms av ent so) (sop_rets so out) c c'.
Proof.
  intros HL.
  assert (forall ms' c', LInvS ms' m -> cx_drops c' = cx_drops c -> exists m', LInvS ms' m' /\ conserves m m' [] [] c c') as Hsame.
  { intros ms' c' L D. exists m. split; [exact L|]. exists []. split; [rewrite D; reflexivity|]. rewrite !app_nil_r. apply Permutation_refl. }
  destruct so as [sid h v|sid h|sid h t nv|sid h|sid h|sid|sid|sid|sid|sid|sid lim|sid h eo|sid h|sid|sid|sid k|sid b];
    cbn [ms_sop sop_ins sop_rets].
  - pose proof (insert_conserves ms m av ent v c HL) as X. destruct (st_insert ms av ent v c) as [[ms' r] c'].
    destruct X as [m' [L' [_ P]]]. exists m'. split; [exact L'|]. destruct r; exact P.
  - unfold st_get. destruct (present ms av ent); [|apply Hsame; [exact HL|reflexivity]].
    pose proof (u_get_drops (ms_raw ms) (fst ent) c) as G. destruct (u_get (ms_raw ms) (fst ent) c) as [t' c']. apply Hsame; [exact HL|exact G].
  - pose proof (get_mut_conserves ms m av ent t nv c HL) as X. destruct (st_get_mut ms av ent t nv c) as [[ms' o] c'].
    destruct X as [m' [L' [-> P]]]. exists m'. split; [exact L'|]. exists []. split; [reflexivity|]. rewrite !app_nil_r. exact P.
  - pose proof (remove_api_conserves ms m av ent c HL) as X. destruct (st_remove ms av ent c) as [[ms' o] c'].
    destruct X as [m' [L' [_ P]]]. exists m'. split; [exact L'|]. destruct o; exact P.
  - apply Hsame; [exact HL|reflexivity].
  - apply Hsame; [exact HL|reflexivity].
  - apply Hsame; [exact HL|reflexivity].
  - apply Hsame; [exact HL|reflexivity].
  - destruct (ms_wrap ms); [|apply Hsame; [exact HL|reflexivity] ..].
    pose proof (u_slice_drops (ms_raw ms) (NS.elements (ms_mask ms)) c) as G.
    destruct (u_slice (ms_raw ms) (NS.elements (ms_mask ms)) c) as [v c']. apply Hsame; [exact HL|exact G].
  - pose proof (clear_conserves ms m c HL) as X. destruct (m_clear ms c) as [ms' c']. destruct X as [L' [_ [d [D P]]]].
    exists (NM.empty tok). split; [exact L'|]. exists d. split; [exact D|]. rewrite bag_empty. cbn [app]. rewrite app_nil_r. exact P.
  - unfold st_drain. pose proof (drain_conserves (match lim with Some k => firstn k (NS.elements (ms_mask ms)) | None => NS.elements (ms_mask ms) end) ms m c HL) as X.
    destruct (st_drain_ids ms _ c) as [[ms' l] c']. destruct X as [m' [L' [D P]]].
    exists m'. split; [exact L'|]. exists []. split; [rewrite D; reflexivity|]. rewrite !app_nil_r. exact P.
  - pose proof (entry_conserves ms m av ent eo c HL) as X. destruct (st_entry ms av ent eo c) as [[ms' r] c'].
    destruct X as [m' [L' [_ P]]]. exists m'. split; [exact L'|]. exact P.
  - pose proof (gmd_conserves ms m av ent c HL) as X. destruct (st_get_mut_or_default ms av ent c) as [[ms' o] c'].
    destruct X as [m' [L' P]]. exists m'. split; [exact L'|]. exact P.
  - apply Hsame; [exact HL|reflexivity].
  - destruct (ms_wrap ms); [apply Hsame; [exact HL|reflexivity] | |];
      (destruct (st_register_reader ms) as [ms1 k] eqn:E; apply Hsame; [|reflexivity];
       unfold st_register_reader in E; inversion E; subst; apply (LInvS_fields ms _ m HL); reflexivity).
  - unfold st_read_events. destruct (nth_error (ms_readers ms) k) as [cur|]; [|apply Hsame; [exact HL|reflexivity]].
    apply Hsame; [|reflexivity]. apply (LInvS_fields ms _ m HL); reflexivity.
  - destruct (ms_wrap ms); [apply Hsame; [exact HL|reflexivity] | |];
      (apply Hsame; [|reflexivity]; apply (LInvS_fields ms _ m HL); reflexivity).
Qed.
