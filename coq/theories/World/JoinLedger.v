(* C08 through joins: a join moves nothing in and destroys nothing; the only
   values that leave the storages are the ones a drain member hands out, and
   they are exactly the drain's items. *)
From SV Require Import Base.ListX Store.Raw Store.RawRefine Store.Masked Store.StoreInv Store.Bag Store.Ledger World.Env World.Join
  World.JoinPres World.SopLedger World.WorldLedger.
From Coq Require Import Sorting.Permutation.

(* what an item hands over to the caller for good: the value a drain removed *)
Fixpoint item_rets (m : member) (x : jitem) : list N :=
  match m, x with
  | MDrain _, JTok t => [fst t]
  | MMaybe m', JSome y => item_rets m' y
  | _, _ => []
  end.

Fixpoint items_rets (ms : list member) (xs : list jitem) : list N :=
  match ms, xs with
  | m :: ms', x :: xs' => item_rets m x ++ items_rets ms' xs'
  | _, _ => []
  end.

Definition rows_rets (ms : list member) (rows : list (N * list jitem)) : list N :=
  flat_map (fun p => items_rets ms (snd p)) rows.

Definition jout_rets (ms : list member) (j : jout) : list N :=
  match j with
  | JItems rows => rows_rets ms rows
  | JOne (Some p) => items_rets ms (snd p)
  | _ => []
  end.

Lemma u_get_drops' r i c : cx_drops (snd (u_get r i c)) = cx_drops c. Proof. apply u_get_drops. Qed.

(* the three primitives; a primitive that went wrong (absent slot: stuck) is outside the statement, and stuck is sticky *)
Lemma jact_ledger e sid a : plain_env e -> cx_stuck (se_cx (fst (env_jact e sid a))) = false ->
  cx_stuck (se_cx e) = false /\
  estep_ok e (fst (env_jact e sid a)) [] (match a with JRemove _ => [fst (snd (env_jact e sid a))] | _ => [] end).
Proof.
  intros HP. unfold env_jact. destruct (NM.find sid (se_stores e)) as [ms|] eqn:Es.
  2:{ cbn [fst snd env_fail env_cx se_cx cx_fail cx_stuck]. discriminate. }
  destruct (HP _ _ Es) as [m HL]. pose proof (LS_inv _ _ HL) as HM.
  destruct a as [i|i touch d|i]; cbn [ms_jact].
  - destruct (NS.mem i (ms_mask ms)) eqn:Hmem.
    + destruct (keys_find_some _ _ _ (MI_keys _ _ HM) Hmem) as [t Hf].
      rewrite (u_get_ref _ m i t (se_cx e) (MI_rel _ _ HM) Hf). cbn [fst snd env_put se_cx]. intros Hst. split; [exact Hst|].
      eapply (estep_put e sid ms m ms m _ [] [] HP Es HL HL). exists []. split; [reflexivity|]. rewrite !app_nil_r. apply Permutation_refl.
    + cbn [fst snd env_put se_cx cx_fail cx_stuck]. discriminate.
  - destruct (NS.mem i (ms_mask ms)) eqn:Hmem.
    + destruct (keys_find_some _ _ _ (MI_keys _ _ HM) Hmem) as [t Hf].
      rewrite (u_get_ref _ m i t (se_cx e) (MI_rel _ _ HM) Hf).
      pose proof (access_conserves ms m i t touch (match d with Some z => USetVal (snd t + z) | None => UNone end) (se_cx e) HL Hf) as X.
      destruct (w_access_mut ms i touch _ (se_cx e)) as [[ms' old] c']. destruct X as [_ [-> [m' [L' [_ P]]]]]; [destruct d; exact I|].
      cbn [fst snd env_put se_cx]. intros Hst. split; [exact Hst|].
      eapply (estep_put e sid ms m ms' m' _ [] [] HP Es HL L'). exists []. split; [reflexivity|].
      destruct d; cbn [uid_of_upd] in P; rewrite !app_nil_r in *; exact P.
    + cbn [fst snd env_put se_cx cx_fail cx_stuck]. discriminate.
  - pose proof (remove_conserves ms m i (se_cx e) HL) as X. destruct (m_remove ms i (se_cx e)) as [[ms' o] c'] eqn:Er.
    destruct X as [X1 [D [S [m' [L' P]]]]]. subst o.
    destruct (NM.find i m) as [t|] eqn:Hf; cbn [fst snd env_put se_cx].
    + intros Hst. split; [congruence|].
      eapply (estep_put e sid ms m ms' m' c' [] [fst t] HP Es HL L'). exists []. split; [rewrite D; reflexivity|]. rewrite !app_nil_r. exact P.
    + cbn [cx_fail cx_stuck]. discriminate.
Qed.

Lemma jact_plain e sid a : plain_env e -> plain_env (fst (env_jact e sid a)).
Proof.
  intros HP. unfold env_jact. destruct (NM.find sid (se_stores e)) as [ms|] eqn:Es; [|exact HP].
  destruct (HP _ _ Es) as [m HL]. pose proof (LS_inv _ _ HL) as HM.
  destruct a as [i|i touch d|i]; cbn [ms_jact].
  - destruct (NS.mem i (ms_mask ms)) eqn:Hmem.
    + destruct (u_get (ms_raw ms) i (se_cx e)) as [t c']. cbn [fst]. exact (plain_env_put e sid ms m c' HP HL).
    + cbn [fst]. exact (plain_env_put e sid ms m _ HP HL).
  - destruct (NS.mem i (ms_mask ms)) eqn:Hmem.
    + destruct (keys_find_some _ _ _ (MI_keys _ _ HM) Hmem) as [t Hf].
      rewrite (u_get_ref _ m i t (se_cx e) (MI_rel _ _ HM) Hf).
      pose proof (access_conserves ms m i t touch (match d with Some z => USetVal (snd t + z) | None => UNone end) (se_cx e) HL Hf) as X.
      destruct (w_access_mut ms i touch _ (se_cx e)) as [[ms' old] c']. destruct X as [_ [_ [m' [L' _]]]]; [destruct d; exact I|].
      cbn [fst]. exact (plain_env_put e sid ms' m' c' HP L').
    + cbn [fst]. exact (plain_env_put e sid ms m _ HP HL).
  - pose proof (remove_conserves ms m i (se_cx e) HL) as X. destruct (m_remove ms i (se_cx e)) as [[ms' o] c'] eqn:Er.
    destruct X as [_ [_ [_ [m' [L' _]]]]]. destruct o; cbn [fst]; exact (plain_env_put e sid ms' m' _ HP L').
Qed.

(* a step of a join: the storages stay well formed whatever happens; and when nothing went wrong up to its end, nothing had
   gone wrong before it and the ledger balances with [rets] handed out *)
Definition cstep (e e' : senv) (rets : list N) : Prop :=
  plain_env e' /\ (cx_stuck (se_cx e') = false -> cx_stuck (se_cx e) = false /\ estep_ok e e' [] rets).

Lemma cstep_refl e : plain_env e -> cstep e e [].
Proof. intros H. split; [exact H|]. intros Hs. split; [exact Hs|]. apply estep_refl. exact H. Qed.

Lemma cstep_trans e e1 e2 r1 r2 : cstep e e1 r1 -> cstep e1 e2 r2 -> cstep e e2 (r1 ++ r2).
Proof.
  intros [_ H1] [P2 H2]. split; [exact P2|]. intros Hs. destruct (H2 Hs) as [Hs1 E2]. destruct (H1 Hs1) as [Hs0 E1].
  split; [exact Hs0|]. exact (estep_trans e e1 e2 [] r1 [] r2 E1 E2).
Qed.

Lemma cstep_jact e sid a : plain_env e ->
  cstep e (fst (env_jact e sid a)) (match a with JRemove _ => [fst (snd (env_jact e sid a))] | _ => [] end).
Proof. intros HP. split; [apply jact_plain; exact HP|]. apply jact_ledger. exact HP. Qed.

Lemma cstep_cs e k m : plain_env e -> cstep e (cs_put e k m) [].
Proof.
  intros HP. split; [exact HP|]. intros Hs. split; [exact Hs|]. split; [exact HP|].
  intros L HL. exists L, []. split; [exact HL|]. split; [reflexivity|]. rewrite !app_nil_r. apply Permutation_refl.
Qed.

Lemma cstep_fail e : plain_env e -> cstep e (env_fail e) [].
Proof. intros HP. split; [exact HP|]. cbn [env_fail env_cx se_cx cx_fail cx_stuck]. discriminate. Qed.

Lemma cstep_eq e e' r r' : r = r' -> cstep e e' r -> cstep e e' r'. Proof. intros ->. exact (fun H => H). Qed.

Lemma others_lookup_cstep av hs sid mutably l : forall e, plain_env e -> cstep e (fst (others_lookup av hs sid mutably l e)) [].
Proof.
  induction l as [|h l IH]; intros e HP; cbn [others_lookup]; [apply cstep_refl; exact HP|].
  destruct (pv_get hs (N.of_nat h)) as [ent|].
  - destruct (NS.mem (fst ent) (env_mask e sid) && av_alive av ent).
    + pose proof (cstep_jact e sid (if mutably then JAccess (fst ent) false None else JRead (fst ent)) HP) as X.
      assert (cstep e (fst (env_jact e sid (if mutably then JAccess (fst ent) false None else JRead (fst ent)))) []) as X'.
      { destruct mutably; exact X. }
      clear X. destruct (env_jact e sid _) as [e1 t]. cbn [fst] in X'. specialize (IH e1 (proj1 X')).
      destruct (others_lookup av hs sid mutably l e1) as [e2 r]. cbn [fst] in *. exact (cstep_trans _ _ _ [] [] X' IH).
    + specialize (IH e HP). destruct (others_lookup av hs sid mutably l e) as [e2 r]. exact IH.
  - specialize (IH e HP). destruct (others_lookup av hs sid mutably l e) as [e2 r]. exact IH.
Qed.

Lemma m_get_cstep av hs excl eids m i : forall e, plain_env e ->
  cstep e (fst (m_get av hs excl eids m i e)) (item_rets m (snd (m_get av hs excl eids m i e))).
Proof.
  induction m as [sid|sid touch d| |l|sid|m IH|sid mode selmod selrem d others|k mode d|sid|bop ba bb]; intros e HP; cbn [m_get].
  - pose proof (cstep_jact e sid (JRead i) HP) as X. destruct (env_jact e sid _) as [e1 t]. exact X.
  - pose proof (cstep_jact e sid (JAccess i touch d) HP) as X. destruct (env_jact e sid _) as [e1 t]. exact X.
  - apply cstep_refl; exact HP.
  - apply cstep_refl; exact HP.
  - apply cstep_refl; exact HP.
  - destruct (m_has e eids m i); [|apply cstep_refl; exact HP]. specialize (IH e HP).
    destruct (m_get av hs excl eids m i e) as [e1 x]. exact IH.
  - pose proof (cstep_jact e sid (JRead i) HP) as X. destruct (env_jact e sid (JRead i)) as [e1 t]. cbn [fst] in X.
    assert (cstep e1 (if N.eqb mode 1 && N.eqb (N.modulo i selmod) selrem then fst (env_jact e1 sid (JAccess i true (Some d))) else e1) []) as X2.
    { destruct (N.eqb mode 1 && N.eqb (N.modulo i selmod) selrem); [exact (cstep_jact e1 sid (JAccess i true (Some d)) (proj1 X))|apply cstep_refl; exact (proj1 X)]. }
    pose proof (cstep_trans _ _ _ [] [] X X2) as X12.
    destruct (negb (N.eqb mode 1) || excl); [|exact X12].
    pose proof (others_lookup_cstep av hs sid (N.eqb mode 1 && Z.odd d) others _ (proj1 X2)) as X3.
    destruct (others_lookup av hs sid _ others _) as [e3 os]. cbn [fst snd item_rets] in *. exact (cstep_trans _ _ _ [] [] X12 X3).
  - destruct (NM.find i (cs_get e k)) as [a|]; cbn [fst snd item_rets]; [|apply cstep_fail; exact HP].
    destruct (N.eqb mode 1); [apply cstep_cs; exact HP|]. destruct (N.eqb mode 2); [apply cstep_cs|apply cstep_refl]; exact HP.
  - pose proof (cstep_jact e sid (JRemove i) HP) as X. destruct (env_jact e sid _) as [e1 t]. exact X.
  - apply cstep_refl; exact HP.
Qed.

Lemma visit_members_cstep av hs excl eids ms i : forall e, plain_env e ->
  cstep e (fst (visit_members av hs excl eids ms i e)) (items_rets ms (snd (visit_members av hs excl eids ms i e))).
Proof.
  induction ms as [|m r IH]; intros e HP; cbn [visit_members]; [apply cstep_refl; exact HP|].
  pose proof (m_get_cstep av hs excl eids m i e HP) as X. destruct (m_get av hs excl eids m i e) as [e1 x]. cbn [fst snd] in X.
  specialize (IH e1 (proj1 X)). destruct (visit_members av hs excl eids r i e1) as [e2 xs]. cbn [fst snd items_rets] in *.
  exact (cstep_trans _ _ _ _ _ X IH).
Qed.

Lemma visit_keys_cstep av hs excl eids ms keys : forall e, plain_env e ->
  cstep e (fst (visit_keys av hs excl eids ms keys e)) (rows_rets ms (snd (visit_keys av hs excl eids ms keys e))).
Proof.
  induction keys as [|i keys IH]; intros e HP; cbn [visit_keys]; [apply cstep_refl; exact HP|].
  pose proof (visit_members_cstep av hs excl eids ms i e HP) as X.
  destruct (visit_members av hs excl eids ms i e) as [e1 xs]. cbn [fst snd] in X.
  specialize (IH e1 (proj1 X)). destruct (visit_keys av hs excl eids ms keys e1) as [e2 r]. cbn [fst snd] in *.
  unfold rows_rets in *. cbn [flat_map snd]. exact (cstep_trans _ _ _ _ _ X IH).
Qed.

Lemma consume_cs_cstep ms : forall e, plain_env e -> cstep e (consume_cs ms e) [].
Proof.
  induction ms as [|m r IH]; intros e HP; cbn [consume_cs]; [apply cstep_refl; exact HP|].
  destruct (m_taken m) as [k|]; [|apply IH; exact HP].
  exact (cstep_trans _ _ _ [] [] (cstep_cs e k (NM.empty Z) HP) (IH (cs_put e k (NM.empty Z)) HP)).
Qed.

(* a whole join *)
Theorem env_join_cstep e av eids hs k ms : plain_env e ->
  cstep e (fst (env_join e av eids hs k ms)) (jout_rets ms (snd (env_join e av eids hs k ms))).
Proof.
  intros HP. unfold env_join. destruct (join_ok e k ms); cbn [negb]; [|apply cstep_refl; exact HP].
  destruct (handles_ok hs k ms); cbn [negb]; [|apply cstep_refl; exact HP].
  destruct (forallb (m_registered e) ms); cbn [negb]; [|apply cstep_fail; exact HP].
  destruct k as [lim|lim|n|h|i].
  - destruct (jkeys e eids ms) as [keys|]; [|apply cstep_refl; exact HP].
    pose proof (visit_keys_cstep av hs (is_lending (JSeq lim)) eids ms (match lim with Some n => firstn n keys | None => keys end) e HP) as X.
    destruct (visit_keys av hs _ eids ms _ e) as [e1 r]. cbn [fst snd jout_rets] in *.
    apply (cstep_eq _ _ (rows_rets ms r ++ [])); [apply app_nil_r|]. exact (cstep_trans _ _ _ _ _ X (consume_cs_cstep ms e1 (proj1 X))).
  - destruct (jkeys e eids ms) as [keys|]; [|apply cstep_refl; exact HP].
    pose proof (visit_keys_cstep av hs (is_lending (JLend lim)) eids ms (match lim with Some n => firstn n keys | None => keys end) e HP) as X.
    destruct (visit_keys av hs _ eids ms _ e) as [e1 r]. cbn [fst snd jout_rets] in *.
    apply (cstep_eq _ _ (rows_rets ms r ++ [])); [apply app_nil_r|]. exact (cstep_trans _ _ _ _ _ X (consume_cs_cstep ms e1 (proj1 X))).
  - destruct (jkeys e eids ms) as [keys|]; [|apply cstep_refl; exact HP].
    pose proof (visit_keys_cstep av hs (is_lending (JPar n)) eids ms keys e HP) as X.
    destruct (visit_keys av hs _ eids ms _ e) as [e1 r]. exact X.
  - destruct (pv_get hs (N.of_nat h)) as [ent|]; [|apply cstep_refl; exact HP].
    destruct (all_have e eids ms (fst ent) && av_alive av ent); [|apply cstep_refl; exact HP].
    pose proof (visit_members_cstep av hs (is_lending (JLendGet h)) eids ms (fst ent) e HP) as X.
    destruct (visit_members av hs _ eids ms _ e) as [e1 r]. exact X.
  - destruct (all_have e eids ms i); [|apply cstep_refl; exact HP].
    pose proof (visit_members_cstep av hs (is_lending (JLendIdx i)) eids ms i e HP) as X.
    destruct (visit_members av hs _ eids ms _ e) as [e1 r]. exact X.
Qed.

(* the ledger of a join that did not go wrong: nothing moved in, nothing destroyed, the drained values handed out *)
Theorem env_join_ledger e av eids hs k ms : plain_env e -> cx_stuck (se_cx (fst (env_join e av eids hs k ms))) = false ->
  estep_ok e (fst (env_join e av eids hs k ms)) [] (jout_rets ms (snd (env_join e av eids hs k ms))).
Proof. intros HP Hs. exact (proj2 (proj2 (env_join_cstep e av eids hs k ms HP) Hs)). Qed.

Theorem env_csop_ledger e hs c : plain_env e -> estep_ok e (fst (env_csop e hs c)) [] [].
Proof.
  intros HP. assert (forall k m, estep_ok e (cs_put e k m) [] []) as Q.
  { intros k m. split; [exact HP|]. intros L HL. exists L, []. split; [exact HL|]. split; [reflexivity|]. rewrite !app_nil_r. apply Permutation_refl. }
  destruct c as [k|k h a|k l|k l|k|k]; cbn [env_csop].
  - apply Q.
  - destruct (pv_get hs (N.of_nat h)); cbn [fst]; [apply Q|apply estep_refl; exact HP].
  - destruct (res_pairs hs l); cbn [fst]; [apply Q|apply estep_refl; exact HP].
  - destruct (res_pairs hs l); cbn [fst]; [apply Q|apply estep_refl; exact HP].
  - apply Q.
  - apply estep_refl; exact HP.
Qed.
