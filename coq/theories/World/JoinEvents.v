(* C13 / C12 through joins: which events the three primitives append to a
   storage's channel, and hence what a restricted item emits: nothing for
   reading, nothing for looking another entity up immutably, exactly one
   Modified for an item the caller fetches mutably and writes. *)
From SV Require Import Base.ListX Store.Raw Store.RawRefine Store.Masked Store.StoreInv Store.Events World.Env World.Join
  World.JoinProps.

(* the events one primitive appends (most recent first), on a storage with wrapper w *)
Definition ev_of_act (w : wrap) (a : jact) : list event :=
  match a with
  | JRead _ => []
  | JAccess i touch d =>
      match w with
      | WPlain => []
      | WFlagged => [EModified i]
      | WDeref => if touch || match d with Some _ => true | None => false end then [EModified i] else []
      end
  | JRemove i => match w with WPlain => [] | _ => [ERemoved i] end
  end.

Lemma ms_event_chan' ms e : ms_chan (ms_event ms e) =
  (match ms_wrap ms with WPlain => [] | _ => if ms_emit ms then [e] else [] end) ++ ms_chan ms.
Proof. unfold ms_event. destruct (ms_wrap ms); destruct (ms_emit ms); reflexivity. Qed.

Lemma ms_jact_chan ms m a c : MInv ms m -> NS.mem (match a with JRead i | JAccess i _ _ | JRemove i => i end) (ms_mask ms) = true ->
  ms_chan (fst (fst (ms_jact ms a c))) = (if ms_emit ms then ev_of_act (ms_wrap ms) a else []) ++ ms_chan ms.
Proof.
  intros HM Hmem. destruct a as [i|i touch d|i]; cbn [ms_jact ev_of_act]; rewrite ?Hmem.
  - destruct (u_get (ms_raw ms) i c) as [t c']. cbn [fst]. destruct (ms_emit ms); reflexivity.
  - destruct (keys_find_some _ _ _ (MI_keys _ _ HM) Hmem) as [t Hf].
    rewrite (u_get_ref _ m i t c (MI_rel _ _ HM) Hf).
    pose proof (w_access_mut_char ms m i t touch (match d with Some z => USetVal (snd t + z) | None => UNone end) c HM Hf) as X.
    destruct (w_access_mut ms i touch _ c) as [[ms' old] c']. destruct X as [_ [_ [_ [_ [X5 _]]]]]; [destruct d; exact I|].
    cbn [fst]. rewrite X5. unfold access_event.
    assert ((match d with Some z => USetVal (snd t + z) | None => UNone end) = UNone <-> d = None) as Hd by (destruct d; split; congruence).
    destruct (ms_wrap ms) eqn:Ew.
    + destruct (ms_emit ms); reflexivity.
    + rewrite ms_event_chan', Ew. destruct (ms_emit ms); reflexivity.
    + destruct d as [z|]; cbn [orb]; rewrite ?orb_true_r, ?orb_false_r.
      * rewrite ms_event_chan', Ew. destruct (ms_emit ms); reflexivity.
      * destruct touch; [rewrite ms_event_chan', Ew|]; destruct (ms_emit ms); reflexivity.
  - pose proof (m_remove_char ms m i c HM) as X. destruct (m_remove ms i c) as [[ms' o] c'].
    destruct X as [X1 [_ [_ [_ [_ [X6 _]]]]]]. rewrite Hmem in X6.
    assert (ms_chan (fst (fst (match o with Some t => (ms', t, c') | None => (ms', unit_tok, cx_fail c') end))) = ms_chan ms') as -> by (destruct o; reflexivity).
    rewrite X6, ms_event_chan'. destruct (ms_wrap ms); destruct (ms_emit ms); reflexivity.
Qed.

Definition env_chan (e : senv) (sid : N) : list event :=
  match NM.find sid (se_stores e) with Some ms => ms_chan ms | None => [] end.

(* one primitive on the environment: the channel of its storage grows by these events, no other channel changes *)
Lemma env_jact_chan e sid a ms m : NM.find sid (se_stores e) = Some ms -> MInv ms m ->
  NS.mem (match a with JRead i | JAccess i _ _ | JRemove i => i end) (ms_mask ms) = true ->
  forall s, env_chan (fst (env_jact e sid a)) s =
            if N.eq_dec sid s then (if ms_emit ms then ev_of_act (ms_wrap ms) a else []) ++ env_chan e s else env_chan e s.
Proof.
  intros Hf HM Hmem s. unfold env_jact. rewrite Hf.
  pose proof (ms_jact_chan ms m a (se_cx e) HM Hmem) as X. destruct (ms_jact ms a (se_cx e)) as [[ms' t] c']. cbn [fst] in *.
  unfold env_chan. cbn [env_put se_stores]. rewrite find_add. destruct (N.eq_dec sid s) as [<-|]; [|reflexivity].
  rewrite Hf. exact X.
Qed.

(* reading through any item, and looking another entity up immutably, emit nothing *)
Theorem reading_emits_nothing e sid i ms m : NM.find sid (se_stores e) = Some ms -> MInv ms m -> NS.mem i (ms_mask ms) = true ->
  forall s, env_chan (fst (env_jact e sid (JRead i))) s = env_chan e s.
Proof.
  intros Hf HM Hm s. rewrite (env_jact_chan e sid (JRead i) ms m Hf HM Hm s). cbn [ev_of_act].
  destruct (N.eq_dec sid s); [destruct (ms_emit ms)|]; reflexivity.
Qed.

(* fetching an item mutably and writing through it emits exactly one Modified for that index on a tracked storage
   whose emission is on, and nothing on a plain one *)
Theorem mutable_fetch_emits_one_modified e sid i d ms m : NM.find sid (se_stores e) = Some ms -> MInv ms m ->
  NS.mem i (ms_mask ms) = true ->
  env_chan (fst (env_jact e sid (JAccess i true (Some d)))) sid =
    (match ms_wrap ms with WPlain => [] | _ => if ms_emit ms then [EModified i] else [] end) ++ env_chan e sid.
Proof.
  intros Hf HM Hm. rewrite (env_jact_chan e sid (JAccess i true (Some d)) ms m Hf HM Hm sid). destruct (N.eq_dec sid sid); [|congruence].
  cbn [ev_of_act orb]. destruct (ms_wrap ms); destruct (ms_emit ms); reflexivity.
Qed.

(* a restricted item without other-entity lookups: an event exactly when the caller chose to fetch it mutably *)
Theorem restricted_item_events av hs excl eids sid mode selmod selrem d i e ms m :
  NM.find sid (se_stores e) = Some ms -> MInv ms m -> NS.mem i (ms_mask ms) = true ->
  env_chan (fst (m_get av hs excl eids (MRestrict sid mode selmod selrem d []) i e)) sid =
    (if N.eqb mode 1 && N.eqb (N.modulo i selmod) selrem
     then match ms_wrap ms with WPlain => [] | _ => if ms_emit ms then [EModified i] else [] end
     else []) ++ env_chan e sid.
Proof.
  intros Hf HM Hm. cbn [m_get].
  pose proof (reading_emits_nothing e sid i ms m Hf HM Hm sid) as R.
  assert (exists ms1, NM.find sid (se_stores (fst (env_jact e sid (JRead i)))) = Some ms1 /\ MInv ms1 m /\
                      ms_mask ms1 = ms_mask ms /\ ms_wrap ms1 = ms_wrap ms /\ ms_emit ms1 = ms_emit ms) as [ms1 [F1 [M1 [K1 [W1 E1]]]]].
  { unfold env_jact. rewrite Hf. cbn [ms_jact]. rewrite Hm. destruct (u_get (ms_raw ms) i (se_cx e)) as [t c']. cbn [fst env_put se_stores].
    exists ms. rewrite find_add. destruct (N.eq_dec sid sid); [auto|congruence]. }
  destruct (env_jact e sid (JRead i)) as [e1 t]. cbn [fst] in *.
  destruct (N.eqb mode 1 && N.eqb (N.modulo i selmod) selrem).
  - assert (NS.mem i (ms_mask ms1) = true) as Hm1 by (rewrite K1; exact Hm).
    pose proof (mutable_fetch_emits_one_modified e1 sid i d ms1 m F1 M1 Hm1) as X. rewrite W1, E1, R in X.
    destruct (negb (N.eqb mode 1) || excl); cbn [others_lookup fst]; exact X.
  - destruct (negb (N.eqb mode 1) || excl); cbn [others_lookup fst]; exact R.
Qed.
