(* No operation of the world is ever stuck (panic; read of an uninitialised,
   moved-out or out-of-range slot), provided component types are registered
   before they are used (using an unregistered component is a documented panic). *)
From SV Require Import Base.ListX Alloc.LifeProps Store.Masked Store.StoreInv World.Env World.Join World.JoinPres World.StoreSim World.EnvSim World.JoinNoStuck
  World.WorldSpec World.Simulation World.Micro.

Definition registered (e : senv) (sid : N) : bool :=
  match NM.find sid (se_stores e) with Some _ => true | None => false end.

Definition valid_sid (sid : N) : bool := match kind_of sid with Some _ => true | None => false end.

Definition comps_ok (e : senv) (cs : comps) : bool := forallb (fun p => registered e (fst p)) cs.

Definition op_regs_ok (e : senv) (o : op) : bool :=
  match o with
  | OCreate cs | OCreateDropped cs | OEBuild _ cs => comps_ok e cs
  | OStore (SRegister sid) => valid_sid sid
  | OStore so => registered e (sop_sid so) && valid_sid (sop_sid so)
  | OQuiet (SRegister sid) => valid_sid sid
  | OQuiet so => registered e (sop_sid so) && valid_sid (sop_sid so)
  | OJoin _ ms => forallb (m_registered e) ms
  | _ => true
  end.

(* registration discipline along a transcript, evaluated on the specification machine *)
Fixpoint regs_ok (w : sworld) (tr : list (op * wout)) : bool :=
  match tr with
  | [] => true
  | (o, out) :: tr' => op_regs_ok (s_env w) o && regs_ok (fst (sstep w o (choices_of out))) tr'
  end.

Definition mono (e e' : senv) : Prop := forall j, NM.find j (se_stores e) <> None -> NM.find j (se_stores e') <> None.

Lemma registered_true e sid : registered e sid = true <-> NM.find sid (se_stores e) <> None.
Proof. unfold registered. destruct (NM.find sid (se_stores e)); split; congruence. Qed.

Lemma comps_ok_spec e cs : comps_ok e cs = true -> forall sid v, In (sid, v) cs -> NM.find sid (se_stores e) <> None.
Proof.
  unfold comps_ok. rewrite forallb_forall. intros H sid v Hin. apply registered_true. apply (H (sid, v) Hin).
Qed.

Record SInvE (w : sworld) : Prop := { SE_inv : EInv (s_env w); SE_stuck : cx_stuck (se_cx (s_env w)) = false }.

Lemma s_insert_comps_ok w e cs : SInvE w -> l_is_alive (s_life w) e = true -> comps_ok (s_env w) cs = true ->
  SInvE (s_insert_comps w e cs).
Proof.
  intros [HE Hs] Ha Hc. unfold s_insert_comps.
  destruct (insert_comps_ok cs (s_env w) (l_view (s_life w)) e HE Ha (comps_ok_spec _ _ Hc)) as [I1 [I2 I3]].
  split; cbn [s_with_env s_env]; [assumption | congruence].
Qed.

Lemma s_purge_ok w es r : SInvE w -> SInvE (s_purge_killed w es r).
Proof.
  intros [HE Hs]. unfold s_purge_killed.
  destruct (delete_components_ok (s_env w) (match r with None => es | Some (pos, _) => firstn pos es end) HE) as [D1 [D2 D3]].
  split; cbn [s_with_env s_env]; [assumption|congruence].
Qed.

Lemma SInvE_life w s : SInvE w -> SInvE (with_life w s).
Proof. intros [A B]. split; assumption. Qed.
Lemma SInvE_fail w : SInvE w -> SInvE (s_fail w).
Proof. intros [A B]. split; assumption. Qed.

Lemma s_create_envE pend w i : s_env (fst (s_create pend w i)) = s_env w.
Proof. unfold s_create. destruct (l_create pend (s_life w) i). destruct (valid_choice (s_life w) i); reflexivity. Qed.

Lemma s_create_n_envE pend n : forall w cs, s_env (fst (s_create_n pend n w cs)) = s_env w.
Proof.
  induction n as [|n IH]; intros w cs; cbn [s_create_n]; [reflexivity|]. destruct cs as [|i cs]; [reflexivity|].
  pose proof (s_create_envE pend w i) as E. destruct (s_create pend w i) as [w1 e]. cbn [fst] in E.
  specialize (IH w1 cs). destruct (s_create_n pend n w1 cs) as [w2 l]. cbn [fst] in *. congruence.
Qed.

Lemma s_builder_drop_envE w e : s_env (s_builder_drop w e) = s_env w.
Proof. unfold s_builder_drop. destruct (l_kill_def (s_life w) e) as [s' [|]]; reflexivity. Qed.

Lemma SInvE_env w w' : s_env w' = s_env w -> SInvE w -> SInvE w'.
Proof. intros E [A B]. split; rewrite E; assumption. Qed.

Theorem sstep_core_ok w o cs : SInvE w -> op_regs_ok (s_env w) o = true -> SInvE (fst (sstep_core w o cs)).
Proof.
  intros H Hr.
  assert (forall pend i k, comps_ok (s_env w) k = true ->
            let '(w1, e) := s_create pend w i in SInvE (s_insert_comps w1 e k)) as Hcr.
  { intros pend i k Hk. pose proof (s_create_envE pend w i) as E. pose proof (s_create_life pend w i) as L.
    pose proof (s_create_ent pend w i) as En. destruct (s_create pend w i) as [w1 e]. cbn [fst snd] in *.
    assert (SInvE w1) as H1 by (apply (SInvE_env w); assumption).
    apply (s_insert_comps_ok w1 e k H1).
    - rewrite L, En. apply life_alive_on_return.
    - rewrite E. assumption. }
  destruct o as [k|k|n| |n|built k|k|h|hs|h| | |h|h| |h| |so| |lsid lh lv|lsid ll|lsid lh|prog|qso|jk jms|cso| ]; cbn [sstep_core op_regs_ok] in *.
  - specialize (Hcr false (hd_choice cs) k Hr). destruct (s_create false w (hd_choice cs)) as [w1 e]. exact Hcr.
  - specialize (Hcr false (hd_choice cs) k Hr). destruct (s_create false w (hd_choice cs)) as [w1 e]. cbn [fst].
    apply (SInvE_env (s_insert_comps w1 e k)); [apply s_builder_drop_envE | assumption].
  - pose proof (s_create_n_envE false n w cs) as E. destruct (s_create_n false n w cs) as [w1 l]. cbn [fst] in *.
    apply (SInvE_env w); assumption.
  - pose proof (s_create_envE true w (hd_choice cs)) as E. destruct (s_create true w (hd_choice cs)) as [w1 e]. cbn [fst] in *.
    apply (SInvE_env w); assumption.
  - pose proof (s_create_n_envE true n w cs) as E. destruct (s_create_n true n w cs) as [w1 l]. cbn [fst] in *.
    apply (SInvE_env w); assumption.
  - specialize (Hcr true (hd_choice cs) k Hr). destruct (s_create true w (hd_choice cs)) as [w1 e]. cbn [fst].
    destruct built; [exact Hcr|].
    apply (SInvE_env (s_insert_comps w1 e k)); [apply s_builder_drop_envE | assumption].
  - pose proof (s_create_envE true w (hd_choice cs)) as E. destruct (s_create true w (hd_choice cs)) as [w1 e]. cbn [fst] in *.
    apply (SInvE_env w); assumption.
  - destruct (hget (s_hs w) h) as [e|]; [|assumption].
    destruct (l_kill_res (s_life w) [e]) as [s' r]. cbn [fst]. apply (s_purge_ok (with_life w s')). apply SInvE_life. assumption.
  - destruct (hget_all (s_hs w) hs) as [es|]; [|assumption].
    destruct (l_kill_res (s_life w) es) as [s' r]. cbn [fst]. apply (s_purge_ok (with_life w s')). apply SInvE_life. assumption.
  - destruct (hget (s_hs w) h) as [e|]; [|assumption].
    destruct (l_kill_def (s_life w) e) as [s' ok]. cbn [fst]. apply SInvE_life; assumption.
  - destruct (l_kill_res (s_life w) (l_entities (s_life w))) as [s' r]. cbn [fst].
    pose proof (s_purge_ok (with_life w s') (l_entities (s_life w)) r (SInvE_life w s' H)) as A.
    destruct r; [apply SInvE_fail|]; assumption.
  - destruct (l_merge (s_life w)) as [s' d]. cbn [fst]. destruct d as [|x d]; [apply SInvE_life; assumption|].
    destruct H as [HE Hs]. destruct (delete_components_ok (s_env w) (x :: d) HE) as [D1 [D2 D3]].
    split; cbn [s_with_env s_env with_life]; [assumption|congruence].
  - destruct (hget (s_hs w) h); assumption.
  - destruct (hget (s_hs w) h); assumption.
  - assumption.
  - destruct (hget (s_hs w) h); assumption.
  - assumption.
  - destruct H as [HE Hs].
    assert (EInv (fst (env_sop (s_env w) (l_view (s_life w)) (s_hs w) so)) /\
            cx_stuck (se_cx (fst (env_sop (s_env w) (l_view (s_life w)) (s_hs w) so))) = cx_stuck (se_cx (s_env w))) as X.
    { destruct so; try (apply andb_true_iff in Hr; destruct Hr as [R1 R2];
        destruct (sop_ok (s_env w) (l_view (s_life w)) (s_hs w) _ HE (proj1 (registered_true _ _) R1)) as [A [B _]];
        [unfold valid_sid in R2; cbn [sop_sid] in *; destruct (kind_of _); [discriminate|discriminate] | split; assumption]).
      cbn [env_sop fst]. unfold valid_sid in Hr. destruct (register_ok (s_env w) sid HE) as [A [B _]].
      - destruct (kind_of sid); [discriminate|discriminate].
      - rewrite B. auto. }
    destruct (env_sop (s_env w) (l_view (s_life w)) (s_hs w) so) as [e' out]. cbn [fst] in *.
    destruct X as [X1 X2]. split; cbn [s_with_env s_env]; [assumption|congruence].
  - destruct H as [HE Hs]. cbn [fst s_with_env s_env]. split; cbn [s_env].
    + unfold env_drop_world. split; cbn [se_stores se_table]; [intros sid ms Hf; discriminate | intros sid []].
    + cbn [s_with_env s_env]. unfold env_drop_world. cbn [se_cx]. rewrite env_drop_all_stuck; [assumption|].
      intros sid ms Hin. apply in_elements_find in Hin. apply (EI_stores _ HE sid ms Hin).
  - destruct (hget (s_hs w) lh); assumption.
  - destruct (hget_all (s_hs w) (map fst ll)); assumption.
  - destruct (hget (s_hs w) lh); assumption.
  - assumption.
  - destruct H as [HE Hs].
    assert (EInv (fst (env_sop (s_env w) (l_view (s_life w)) (s_hs w) qso)) /\
            cx_stuck (se_cx (fst (env_sop (s_env w) (l_view (s_life w)) (s_hs w) qso))) = cx_stuck (se_cx (s_env w))) as X.
    { destruct qso; try (apply andb_true_iff in Hr; destruct Hr as [R1 R2];
        destruct (sop_ok (s_env w) (l_view (s_life w)) (s_hs w) _ HE (proj1 (registered_true _ _) R1)) as [A [B _]];
        [unfold valid_sid in R2; cbn [sop_sid] in *; destruct (kind_of _); [discriminate|discriminate] | split; assumption]).
      cbn [env_sop fst]. unfold valid_sid in Hr. destruct (register_ok (s_env w) sid HE) as [A [B _]].
      - destruct (kind_of sid); [discriminate|discriminate].
      - rewrite B. auto. }
    unfold env_sop_quiet. destruct (env_sop (s_env w) (l_view (s_life w)) (s_hs w) qso) as [e' out]. cbn [fst] in *.
    destruct X as [X1 X2].
    assert (forall t, EInv (env_cx e' (cx_drop (se_cx e') t)) /\ cx_stuck (se_cx (env_cx e' (cx_drop (se_cx e') t))) = false) as Hd.
    { intros t. split; [apply EInv_cx; assumption | cbn; congruence]. }
    split; cbn [s_with_env s_env]; destruct out as [| | | | | | | |r|o| | | | | | | | | | ]; try assumption; try congruence;
      try (destruct r; try assumption; try congruence; apply Hd);
      try (destruct o; try assumption; try congruence; apply Hd).
  - destruct H as [HE Hs].
    destruct (env_join_never_stuck (s_env w) (l_view (s_life w)) (eids_of (l_entities (s_life w))) (s_hs w) jk jms HE Hs Hr) as [X1 X2].
    destruct (env_join (s_env w) _ _ (s_hs w) jk jms) as [e' j]. cbn [fst] in *. split; cbn [s_with_env s_env]; assumption.
  - destruct H as [HE Hs].
    pose proof (env_csop_pres (fun e' => EInv e' /\ cx_stuck (se_cx e') = false)) as X.
    assert (forall e' k m, EInv e' /\ cx_stuck (se_cx e') = false -> EInv (cs_put e' k m) /\ cx_stuck (se_cx (cs_put e' k m)) = false) as Hcs.
    { intros e' k m [[A B] C]. split; [split; cbn [cs_put se_stores se_table]; assumption | exact C]. }
    specialize (X Hcs (s_env w) (s_hs w) cso (conj HE Hs)).
    destruct (env_csop (s_env w) (s_hs w) cso) as [e' r]. cbn [fst] in *. destruct X as [X1 X2].
    split; cbn [s_with_env s_env]; assumption.
  - assumption.
Qed.

Lemma SInvE_begin w : SInvE w -> SInvE (s_begin w).
Proof.
  intros [[S T] K]. unfold s_begin, env_begin. split; cbn; [split; cbn; auto | assumption].
Qed.

Lemma m_registered_stores e e' m : se_stores e' = se_stores e -> m_registered e' m = m_registered e m.
Proof. intros H. induction m; cbn [m_registered m_sid]; rewrite ?H; auto. Qed.

Lemma op_regs_ok_begin w o : op_regs_ok (s_env (s_begin w)) o = op_regs_ok (s_env w) o.
Proof.
  destruct o; try reflexivity. cbn [op_regs_ok].
  induction ms as [|m r IH]; cbn [forallb]; [reflexivity|]. rewrite IH. f_equal. apply m_registered_stores. reflexivity.
Qed.

Theorem sstep_ok w o cs : SInvE w -> op_regs_ok (s_env w) o = true -> SInvE (fst (sstep w o cs)).
Proof.
  intros H Hr. unfold sstep. apply sstep_core_ok; [apply SInvE_begin; assumption | rewrite op_regs_ok_begin; exact Hr].
Qed.

Lemma SInvE_init b : SInvE (s_init_env b).
Proof. split; cbn; [apply EInv_init | reflexivity]. Qed.

(* every run in which components are registered before use: no storage step is ever stuck *)
Theorem srun_never_stuck tr : forall w, SInvE w -> regs_ok w tr = true -> SInvE (fst (srun w tr)).
Proof.
  induction tr as [|[o out] tr IH]; intros w H Hr; [assumption|].
  cbn [regs_ok] in Hr. apply andb_true_iff in Hr. destruct Hr as [R1 R2].
  rewrite srun_cons. cbn [fst]. apply IH; [apply sstep_ok; assumption | assumption].
Qed.

(* the faithful world: with components registered before use, nothing is ever stuck *)
Theorem wrun_never_stuck_at_all os :
  regs_ok s_init (combine os (snd (wrun true w_init os))) = true ->
  w_is_stuck (fst (wrun true w_init os)) = false.
Proof.
  intros Hr. destruct (wrun_sim os w_init s_init RW_init) as [_ HRW]. cbn zeta in HRW.
  pose proof (srun_never_stuck _ s_init (SInvE_init false) Hr) as [_ Hs].
  unfold w_is_stuck. pose proof (RW_not_stuck _ _ HRW) as Ha. unfold w_alloc_stuck in Ha.
  rewrite Ha, (RW_env _ _ HRW), Hs. reflexivity.
Qed.
