(* C06 / C07, the index side: a join visits exactly the indices that every
   required member has and no negated member has, each once, in ascending
   order; optional members are reported present exactly when they are; the
   lending lookup answers exactly for live entities inside the intersection;
   the parallel join is the sequential one. *)
From SV Require Import Base.ListX World.Env World.Join.
From Coq Require Import Sorting.Sorted SetoidList.

(* --- ascending, hence each index once --- *)

Lemma ns_elements_sorted s : StronglySorted N.lt (NS.elements s).
Proof. apply Sorted_StronglySorted; [intros x y z; apply N.lt_trans | apply NS.elements_spec2]. Qed.

Lemma nm_keys_sorted {A} (m : NM.t A) : StronglySorted N.lt (map fst (NM.elements m)).
Proof.
  apply Sorted_StronglySorted; [intros x y z; apply N.lt_trans|].
  pose proof (NM.elements_3 m) as H. induction H as [|[k v] l Hs IH Hh]; cbn [map]; constructor; auto.
  destruct Hh as [|[k' v'] l' Hlt]; cbn [map]; constructor. exact Hlt.
Qed.

Lemma filter_sorted (f : N -> bool) l : StronglySorted N.lt l -> StronglySorted N.lt (filter f l).
Proof.
  induction 1 as [|x l Hs IH Hall]; cbn [filter]; [constructor|].
  destruct (f x); [|assumption]. constructor; [assumption|].
  apply Forall_forall. intros y Hy. apply filter_In in Hy. destruct Hy as [Hy _].
  rewrite Forall_forall in Hall. apply Hall. assumption.
Qed.

Lemma firstn_sorted k : forall l, StronglySorted N.lt l -> StronglySorted N.lt (firstn k l).
Proof.
  induction k as [|k IH]; intros l H; [constructor|]. destruct H as [|x l Hs Hall]; cbn [firstn]; constructor; auto.
  apply Forall_forall. intros y Hy. rewrite Forall_forall in Hall. apply Hall.
  clear -Hy. revert k Hy. induction l as [|z l IHl]; intros [|k] Hy; cbn in *; try contradiction.
  destruct Hy; [left; assumption | right; eapply IHl; eassumption].
Qed.

Lemma sorted_nodup l : StronglySorted N.lt l -> NoDup l.
Proof.
  induction 1 as [|x l Hs IH Hall]; constructor; [|assumption].
  intros Hin. rewrite Forall_forall in Hall. specialize (Hall x Hin). lia.
Qed.

Lemma m_cands_sorted e eids m l : m_cands e eids m = Some l -> StronglySorted N.lt l.
Proof.
  destruct m; cbn [m_cands]; intros H; try (inversion H; subst; try apply ns_elements_sorted; apply nm_keys_sorted).
  destruct (N.ltb bop 3); [|discriminate]. inversion H; subst. apply filter_sorted. apply ns_elements_sorted.
Qed.

Lemma first_cands_sorted e eids ms : forall l, first_cands e eids ms = Some l -> StronglySorted N.lt l.
Proof.
  induction ms as [|m r IH]; intros l H; cbn [first_cands] in H; [discriminate|].
  destruct (m_cands e eids m) as [l'|] eqn:E; [inversion H; subst; eapply m_cands_sorted; eassumption | auto].
Qed.

Theorem jkeys_ascending e eids ms keys : jkeys e eids ms = Some keys -> StronglySorted N.lt keys.
Proof.
  unfold jkeys. destruct (first_cands e eids ms) as [l|] eqn:E; [|discriminate]. intros H. inversion H; subst.
  apply filter_sorted. eapply first_cands_sorted. eassumption.
Qed.

Theorem jkeys_once e eids ms keys : jkeys e eids ms = Some keys -> NoDup keys.
Proof. intros H. apply sorted_nodup. eapply jkeys_ascending. eassumption. Qed.

(* --- exactly the intersection --- *)

Lemma in_ns_elements i s : In i (NS.elements s) <-> NS.mem i s = true.
Proof.
  rewrite NS.mem_spec, <- NS.elements_spec1, InA_alt. split.
  - intros H. exists i. split; [reflexivity|assumption].
  - intros [y [-> H]]. assumption.
Qed.

Lemma bits_of_mem l i : NS.mem i (bits_of l) = existsb (N.eqb i) l.
Proof.
  induction l as [|x l IH]; cbn [bits_of fold_right existsb]; [apply NSF.empty_b|].
  fold (bits_of l). rewrite NSF.add_b, IH. unfold NSF.eqb. destruct (N.eq_dec x i); destruct (N.eqb_spec i x); subst; try congruence; reflexivity.
Qed.

Lemma in_nm_keys {A} (m : NM.t A) i : In i (map fst (NM.elements m)) <-> NM.mem i m = true.
Proof.
  rewrite <- NMF.mem_in_iff, NMF.elements_in_iff. split.
  - intros H. apply in_map_iff in H. destruct H as [[k v] [Hk Hin]]. cbn in Hk. subst. exists v.
    apply InA_alt. exists (i, v). split; [split; reflexivity | assumption].
  - intros [v H]. apply InA_alt in H. destruct H as [[k v'] [[Hk Hv] Hin]]. cbn in Hk, Hv. subst.
    apply in_map_iff. exists (k, v'). auto.
Qed.

(* the candidates of a positive member are exactly its indices *)
Lemma m_cands_spec e eids m l i : m_cands e eids m = Some l -> (In i l <-> m_has e eids m i = true).
Proof.
  destruct m; cbn [m_cands m_has]; intros H; try (inversion H; subst; try apply in_ns_elements).
  - rewrite in_ns_elements. rewrite bits_of_mem. reflexivity.
  - apply in_nm_keys.
  - destruct (N.ltb bop 3) eqn:E3; [|discriminate]. inversion H; subst. rewrite filter_In. split; [tauto|].
    intros Hb. split; [|exact Hb]. rewrite in_ns_elements. fold (bits_of (a ++ b)). rewrite bits_of_mem, existsb_app.
    unfold bitop_has in Hb. destruct (existsb (N.eqb i) a); destruct (existsb (N.eqb i) b); try reflexivity.
    exfalso. apply N.ltb_lt in E3. cbn [andb orb xorb negb] in Hb.
    destruct (N.eqb_spec bop 0); [discriminate|]. destruct (N.eqb_spec bop 1); [discriminate|].
    destruct (N.eqb_spec bop 2); [discriminate|]. lia.
Qed.

Lemma first_cands_spec e eids ms : forall l i, first_cands e eids ms = Some l -> all_have e eids ms i = true -> In i l.
Proof.
  induction ms as [|m r IH]; intros l i H Ha; cbn [first_cands] in H; [discriminate|].
  unfold all_have in Ha. cbn [forallb] in Ha. apply andb_true_iff in Ha. destruct Ha as [A1 A2].
  destruct (m_cands e eids m) as [l'|] eqn:E.
  - inversion H; subst. apply (m_cands_spec e eids m l i E). assumption.
  - apply IH; assumption.
Qed.

Theorem jkeys_exact e eids ms keys i : jkeys e eids ms = Some keys -> (In i keys <-> all_have e eids ms i = true).
Proof.
  unfold jkeys. destruct (first_cands e eids ms) as [l|] eqn:E; [|discriminate]. intros H. inversion H; subst.
  rewrite filter_In. split; [tauto|]. intros Ha. split; [|assumption]. eapply first_cands_spec; eassumption.
Qed.

(* what membership means, member by member: required members must have the index, negated ones must
   not, optional ones do not matter *)
Theorem all_have_spec e eids ms i :
  all_have e eids ms i = true <-> (forall m, In m ms -> m_has e eids m i = true).
Proof. unfold all_have. apply forallb_forall. Qed.

Theorem m_has_storage e eids sid i : m_has e eids (MRead sid) i = NS.mem i (env_mask e sid). Proof. reflexivity. Qed.
Theorem m_has_storage_mut e eids sid t d i : m_has e eids (MWrite sid t d) i = NS.mem i (env_mask e sid). Proof. reflexivity. Qed.
Theorem m_has_negated e eids sid i : m_has e eids (MNot sid) i = negb (NS.mem i (env_mask e sid)). Proof. reflexivity. Qed.
Theorem m_has_optional e eids m i : m_has e eids (MMaybe m) i = true. Proof. reflexivity. Qed.
Theorem m_has_entities e eids i : m_has e eids MEntities i = NS.mem i eids. Proof. reflexivity. Qed.
Theorem m_has_bits e eids l i : m_has e eids (MBits l) i = existsb (N.eqb i) l. Proof. reflexivity. Qed.
Theorem m_has_restricted e eids sid a b c d o i : m_has e eids (MRestrict sid a b c d o) i = NS.mem i (env_mask e sid).
Proof. reflexivity. Qed.
Theorem m_has_drain e eids sid i : m_has e eids (MDrain sid) i = NS.mem i (env_mask e sid). Proof. reflexivity. Qed.
Theorem m_has_changeset e eids k a d i : m_has e eids (MChange k a d) i = NM.mem i (cs_get e k). Proof. reflexivity. Qed.

(* --- one visit per key, in that order, one item per member --- *)

Lemma visit_members_length av hs excl eids ms i : forall e, length (snd (visit_members av hs excl eids ms i e)) = length ms.
Proof.
  induction ms as [|m r IH]; intros e; cbn [visit_members]; [reflexivity|].
  destruct (m_get av hs excl eids m i e) as [e1 x]. specialize (IH e1).
  destruct (visit_members av hs excl eids r i e1) as [e2 xs]. cbn [snd length] in *. rewrite IH. reflexivity.
Qed.

Theorem visit_keys_indices av hs excl eids ms keys : forall e,
  map fst (snd (visit_keys av hs excl eids ms keys e)) = keys.
Proof.
  induction keys as [|i keys IH]; intros e; cbn [visit_keys]; [reflexivity|].
  destruct (visit_members av hs excl eids ms i e) as [e1 xs]. specialize (IH e1).
  destruct (visit_keys av hs excl eids ms keys e1) as [e2 r]. cbn [snd map fst] in *. rewrite IH. reflexivity.
Qed.

Theorem visit_keys_arity av hs excl eids ms keys : forall e p,
  In p (snd (visit_keys av hs excl eids ms keys e)) -> length (snd p) = length ms.
Proof.
  induction keys as [|i keys IH]; intros e p; cbn [visit_keys]; [intros []|].
  pose proof (visit_members_length av hs excl eids ms i e) as L.
  destruct (visit_members av hs excl eids ms i e) as [e1 xs]. specialize (IH e1 p).
  destruct (visit_keys av hs excl eids ms keys e1) as [e2 r]. cbn [snd] in *.
  intros [<-|H]; [exact L | apply IH; assumption].
Qed.

(* the whole sequential join: the indices of its items are the intersection, ascending *)
Theorem join_visits_intersection e av eids hs ms l e' :
  env_join e av eids hs (JSeq None) ms = (e', JItems l) ->
  StronglySorted N.lt (map fst l) /\ (forall i, In i (map fst l) <-> all_have e eids ms i = true) /\
  (forall p, In p l -> length (snd p) = length ms).
Proof.
  unfold env_join. destruct (join_ok e (JSeq None) ms); cbn [negb]; [|discriminate].
  destruct (handles_ok hs _ ms); cbn [negb]; [|discriminate].
  destruct (forallb (m_registered e) ms); cbn [negb]; [|discriminate].
  destruct (jkeys e eids ms) as [keys|] eqn:Ek; [|discriminate].
  pose proof (visit_keys_indices av hs (is_lending (JSeq None)) eids ms keys e) as Hi.
  pose proof (visit_keys_arity av hs (is_lending (JSeq None)) eids ms keys e) as Ha.
  destruct (visit_keys av hs _ eids ms keys e) as [e1 r]. cbn [snd] in *. intros H. inversion H; subst.
  split; [eapply jkeys_ascending; eassumption|]. split; [intros i; eapply jkeys_exact; eassumption | assumption].
Qed.

(* stopping early visits a prefix *)
Theorem join_take_prefix e av eids hs ms n l e' keys :
  env_join e av eids hs (JSeq (Some n)) ms = (e', JItems l) -> jkeys e eids ms = Some keys -> map fst l = firstn n keys.
Proof.
  unfold env_join. destruct (join_ok e (JSeq (Some n)) ms); cbn [negb]; [|discriminate].
  destruct (handles_ok hs _ ms); cbn [negb]; [|discriminate].
  destruct (forallb (m_registered e) ms); cbn [negb]; [|discriminate].
  intros H Hk. rewrite Hk in H.
  pose proof (visit_keys_indices av hs (is_lending (JSeq (Some n))) eids ms (firstn n keys) e) as Hi.
  destruct (visit_keys av hs _ eids ms (firstn n keys) e) as [e1 r]. cbn [snd] in *. inversion H; subst. assumption.
Qed.

(* an optional member is reported present exactly when it has the index *)
Theorem maybe_item av hs excl eids m i e :
  match snd (m_get av hs excl eids (MMaybe m) i e) with
  | JSome x => m_has e eids m i = true /\ x = snd (m_get av hs excl eids m i e)
  | JNone => m_has e eids m i = false
  | _ => False
  end.
Proof.
  cbn [m_get]. destruct (m_has e eids m i); [|reflexivity].
  destruct (m_get av hs excl eids m i e) as [e1 x]. cbn [snd]. auto.
Qed.

(* the lending lookup by entity: an item exactly when the entity is alive and in the intersection *)
Theorem lend_get_spec e av eids hs ms h ent :
  join_ok e (JLendGet h) ms = true -> handles_ok hs (JLendGet h) ms = true -> forallb (m_registered e) ms = true ->
  pv_get hs (N.of_nat h) = Some ent ->
  match snd (env_join e av eids hs (JLendGet h) ms) with
  | JOne (Some (i, xs)) => i = fst ent /\ all_have e eids ms (fst ent) = true /\ av_alive av ent = true /\
                           xs = snd (visit_members av hs true eids ms (fst ent) e)
  | JOne None => all_have e eids ms (fst ent) && av_alive av ent = false
  | _ => False
  end.
Proof.
  intros Hok Hhs Hreg Hh. unfold env_join. rewrite Hok, Hhs, Hreg, Hh. cbn [negb is_lending].
  destruct (all_have e eids ms (fst ent) && av_alive av ent) eqn:E; cbn [snd]; [|reflexivity].
  apply andb_true_iff in E. destruct E as [E1 E2].
  destruct (visit_members av hs true eids ms (fst ent) e) as [e1 xs]. cbn [snd]. auto.
Qed.

Theorem lend_get_unchecked_spec e av eids hs ms i :
  join_ok e (JLendIdx i) ms = true -> handles_ok hs (JLendIdx i) ms = true -> forallb (m_registered e) ms = true ->
  match snd (env_join e av eids hs (JLendIdx i) ms) with
  | JOne (Some (j, xs)) => j = i /\ all_have e eids ms i = true /\ xs = snd (visit_members av hs true eids ms i e)
  | JOne None => all_have e eids ms i = false
  | _ => False
  end.
Proof.
  intros Hok Hhs Hreg. unfold env_join. rewrite Hok, Hhs, Hreg. cbn [negb is_lending].
  destruct (all_have e eids ms i) eqn:E; cbn [snd]; [|reflexivity].
  destruct (visit_members av hs true eids ms i e) as [e1 xs]. cbn [snd]. auto.
Qed.

(* the lending join visits the same indices as the plain one *)
Theorem lend_join_same_indices e av eids hs ms l1 l2 e1 e2 :
  env_join e av eids hs (JSeq None) ms = (e1, JItems l1) ->
  env_join e av eids hs (JLend None) ms = (e2, JItems l2) -> map fst l1 = map fst l2.
Proof.
  unfold env_join. destruct (join_ok e (JSeq None) ms); cbn [negb]; [|discriminate].
  destruct (handles_ok hs _ ms); cbn [negb]; [|discriminate].
  destruct (forallb (m_registered e) ms); cbn [negb]; [|discriminate].
  destruct (join_ok e (JLend None) ms); cbn [negb]; [|discriminate].
  destruct (jkeys e eids ms) as [keys|]; [|discriminate].
  pose proof (visit_keys_indices av hs (is_lending (JSeq None)) eids ms keys e) as H1.
  pose proof (visit_keys_indices av hs (is_lending (JLend None)) eids ms keys e) as H2.
  destruct (visit_keys av hs (is_lending (JSeq None)) eids ms keys e) as [a1 r1].
  destruct (visit_keys av hs (is_lending (JLend None)) eids ms keys e) as [a2 r2]. cbn [snd] in *.
  intros X Y. inversion X; inversion Y; subst. congruence.
Qed.

(* --- the parallel join (C07): same keys, same items as the sequential one, whatever the pool --- *)

Lemma par_no_taken n m : m_supported (JPar n) m = true -> m_taken m = None.
Proof. induction m; cbn [m_supported m_taken]; try reflexivity; [assumption | discriminate]. Qed.

Lemma consume_cs_par n ms : forall e, forallb (m_supported (JPar n)) ms = true -> consume_cs ms e = e.
Proof.
  induction ms as [|m r IH]; intros e H; cbn [consume_cs]; [reflexivity|].
  cbn [forallb] in H. apply andb_true_iff in H. destruct H as [H1 H2].
  rewrite (par_no_taken n m H1). apply IH. assumption.
Qed.

Theorem par_join_is_seq_join e av eids hs n ms :
  join_ok e (JPar n) ms = true -> join_ok e (JSeq None) ms = true ->
  env_join e av eids hs (JPar n) ms = env_join e av eids hs (JSeq None) ms.
Proof.
  intros H1 H2. unfold env_join. rewrite H1, H2. cbn [negb is_lending].
  assert (handles_ok hs (JPar n) ms = handles_ok hs (JSeq None) ms) as -> by reflexivity.
  destruct (handles_ok hs (JSeq None) ms); cbn [negb]; [|reflexivity].
  destruct (forallb (m_registered e) ms); cbn [negb]; [|reflexivity].
  destruct (jkeys e eids ms) as [keys|]; [|reflexivity].
  destruct (visit_keys av hs false eids ms keys e) as [e1 r].
  rewrite (consume_cs_par n ms e1); [reflexivity|].
  unfold join_ok in H1. repeat (apply andb_true_iff in H1; destruct H1 as [H1 ?]). assumption.
Qed.

Theorem par_join_pool_irrelevant e av eids hs n n' ms :
  env_join e av eids hs (JPar n) ms = env_join e av eids hs (JPar n') ms.
Proof.
  unfold env_join.
  assert (forall m, m_supported (JPar n) m = m_supported (JPar n') m) as Hm.
  { induction m; cbn [m_supported]; try reflexivity. assumption. }
  assert (forallb (m_supported (JPar n)) ms = forallb (m_supported (JPar n')) ms) as Hf.
  { induction ms as [|m r IH]; cbn [forallb]; [reflexivity|]. rewrite IH, Hm. reflexivity. }
  assert (join_ok e (JPar n) ms = join_ok e (JPar n') ms) as ->; [|reflexivity].
  unfold join_ok. rewrite Hf. reflexivity.
Qed.

Theorem par_join_each_index_once e av eids hs n ms l e' :
  env_join e av eids hs (JPar n) ms = (e', JItems l) ->
  NoDup (map fst l) /\ (forall i, In i (map fst l) <-> all_have e eids ms i = true).
Proof.
  unfold env_join. destruct (join_ok e (JPar n) ms); cbn [negb]; [|discriminate].
  destruct (handles_ok hs _ ms); cbn [negb]; [|discriminate].
  destruct (forallb (m_registered e) ms); cbn [negb]; [|discriminate].
  destruct (jkeys e eids ms) as [keys|] eqn:Ek; [|discriminate].
  pose proof (visit_keys_indices av hs (is_lending (JPar n)) eids ms keys e) as Hi.
  destruct (visit_keys av hs _ eids ms keys e) as [e1 r]. cbn [snd] in *. intros H. inversion H; subst.
  split; [eapply jkeys_once; eassumption | intros i; eapply jkeys_exact; eassumption].
Qed.

(* --- a change set joined by value is consumed (C16) --- *)

Lemma cs_get_put e k m k' : cs_get (cs_put e k m) k' = if N.eq_dec k k' then m else cs_get e k'.
Proof. unfold cs_get, cs_put. cbn [se_cs]. rewrite find_add. destruct (N.eq_dec k k'); reflexivity. Qed.

Lemma consume_cs_other ms k : forall e, (forall m, In m ms -> m_taken m <> Some k) -> cs_get (consume_cs ms e) k = cs_get e k.
Proof.
  induction ms as [|m r IH]; intros e H; cbn [consume_cs]; [reflexivity|].
  rewrite IH by (intros m' Hm; apply H; right; assumption).
  destruct (m_taken m) as [k'|] eqn:E; [|reflexivity]. rewrite cs_get_put.
  destruct (N.eq_dec k' k); [|reflexivity]. subst. exfalso. apply (H m); [left; reflexivity | assumption].
Qed.

Lemma classic_taken r k : (exists m, In m r /\ m_taken m = Some k) \/ (forall m, In m r -> m_taken m <> Some k).
Proof.
  induction r as [|m r IH]; [right; intros m []|].
  destruct IH as [[m0 [H1 H2]]|IH]; [left; exists m0; split; [right|]; assumption|].
  destruct (m_taken m) as [k'|] eqn:E.
  - destruct (N.eq_dec k' k) as [->|Hne].
    + left. exists m. split; [left; reflexivity | assumption].
    + right. intros m' [<-|Hm]; [congruence | apply IH; assumption].
  - right. intros m' [<-|Hm]; [congruence | apply IH; assumption].
Qed.

Theorem consume_cs_empties ms k : forall e, (exists m, In m ms /\ m_taken m = Some k) ->
  cs_get (consume_cs ms e) k = NM.empty Z.
Proof.
  induction ms as [|m r IH]; intros e [m0 [Hin Ht]]; [destruct Hin|]. cbn [consume_cs].
  destruct (classic_taken r k) as [Hr|Hr].
  - apply IH. exact Hr.
  - rewrite consume_cs_other by exact Hr.
    destruct Hin as [->|Hin]; [|exfalso; apply (Hr m0 Hin Ht)]. rewrite Ht, cs_get_put.
    destruct (N.eq_dec k k); [reflexivity|congruence].
Qed.

(* --- restricted storages (C13): the item reads its own index; looking up another entity follows
       the storage's own rule (mask and aliveness); nothing of this changes membership --- *)
From SV Require Import Store.Masked Store.StoreInv.

Lemma w_access_mut_mask ms i touch u c : ms_mask (fst (fst (w_access_mut ms i touch u c))) = ms_mask ms.
Proof.
  unfold w_access_mut.
  set (ms1 := match ms_wrap ms with
              | WFlagged => ms_event ms (EModified i)
              | WDeref => if touch || match u with UNone => false | _ => true end then ms_event ms (EModified i) else ms
              | WPlain => ms end).
  assert (ms_mask ms1 = ms_mask ms) as E.
  { subst ms1. destruct (ms_wrap ms); [reflexivity | apply ms_event_fields |].
    destruct (touch || _); [apply ms_event_fields | reflexivity]. }
  destruct (u_get (ms_raw ms1) i c) as [old c1]. destruct u as [|v|z].
  - exact E.
  - destruct (u_write (ms_raw ms1) i v c1) as [r c2]. cbn [fst ms_set ms_mask]. exact E.
  - destruct (u_write (ms_raw ms1) i _ c1) as [r c2]. cbn [fst ms_set ms_mask]. exact E.
Qed.

Lemma env_mask_put e sid ms c s' : env_mask (env_put e sid ms c) s' = if N.eq_dec sid s' then ms_mask ms else env_mask e s'.
Proof. unfold env_mask, env_put. cbn [se_stores]. rewrite find_add. destruct (N.eq_dec sid s'); reflexivity. Qed.

(* reading and fetching mutably never change any mask *)
Lemma env_jact_mask_keep e sid a s' : (match a with JRemove _ => False | _ => True end) ->
  env_mask (fst (env_jact e sid a)) s' = env_mask e s'.
Proof.
  intros Ha. unfold env_jact. destruct (NM.find sid (se_stores e)) as [ms|] eqn:Ef; [|reflexivity].
  assert (env_mask e sid = ms_mask ms) as Em by (unfold env_mask; rewrite Ef; reflexivity).
  destruct a as [i|i touch d|i]; cbn [ms_jact]; try contradiction.
  - destruct (NS.mem i (ms_mask ms)).
    + destruct (u_get (ms_raw ms) i (se_cx e)) as [t c']. cbn [fst]. rewrite env_mask_put.
      destruct (N.eq_dec sid s'); [subst; auto | reflexivity].
    + cbn [fst]. rewrite env_mask_put. destruct (N.eq_dec sid s'); [subst; auto | reflexivity].
  - destruct (NS.mem i (ms_mask ms)).
    + destruct (u_get (ms_raw ms) i (se_cx e)) as [old c0].
      pose proof (w_access_mut_mask ms i touch (match d with Some z => USetVal (snd old + z) | None => UNone end) c0) as X.
      destruct (w_access_mut ms i touch _ c0) as [[ms' t] c']. cbn [fst] in *. rewrite env_mask_put.
      destruct (N.eq_dec sid s'); [subst; congruence | reflexivity].
    + cbn [fst]. rewrite env_mask_put. destruct (N.eq_dec sid s'); [subst; auto | reflexivity].
Qed.

Definition other_present (e : senv) (av : aview) (hs : pvec entity) (sid : N) (h : href) : bool :=
  match pv_get hs (N.of_nat h) with
  | Some ent => NS.mem (fst ent) (env_mask e sid) && av_alive av ent
  | None => false
  end.

Definition is_some {A} (o : option A) : bool := match o with Some _ => true | None => false end.

(* get_other / get_other_mut answer exactly for entities that are alive and have the component *)
Theorem others_lookup_spec av hs sid mutably l : forall e,
  map is_some (snd (others_lookup av hs sid mutably l e)) = map (other_present e av hs sid) l /\
  (forall s', env_mask (fst (others_lookup av hs sid mutably l e)) s' = env_mask e s').
Proof.
  induction l as [|h l IH]; intros e; cbn [others_lookup]; [cbn; auto|].
  unfold other_present at 1. cbn [map]. destruct (pv_get hs (N.of_nat h)) as [ent|] eqn:Eh.
  - destruct (NS.mem (fst ent) (env_mask e sid) && av_alive av ent) eqn:Ep.
    + pose proof (env_jact_mask_keep e sid (if mutably then JAccess (fst ent) false None else JRead (fst ent))) as Hk.
      destruct (env_jact e sid _) as [e1 t]. cbn [fst] in Hk.
      assert (forall s', env_mask e1 s' = env_mask e s') as Hm by (intros s'; apply Hk; destruct mutably; exact I).
      destruct (IH e1) as [I1 I2]. destruct (others_lookup av hs sid mutably l e1) as [e2 r]. cbn [fst snd map is_some] in *.
      split; [|intros s'; rewrite I2; apply Hm]. f_equal. rewrite I1. apply map_ext. intros h'.
      unfold other_present. rewrite Hm. reflexivity.
    + destruct (IH e) as [I1 I2]. destruct (others_lookup av hs sid mutably l e) as [e2 r]. cbn [fst snd map is_some] in *.
      split; [f_equal; assumption | assumption].
  - destruct (IH e) as [I1 I2]. destruct (others_lookup av hs sid mutably l e) as [e2 r]. cbn [fst snd map is_some] in *.
    split; [f_equal; assumption | assumption].
Qed.

(* the restricted item: reading returns the guarded read of its own index *)
Theorem restricted_item_reads_own av hs excl eids sid mode selmod selrem d others i e :
  match snd (m_get av hs excl eids (MRestrict sid mode selmod selrem d others) i e) with
  | JPaired g os => g = snd (env_jact e sid (JRead i)) /\
                    (negb (N.eqb mode 1) || excl = false -> os = [])
  | _ => False
  end.
Proof.
  cbn [m_get]. destruct (env_jact e sid (JRead i)) as [e1 t]. cbn [snd].
  destruct (negb (N.eqb mode 1) || excl).
  - destruct (others_lookup av hs sid _ others _) as [e3 os]. cbn [snd]. split; [reflexivity | discriminate].
  - cbn [snd]. auto.
Qed.

(* a restricted join changes no membership: no mask of any storage changes *)
Lemma m_get_restricted_masks av hs excl eids sid mode selmod selrem d others i e s' :
  env_mask (fst (m_get av hs excl eids (MRestrict sid mode selmod selrem d others) i e)) s' = env_mask e s'.
Proof.
  cbn [m_get]. pose proof (env_jact_mask_keep e sid (JRead i) s' I) as H1.
  destruct (env_jact e sid (JRead i)) as [e1 t]. cbn [fst] in H1.
  set (e2 := if N.eqb mode 1 && N.eqb (N.modulo i selmod) selrem then fst (env_jact e1 sid (JAccess i true (Some d))) else e1).
  assert (env_mask e2 s' = env_mask e s') as H2.
  { subst e2. destruct (N.eqb mode 1 && N.eqb (N.modulo i selmod) selrem); [|exact H1].
    rewrite (env_jact_mask_keep e1 sid (JAccess i true (Some d)) s' I). exact H1. }
  destruct (negb (N.eqb mode 1) || excl); [|exact H2].
  destruct (others_lookup_spec av hs sid (N.eqb mode 1 && Z.odd d) others e2) as [_ H3].
  destruct (others_lookup av hs sid _ others e2) as [e3 os]. cbn [fst] in *. rewrite H3. exact H2.
Qed.
