(* Joins (src/join/*.rs), restricted storages (src/storage/restrict.rs), drains
   as join members (src/storage/drain.rs) and change sets (src/changeset.rs).
   A join is described by its kind and its tuple of members; the model computes
   the keys from the members' masks (the AND tree of bit_and.rs is, bit for bit,
   the conjunction of the memberships), walks them in ascending order (BitIter)
   and fetches, for every key, every member's item in tuple order.
   All storage accesses go through three guarded primitives ([jact]): touching
   a slot the mask does not cover is undefined behaviour in the real code and
   stuck here.  Definitions only. *)
From SV Require Export World.Env.

(* ------------------------------------------------------------------ *)
(* the guarded primitives on one storage *)

Inductive jact :=
| JRead (i : N)                                  (* UnprotectedStorage::get *)
| JAccess (i : N) (touch : bool) (d : option Z)  (* get_mut / shared_get_mut and what the caller does with it *)
| JRemove (i : N).                               (* MaskedStorage::remove(..).expect(..) *)

Definition ms_jact (ms : mstore) (a : jact) (c : ctx) : mstore * tok * ctx :=
  match a with
  | JRead i =>
      if NS.mem i (ms_mask ms) then let '(t, c') := u_get (ms_raw ms) i c in (ms, t, c')
      else (ms, unit_tok, cx_fail c)
  | JAccess i touch d =>
      if NS.mem i (ms_mask ms) then
        let '(old, c0) := u_get (ms_raw ms) i c in
        w_access_mut ms i touch (match d with Some z => USetVal (snd old + z) | None => UNone end) c0
      else (ms, unit_tok, cx_fail c)
  | JRemove i =>
      let '(ms', o, c') := m_remove ms i c in
      match o with Some t => (ms', t, c') | None => (ms', unit_tok, cx_fail c') end
  end.

Definition env_jact (e : senv) (sid : N) (a : jact) : senv * tok :=
  match NM.find sid (se_stores e) with
  | Some ms => let '(ms', t, c') := ms_jact ms a (se_cx e) in (env_put e sid ms' c', t)
  | None => (env_fail e, unit_tok)
  end.

Definition env_mask (e : senv) (sid : N) : NS.t :=
  match NM.find sid (se_stores e) with Some ms => ms_mask ms | None => NS.empty end.

(* ------------------------------------------------------------------ *)
(* change sets *)

Definition cs_get (e : senv) (k : N) : NM.t Z :=
  match NM.find k (se_cs e) with Some m => m | None => NM.empty Z end.
Definition cs_put (e : senv) (k : N) (m : NM.t Z) : senv :=
  {| se_stores := se_stores e; se_table := se_table e; se_cx := se_cx e; se_ideal := se_ideal e;
     se_cs := NM.add k m (se_cs e) |}.

(* the harness' amounts combine as  a += b  ==  a := 3*a + b  (not commutative: the order shows) *)
Definition amt_add (a b : Z) : Z := (3 * a + b)%Z.

(* ChangeSet::add *)
Definition cs_add (m : NM.t Z) (i : N) (a : Z) : NM.t Z :=
  match NM.find i m with
  | Some x => NM.add i (amt_add x a) m
  | None => NM.add i a m
  end.
Fixpoint cs_add_all (m : NM.t Z) (l : list (N * Z)) : NM.t Z :=
  match l with [] => m | (i, a) :: l' => cs_add_all (cs_add m i a) l' end.

Fixpoint res_pairs (hs : pvec entity) (l : list (href * Z)) : option (list (N * Z)) :=
  match l with
  | [] => Some []
  | (h, a) :: l' =>
      match pv_get hs (N.of_nat h), res_pairs hs l' with
      | Some e, Some r => Some ((fst e, a) :: r)
      | _, _ => None
      end
  end.

(* ------------------------------------------------------------------ *)
(* membership, candidate keys *)

(* combinations of two bit sets: intersection, union, symmetric difference, complement of the first *)
Definition bitop_has (bop : N) (a b : list N) (i : N) : bool :=
  let ia := existsb (N.eqb i) a in let ib := existsb (N.eqb i) b in
  if N.eqb bop 0 then ia && ib else if N.eqb bop 1 then ia || ib else if N.eqb bop 2 then xorb ia ib else negb ia.

Definition m_has (e : senv) (eids : NS.t) (m : member) (i : N) : bool :=
  match m with
  | MRead sid | MWrite sid _ _ | MRestrict sid _ _ _ _ _ | MDrain sid => NS.mem i (env_mask e sid)
  | MEntities => NS.mem i eids
  | MBits l => existsb (N.eqb i) l
  | MNot sid => negb (NS.mem i (env_mask e sid))
  | MMaybe _ => true
  | MChange k _ _ => NM.mem i (cs_get e k)
  | MBitOp bop a b => bitop_has bop a b i
  end.

Definition bits_of (l : list N) : NS.t := fold_right NS.add NS.empty l.

(* a positive member bounds the iteration; negations and optional members do not *)
Definition m_cands (e : senv) (eids : NS.t) (m : member) : option (list N) :=
  match m with
  | MRead sid | MWrite sid _ _ | MRestrict sid _ _ _ _ _ | MDrain sid => Some (NS.elements (env_mask e sid))
  | MEntities => Some (NS.elements eids)
  | MBits l => Some (NS.elements (bits_of l))
  | MChange k _ _ => Some (map fst (NM.elements (cs_get e k)))
  | MBitOp bop a b =>
      if N.ltb bop 3 then Some (filter (bitop_has bop a b) (NS.elements (fold_right NS.add NS.empty (a ++ b)))) else None
  | MNot _ | MMaybe _ => None
  end.

Fixpoint first_cands (e : senv) (eids : NS.t) (ms : list member) : option (list N) :=
  match ms with
  | [] => None
  | m :: r => match m_cands e eids m with Some l => Some l | None => first_cands e eids r end
  end.

Definition all_have (e : senv) (eids : NS.t) (ms : list member) (i : N) : bool :=
  forallb (fun m => m_has e eids m i) ms.

(* the keys of the join: None = unconstrained (every member optional or negated) *)
Definition jkeys (e : senv) (eids : NS.t) (ms : list member) : option (list N) :=
  match first_cands e eids ms with
  | Some l => Some (filter (all_have e eids ms) l)
  | None => None
  end.

(* ------------------------------------------------------------------ *)
(* fetching the items *)

Fixpoint others_lookup (av : aview) (hs : pvec entity) (sid : N) (mutably : bool) (l : list href) (e : senv)
  : senv * list (option tok) :=
  match l with
  | [] => (e, [])
  | h :: l' =>
      match pv_get hs (N.of_nat h) with
      | Some ent =>
          if NS.mem (fst ent) (env_mask e sid) && av_alive av ent then
            let '(e1, t) := env_jact e sid (if mutably then JAccess (fst ent) false None else JRead (fst ent)) in
            let '(e2, r) := others_lookup av hs sid mutably l' e1 in (e2, Some t :: r)
          else let '(e2, r) := others_lookup av hs sid mutably l' e in (e2, None :: r)
      | None => let '(e2, r) := others_lookup av hs sid mutably l' e in (e2, None :: r)
      end
  end.

(* [excl]: the join is a lending one (items of restrict_mut are exclusive and can look at other entities) *)
Fixpoint m_get (av : aview) (hs : pvec entity) (excl : bool) (eids : NS.t) (m : member) (i : N) (e : senv)
  : senv * jitem :=
  match m with
  | MRead sid => let '(e', t) := env_jact e sid (JRead i) in (e', JTok t)
  | MWrite sid touch d => let '(e', t) := env_jact e sid (JAccess i touch d) in (e', JTok t)
  | MEntities => (e, JEnt (i, av_cur_gen av i))
  | MBits _ | MNot _ | MBitOp _ _ _ => (e, JUnit)
  | MMaybe m' =>
      if m_has e eids m' i then let '(e', x) := m_get av hs excl eids m' i e in (e', JSome x) else (e, JNone)
  | MDrain sid => let '(e', t) := env_jact e sid (JRemove i) in (e', JTok t)
  | MChange k mode d =>
      match NM.find i (cs_get e k) with
      | Some a =>
          ((if N.eqb mode 1 then cs_put e k (NM.add i (amt_add a d) (cs_get e k))
            else if N.eqb mode 2 then cs_put e k (NM.remove i (cs_get e k)) else e), JAmt a)
      | None => (env_fail e, JAmt 0)
      end
  | MRestrict sid mode selmod selrem d others =>
      let '(e1, t) := env_jact e sid (JRead i) in
      let e2 := if N.eqb mode 1 && N.eqb (N.modulo i selmod) selrem
                then fst (env_jact e1 sid (JAccess i true (Some d))) else e1 in
      if negb (N.eqb mode 1) || excl then
        let '(e3, os) := others_lookup av hs sid (N.eqb mode 1 && Z.odd d) others e2 in (e3, JPaired t os)
      else (e2, JPaired t [])
  end.

Fixpoint visit_members (av : aview) (hs : pvec entity) (excl : bool) (eids : NS.t) (ms : list member) (i : N) (e : senv)
  : senv * list jitem :=
  match ms with
  | [] => (e, [])
  | m :: r =>
      let '(e1, x) := m_get av hs excl eids m i e in
      let '(e2, xs) := visit_members av hs excl eids r i e1 in (e2, x :: xs)
  end.

Fixpoint visit_keys (av : aview) (hs : pvec entity) (excl : bool) (eids : NS.t) (ms : list member) (keys : list N) (e : senv)
  : senv * list (N * list jitem) :=
  match keys with
  | [] => (e, [])
  | i :: keys' =>
      let '(e1, xs) := visit_members av hs excl eids ms i e in
      let '(e2, r) := visit_keys av hs excl eids ms keys' e1 in (e2, (i, xs) :: r)
  end.

(* a change set joined by value is consumed (also under .maybe()) *)
Fixpoint m_taken (m : member) : option N :=
  match m with
  | MChange k mode _ => if N.eqb mode 2 then Some k else None
  | MMaybe m' => m_taken m'
  | _ => None
  end.

Fixpoint consume_cs (ms : list member) (e : senv) : senv :=
  match ms with
  | [] => e
  | m :: r => consume_cs r (match m_taken m with Some k => cs_put e k (NM.empty Z) | None => e end)
  end.

(* ------------------------------------------------------------------ *)
(* which tuples exist / can be fetched *)

Fixpoint m_sid (m : member) : option (N * bool) :=     (* storage used, exclusively? *)
  match m with
  | MRead sid | MNot sid => Some (sid, false)
  | MWrite sid _ _ | MDrain sid => Some (sid, true)
  | MRestrict sid mode _ _ _ _ => Some (sid, negb (N.eqb mode 0))
  | MMaybe m' => m_sid m'
  | MEntities | MBits _ | MChange _ _ _ | MBitOp _ _ _ => None
  end.
Fixpoint m_cs (m : member) : option (N * bool) :=
  match m with
  | MChange k mode _ => Some (k, negb (N.eqb mode 0))
  | MMaybe m' => m_cs m'
  | _ => None
  end.

(* a storage fetched mutably is fetched once (shred's run-time borrow check; the borrow checker for change sets) *)
Fixpoint uses_ok {A} (key : A -> option (N * bool)) (seen : list (N * bool)) (l : list A) : bool :=
  match l with
  | [] => true
  | x :: r =>
      match key x with
      | Some (s, ex) =>
          negb (existsb (fun p => N.eqb (fst p) s && (ex || snd p)) seen) && uses_ok key ((s, ex) :: seen) r
      | None => uses_ok key seen r
      end
  end.

Definition wrap_of (sid : N) : option wrap := match kind_of sid with Some (_, w) => Some w | None => None end.

(* trait impls that exist for a member in a join of that kind *)
Fixpoint m_supported (k : jkind) (m : member) : bool :=
  match m with
  | MWrite sid _ _ =>
      match k, wrap_of sid with
      | (JSeq _), Some WDeref => false
      | (JPar _), Some WPlain => true
      | (JPar _), _ => false
      | _, _ => true
      end
  | MRestrict sid mode _ _ _ _ =>
      if N.eqb mode 1 then
        match k, wrap_of sid with
        | (JSeq _), Some WDeref => false
        | (JPar _), Some WPlain => true
        | (JPar _), _ => false
        | _, _ => true
        end
      else N.leb mode 2
  | MDrain _ => match k with JSeq _ | JLend _ => true | _ => false end
  | MChange _ mode _ =>
      match k with
      | JSeq _ | JLend _ => N.leb mode 2
      | JLendGet _ | JLendIdx _ => N.leb mode 1
      | JPar _ => false
      end
  | MMaybe m' => m_supported k m'
  | _ => true
  end.

Fixpoint m_registered (e : senv) (m : member) : bool :=
  match m with
  | MMaybe m' => m_registered e m'
  | _ => match m_sid m with
         | Some (sid, _) => match NM.find sid (se_stores e) with Some _ => true | None => false end
         | None => true
         end
  end.

Definition join_ok (e : senv) (k : jkind) (ms : list member) : bool :=
  forallb (m_supported k) ms &&
  uses_ok m_sid [] ms && uses_ok m_cs [] ms &&
  (* an iteration needs a member that bounds it; a lookup does not (all members may be optional) *)
  match k with
  | JLendGet _ | JLendIdx _ => true
  | _ => match first_cands e NS.empty ms with Some _ => true | None => false end
  end &&
  negb (Nat.eqb (length ms) 0) && Nat.leb (length ms) 8.

(* the harness resolves every handle position before anything is fetched: a position that was never returned
   makes the whole operation a no-op *)
Fixpoint m_handles (m : member) : list href :=
  match m with
  | MRestrict _ _ _ _ _ others => others
  | MMaybe m' => m_handles m'
  | _ => []
  end.
Definition handles_ok (hs : pvec entity) (k : jkind) (ms : list member) : bool :=
  forallb (fun h => match pv_get hs (N.of_nat h) with Some _ => true | None => false end)
          (flat_map m_handles ms ++ match k with JLendGet h => [h] | _ => [] end).

Definition is_lending (k : jkind) : bool :=
  match k with JLend _ | JLendGet _ | JLendIdx _ => true | _ => false end.

Definition env_join (e : senv) (av : aview) (eids : NS.t) (hs : pvec entity) (k : jkind) (ms : list member) : senv * jout :=
  if negb (join_ok e k ms) then (e, JSkipped) else
  if negb (handles_ok hs k ms) then (e, JSkipped) else
  (* fetching a storage that is not registered panics *)
  if negb (forallb (m_registered e) ms) then (env_fail e, JSkipped) else
  let excl := is_lending k in
  match k with
  | JSeq lim | JLend lim =>
      match jkeys e eids ms with
      | Some keys =>
          let keys' := match lim with Some n => firstn n keys | None => keys end in
          let '(e1, r) := visit_keys av hs excl eids ms keys' e in (consume_cs ms e1, JItems r)
      | None => (e, JSkipped)
      end
  | JPar _ =>
      match jkeys e eids ms with
      | Some keys => let '(e1, r) := visit_keys av hs excl eids ms keys e in (e1, JItems r)
      | None => (e, JSkipped)
      end
  | JLendGet h =>
      match pv_get hs (N.of_nat h) with
      | Some ent =>
          if all_have e eids ms (fst ent) && av_alive av ent then
            let '(e1, xs) := visit_members av hs excl eids ms (fst ent) e in (e1, JOne (Some (fst ent, xs)))
          else (e, JOne None)
      | None => (e, JSkipped)
      end
  | JLendIdx i =>
      if all_have e eids ms i then
        let '(e1, xs) := visit_members av hs excl eids ms i e in (e1, JOne (Some (i, xs)))
      else (e, JOne None)
  end.

Definition env_csop (e : senv) (hs : pvec entity) (o : csop) : senv * option (option (list (N * Z))) :=
  match o with
  | CsNew k => (cs_put e k (NM.empty Z), Some None)
  | CsAdd k h a =>
      match pv_get hs (N.of_nat h) with
      | Some ent => (cs_put e k (cs_add (cs_get e k) (fst ent) a), Some None)
      | None => (e, None)
      end
  | CsCollect k l =>
      match res_pairs hs l with
      | Some ps => (cs_put e k (cs_add_all (NM.empty Z) ps), Some None)
      | None => (e, None)
      end
  | CsExtend k l =>
      match res_pairs hs l with
      | Some ps => (cs_put e k (cs_add_all (cs_get e k) ps), Some None)
      | None => (e, None)
      end
  | CsClear k => (cs_put e k (NM.empty Z), Some None)
  | CsDump k => (e, Some (Some (NM.elements (cs_get e k))))
  end.

Definition eids_of (l : list entity) : NS.t := fold_right (fun e s => NS.add (fst e) s) NS.empty l.

Definition jout_wout (j : jout) : wout := match j with JSkipped => WSkip | _ => WJoin j end.

Definition cs_out (r : option (option (list (N * Z)))) : wout :=
  match r with None => WSkip | Some None => WUnit | Some (Some l) => WAmts l end.
