(* The join on plain maps: the same walk as World/Join.v, but every storage
   is just its abstract map (index -> value), without masks, raw layouts,
   wrappers or effects.  World/JoinRefine.v proves that the join on real
   storages refines this one; the consequences the properties need
   (what is read, what is written, what is left alone) are proved here,
   on the maps.  Definitions only in the first part. *)
From SV Require Export World.Join.

Record astate := {
  as_st : N -> NM.t tok;        (* storage id -> index -> value (empty for unregistered ids) *)
  as_cs : N -> NM.t Z;          (* change-set slots *)
  as_ok : bool }.               (* false: a slot was accessed that the map does not have *)

Definition upd {A} (f : N -> A) (k : N) (x : A) : N -> A := fun j => if N.eq_dec k j then x else f j.

Definition as_fail (S : astate) : astate := {| as_st := as_st S; as_cs := as_cs S; as_ok := false |}.
Definition as_set (S : astate) (sid : N) (mp : NM.t tok) : astate :=
  {| as_st := upd (as_st S) sid mp; as_cs := as_cs S; as_ok := as_ok S |}.
Definition as_set_cs (S : astate) (k : N) (mp : NM.t Z) : astate :=
  {| as_st := as_st S; as_cs := upd (as_cs S) k mp; as_ok := as_ok S |}.

Definition tn (unit : bool) (v : tok) : tok := if unit then unit_tok else v.

(* one guarded primitive on one map: new map, value, whether the slot existed *)
Definition a_act1 (u : bool) (mp : NM.t tok) (a : jact) : NM.t tok * tok * bool :=
  match a with
  | JRead i => match NM.find i mp with Some t => (mp, t, true) | None => (mp, unit_tok, false) end
  | JAccess i _ d =>
      match NM.find i mp with
      | Some t => (match d with Some z => NM.add i (tn u (fst t, (snd t + z)%Z)) mp | None => mp end, t, true)
      | None => (mp, unit_tok, false)
      end
  | JRemove i => match NM.find i mp with Some t => (NM.remove i mp, t, true) | None => (mp, unit_tok, false) end
  end.

Section Abs.
  Variable unit : N -> bool.     (* which storages hold the zero-sized unit component *)

  Definition a_jact (S : astate) (sid : N) (a : jact) : astate * tok :=
    let '(mp', t, ok) := a_act1 (unit sid) (as_st S sid) a in
    ((if ok then as_set S sid mp' else as_fail S), t).

  Definition a_has (S : astate) (eids : NS.t) (m : member) (i : N) : bool :=
    match m with
    | MRead sid | MWrite sid _ _ | MRestrict sid _ _ _ _ _ | MDrain sid => NM.mem i (as_st S sid)
    | MEntities => NS.mem i eids
    | MBits l => existsb (N.eqb i) l
    | MNot sid => negb (NM.mem i (as_st S sid))
    | MMaybe _ => true
    | MChange k _ _ => NM.mem i (as_cs S k)
    | MBitOp bop a b => bitop_has bop a b i
    end.

  Fixpoint a_others (av : aview) (hs : pvec entity) (sid : N) (mutably : bool) (l : list href) (S : astate)
    : astate * list (option tok) :=
    match l with
    | [] => (S, [])
    | h :: l' =>
        match pv_get hs (N.of_nat h) with
        | Some ent =>
            if NM.mem (fst ent) (as_st S sid) && av_alive av ent then
              let '(S1, t) := a_jact S sid (if mutably then JAccess (fst ent) false None else JRead (fst ent)) in
              let '(S2, r) := a_others av hs sid mutably l' S1 in (S2, Some t :: r)
            else let '(S2, r) := a_others av hs sid mutably l' S in (S2, None :: r)
        | None => let '(S2, r) := a_others av hs sid mutably l' S in (S2, None :: r)
        end
    end.

  Fixpoint a_mget (av : aview) (hs : pvec entity) (excl : bool) (eids : NS.t) (m : member) (i : N) (S : astate)
    : astate * jitem :=
    match m with
    | MRead sid => let '(S', t) := a_jact S sid (JRead i) in (S', JTok t)
    | MWrite sid touch d => let '(S', t) := a_jact S sid (JAccess i touch d) in (S', JTok t)
    | MEntities => (S, JEnt (i, av_cur_gen av i))
    | MBits _ | MNot _ | MBitOp _ _ _ => (S, JUnit)
    | MMaybe m' =>
        if a_has S eids m' i then let '(S', x) := a_mget av hs excl eids m' i S in (S', JSome x) else (S, JNone)
    | MDrain sid => let '(S', t) := a_jact S sid (JRemove i) in (S', JTok t)
    | MChange k mode d =>
        match NM.find i (as_cs S k) with
        | Some a =>
            ((if N.eqb mode 1 then as_set_cs S k (NM.add i (amt_add a d) (as_cs S k))
              else if N.eqb mode 2 then as_set_cs S k (NM.remove i (as_cs S k)) else S), JAmt a)
        | None => (as_fail S, JAmt 0)
        end
    | MRestrict sid mode selmod selrem d others =>
        let '(S1, t) := a_jact S sid (JRead i) in
        let S2 := if N.eqb mode 1 && N.eqb (N.modulo i selmod) selrem
                  then fst (a_jact S1 sid (JAccess i true (Some d))) else S1 in
        if negb (N.eqb mode 1) || excl then
          let '(S3, os) := a_others av hs sid (N.eqb mode 1 && Z.odd d) others S2 in (S3, JPaired t os)
        else (S2, JPaired t [])
    end.

  Fixpoint a_visit_members (av : aview) (hs : pvec entity) (excl : bool) (eids : NS.t) (ms : list member) (i : N) (S : astate)
    : astate * list jitem :=
    match ms with
    | [] => (S, [])
    | m :: r =>
        let '(S1, x) := a_mget av hs excl eids m i S in
        let '(S2, xs) := a_visit_members av hs excl eids r i S1 in (S2, x :: xs)
    end.

  Fixpoint a_visit_keys (av : aview) (hs : pvec entity) (excl : bool) (eids : NS.t) (ms : list member) (keys : list N) (S : astate)
    : astate * list (N * list jitem) :=
    match keys with
    | [] => (S, [])
    | i :: keys' =>
        let '(S1, xs) := a_visit_members av hs excl eids ms i S in
        let '(S2, r) := a_visit_keys av hs excl eids ms keys' S1 in (S2, (i, xs) :: r)
    end.

  Definition a_all_have (S : astate) (eids : NS.t) (ms : list member) (i : N) : bool :=
    forallb (fun m => a_has S eids m i) ms.
End Abs.
