(* C09: what a maintain does with the lazy queue - every queued action runs
   exactly once, in FIFO order, actions queued by a running action later in the
   same maintain, each action performs exactly its operations in order, and the
   queue is empty when maintain returns. *)
From SV Require Import World.Lazy.
From Coq Require Import Lia.

(* what the world performs for an operation met inside an action *)
Definition norm (o : op) : op := strip (match o with OMaintain | ODropWorld => OBad | _ => o end).

(* the actions queued while an action runs, in order *)
Fixpoint queued_by (nh : nat) (a : action) : list action :=
  match a with
  | [] => []
  | o :: a' =>
      let o' := match o with OMaintain | ODropWorld => OBad | _ => o end in
      (match action_of nh o' with Some x => [x] | None => [] end) ++ queued_by (nh + n_created o') a'
  end.

Fixpoint created_by (a : action) : nat :=
  match a with
  | [] => 0
  | o :: a' => n_created (match o with OMaintain | ODropWorld => OBad | _ => o end) + created_by a'
  end.

Lemma run_action_spec a : forall st,
  run_action st a =
  ({| f_nh := f_nh st + created_by a; f_queue := f_queue st ++ queued_by (f_nh st) a |}, map norm a).
Proof.
  induction a as [|o a IH]; intros st; cbn [run_action queued_by created_by map].
  - rewrite Nat.add_0_r, app_nil_r. destruct st; reflexivity.
  - unfold perform. rewrite IH. cbn [f_nh f_queue]. unfold norm.
    set (o' := match o with OMaintain | ODropWorld => OBad | _ => o end).
    f_equal. f_equal; [lia|].
    destruct (action_of (f_nh st) o'); rewrite <- ?app_assoc; reflexivity.
Qed.

(* each action performs exactly its operations, once each, in order *)
Theorem action_runs_its_operations st a : snd (run_action st a) = map norm a.
Proof. rewrite run_action_spec. reflexivity. Qed.

(* the sequence of actions popped by the drain loop, and of those appended meanwhile *)
Fixpoint drain_log (fuel : nat) (st : fstate) : list action * list action :=
  match fuel with
  | O => ([], [])
  | S fuel' =>
      match f_queue st with
      | [] => ([], [])
      | a :: q =>
          let st1 := fst (run_action {| f_nh := f_nh st; f_queue := q |} a) in
          let '(p, ap) := drain_log fuel' st1 in
          (a :: p, queued_by (f_nh st) a ++ ap)
      end
  end.

Lemma qsize_app q a : qsize (q ++ [a]) = (qsize q + S (asize a))%nat.
Proof. induction q as [|x q IH]; cbn [app qsize fold_right] in *; [lia|]. unfold qsize in *. cbn [fold_right]. lia. Qed.

Lemma qsize_app_list q l : qsize (q ++ l) = (qsize q + qsize l)%nat.
Proof. induction q as [|x q IH]; cbn [app]; [reflexivity|]. unfold qsize in *. cbn [fold_right]. lia. Qed.

Lemma asize_quiet {A} (f : A -> sop) l : asize (map (fun x => OQuiet (f x)) l) = 0%nat.
Proof. induction l as [|x l IH]; [reflexivity|]. unfold asize in *. cbn [map fold_right osize]. lia. Qed.

Lemma action_size nh o x : action_of nh o = Some x -> (S (asize x) <= osize o)%nat.
Proof.
  destruct o; cbn [action_of osize]; try discriminate.
  - intros H. inversion H; subst. rewrite (asize_quiet (fun c => SInsert (fst c) nh (snd c))). lia.
  - destruct (Nat.ltb h nh); [|discriminate]. intros H. inversion H. cbn. lia.
  - destruct (forallb (fun p => Nat.ltb (fst p) nh) l); [|discriminate]. intros H. inversion H. rewrite (asize_quiet (fun p => SInsert sid (fst p) (snd p))). lia.
  - destruct (Nat.ltb h nh); [|discriminate]. intros H. inversion H. cbn. lia.
  - intros H. inversion H; subst. unfold asize. lia.
Qed.

Lemma queued_by_size a : forall nh, (qsize (queued_by nh a) <= asize a)%nat.
Proof.
  induction a as [|o a IH]; intros nh; cbn [queued_by]; [unfold qsize, asize; cbn; lia|].
  set (o' := match o with OMaintain | ODropWorld => OBad | _ => o end).
  assert (osize o' <= osize o)%nat as Ho by (destruct o; cbn; lia).
  rewrite qsize_app_list. specialize (IH (nh + n_created o')%nat).
  assert (asize (o :: a) = osize o + asize a)%nat as -> by reflexivity.
  destruct (action_of nh o') as [x|] eqn:E.
  - pose proof (action_size _ _ _ E). unfold qsize at 1. cbn [fold_right]. lia.
  - unfold qsize at 1. cbn [fold_right]. lia.
Qed.

(* nothing queued is left over once maintain returns *)
Theorem drain_empties fuel : forall st, (qsize (f_queue st) <= fuel)%nat -> f_queue (fst (drain fuel st)) = [].
Proof.
  induction fuel as [|fuel IH]; intros st H; cbn [drain].
  - cbn [fst]. destruct (f_queue st) as [|a q]; [reflexivity|]. unfold qsize in H. cbn [fold_right] in H. lia.
  - destruct (f_queue st) as [|a q] eqn:Eq; [exact Eq|].
    rewrite run_action_spec. cbn [f_nh f_queue].
    specialize (IH {| f_nh := f_nh st + created_by a; f_queue := q ++ queued_by (f_nh st) a |}).
    destruct (drain fuel _) as [st2 es']. cbn [fst] in *. apply IH. cbn [f_queue].
    rewrite qsize_app_list. pose proof (queued_by_size a (f_nh st)).
    unfold qsize in H. cbn [fold_right] in H. fold (qsize q) in H. lia.
Qed.

(* FIFO, exactly once: the actions popped are the queue as it was, followed by the actions
   queued meanwhile, in the order in which they were queued *)
Theorem drain_fifo fuel : forall st, (qsize (f_queue st) <= fuel)%nat ->
  fst (drain_log fuel st) = f_queue st ++ snd (drain_log fuel st).
Proof.
  induction fuel as [|fuel IH]; intros st H; cbn [drain_log].
  - destruct (f_queue st) as [|a q]; [reflexivity|]. unfold qsize in H. cbn [fold_right] in H. lia.
  - destruct (f_queue st) as [|a q] eqn:Eq; [reflexivity|].
    rewrite run_action_spec. cbn [fst f_nh f_queue].
    specialize (IH {| f_nh := f_nh st + created_by a; f_queue := q ++ queued_by (f_nh st) a |}).
    destruct (drain_log fuel _) as [p ap]. cbn [fst snd f_queue] in *.
    rewrite IH; [rewrite <- app_assoc; reflexivity|].
    rewrite qsize_app_list. pose proof (queued_by_size a (f_nh st)).
    unfold qsize in H. cbn [fold_right] in H. fold (qsize q) in H. lia.
Qed.

(* the operations a maintain performs after merging and purging: the popped actions' operations, in order *)
Theorem drain_performs fuel : forall st,
  snd (drain fuel st) = flat_map (map norm) (fst (drain_log fuel st)).
Proof.
  induction fuel as [|fuel IH]; intros st; cbn [drain drain_log]; [reflexivity|].
  destruct (f_queue st) as [|a q]; [reflexivity|].
  rewrite run_action_spec. cbn [fst].
  specialize (IH {| f_nh := f_nh st + created_by a; f_queue := q ++ queued_by (f_nh st) a |}).
  destruct (drain fuel _) as [st2 es']. destruct (drain_log fuel _) as [p ap]. cbn [fst snd flat_map] in *.
  rewrite IH. reflexivity.
Qed.

(* lazy actions run after the merge and the purge of this maintain, and only then *)
Theorem maintain_then_actions st os :
  flatten_from st (OMaintain :: os) =
  OMaintain :: snd (drain (S (qsize (f_queue st))) st) ++ flatten_from (fst (drain (S (qsize (f_queue st))) st)) os.
Proof. cbn [flatten_from]. destruct (drain _ st). reflexivity. Qed.

Theorem maintain_leaves_queue_empty st : f_queue (fst (drain (S (qsize (f_queue st))) st)) = [].
Proof. apply drain_empties. lia. Qed.

(* a history without lazy operations is performed as it is *)
Definition no_lazy (o : op) : bool :=
  match o with
  | OLazyInsert _ _ _ | OLazyInsertAll _ _ | OLazyRemove _ _ | OLazyExec _ | OLazyCreate _ => false
  | _ => true
  end.

Theorem flatten_plain os : forall st, f_queue st = [] -> forallb no_lazy os = true -> flatten_from st os = os.
Proof.
  induction os as [|o os IH]; intros st Hq H; [reflexivity|].
  cbn [forallb] in H. apply andb_true_iff in H. destruct H as [Ho H].
  destruct o; try discriminate; cbn [flatten_from perform strip action_of];
    try (rewrite IH; [reflexivity | cbn [f_queue]; assumption | assumption]).
  (* OMaintain *)
  rewrite Hq. cbn [qsize fold_right drain]. rewrite Hq. cbn [app]. rewrite IH; [reflexivity | assumption | assumption].
Qed.
