(* Whatever the three guarded primitives, a change-set update and a failure
   preserve is preserved by every join and every change-set operation. *)
From SV Require Import World.Env World.Join.

Section Preserve.
  Variable P : senv -> Prop.
  Hypothesis P_jact : forall e sid a, P e -> P (fst (env_jact e sid a)).
  Hypothesis P_cs : forall e k m, P e -> P (cs_put e k m).
  Hypothesis P_fail : forall e, P e -> P (env_fail e).

  Lemma others_lookup_pres av hs sid mutably l : forall e, P e -> P (fst (others_lookup av hs sid mutably l e)).
  Proof.
    induction l as [|h l IH]; intros e H; cbn [others_lookup]; [assumption|].
    destruct (pv_get hs (N.of_nat h)) as [ent|].
    - destruct (NS.mem (fst ent) (env_mask e sid) && av_alive av ent).
      + pose proof (P_jact e sid (if mutably then JAccess (fst ent) false None else JRead (fst ent)) H) as X.
        destruct (env_jact e sid _) as [e1 t]. cbn [fst] in X. specialize (IH e1 X).
        destruct (others_lookup av hs sid mutably l e1) as [e2 r]. exact IH.
      + specialize (IH e H). destruct (others_lookup av hs sid mutably l e) as [e2 r]. exact IH.
    - specialize (IH e H). destruct (others_lookup av hs sid mutably l e) as [e2 r]. exact IH.
  Qed.

  Lemma m_get_pres av hs excl eids m i : forall e, P e -> P (fst (m_get av hs excl eids m i e)).
  Proof.
    induction m as [sid|sid touch d| |l|sid|m IH|sid mode selmod selrem d others|k mode d|sid|bop ba bb]; intros e H; cbn [m_get].
    - pose proof (P_jact e sid (JRead i) H) as X. destruct (env_jact e sid _) as [e1 t]. exact X.
    - pose proof (P_jact e sid (JAccess i touch d) H) as X. destruct (env_jact e sid _) as [e1 t]. exact X.
    - assumption.
    - assumption.
    - assumption.
    - destruct (m_has e eids m i); [|assumption]. specialize (IH e H).
      destruct (m_get av hs excl eids m i e) as [e1 x]. exact IH.
    - pose proof (P_jact e sid (JRead i) H) as X. destruct (env_jact e sid (JRead i)) as [e1 t]. cbn [fst] in X.
      assert (P (if N.eqb mode 1 && N.eqb (N.modulo i selmod) selrem then fst (env_jact e1 sid (JAccess i true (Some d))) else e1)) as X2.
      { destruct (N.eqb mode 1 && N.eqb (N.modulo i selmod) selrem); [apply P_jact|]; assumption. }
      destruct (negb (N.eqb mode 1) || excl); [|exact X2].
      pose proof (others_lookup_pres av hs sid (N.eqb mode 1 && Z.odd d) others _ X2) as X3.
      destruct (others_lookup av hs sid _ others _) as [e3 os]. exact X3.
    - destruct (NM.find i (cs_get e k)) as [a|]; cbn [fst]; [|apply P_fail; assumption].
      destruct (N.eqb mode 1); [apply P_cs; assumption|]. destruct (N.eqb mode 2); [apply P_cs|]; assumption.
    - pose proof (P_jact e sid (JRemove i) H) as X. destruct (env_jact e sid _) as [e1 t]. exact X.
    - assumption.
  Qed.

  Lemma visit_members_pres av hs excl eids ms i : forall e, P e -> P (fst (visit_members av hs excl eids ms i e)).
  Proof.
    induction ms as [|m r IH]; intros e H; cbn [visit_members]; [assumption|].
    pose proof (m_get_pres av hs excl eids m i e H) as X. destruct (m_get av hs excl eids m i e) as [e1 x]. cbn [fst] in X.
    specialize (IH e1 X). destruct (visit_members av hs excl eids r i e1) as [e2 xs]. exact IH.
  Qed.

  Lemma visit_keys_pres av hs excl eids ms keys : forall e, P e -> P (fst (visit_keys av hs excl eids ms keys e)).
  Proof.
    induction keys as [|i keys IH]; intros e H; cbn [visit_keys]; [assumption|].
    pose proof (visit_members_pres av hs excl eids ms i e H) as X.
    destruct (visit_members av hs excl eids ms i e) as [e1 xs]. cbn [fst] in X.
    specialize (IH e1 X). destruct (visit_keys av hs excl eids ms keys e1) as [e2 r]. exact IH.
  Qed.

  Lemma consume_cs_pres ms : forall e, P e -> P (consume_cs ms e).
  Proof.
    induction ms as [|m r IH]; intros e H; cbn [consume_cs]; [assumption|].
    apply IH. destruct (m_taken m); [apply P_cs|]; assumption.
  Qed.

  Theorem env_join_pres e av eids hs k ms : P e -> P (fst (env_join e av eids hs k ms)).
  Proof.
    intros H. unfold env_join. destruct (join_ok e k ms); cbn [negb]; [|assumption].
    destruct (handles_ok hs k ms); cbn [negb]; [|assumption].
    destruct (forallb (m_registered e) ms); cbn [negb]; [|apply P_fail; assumption].
    destruct k as [lim|lim|n|h|i].
    - destruct (jkeys e eids ms) as [keys|]; [|assumption].
      pose proof (visit_keys_pres av hs (is_lending (JSeq lim)) eids ms (match lim with Some n => firstn n keys | None => keys end) e H) as X.
      destruct (visit_keys av hs _ eids ms _ e) as [e1 r]. cbn [fst] in *. apply consume_cs_pres. exact X.
    - destruct (jkeys e eids ms) as [keys|]; [|assumption].
      pose proof (visit_keys_pres av hs (is_lending (JLend lim)) eids ms (match lim with Some n => firstn n keys | None => keys end) e H) as X.
      destruct (visit_keys av hs _ eids ms _ e) as [e1 r]. cbn [fst] in *. apply consume_cs_pres. exact X.
    - destruct (jkeys e eids ms) as [keys|]; [|assumption].
      pose proof (visit_keys_pres av hs (is_lending (JPar n)) eids ms keys e H) as X.
      destruct (visit_keys av hs _ eids ms _ e) as [e1 r]. exact X.
    - destruct (pv_get hs (N.of_nat h)) as [ent|]; [|assumption].
      destruct (all_have e eids ms (fst ent) && av_alive av ent); [|assumption].
      pose proof (visit_members_pres av hs (is_lending (JLendGet h)) eids ms (fst ent) e H) as X.
      destruct (visit_members av hs _ eids ms _ e) as [e1 r]. exact X.
    - destruct (all_have e eids ms i); [|assumption].
      pose proof (visit_members_pres av hs (is_lending (JLendIdx i)) eids ms i e H) as X.
      destruct (visit_members av hs _ eids ms _ e) as [e1 r]. exact X.
  Qed.

  Theorem env_csop_pres e hs c : P e -> P (fst (env_csop e hs c)).
  Proof.
    intros H. destruct c as [k|k h a|k l|k l|k|k]; cbn [env_csop].
    - apply P_cs. assumption.
    - destruct (pv_get hs (N.of_nat h)); cbn [fst]; [apply P_cs|]; assumption.
    - destruct (res_pairs hs l); cbn [fst]; [apply P_cs|]; assumption.
    - destruct (res_pairs hs l); cbn [fst]; [apply P_cs|]; assumption.
    - apply P_cs. assumption.
    - assumption.
  Qed.
End Preserve.
