(* The join model enumerates its keys from plain finite sets; the implementation walks a layered
   bit set.  Any layered mask that stands for "every member has the index" is walked to exactly
   the model's key list. *)
From Coq Require Import List NArith Sorting.Sorted.
From SV Require Import Base.ListX Store.Masked World.Env World.Join World.JoinProps
  Bits.Hibit Bits.HibitIter Bits.HibitOrder Bits.HibitSet Bits.HibitExpr.

Lemma layer_walk_is_jkeys e eids ms keys g :
  jkeys e eids ms = Some keys -> exact g (fun i => forall m, In m ms -> m_has e eids m i = true) ->
  drain_iter g (S (weight (fresh g))) (fresh g) = Some keys.
Proof.
  intros H X. apply (iteration_is_any_sorted_enumeration g _ X keys).
  - eapply jkeys_ascending. exact H.
  - intros x. rewrite (jkeys_exact e eids ms keys x H). apply all_have_spec.
Qed.
