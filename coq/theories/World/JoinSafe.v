(* A join never accesses a slot that is not there (C06 / C08): with every
   storage fetched mutably at most once per tuple (what shred's borrow check
   and the borrow checker enforce) and every visited index inside the
   intersection, the join on the maps never fails - hence, by the refinement,
   the join on the real storages is never stuck. *)
From SV Require Import Base.ListX World.Env World.Join World.JoinAbs World.JoinAbsProps.

Definition cscell (S : astate) (k j : N) : option Z := NM.find j (as_cs S k).

Section Safe.
  Variable unit : N -> bool.

  (* --- the primitives keep [as_ok] when the slot is there --- *)
  Lemma a_jact_ok S sid a : as_ok S = true -> cell S sid (act_idx a) <> None -> as_ok (fst (a_jact unit S sid a)) = true.
  Proof.
    intros Hok Hc. unfold a_jact, cell in *.
    destruct a as [i|i touch d|i]; cbn [a_act1 act_idx] in *; destruct (NM.find i (as_st S sid)); try congruence;
      cbn [fst as_set as_ok]; try assumption.
  Qed.

  Lemma a_jact_ok_mono S sid a : as_ok (fst (a_jact unit S sid a)) = true -> as_ok S = true.
  Proof.
    unfold a_jact. destruct (a_act1 (unit sid) (as_st S sid) a) as [[mp t] ok]. destruct ok; cbn [fst as_set as_fail as_ok]; [auto|discriminate].
  Qed.

  Lemma mem_cell S sid i : NM.mem i (as_st S sid) = true <-> cell S sid i <> None.
  Proof. unfold cell. rewrite NMF.mem_find_b. destruct (NM.find i (as_st S sid)); split; congruence. Qed.

  Lemma a_others_ok av hs sid mutably l : forall S, as_ok S = true -> as_ok (fst (a_others unit av hs sid mutably l S)) = true.
  Proof.
    induction l as [|h l IH]; intros S Hok; cbn [a_others]; [exact Hok|].
    destruct (pv_get hs (N.of_nat h)) as [ent|].
    - destruct (NM.mem (fst ent) (as_st S sid) && av_alive av ent) eqn:Ep.
      + apply andb_true_iff in Ep. destruct Ep as [Em _]. apply mem_cell in Em.
        pose proof (a_jact_ok S sid (if mutably then JAccess (fst ent) false None else JRead (fst ent)) Hok) as X.
        destruct (a_jact unit S sid _) as [S1 t]. cbn [fst] in X.
        specialize (IH S1 (X ltac:(destruct mutably; exact Em))). destruct (a_others unit av hs sid mutably l S1) as [S2 r]. exact IH.
      + specialize (IH S Hok). destruct (a_others unit av hs sid mutably l S) as [S2 r]. exact IH.
    - specialize (IH S Hok). destruct (a_others unit av hs sid mutably l S) as [S2 r]. exact IH.
  Qed.

  (* one member: fine whenever it has the index *)
  Lemma a_mget_ok av hs excl eids m i : forall S, as_ok S = true -> a_has S eids m i = true ->
    as_ok (fst (a_mget unit av hs excl eids m i S)) = true.
  Proof.
    induction m as [sid|sid touch d| |l|sid|m IH|sid mode selmod selrem d others|k mode d|sid|bop ba bb]; intros S Hok Hh; cbn [a_mget a_has] in *.
    - apply mem_cell in Hh. pose proof (a_jact_ok S sid (JRead i) Hok Hh) as X. destruct (a_jact unit S sid _) as [S1 t]. exact X.
    - apply mem_cell in Hh. pose proof (a_jact_ok S sid (JAccess i touch d) Hok Hh) as X. destruct (a_jact unit S sid _) as [S1 t]. exact X.
    - exact Hok.
    - exact Hok.
    - exact Hok.
    - destruct (a_has S eids m i) eqn:E; [|exact Hok]. specialize (IH S Hok E).
      destruct (a_mget unit av hs excl eids m i S) as [S1 x]. exact IH.
    - apply mem_cell in Hh. pose proof (a_jact_ok S sid (JRead i) Hok Hh) as X.
      pose proof (a_jact_quiet unit S sid (JRead i) sid i eq_refl) as Q.
      destruct (a_jact unit S sid (JRead i)) as [S1 t]. cbn [fst] in *.
      assert (as_ok (if N.eqb mode 1 && N.eqb (N.modulo i selmod) selrem then fst (a_jact unit S1 sid (JAccess i true (Some d))) else S1) = true) as X2.
      { destruct (N.eqb mode 1 && N.eqb (N.modulo i selmod) selrem); [|exact X].
        apply a_jact_ok; [exact X|]. cbn [act_idx]. rewrite Q. exact Hh. }
      destruct (negb (N.eqb mode 1) || excl); [|exact X2].
      pose proof (a_others_ok av hs sid (N.eqb mode 1 && Z.odd d) others _ X2) as X3.
      destruct (a_others unit av hs sid _ others _) as [S3 os]. exact X3.
    - rewrite NMF.mem_find_b in Hh. destruct (NM.find i (as_cs S k)) as [a|]; [|discriminate]. cbn [fst].
      destruct (N.eqb mode 1); [exact Hok|]. destruct (N.eqb mode 2); exact Hok.
    - apply mem_cell in Hh. pose proof (a_jact_ok S sid (JRemove i) Hok Hh) as X. destruct (a_jact unit S sid _) as [S1 t]. exact X.
    - exact Hok.
  Qed.

  (* --- change-set cells --- *)
  Fixpoint m_cs_eff (m : member) (k : N) (v : option Z) : option Z :=
    match m with
    | MChange k' mode d =>
        if N.eq_dec k' k then
          (if N.eqb mode 1 then option_map (fun a => amt_add a d) v else if N.eqb mode 2 then None else v)
        else v
    | MMaybe m' => m_cs_eff m' k v
    | _ => v
    end.

  Lemma a_others_cs av hs sid mutably l S : as_cs (fst (a_others unit av hs sid mutably l S)) = as_cs S.
  Proof. destruct (a_others_cell unit av hs sid mutably l S 0 0) as [_ H]. exact H. Qed.

  Lemma a_mget_cscell av hs excl eids m i : forall S k j,
    cscell (fst (a_mget unit av hs excl eids m i S)) k j = if N.eq_dec i j then m_cs_eff m k (cscell S k i) else cscell S k j.
  Proof.
    assert (forall S sid a k j, cscell (fst (a_jact unit S sid a)) k j = cscell S k j) as Hj.
    { intros S sid a k j. unfold cscell. rewrite a_jact_cs. reflexivity. }
    induction m as [sid|sid touch d| |l|sid|m IH|sid mode selmod selrem d others|k' mode d|sid|bop ba bb]; intros S k j; cbn [a_mget m_cs_eff].
    - specialize (Hj S sid (JRead i) k j). destruct (a_jact unit S sid _) as [S1 t]. cbn [fst] in *. rewrite Hj. destruct (N.eq_dec i j) as [<-|]; reflexivity.
    - specialize (Hj S sid (JAccess i touch d) k j). destruct (a_jact unit S sid _) as [S1 t]. cbn [fst] in *. rewrite Hj. destruct (N.eq_dec i j) as [<-|]; reflexivity.
    - destruct (N.eq_dec i j) as [<-|]; reflexivity.
    - destruct (N.eq_dec i j) as [<-|]; reflexivity.
    - destruct (N.eq_dec i j) as [<-|]; reflexivity.
    - destruct (a_has S eids m i) eqn:Eh.
      + specialize (IH S k j). destruct (a_mget unit av hs excl eids m i S) as [S1 x]. exact IH.
      + cbn [fst]. destruct (N.eq_dec i j) as [<-|]; [|reflexivity].
        (* an absent optional change set has no entry at i: no effect *)
        clear IH. revert Eh. induction m; cbn [a_has m_cs_eff]; intros Eh; try reflexivity; try discriminate.
        destruct (N.eq_dec k0 k) as [<-|]; [|reflexivity]. unfold cscell. rewrite NMF.mem_find_b in Eh.
        destruct (NM.find i (as_cs S k0)); [discriminate|]. destruct (N.eqb mode 1); [reflexivity|]. destruct (N.eqb mode 2); reflexivity.
    - pose proof (Hj S sid (JRead i) k) as H1. destruct (a_jact unit S sid (JRead i)) as [S1 t]. cbn [fst] in H1.
      set (S2 := if N.eqb mode 1 && N.eqb (N.modulo i selmod) selrem then fst (a_jact unit S1 sid (JAccess i true (Some d))) else S1).
      assert (forall j', cscell S2 k j' = cscell S k j') as H2.
      { intros j'. subst S2. destruct (N.eqb mode 1 && N.eqb (N.modulo i selmod) selrem); [rewrite Hj|]; apply H1. }
      destruct (negb (N.eqb mode 1) || excl).
      + pose proof (a_others_cs av hs sid (N.eqb mode 1 && Z.odd d) others S2) as H3.
        destruct (a_others unit av hs sid _ others S2) as [S3 os]. cbn [fst] in *. unfold cscell in *. rewrite H3.
        destruct (N.eq_dec i j) as [<-|]; apply H2.
      + cbn [fst]. destruct (N.eq_dec i j) as [<-|]; apply H2.
    - unfold cscell. destruct (NM.find i (as_cs S k')) as [a|] eqn:Ef; cbn [fst].
      + destruct (N.eqb mode 1) eqn:E1; [|destruct (N.eqb mode 2) eqn:E2]; cbn [as_set_cs as_cs]; rewrite ?upd_eq;
          destruct (N.eq_dec k' k) as [<-|]; destruct (N.eq_dec i j) as [<-|]; rewrite ?find_add, ?find_remove, ?Ef;
          try reflexivity;
          try (destruct (N.eq_dec i i); [reflexivity|congruence]);
          try (destruct (N.eq_dec i j); [congruence|reflexivity]).
      + cbn [as_fail as_cs]. destruct (N.eq_dec k' k) as [<-|]; destruct (N.eq_dec i j) as [<-|]; rewrite ?Ef; try reflexivity.
        destruct (N.eqb mode 1); [reflexivity|]. destruct (N.eqb mode 2); reflexivity.
    - specialize (Hj S sid (JRemove i) k j). destruct (a_jact unit S sid _) as [S1 t]. cbn [fst] in *. rewrite Hj. destruct (N.eq_dec i j) as [<-|]; reflexivity.
    - destruct (N.eq_dec i j) as [<-|]; reflexivity.
  Qed.
End Safe.

(* ------------------------------------------------------------------ *)
(* who may precede whom: from the borrow discipline ([uses_ok]) *)

Section Excl.
  Variable unit : N -> bool.

  Fixpoint m_cs_owns (m : member) (k : N) : bool :=
    match m with
    | MChange k' mode _ => N.eqb k' k && negb (N.eqb mode 0)
    | MMaybe m' => m_cs_owns m' k
    | _ => false
    end.

  Lemma not_cs_owner_no_effect m k v : m_cs_owns m k = false -> m_cs_eff m k v = v.
  Proof.
    induction m; cbn [m_cs_owns m_cs_eff]; intros H; try reflexivity; auto.
    destruct (N.eq_dec k0 k) as [<-|]; [|reflexivity]. rewrite N.eqb_refl in H. cbn [andb] in H.
    apply negb_false_iff in H. apply N.eqb_eq in H. subst. reflexivity.
  Qed.

  Lemma owns_sid m s : m_owns m s = true -> m_sid m = Some (s, true).
  Proof.
    induction m; cbn [m_owns m_sid]; intros H; try discriminate; auto.
    - destruct d; [|discriminate]. apply N.eqb_eq in H. subst. reflexivity.
    - apply andb_true_iff in H. destruct H as [H1 H2]. apply N.eqb_eq in H1, H2. subst. reflexivity.
    - apply N.eqb_eq in H. subst. reflexivity.
  Qed.

  Lemma cs_owns_cs m k : m_cs_owns m k = true -> m_cs m = Some (k, true).
  Proof.
    induction m; cbn [m_cs_owns m_cs]; intros H; try discriminate; auto.
    apply andb_true_iff in H. destruct H as [H1 H2]. apply N.eqb_eq in H1. subst. rewrite H2. reflexivity.
  Qed.

  Lemma existsb_false_in {B} (f : B -> bool) l : existsb f l = false -> forall p, In p l -> f p = false.
  Proof.
    induction l as [|x l IH]; intros H p Hp; [destruct Hp|]. cbn [existsb] in H. apply orb_false_elim in H. destruct H as [H1 H2].
    destruct Hp as [<-|Hp]; [assumption | apply IH; assumption].
  Qed.

  (* the discipline, unfolded: two uses of the same key are both shared *)
  Lemma uses_ok_seen {A} (key : A -> option (N * bool)) l : forall seen, uses_ok key seen l = true ->
    forall x s ex, In x l -> key x = Some (s, ex) -> forall p, In p seen -> fst p = s -> ex = false /\ snd p = false.
  Proof.
    induction l as [|y l IH]; intros seen H x s ex Hin Hk p Hp Hs; [destruct Hin|].
    cbn [uses_ok] in H. destruct (key y) as [[s' ey]|] eqn:Ey.
    - apply andb_true_iff in H. destruct H as [H1 H2]. destruct Hin as [<-|Hin].
      + rewrite Hk in Ey. inversion Ey; subst s' ey. apply negb_true_iff in H1.
        pose proof (existsb_false_in _ _ H1 p Hp) as X. cbv beta in X. rewrite Hs, N.eqb_refl in X. cbn [andb] in X.
        apply orb_false_elim in X. exact X.
      + apply (IH _ H2 x s ex Hin Hk p); [right; assumption | assumption].
    - destruct Hin as [<-|Hin]; [congruence|]. apply (IH _ H x s ex Hin Hk p Hp Hs).
  Qed.

  Lemma uses_ok_split {A} (key : A -> option (N * bool)) pre x post : forall seen, uses_ok key seen (pre ++ x :: post) = true ->
    forall s ex, key x = Some (s, ex) -> forall y ey, In y pre -> key y = Some (s, ey) -> ex = false /\ ey = false.
  Proof.
    induction pre as [|z pre IH]; intros seen H s ex Hk y ey Hin Hy; [destruct Hin|].
    cbn [app uses_ok] in H. destruct (key z) as [[s' ez]|] eqn:Ez.
    - apply andb_true_iff in H. destruct H as [_ H2]. destruct Hin as [<-|Hin].
      + rewrite Hy in Ez. inversion Ez; subst s' ez.
        assert (In x (pre ++ x :: post)) as Hx by (apply in_or_app; right; left; reflexivity).
        apply (uses_ok_seen key _ _ H2 x s ex Hx Hk (s, ey)); [left; reflexivity | reflexivity].
      + apply (IH _ H2 s ex Hk y ey Hin Hy).
    - destruct Hin as [<-|Hin]; [congruence|]. apply (IH _ H s ex Hk y ey Hin Hy).
  Qed.

  Lemma uses_ok_tail {A} (key : A -> option (N * bool)) x l : forall seen, uses_ok key seen (x :: l) = true ->
    exists seen', uses_ok key seen' l = true.
  Proof.
    intros seen H. cbn [uses_ok] in H. destruct (key x) as [[s ex]|]; [apply andb_true_iff in H; destruct H as [_ H]|]; eauto.
  Qed.

  (* whether member m has index i depends on one cell of the maps or of the change sets *)
  Lemma a_has_from_cells S S' eids m i :
    (forall s ex, m_sid m = Some (s, ex) -> cell S' s i = cell S s i) ->
    (forall k ex, m_cs m = Some (k, ex) -> cscell S' k i = cscell S k i) ->
    a_has S' eids m i = a_has S eids m i.
  Proof.
    intros H1 H2. unfold cell, cscell in *.
    destruct m; cbn [a_has m_sid m_cs] in *; try reflexivity; rewrite ?NMF.mem_find_b;
      try (rewrite (H1 _ _ eq_refl); reflexivity).
    rewrite (H2 _ _ eq_refl). reflexivity.
  Qed.

  Definition m_indep (m' m : member) : Prop :=
    (forall s ex, m_sid m = Some (s, ex) -> m_owns m' s = false) /\
    (forall k ex, m_cs m = Some (k, ex) -> m_cs_owns m' k = false).

  Lemma a_has_stable av hs excl eids m' m i S : m_indep m' m ->
    a_has (fst (a_mget unit av hs excl eids m' i S)) eids m i = a_has S eids m i.
  Proof.
    intros [I1 I2]. apply a_has_from_cells.
    - intros s ex Hs. rewrite a_mget_cell. destruct (N.eq_dec i i); [|congruence].
      apply not_owner_no_effect. eapply I1. eassumption.
    - intros k ex Hk. rewrite (a_mget_cscell unit). destruct (N.eq_dec i i); [|congruence].
      apply not_cs_owner_no_effect. eapply I2. eassumption.
  Qed.

  (* the members of a well-borrowed tuple: each is independent of those before it *)
  Definition well_borrowed (ms : list member) : Prop :=
    forall pre m post, ms = pre ++ m :: post -> forall m', In m' pre -> m_indep m' m.

  Lemma uses_ok_well_borrowed ms : uses_ok m_sid [] ms = true -> uses_ok m_cs [] ms = true -> well_borrowed ms.
  Proof.
    intros H1 H2 pre m post -> m' Hin. split.
    - intros s ex Hs. destruct (m_owns m' s) eqn:Eo; [|reflexivity]. apply owns_sid in Eo.
      destruct (uses_ok_split m_sid pre m post [] H1 s ex Hs m' true Hin Eo) as [_ X]. discriminate.
    - intros k ex Hk. destruct (m_cs_owns m' k) eqn:Eo; [|reflexivity]. apply cs_owns_cs in Eo.
      destruct (uses_ok_split m_cs pre m post [] H2 k ex Hk m' true Hin Eo) as [_ X]. discriminate.
  Qed.

  Lemma well_borrowed_tail m r : well_borrowed (m :: r) -> well_borrowed r.
  Proof. intros H pre x post E y Hy. apply (H (m :: pre) x post); [rewrite E; reflexivity | right; assumption]. Qed.

  (* one visit *)
  Lemma a_visit_members_ok av hs excl eids ms i : forall S, as_ok S = true -> well_borrowed ms ->
    (forall m, In m ms -> a_has S eids m i = true) ->
    as_ok (fst (a_visit_members unit av hs excl eids ms i S)) = true.
  Proof.
    induction ms as [|m r IH]; intros S Hok Hwb Hh; cbn [a_visit_members]; [exact Hok|].
    pose proof (a_mget_ok unit av hs excl eids m i S Hok (Hh m (or_introl eq_refl))) as X.
    assert (forall m2, In m2 r -> a_has (fst (a_mget unit av hs excl eids m i S)) eids m2 i = true) as Hh'.
    { intros m2 Hin. destruct (in_split _ _ Hin) as [r1 [r2 ->]]. rewrite a_has_stable.
      - apply Hh. right. assumption.
      - apply (Hwb (m :: r1) m2 r2 eq_refl). left. reflexivity. }
    destruct (a_mget unit av hs excl eids m i S) as [S1 x]. cbn [fst] in *.
    specialize (IH S1 X (well_borrowed_tail _ _ Hwb) Hh'). destruct (a_visit_members unit av hs excl eids r i S1) as [S2 xs]. exact IH.
  Qed.

  Lemma a_visit_members_cscell av hs excl eids ms i : forall S k j, i <> j ->
    cscell (fst (a_visit_members unit av hs excl eids ms i S)) k j = cscell S k j.
  Proof.
    induction ms as [|m r IH]; intros S k j Hne; cbn [a_visit_members]; [reflexivity|].
    pose proof (a_mget_cscell unit av hs excl eids m i S k j) as Q. destruct (a_mget unit av hs excl eids m i S) as [S1 x]. cbn [fst] in Q.
    specialize (IH S1 k j Hne). destruct (a_visit_members unit av hs excl eids r i S1) as [S2 xs]. cbn [fst] in *.
    rewrite IH, Q. destruct (N.eq_dec i j); [congruence|reflexivity].
  Qed.

  (* the whole walk *)
  Theorem a_visit_keys_ok av hs excl eids ms keys : forall S, as_ok S = true -> well_borrowed ms -> NoDup keys ->
    (forall i, In i keys -> a_all_have S eids ms i = true) ->
    as_ok (fst (a_visit_keys unit av hs excl eids ms keys S)) = true.
  Proof.
    induction keys as [|i keys IH]; intros S Hok Hwb Hnd Hh; cbn [a_visit_keys]; [exact Hok|].
    inversion Hnd as [|? ? Hni Hnd']; subst.
    assert (forall m, In m ms -> a_has S eids m i = true) as Hi.
    { intros m Hm. specialize (Hh i (or_introl eq_refl)). unfold a_all_have in Hh. rewrite forallb_forall in Hh. apply Hh. assumption. }
    pose proof (a_visit_members_ok av hs excl eids ms i S Hok Hwb Hi) as X.
    pose proof (a_visit_members_cell unit av hs excl eids ms i S) as Qc.
    pose proof (a_visit_members_cscell av hs excl eids ms i S) as Qs.
    destruct (a_visit_members unit av hs excl eids ms i S) as [S1 xs]. cbn [fst] in *.
    assert (forall j, In j keys -> a_all_have S1 eids ms j = true) as Hh'.
    { intros j Hj. assert (i <> j) as Hne by (intros ->; contradiction).
      specialize (Hh j (or_intror Hj)). unfold a_all_have in *. rewrite forallb_forall in *. intros m Hm.
      rewrite (a_has_from_cells S S1 eids m j); [apply Hh; assumption | |].
      - intros s ex _. rewrite Qc. destruct (N.eq_dec i j); [congruence|reflexivity].
      - intros k ex _. apply Qs. assumption. }
    specialize (IH S1 X Hwb Hnd' Hh'). destruct (a_visit_keys unit av hs excl eids ms keys S1) as [S2 r]. exact IH.
  Qed.
End Excl.

(* ------------------------------------------------------------------ *)
(* change sets in joins (C16): the cells of a slot after a join, and what a change-set member hands out *)

Section CsCells.
  Variable unit : N -> bool.

  Definition members_cs_eff (ms : list member) (k : N) (v : option Z) : option Z :=
    fold_left (fun v m => m_cs_eff m k v) ms v.

  Lemma a_visit_members_cscell_at av hs excl eids ms i : forall S k j,
    cscell (fst (a_visit_members unit av hs excl eids ms i S)) k j =
      if N.eq_dec i j then members_cs_eff ms k (cscell S k i) else cscell S k j.
  Proof.
    induction ms as [|m r IH]; intros S k j; cbn [a_visit_members members_cs_eff fold_left].
    - cbn [fst]. destruct (N.eq_dec i j) as [<-|]; reflexivity.
    - pose proof (a_mget_cscell unit av hs excl eids m i S k) as Q. destruct (a_mget unit av hs excl eids m i S) as [S1 x]. cbn [fst] in Q.
      specialize (IH S1 k j). destruct (a_visit_members unit av hs excl eids r i S1) as [S2 xs]. cbn [fst] in *.
      rewrite IH. destruct (N.eq_dec i j) as [<-|Hne].
      + rewrite Q. destruct (N.eq_dec i i); [reflexivity|congruence].
      + rewrite Q. destruct (N.eq_dec i j); [congruence|reflexivity].
  Qed.

  Theorem a_visit_keys_cscell av hs excl eids ms keys : forall S k j, NoDup keys ->
    cscell (fst (a_visit_keys unit av hs excl eids ms keys S)) k j =
      if in_dec N.eq_dec j keys then members_cs_eff ms k (cscell S k j) else cscell S k j.
  Proof.
    induction keys as [|i keys IH]; intros S k j Hnd; cbn [a_visit_keys].
    - cbn [fst]. destruct (in_dec N.eq_dec j []) as [[]|]. reflexivity.
    - inversion Hnd as [|? ? Hni Hnd']; subst.
      pose proof (a_visit_members_cscell_at av hs excl eids ms i S k) as Q.
      destruct (a_visit_members unit av hs excl eids ms i S) as [S1 xs]. cbn [fst] in Q.
      specialize (IH S1 k j Hnd'). destruct (a_visit_keys unit av hs excl eids ms keys S1) as [S2 r]. cbn [fst] in *.
      rewrite IH. destruct (in_dec N.eq_dec j (i :: keys)) as [Hin|Hnin]; destruct (in_dec N.eq_dec j keys) as [Hin'|Hnin'].
      + assert (i <> j) as Hne by (intros ->; contradiction). rewrite (Q j). destruct (N.eq_dec i j); [congruence|reflexivity].
      + destruct Hin as [<-|]; [|contradiction]. rewrite (Q i). destruct (N.eq_dec i i); [reflexivity|congruence].
      + exfalso. apply Hnin. right. assumption.
      + assert (i <> j) as Hne by (intros ->; apply Hnin; left; reflexivity).
        rewrite (Q j). destruct (N.eq_dec i j); [congruence|reflexivity].
  Qed.

  Lemma no_cs_owner_no_effect ms k : forallb (fun m => negb (m_cs_owns m k)) ms = true -> forall v, members_cs_eff ms k v = v.
  Proof.
    induction ms as [|m r IH]; intros H v; cbn [members_cs_eff fold_left]; [reflexivity|].
    cbn [forallb] in H. apply andb_true_iff in H. destruct H as [H1 H2]. apply negb_true_iff in H1.
    rewrite (not_cs_owner_no_effect m k v H1). apply IH. assumption.
  Qed.

  (* joined mutably: every visited amount is combined with the delta exactly once, the others are untouched;
     joined by value: every visited amount is taken out; joined by reference: nothing changes *)
  Theorem join_change_set_cells av hs excl eids pre post k mode d keys S j : NoDup keys ->
    forallb (fun m => negb (m_cs_owns m k)) pre = true -> forallb (fun m => negb (m_cs_owns m k)) post = true ->
    cscell (fst (a_visit_keys unit av hs excl eids (pre ++ MChange k mode d :: post) keys S)) k j =
      if in_dec N.eq_dec j keys
      then (if N.eqb mode 1 then option_map (fun a => amt_add a d) (cscell S k j) else if N.eqb mode 2 then None else cscell S k j)
      else cscell S k j.
  Proof.
    intros Hnd H1 H2. rewrite (a_visit_keys_cscell av hs excl eids _ keys S k j Hnd).
    destruct (in_dec N.eq_dec j keys); [|reflexivity].
    unfold members_cs_eff. rewrite fold_left_app. fold (members_cs_eff pre k (cscell S k j)).
    rewrite (no_cs_owner_no_effect pre k H1). cbn [fold_left m_cs_eff]. destruct (N.eq_dec k k); [|congruence].
    apply (no_cs_owner_no_effect post k H2).
  Qed.

  (* what a change-set member hands out: the amount accumulated for that index when the join started *)
  Lemma a_mget_amount av hs excl eids k mode d i S :
    snd (a_mget unit av hs excl eids (MChange k mode d) i S) = JAmt (match cscell S k i with Some a => a | None => 0%Z end).
  Proof. cbn [a_mget]. unfold cscell. destruct (NM.find i (as_cs S k)); reflexivity. Qed.

  Theorem join_pairs_each_accumulated_amount_once av hs excl eids pre post k mode d keys : forall S, NoDup keys ->
    forallb (fun m => negb (m_cs_owns m k)) pre = true ->
    forall j xs, In (j, xs) (snd (a_visit_keys unit av hs excl eids (pre ++ MChange k mode d :: post) keys S)) ->
    nth_error xs (length pre) = Some (JAmt (match cscell S k j with Some a => a | None => 0%Z end)).
  Proof.
    induction keys as [|i keys IH]; intros S Hnd Hpre j xs Hin; cbn [a_visit_keys] in Hin; [destruct Hin|].
    inversion Hnd as [|? ? Hni Hnd']; subst.
    assert (nth_error (snd (a_visit_members unit av hs excl eids (pre ++ MChange k mode d :: post) i S)) (length pre) =
            Some (JAmt (match cscell S k i with Some a => a | None => 0%Z end))) as It.
    { rewrite a_visit_members_app. cbn [snd]. rewrite nth_error_app2 by (rewrite a_visit_members_len; lia).
      rewrite a_visit_members_len, Nat.sub_diag.
      pose proof (a_visit_members_cscell_at av hs excl eids pre i S k i) as Q.
      destruct (a_visit_members unit av hs excl eids pre i S) as [S1 ys]. cbn [fst] in *. cbn [a_visit_members].
      pose proof (a_mget_amount av hs excl eids k mode d i S1) as R.
      destruct (a_mget unit av hs excl eids (MChange k mode d) i S1) as [S2 x]. cbn [snd] in R. subst x.
      destruct (a_visit_members unit av hs excl eids post i S2) as [S3 zs]. cbn [snd nth_error].
      rewrite Q. destruct (N.eq_dec i i); [|congruence]. rewrite (no_cs_owner_no_effect pre k Hpre). reflexivity. }
    pose proof (a_visit_members_cscell_at av hs excl eids (pre ++ MChange k mode d :: post) i S k) as Q.
    destruct (a_visit_members unit av hs excl eids (pre ++ MChange k mode d :: post) i S) as [S1 ys]. cbn [fst snd] in *.
    pose proof (a_visit_keys_indices unit av hs excl eids (pre ++ MChange k mode d :: post) keys S1) as Ix.
    specialize (IH S1 Hnd' Hpre j xs).
    destruct (a_visit_keys unit av hs excl eids (pre ++ MChange k mode d :: post) keys S1) as [S2 r]. cbn [snd] in *.
    destruct Hin as [E|Hin].
    - inversion E; subst. exact It.
    - rewrite (IH Hin). assert (In j keys) as Hj by (rewrite <- Ix; apply (in_map fst _ _ Hin)).
      rewrite (Q j). destruct (N.eq_dec i j); [subst; contradiction | reflexivity].
  Qed.
End CsCells.
