(* C05: deletion purges components everywhere; a reused index starts empty.
   Invariant of the specification machine (any storage representation):
   every index in any storage's mask belongs to an entity that is not yet
   dead, and every storage resource is listed in the MetaTable. *)
From SV Require Import Base.ListX Alloc.LifeProps Store.Masked Store.StoreInv World.Env World.Join World.JoinPres World.JoinProps World.StoreSim World.EnvSim World.JoinNoStuck
  World.WorldSpec World.Micro World.NoStuck.

Definition masks_live (s : lstate) (e : senv) : Prop :=
  forall sid ms i, NM.find sid (se_stores e) = Some ms -> NS.mem i (ms_mask ms) = true -> occupied (cell s i) = true.

Definition table_covers (e : senv) : Prop :=
  forall sid, NM.find sid (se_stores e) <> None -> In sid (se_table e).

Record PInv (w : sworld) : Prop := {
  P_env : EInv (s_env w);
  P_live : masks_live (s_life w) (s_env w);
  P_table : table_covers (s_env w);
  P_linv : LInv (s_life w) }.

(* --- how the building blocks change a mask --- *)

Lemma st_insert_mask ms m av e v c : MInv ms m ->
  forall i, NS.mem i (ms_mask (fst (fst (st_insert ms av e v c)))) = true ->
  NS.mem i (ms_mask ms) = true \/ (i = fst e /\ av_alive av e = true).
Proof.
  intros HM i. unfold st_insert. cbv zeta. destruct (av_alive av e) eqn:Ha; [|cbn [fst]; auto].
  destruct (NS.mem (fst e) (ms_mask ms)) eqn:Hmem.
  - destruct (keys_find_some _ _ _ (MI_keys _ _ HM) Hmem) as [t Hf].
    pose proof (w_access_mut_char ms m (fst e) t true (USwap (tnorm ms v)) c HM Hf (eq_sym (tnorm_idem ms v))) as X.
    destruct (w_access_mut ms (fst e) true (USwap (tnorm ms v)) c) as [[ms1 old] c1]. cbn [fst].
    destruct X as [_ [_ [_ [X4 _]]]]. rewrite X4. auto.
  - pose proof (not_present_insert_char ms m (fst e) v c HM Hmem) as [_ [_ [X3 _]]].
    destruct (not_present_insert ms (fst e) (tnorm ms v) c) as [ms1 c1]. cbn [fst] in *. rewrite X3, ns_mem_add.
    destruct (N.eq_dec (fst e) i); auto.
Qed.

Lemma m_drop_all_mask ids : forall ms m c, MInv ms m ->
  forall i, NS.mem i (ms_mask (fst (m_drop_all ms ids c))) = true -> NS.mem i (ms_mask ms) = true /\ ~ In i ids.
Proof.
  induction ids as [|x ids IH]; intros ms m c HM i; cbn [m_drop_all]; [auto|].
  pose proof (m_drop_char ms m x c HM) as X. destruct (m_drop ms x c) as [ms1 c1].
  destruct X as [X1 [_ [_ [X4 _]]]]. intros H. destruct (IH ms1 _ c1 X1 i H) as [H1 H2].
  rewrite X4 in H1. destruct (NS.mem x (ms_mask ms)) eqn:Hx.
  - rewrite ns_mem_remove in H1. destruct (N.eq_dec x i); [discriminate|]. split; [assumption|]. intros [E|E]; auto.
  - split; [assumption|]. intros [E|E]; [subst; congruence | auto].
Qed.

(* every mutating storage operation: a mask only gains the index of the (alive) entity it was given *)
Lemma ms_sop_mask ms m av ent so c : MInv ms m ->
  forall i, NS.mem i (ms_mask (fst (fst (ms_sop ms av ent so c)))) = true ->
  NS.mem i (ms_mask ms) = true \/ (i = fst ent /\ av_alive av ent = true).
Proof.
  intros HM i. pose proof (srel_refl ms m HM) as Hs.
  destruct so; cbn [ms_sop]; try (cbn [fst]; auto; fail).
  - pose proof (st_insert_mask ms m av ent v c HM i) as X. destruct (st_insert ms av ent v c) as [[ms1 r] c1]. exact X.
  - destruct (st_get ms av ent c). cbn [fst]. auto.
  - unfold st_get_mut, present. destruct (NS.mem (fst ent) (ms_mask ms)) eqn:Hmem; [|cbn [andb fst]; auto].
    destruct (av_alive av ent); [|cbn [andb fst]; auto]. cbn [andb].
    destruct (keys_find_some _ _ _ (MI_keys _ _ HM) Hmem) as [t Hf].
    set (u := match nv with Some z => USetVal z | None => UNone end).
    pose proof (w_access_mut_char ms m (fst ent) t touch u c HM Hf) as X.
    destruct (w_access_mut ms (fst ent) touch u c) as [[ms1 old] c1]. cbn [fst].
    destruct X as [_ [_ [_ [X4 _]]]]; [destruct nv; exact I|]. rewrite X4. auto.
  - unfold st_remove. destruct (av_alive av ent); [|cbn [fst]; auto].
    pose proof (m_remove_char ms m (fst ent) c HM) as X. destruct (m_remove ms (fst ent) c) as [[ms1 o] c1]. cbn [fst].
    destruct X as [_ [_ [_ [_ [X5 _]]]]]. rewrite X5. destruct (NS.mem (fst ent) (ms_mask ms)); [|auto].
    rewrite ns_mem_remove. destruct (N.eq_dec (fst ent) i); [discriminate|auto].
  - destruct (ms_wrap ms); [destruct (u_slice _ _ _)|..]; cbn [fst]; auto.
  - pose proof (m_clear_char ms m c HM) as X. destruct (m_clear ms c) as [ms1 c1]. cbn [fst].
    destruct X as [_ [_ [X3 _]]]. rewrite X3, NSF.empty_b. discriminate.
  - (* drain: the result is related to an empty-or-smaller mask; use the pair lemma's invariant *)
    unfold st_drain.
    assert (forall ids ms0 m0 c0, MInv ms0 m0 ->
              NS.mem i (ms_mask (fst (fst (st_drain_ids ms0 ids c0)))) = true -> NS.mem i (ms_mask ms0) = true) as Hd.
    { induction ids as [|x ids IH]; intros ms0 m0 c0 H0; cbn [st_drain_ids]; [auto|].
      pose proof (m_remove_char ms0 m0 x c0 H0) as X. destruct (m_remove ms0 x c0) as [[ms1 o] c1].
      destruct X as [_ [X2 [_ [_ [X5 _]]]]]. specialize (IH ms1 _ c1 X2).
      destruct (st_drain_ids ms1 ids c1) as [[ms2 l] c2]. cbn [fst] in *.
      intros H. assert (NS.mem i (ms_mask ms2) = true) as H' by (destruct o; exact H).
      apply IH in H'. rewrite X5 in H'. destruct (NS.mem x (ms_mask ms0)); [|assumption].
      rewrite ns_mem_remove in H'. destruct (N.eq_dec x i); [discriminate|assumption]. }
    intros H. left. cbv zeta in H. apply (Hd (match lim with Some k => firstn k (NS.elements (ms_mask ms)) | None => NS.elements (ms_mask ms) end) ms m c HM).
    destruct (st_drain_ids ms _ c) as [[? ?] ?]. exact H.
  - (* entry *)
    unfold st_entry. cbv zeta. destruct (av_alive av ent) eqn:Ha; [|destruct eo; cbn [fst]; auto].
    destruct (NS.mem (fst ent) (ms_mask ms)) eqn:Hmem.
    + destruct (keys_find_some _ _ _ (MI_keys _ _ HM) Hmem) as [t Hf].
      assert (forall touch u, (match u with USwap v => v = tnorm ms v | _ => True end) ->
                NS.mem i (ms_mask (fst (fst (w_access_mut ms (fst ent) touch u c)))) = true -> NS.mem i (ms_mask ms) = true) as Hacc.
      { intros touch u Hu. pose proof (w_access_mut_char ms m (fst ent) t touch u c HM Hf Hu) as X.
        destruct (w_access_mut ms (fst ent) touch u c) as [[ms1 old] c1]. cbn [fst].
        destruct X as [_ [_ [_ [X4 _]]]]. rewrite X4. auto. }
      destruct eo as [|v|v| |z].
      * destruct (u_get (ms_raw ms) (fst ent) c). cbn [fst]. auto.
      * specialize (Hacc false UNone I). destruct (w_access_mut ms (fst ent) false UNone c) as [[ms1 old] c1]. cbn [fst] in *. auto.
      * specialize (Hacc true (USwap (tnorm ms v)) (eq_sym (tnorm_idem ms v))).
        destruct (w_access_mut ms (fst ent) true (USwap (tnorm ms v)) c) as [[ms1 old] c1]. cbn [fst] in *. auto.
      * pose proof (m_remove_char ms m (fst ent) c HM) as X. destruct (m_remove ms (fst ent) c) as [[ms1 o] c1]. cbn [fst].
        destruct X as [_ [_ [_ [_ [X5 _]]]]]. rewrite X5, Hmem, ns_mem_remove. destruct (N.eq_dec (fst ent) i); [discriminate|auto].
      * specialize (Hacc true (USetVal z) I). destruct (w_access_mut ms (fst ent) true (USetVal z) c) as [[ms1 old] c1]. cbn [fst] in *. auto.
    + assert (forall v, NS.mem i (ms_mask (fst (fst (let '(ms1, c1) := not_present_insert ms (fst ent) (tnorm ms v) c in
                  w_access_mut ms1 (fst ent) false UNone c1)))) = true ->
                NS.mem i (ms_mask ms) = true \/ i = fst ent /\ true = true) as Hnp.
      { intros v. pose proof (not_present_insert_char ms m (fst ent) v c HM Hmem) as [A1 [_ [A3 _]]].
        destruct (not_present_insert ms (fst ent) (tnorm ms v) c) as [ms1 c1]. cbn [fst] in *.
        assert (NM.find (fst ent) (NM.add (fst ent) (tnorm ms v) m) = Some (tnorm ms v)) as Hf.
        { rewrite find_add. destruct (N.eq_dec (fst ent) (fst ent)); [reflexivity|congruence]. }
        pose proof (w_access_mut_char ms1 _ (fst ent) _ false UNone c1 A1 Hf I) as X.
        destruct (w_access_mut ms1 (fst ent) false UNone c1) as [[ms2 old] c2]. cbn [fst].
        destruct X as [_ [_ [_ [X4 _]]]]. rewrite X4, A3, ns_mem_add. destruct (N.eq_dec (fst ent) i); auto. }
      destruct eo as [|v|v| |z]; try (cbn [fst]; auto; fail).
      * specialize (Hnp v). destruct (not_present_insert ms (fst ent) (tnorm ms v) c) as [ms1 c1].
        destruct (w_access_mut ms1 (fst ent) false UNone c1) as [[ms2 old] c2]. cbn [fst] in *. exact Hnp.
      * specialize (Hnp v). destruct (not_present_insert ms (fst ent) (tnorm ms v) c) as [ms1 c1].
        destruct (w_access_mut ms1 (fst ent) false UNone c1) as [[ms2 old] c2]. cbn [fst] in *. exact Hnp.
  - (* get_mut_or_default *)
    unfold st_get_mut_or_default.
    assert (forall ms0 m0 c0, MInv ms0 m0 ->
              NS.mem i (ms_mask (fst (fst (st_get_mut ms0 av ent false None c0)))) = true -> NS.mem i (ms_mask ms0) = true) as Hgm.
    { intros ms0 m0 c0 H0. unfold st_get_mut, present. destruct (NS.mem (fst ent) (ms_mask ms0)) eqn:Hmem; [|cbn [andb fst]; auto].
      destruct (av_alive av ent); [|cbn [andb fst]; auto]. cbn [andb].
      destruct (keys_find_some _ _ _ (MI_keys _ _ H0) Hmem) as [t Hf].
      pose proof (w_access_mut_char ms0 m0 (fst ent) t false UNone c0 H0 Hf I) as X.
      destruct (w_access_mut ms0 (fst ent) false UNone c0) as [[ms1 old] c1]. cbn [fst].
      destruct X as [_ [_ [_ [X4 _]]]]. rewrite X4. auto. }
    destruct (present ms av ent).
    + intros H. left. apply (Hgm ms m c HM). destruct (st_get_mut ms av ent false None c) as [[? ?] ?]. exact H.
    + pose proof (st_insert_mask ms m av ent (if ms_unit ms then unit_tok else default_tok) (cx_mint c) HM i) as X.
      pose proof (st_insert_pair ms ms av ent (if ms_unit ms then unit_tok else default_tok) (cx_mint c) (cx_mint c) Hs) as Y.
      destruct (st_insert ms av ent _ (cx_mint c)) as [[ms1 r] c1]. cbn [fst] in X.
      destruct Y as [_ [[_ [m1 [H1 _]]] _]].
      destruct r; try (cbn [fst]; exact X);
      (intros H; apply X; apply (Hgm ms1 m1 c1 H1); destruct (st_get_mut ms1 av ent false None c1) as [[? ?] ?]; exact H).
  - destruct (ms_wrap ms); [cbn [fst]; auto| |]; (unfold st_register_reader; cbn [fst ms_mask]; auto).
  - unfold st_read_events. destruct (nth_error (ms_readers ms) k); cbn [fst ms_mask]; auto.
  - destruct (ms_wrap ms); cbn [fst]; auto.
Qed.

(* --- environments --- *)

Lemma purge_tbl_masks tbl : forall s ids c,
  (forall sid ms, NM.find sid s = Some ms -> exists m, MInv ms m) ->
  forall sid ms' i, NM.find sid (fst (env_purge_tbl s tbl ids c)) = Some ms' -> NS.mem i (ms_mask ms') = true ->
  exists ms, NM.find sid s = Some ms /\ NS.mem i (ms_mask ms) = true /\ (In sid tbl -> ~ In i ids).
Proof.
  induction tbl as [|t tbl IH]; intros s ids c S sid ms' i Hf Hm; cbn [env_purge_tbl] in Hf.
  - exists ms'. split; [assumption|]. split; [assumption|]. intros [].
  - destruct (NM.find t s) as [a|] eqn:Ea.
    + destruct (S t a Ea) as [m Hma]. pose proof (m_drop_all_mask ids a m c Hma) as Hmask.
      destruct (drop_all_ok ids a m c Hma) as [[m' Hm'] _].
      destruct (m_drop_all a ids c) as [a1 c1]. cbn [fst snd] in *.
      assert (forall j x, NM.find j (NM.add t a1 s) = Some x -> exists m0, MInv x m0) as S'.
      { intros j x Hj. rewrite find_add in Hj. destruct (N.eq_dec t j); [inversion Hj; subst; eauto | eauto]. }
      destruct (IH (NM.add t a1 s) ids c1 S' sid ms' i Hf Hm) as [ms [F1 [F2 F3]]].
      rewrite find_add in F1. destruct (N.eq_dec t sid) as [->|Hne].
      * inversion F1; subst ms. destruct (Hmask i F2) as [G1 G2]. exists a. split; [assumption|]. split; [assumption|]. intros _. exact G2.
      * exists ms. split; [assumption|]. split; [assumption|]. intros [E|E]; [congruence | auto].
    + destruct (IH s ids (cx_fail c) S sid ms' i Hf Hm) as [ms [F1 [F2 F3]]].
      exists ms. split; [assumption|]. split; [assumption|]. intros [E|E]; [subst; congruence | auto].
Qed.

Lemma delete_components_masks e ents : EInv e -> table_covers e ->
  forall sid ms' i, NM.find sid (se_stores (env_delete_components e ents)) = Some ms' -> NS.mem i (ms_mask ms') = true ->
  exists ms, NM.find sid (se_stores e) = Some ms /\ NS.mem i (ms_mask ms) = true /\ ~ In i (map fst ents).
Proof.
  intros HE HT sid ms' i. unfold env_delete_components.
  pose proof (purge_tbl_masks (se_table e) (se_stores e) (map fst ents) (se_cx e) (EI_stores _ HE) sid ms' i) as X.
  destruct (env_purge_tbl (se_stores e) (se_table e) (map fst ents) (se_cx e)) as [s' c']. cbn [fst se_stores] in *.
  intros Hf Hm. destruct (X Hf Hm) as [ms [F1 [F2 F3]]]. exists ms. split; [assumption|]. split; [assumption|].
  apply F3. apply HT. congruence.
Qed.

Lemma delete_components_table e ents : se_table (env_delete_components e ents) = se_table e.
Proof. unfold env_delete_components. destruct (env_purge_tbl _ _ _ _). reflexivity. Qed.

Lemma purge_tbl_dom tbl : forall s ids c sid,
  NM.find sid (fst (env_purge_tbl s tbl ids c)) <> None -> NM.find sid s <> None.
Proof.
  induction tbl as [|t tbl IH]; intros s ids c sid H; cbn [env_purge_tbl] in H; [assumption|].
  destruct (NM.find t s) as [a|] eqn:Ea.
  - destruct (m_drop_all a ids c) as [a1 c1]. apply IH in H. rewrite find_add in H.
    destruct (N.eq_dec t sid); [congruence|assumption].
  - apply IH in H. assumption.
Qed.

Lemma delete_components_covers e ents : table_covers e -> table_covers (env_delete_components e ents).
Proof.
  intros HT sid H. rewrite delete_components_table. apply HT.
  unfold env_delete_components in H. pose proof (purge_tbl_dom (se_table e) (se_stores e) (map fst ents) (se_cx e) sid) as X.
  destruct (env_purge_tbl (se_stores e) (se_table e) (map fst ents) (se_cx e)). apply X. exact H.
Qed.

Lemma insert_comps_masks cs : forall e av ent, EInv e ->
  forall sid ms' i, NM.find sid (se_stores (env_insert_comps e av ent cs)) = Some ms' -> NS.mem i (ms_mask ms') = true ->
  (exists ms, NM.find sid (se_stores e) = Some ms /\ NS.mem i (ms_mask ms) = true) \/ (i = fst ent /\ av_alive av ent = true).
Proof.
  induction cs as [|[s v] cs IH]; intros e av ent HE sid ms' i Hf Hm; cbn [env_insert_comps] in Hf; [left; eauto|].
  destruct (NM.find s (se_stores e)) as [a|] eqn:Ea.
  - destruct (EI_stores _ HE _ _ Ea) as [m Hma].
    pose proof (st_insert_mask a m av ent v (se_cx e) Hma) as Hmask.
    pose proof (st_insert_pair a a av ent v (se_cx e) (se_cx e) (srel_refl a m Hma)) as Y.
    destruct (st_insert a av ent v (se_cx e)) as [[a1 r] c1]. cbn [fst] in Hmask. destruct Y as [_ [[_ [m1 [H1 _]]] _]].
    assert (EInv (env_put e s a1 (match r with InsErr _ => cx_fail c1 | InsOld t => cx_drop c1 t | _ => c1 end))) as HE' by (apply EInv_put; eauto).
    destruct (IH _ av ent HE' sid ms' i Hf Hm) as [[ms [F1 F2]]|F]; [|right; exact F].
    cbn [env_put se_stores] in F1. rewrite find_add in F1. destruct (N.eq_dec s sid) as [->|Hne].
    + inversion F1; subst ms. destruct (Hmask i F2) as [G|G]; [left; eauto | right; exact G].
    + left. eauto.
  - apply (IH (env_cx e (cx_drop (cx_fail (se_cx e)) v)) av ent (EInv_cx _ _ HE) sid ms' i Hf Hm).
Qed.

Lemma insert_comps_table cs : forall e av ent, se_table (env_insert_comps e av ent cs) = se_table e.
Proof.
  induction cs as [|[s v] cs IH]; intros e av ent; cbn [env_insert_comps]; [reflexivity|].
  destruct (NM.find s (se_stores e)).
  - destruct (st_insert m av ent v (se_cx e)) as [[a1 r] c1]. rewrite IH. reflexivity.
  - rewrite IH. reflexivity.
Qed.

Lemma insert_comps_dom cs : forall e av ent sid,
  NM.find sid (se_stores (env_insert_comps e av ent cs)) <> None -> NM.find sid (se_stores e) <> None.
Proof.
  induction cs as [|[s v] cs IH]; intros e av ent sid H; cbn [env_insert_comps] in H; [assumption|].
  destruct (NM.find s (se_stores e)) as [a|] eqn:Ea.
  - destruct (st_insert a av ent v (se_cx e)) as [[a1 r] c1]. apply IH in H. cbn [env_put se_stores] in H.
    rewrite find_add in H. destruct (N.eq_dec s sid); [congruence|assumption].
  - apply IH in H. exact H.
Qed.

(* --- the lifecycle side: deletion only touches the deleted cells --- *)

Lemma kill_pos_ge l : forall s pos k, snd (l_kill s l pos) = Some k -> (pos <= k)%nat.
Proof.
  induction l as [|e l IH]; intros s pos k H; cbn [l_kill] in H; [discriminate|].
  destruct (l_is_alive s e).
  - apply IH in H. lia.
  - cbn in H. inversion H. lia.
Qed.

Definition killed_of (es : list entity) (r : option nat) (pos : nat) : list entity :=
  match r with None => es | Some k => firstn (k - pos) es end.

Lemma kill_cell_other l : forall s pos i,
  ~ In i (map fst (killed_of l (snd (l_kill s l pos)) pos)) -> cell (fst (l_kill s l pos)) i = cell s i.
Proof.
  induction l as [|e l IH]; intros s pos i H; cbn [l_kill] in *; [reflexivity|].
  destruct (l_is_alive s e) eqn:A; [|reflexivity].
  assert (i <> fst e /\ ~ In i (map fst (killed_of l (snd (l_kill (set_cell s (fst e) (Free (snd e))) l (S pos))) (S pos)))) as [H1 H2].
  { unfold killed_of in *. destruct (snd (l_kill (set_cell s (fst e) (Free (snd e))) l (S pos))) as [k|] eqn:Ek.
    - pose proof (kill_pos_ge _ _ _ _ Ek) as Hk. replace (k - pos)%nat with (S (k - S pos)) in H by lia.
      cbn [firstn map In] in H. split; [intros ->; apply H; left; reflexivity | intros X; apply H; right; exact X].
    - cbn [map In] in H. split; [intros ->; apply H; left; reflexivity | intros X; apply H; right; exact X]. }
  rewrite IH by exact H2. rewrite cell_set. destruct (N.eq_dec (fst e) i); [congruence|reflexivity].
Qed.

Lemma kill_res_cell_other s es i :
  ~ In i (map fst (match snd (l_kill_res s es) with None => es | Some (pos, _) => firstn pos es end)) ->
  cell (fst (l_kill_res s es)) i = cell s i.
Proof.
  unfold l_kill_res. pose proof (kill_cell_other es s 0%nat i) as X. unfold killed_of in X.
  destruct (l_kill s es 0) as [s' [k|]]; cbn [fst snd] in *.
  - rewrite Nat.sub_0_r in X. exact X.
  - exact X.
Qed.

Lemma merge_deleted_spec s i : dies_at_merge (cell s i) = true -> In i (map fst (snd (l_merge s))).
Proof.
  intros H. unfold l_merge. cbn [snd]. rewrite map_map. cbn [fst].
  unfold cell in H. destruct (NM.find i (cells s)) as [c|] eqn:E; [|discriminate].
  apply in_map_iff. exists (i, c). split; [reflexivity|]. apply filter_In. split; [apply in_elements_cell; assumption|exact H].
Qed.

Lemma merge_cell_occupied c : occupied c = true -> dies_at_merge c = false -> occupied (merge_cell c) = true.
Proof. destruct c as [|g|g [|]|g [|]]; cbn; congruence. Qed.

Lemma create_cell_occupied pend s i j : occupied (cell s j) = true -> occupied (cell (fst (l_create pend s i)) j) = true.
Proof. intros H. rewrite cell_create. destruct (N.eq_dec i j); [destruct pend; reflexivity | exact H]. Qed.

Lemma kill_def_cell_occupied s e j : occupied (cell s j) = true -> occupied (cell (fst (l_kill_def s e)) j) = true.
Proof.
  intros H. unfold l_kill_def. destruct (l_is_alive s e); [|exact H]. cbn [fst]. rewrite cell_set.
  destruct (N.eq_dec (fst e) j) as [->|]; [destruct (cell s j); cbn in *; congruence | exact H].
Qed.

(* --- the invariant is preserved by every step --- *)

Lemma PInv_init b : PInv (s_init_env b).
Proof.
  split; cbn.
  - apply EInv_init.
  - intros sid ms i H. discriminate.
  - intros sid H. exfalso. apply H. reflexivity.
  - apply LInv_init.
Qed.

Lemma masks_live_mono s s' e : (forall j, occupied (cell s j) = true -> occupied (cell s' j) = true) ->
  masks_live s e -> masks_live s' e.
Proof. intros H M sid ms i Hf Hm. apply H. apply (M sid ms i Hf Hm). Qed.

Lemma PInv_create pend w i : PInv w -> valid_choice (s_life w) i = true ->
  PInv (fst (s_create pend w i)).
Proof.
  intros [HE HL HT HI] Hv. pose proof (s_create_envE pend w i) as E. pose proof (s_create_life pend w i) as L.
  destruct (s_create pend w i) as [w1 e]. cbn [fst] in *. split; rewrite ?E, ?L; auto.
  - apply (masks_live_mono (s_life w)); [|assumption]. intros j. apply create_cell_occupied.
  - apply create_LInv; assumption.
Qed.

Lemma PInv_create_n pend n : forall w cs, PInv w -> s_ok (fst (s_create_n pend n w cs)) = true ->
  PInv (fst (s_create_n pend n w cs)).
Proof.
  induction n as [|n IH]; intros w cs HP Hok; cbn [s_create_n] in *; [assumption|].
  destruct cs as [|i cs]; [cbn in Hok; discriminate|].
  pose proof (s_create_ok pend w i) as O1. pose proof (PInv_create pend w i HP) as P1.
  destruct (s_create pend w i) as [w1 e]. cbn [fst] in *.
  pose proof (s_create_n_spec pend n w1 cs) as [X1 _]. specialize (IH w1 cs).
  destruct (s_create_n pend n w1 cs) as [w2 l]. cbn [fst] in *.
  destruct (X1 Hok) as [Ok1 _]. rewrite O1 in Ok1. apply andb_true_iff in Ok1. destruct Ok1 as [_ Hv].
  apply IH; [apply P1; exact Hv | exact Hok].
Qed.

Lemma env_sop_go_pinv s e so ent : EInv e -> masks_live s e -> table_covers e ->
  NM.find (sop_sid so) (se_stores e) <> None ->
  let go := match NM.find (sop_sid so) (se_stores e) with
            | Some ms => let '(ms1, out, c1) := ms_sop ms (l_view s) ent so (se_cx e) in (env_put e (sop_sid so) ms1 c1, out)
            | None => (env_fail e, WSkip) end in
  masks_live s (fst go) /\ table_covers (fst go).
Proof.
  intros HE HL HT Hreg. cbv zeta. destruct (NM.find (sop_sid so) (se_stores e)) as [a|] eqn:Ea; [|congruence].
  destruct (EI_stores _ HE _ _ Ea) as [m Hm].
  pose proof (ms_sop_mask a m (l_view s) ent so (se_cx e) Hm) as Hmask.
  destruct (ms_sop a (l_view s) ent so (se_cx e)) as [[a1 o1] c1]. cbn [fst env_put se_stores se_table] in *. split.
  - intros j ms i Hf Hmi. cbn [fst env_put se_stores] in Hf. rewrite find_add in Hf.
    destruct (N.eq_dec (sop_sid so) j) as [<-|]; [|apply (HL j ms i Hf Hmi)].
    inversion Hf; subst ms. destruct (Hmask i Hmi) as [G|[-> G]]; [apply (HL _ a i Ea G)|].
    cbn [l_view av_alive] in G. destruct (alive_top _ _ G) as [_ Ho]. exact Ho.
  - intros j Hj. cbn [fst env_put se_stores se_table] in *. rewrite find_add in Hj.
    destruct (N.eq_dec (sop_sid so) j) as [<-|]; apply HT; congruence.
Qed.

Ltac sop_case :=
  match goal with
  | HE : EInv ?e, HL : masks_live ?s ?e, HT : table_covers ?e, Hc : _ \/ _ |- context [env_sop ?e (l_view ?s) ?hs ?so] =>
      let x := fresh in let Hx := fresh in let Hreg := fresh in let Hk := fresh in let A := fresh in
      destruct Hc as [[x Hx]|[Hreg Hk]]; [discriminate|];
      destruct (sop_ok e (l_view s) hs so HE Hreg Hk) as [A _]; split; [exact A|];
      unfold env_sop; cbn [sop_handle];
      try (match goal with |- context [pv_get hs (N.of_nat ?h)] =>
             destruct (pv_get hs (N.of_nat h)); [|cbn [fst]; split; assumption] end);
      apply (env_sop_go_pinv s e so _ HE HL HT Hreg)
  end.

Lemma env_sop_pinv s e hs so : EInv e -> masks_live s e -> table_covers e ->
  op_regs_ok e (OStore so) = true ->
  let e' := fst (env_sop e (l_view s) hs so) in EInv e' /\ masks_live s e' /\ table_covers e'.
Proof.
  intros HE HL HT Hr. cbn zeta. cbn [op_regs_ok] in Hr.
  assert ((exists sid, so = SRegister sid) \/ (NM.find (sop_sid so) (se_stores e) <> None /\ kind_of (sop_sid so) <> None)) as Hc.
  { destruct so; try (right; apply andb_true_iff in Hr; destruct Hr as [R1 R2]; split;
      [apply registered_true; exact R1 | unfold valid_sid in R2; destruct (kind_of _); [discriminate|discriminate]]).
    left. eexists. reflexivity. }
  destruct so as [sid h v|sid h|sid h t nv|sid h|sid h|sid|sid|sid|sid|sid|sid|sid h eo|sid h|sid|sid|sid k|sid b].
  14:{ (* register *)
    cbn [env_sop fst]. unfold valid_sid in Hr. destruct (register_ok e sid HE) as [A [B [C D]]].
    { destruct (kind_of sid); [discriminate|discriminate]. }
    split; [assumption|]. unfold env_register in *. destruct (kind_of sid) as [[k w]|]; [|discriminate].
    destruct (NM.find sid (se_stores e)) as [a|] eqn:Es; cbn [se_stores se_table] in *.
    - split; [exact HL|]. intros j Hj. cbn [se_stores se_table] in *. destruct (existsb (N.eqb sid) (se_table e)); [|apply in_or_app; left]; apply HT; assumption.
    - split.
      + intros j ms i Hf Hm. cbn [se_stores] in Hf. rewrite find_add in Hf. destruct (N.eq_dec sid j); [|apply (HL j ms i Hf Hm)].
        inversion Hf; subst ms. cbn [ms_new ms_mask] in Hm. rewrite NSF.empty_b in Hm. discriminate.
      + intros j Hj. cbn [se_stores se_table] in *. rewrite find_add in Hj. destruct (existsb (N.eqb sid) (se_table e)) eqn:Ex.
        * destruct (N.eq_dec sid j) as [<-|]; [|apply HT; assumption].
          apply existsb_exists in Ex. destruct Ex as [x [Hx Hxe]]. apply N.eqb_eq in Hxe. subst x. assumption.
        * apply in_or_app. destruct (N.eq_dec sid j) as [<-|]; [right; left; reflexivity | left; apply HT; assumption]. }
  all: sop_case.
Qed.

(* the step theorem, for histories that register components before use and whose choices are valid *)
Theorem sstep_core_pinv w o cs : PInv w -> cx_stuck (se_cx (s_env w)) = false -> op_regs_ok (s_env w) o = true ->
  s_ok (fst (sstep_core w o cs)) = true -> s_ok w = true -> PInv (fst (sstep_core w o cs)).
Proof.
  intros HP Hst Hr Hok' Hok. pose proof HP as [HE HL HT HI].
  assert (SInvE w) as HS by (split; assumption).
  (* creation followed by attaching components *)
  assert (forall pend i k, comps_ok (s_env w) k = true -> s_ok (fst (s_create pend w i)) = true ->
            let '(w1, e) := s_create pend w i in PInv (s_insert_comps w1 e k)) as Hcr.
  { intros pend i k Hk Hok1. rewrite s_create_ok in Hok1. apply andb_true_iff in Hok1. destruct Hok1 as [_ Hv].
    pose proof (PInv_create pend w i HP Hv) as P1. pose proof (s_create_envE pend w i) as E.
    pose proof (s_create_life pend w i) as L. pose proof (s_create_ent pend w i) as En.
    destruct (s_create pend w i) as [w1 e]. cbn [fst snd] in *. destruct P1 as [E1 L1 T1 I1].
    assert (l_is_alive (s_life w1) e = true) as Ha by (rewrite L, En; apply life_alive_on_return).
    unfold s_insert_comps.
    destruct (insert_comps_ok k (s_env w1) (l_view (s_life w1)) e E1 Ha) as [A1 [A2 A3]].
    { rewrite E. apply comps_ok_spec. assumption. }
    split; cbn [s_with_env s_env s_life]; auto.
    - intros sid ms' j Hf Hm.
      destruct (insert_comps_masks k (s_env w1) (l_view (s_life w1)) e E1 sid ms' j Hf Hm) as [[ms [F1 F2]]|[-> _]].
      + apply (L1 sid ms j F1 F2).
      + destruct (alive_top _ _ Ha) as [_ Ho]. exact Ho.
    - intros sid Hs. rewrite insert_comps_table. apply T1. apply (insert_comps_dom k _ _ _ sid Hs). }
  (* immediate deletion followed by the purge *)
  assert (forall es, PInv (s_purge_killed (with_life w (fst (l_kill_res (s_life w) es))) es (snd (l_kill_res (s_life w) es)))) as Hkill.
  { intros es. unfold s_purge_killed. cbn [with_life s_env s_life s_with_env].
    set (killed := match snd (l_kill_res (s_life w) es) with None => es | Some (pos, _) => firstn pos es end).
    destruct (delete_components_ok (s_env w) killed HE) as [D1 [D2 D3]].
    split; cbn [s_with_env s_env s_life]; auto.
    - intros sid ms' j Hf Hm.
      destruct (delete_components_masks (s_env w) killed HE HT sid ms' j Hf Hm) as [ms [F1 [F2 F3]]].
      cbn [with_life s_life]. rewrite (kill_res_cell_other (s_life w) es j F3). apply (HL sid ms j F1 F2).
    - apply delete_components_covers. assumption.
    - unfold l_kill_res. pose proof (kill_LInv es (s_life w) 0%nat HI) as X.
      destruct (l_kill (s_life w) es 0) as [s' [p|]]; exact X. }
  destruct o as [k|k|n| |n|built k|k|h|hs|h| | |h|h| |h| |so| |lsid lh lv|lsid ll|lsid lh|prog|qso|jk jms|cso| ]; cbn [sstep_core op_regs_ok] in *.
  - specialize (Hcr false (hd_choice cs) k Hr). destruct (s_create false w (hd_choice cs)) as [w1 e]. apply Hcr. exact Hok'.
  - specialize (Hcr false (hd_choice cs) k Hr). destruct (s_create false w (hd_choice cs)) as [w1 e]. cbn [fst] in *.
    apply s_builder_drop_ok in Hok'. specialize (Hcr Hok'). destruct Hcr as [A B C D].
    split; rewrite ?s_builder_drop_envE, ?s_builder_drop_life; auto.
    + apply (masks_live_mono (s_life (s_insert_comps w1 e k))); [|assumption]. intros j. apply kill_def_cell_occupied.
    + apply kill_def_LInv. assumption.
  - pose proof (PInv_create_n false n w cs HP) as X. destruct (s_create_n false n w cs) as [w1 l]. apply X. exact Hok'.
  - pose proof (s_create_ok true w (hd_choice cs)) as O1. pose proof (PInv_create true w (hd_choice cs) HP) as P1.
    destruct (s_create true w (hd_choice cs)) as [w1 e]. cbn [fst] in *. rewrite O1 in Hok'.
    apply andb_true_iff in Hok'. apply P1. tauto.
  - pose proof (PInv_create_n true n w cs HP) as X. destruct (s_create_n true n w cs) as [w1 l]. apply X. exact Hok'.
  - specialize (Hcr true (hd_choice cs) k Hr). destruct (s_create true w (hd_choice cs)) as [w1 e]. cbn [fst] in *.
    destruct built; [apply Hcr; exact Hok'|].
    apply s_builder_drop_ok in Hok'. specialize (Hcr Hok'). destruct Hcr as [A B C D].
    split; rewrite ?s_builder_drop_envE, ?s_builder_drop_life; auto.
    + apply (masks_live_mono (s_life (s_insert_comps w1 e k))); [|assumption]. intros j. apply kill_def_cell_occupied.
    + apply kill_def_LInv. assumption.
  - pose proof (s_create_ok true w (hd_choice cs)) as O1. pose proof (PInv_create true w (hd_choice cs) HP) as P1.
    destruct (s_create true w (hd_choice cs)) as [w1 e]. cbn [fst] in *. rewrite O1 in Hok'.
    apply andb_true_iff in Hok'. apply P1. tauto.
  - destruct (hget (s_hs w) h) as [e|]; [|assumption]. specialize (Hkill [e]).
    destruct (l_kill_res (s_life w) [e]) as [s' r]. exact Hkill.
  - destruct (hget_all (s_hs w) hs) as [es|]; [|assumption]. specialize (Hkill es).
    destruct (l_kill_res (s_life w) es) as [s' r]. exact Hkill.
  - destruct (hget (s_hs w) h) as [e|]; [|assumption].
    pose proof (kill_def_LInv (s_life w) e HI) as X. pose proof (kill_def_cell_occupied (s_life w) e) as Y.
    destruct (l_kill_def (s_life w) e) as [s' ok]. cbn [fst] in *. split; cbn [with_life s_env s_life]; auto.
    apply (masks_live_mono (s_life w)); assumption.
  - specialize (Hkill (l_entities (s_life w))).
    destruct (l_kill_res (s_life w) (l_entities (s_life w))) as [s' r]. cbn [fst snd] in *.
    destruct r; [destruct Hkill as [A B C D]; split; assumption | exact Hkill].
  - (* maintain *)
    pose proof (merge_LInv (s_life w) HI) as X. pose proof (cell_merge (s_life w)) as Cm.
    pose proof (merge_deleted_spec (s_life w)) as Md.
    destruct (l_merge (s_life w)) as [s' d]. cbn [fst snd] in *. destruct d as [|x d].
    + split; cbn [with_life s_env s_life]; auto.
      intros sid ms j Hf Hm. rewrite Cm. specialize (HL sid ms j Hf Hm).
      apply merge_cell_occupied; [assumption|]. destruct (dies_at_merge (cell (s_life w) j)) eqn:Ed; [|reflexivity].
      destruct (Md j Ed).
    + destruct (delete_components_ok (s_env w) (x :: d) HE) as [D1 [D2 D3]].
      split; cbn [s_with_env with_life s_env s_life]; auto.
      * intros sid ms' j Hf Hm.
        destruct (delete_components_masks (s_env w) (x :: d) HE HT sid ms' j Hf Hm) as [ms [F1 [F2 F3]]].
        rewrite Cm. apply merge_cell_occupied; [apply (HL sid ms j F1 F2)|].
        destruct (dies_at_merge (cell (s_life w) j)) eqn:Ed; [|reflexivity]. exfalso. apply F3. apply Md. exact Ed.
      * apply delete_components_covers. assumption.
  - destruct (hget (s_hs w) h); assumption.
  - destruct (hget (s_hs w) h); assumption.
  - assumption.
  - destruct (hget (s_hs w) h); assumption.
  - assumption.
  - (* a storage operation *)
    destruct (env_sop_pinv (s_life w) (s_env w) (s_hs w) so HE HL HT Hr) as [A [B C]].
    destruct (env_sop (s_env w) (l_view (s_life w)) (s_hs w) so) as [e' out]. cbn [fst] in *.
    split; cbn [s_with_env s_env s_life]; assumption.
  - (* drop(world) *)
    cbn [fst]. split; cbn [s_with_env s_env s_life]; auto.
    + unfold env_drop_world. split; cbn [se_stores se_table]; [intros sid ms Hf; discriminate | intros sid []].
    + intros sid ms i Hf. unfold env_drop_world in Hf. cbn [se_stores] in Hf. discriminate.
    + intros sid Hf. unfold env_drop_world in Hf. cbn [se_stores] in Hf. exfalso. apply Hf. reflexivity.
  - destruct (hget (s_hs w) lh); assumption.
  - destruct (hget_all (s_hs w) (map fst ll)); assumption.
  - destruct (hget (s_hs w) lh); assumption.
  - assumption.
  - (* a storage operation performed by a lazy insert / remove *)
    assert (op_regs_ok (s_env w) (OStore qso) = true) as Hr' by (destruct qso; exact Hr).
    destruct (env_sop_pinv (s_life w) (s_env w) (s_hs w) qso HE HL HT Hr') as [A [B C]].
    unfold env_sop_quiet. destruct (env_sop (s_env w) (l_view (s_life w)) (s_hs w) qso) as [e' out]. cbn [fst] in *.
    assert (forall c, PInv (s_with_env w (env_cx e' c))) as Hc.
    { intros c. destruct A as [S1 T1]. split; cbn [s_with_env s_env s_life env_cx se_stores se_table]; auto. split; cbn; auto. }
    assert (PInv (s_with_env w e')) as He by (split; cbn [s_with_env s_env s_life]; assumption).
    destruct out as [| | | | | | | |r|o| | | | | | | | | | ]; try exact He; [destruct r|destruct o]; try exact He; apply Hc.
  - (* joins: never stuck, masks only shrink, no storage resource appears or disappears *)
    destruct (env_join_never_stuck (s_env w) (l_view (s_life w)) (eids_of (l_entities (s_life w))) (s_hs w) jk jms HE Hst Hr) as [_ X2].
    pose proof (env_join_masks_shrink (s_env w) (l_view (s_life w)) (eids_of (l_entities (s_life w))) (s_hs w) jk jms) as Xm.
    pose proof (env_join_domain (s_env w) (l_view (s_life w)) (eids_of (l_entities (s_life w))) (s_hs w) jk jms) as [Xt Xd].
    destruct (env_join (s_env w) _ _ (s_hs w) jk jms) as [e' j]. cbn [fst] in *.
    split; cbn [s_with_env s_env s_life]; auto.
    + intros sid ms' i Hf Hm. assert (NS.mem i (env_mask e' sid) = true) as Hm' by (unfold env_mask; rewrite Hf; exact Hm).
      specialize (Xm sid i Hm'). unfold env_mask in Xm. destruct (NM.find sid (se_stores (s_env w))) as [ms0|] eqn:E0.
      * apply (HL sid ms0 i E0 Xm).
      * rewrite NSF.empty_b in Xm. discriminate.
    + intros sid Hf. rewrite Xt. apply HT. intros Hn. apply Hf. apply Xd. assumption.
  - pose proof (env_csop_pres (fun e' => PInv (s_with_env w e'))) as X.
    assert (forall e' k m, PInv (s_with_env w e') -> PInv (s_with_env w (cs_put e' k m))) as Hcs.
    { intros e' k m [[A1 A2] B C D]. split; cbn [s_with_env s_env s_life] in *; auto. split; cbn [cs_put se_stores se_table]; assumption. }
    assert (PInv (s_with_env w (s_env w))) as H0 by (split; cbn [s_with_env s_env s_life]; assumption).
    specialize (X Hcs (s_env w) (s_hs w) cso H0).
    destruct (env_csop (s_env w) (s_hs w) cso) as [e' r]. exact X.
  - assumption.
Qed.

(* ------------------------------------------------------------------ *)
(* whole histories and the consequences *)

Lemma PInv_begin w : PInv w -> PInv (s_begin w).
Proof.
  intros [[S T] L C I]. unfold s_begin, env_begin. split; cbn; auto. split; cbn; auto.
Qed.

Theorem accepted_pinv tr : forall w pos, PInv w -> SInvE w -> s_ok w = true -> regs_ok w tr = true ->
  saccept w tr pos = None -> PInv (fst (srun w tr)) /\ SInvE (fst (srun w tr)).
Proof.
  induction tr as [|[o out] tr IH]; intros w pos HP HS Hok Hr Hacc; [split; assumption|].
  cbn [regs_ok] in Hr. apply andb_true_iff in Hr. destruct Hr as [R1 R2].
  cbn [saccept] in Hacc. rewrite srun_cons. cbn [fst].
  pose proof (sstep_ok w o (choices_of out) HS R1) as HS1.
  assert (PInv (fst (sstep w o (choices_of out))) /\ s_ok (fst (sstep w o (choices_of out))) = true) as [HP1 Hok1].
  { destruct (sstep w o (choices_of out)) as [w1 out1] eqn:Es. cbn [fst] in *.
    destruct (s_ok w1) eqn:Ok1; [|discriminate]. split; [|reflexivity].
    unfold sstep in Es. pose proof (sstep_core_pinv (s_begin w) o (choices_of out) (PInv_begin w HP)) as X.
    rewrite Es in X. cbn [fst] in X. apply X; auto; try (rewrite op_regs_ok_begin; exact R1).
    destruct HS as [_ K]. exact K. }
  destruct (sstep w o (choices_of out)) as [w1 out1]. cbn [fst] in *. rewrite Hok1 in Hacc. cbn [negb] in Hacc.
  destruct (wout_eqb out out1); [|discriminate].
  apply (IH w1 (S pos)); assumption.
Qed.

(* a newly created entity (in particular one that reuses a dead entity's index) has no component anywhere *)
Theorem new_entity_has_no_component w i : PInv w -> valid_choice (s_life w) i = true ->
  forall sid ms, NM.find sid (se_stores (s_env w)) = Some ms -> NS.mem i (ms_mask ms) = false.
Proof.
  intros HP Hv sid ms Hf. destruct (NS.mem i (ms_mask ms)) eqn:Hm; [|reflexivity].
  pose proof (P_live _ HP sid ms i Hf Hm) as Ho.
  destruct (valid_choice_cases _ _ Hv) as [[g E]|[E _]]; rewrite E in Ho; discriminate.
Qed.

(* when a deletion takes effect, the component is gone from every storage known to the world *)
Theorem deletion_purges_everywhere e ents ent : EInv e -> table_covers e -> In ent ents ->
  forall sid ms', NM.find sid (se_stores (env_delete_components e ents)) = Some ms' -> NS.mem (fst ent) (ms_mask ms') = false.
Proof.
  intros HE HT Hin sid ms' Hf. destruct (NS.mem (fst ent) (ms_mask ms')) eqn:Hm; [|reflexivity].
  destruct (delete_components_masks e ents HE HT sid ms' (fst ent) Hf Hm) as [_ [_ [_ F3]]].
  exfalso. apply F3. apply in_map. exact Hin.
Qed.

(* ... while every other entity keeps its component, unchanged *)
Theorem purge_keeps_the_others ids : forall ms m c, MInv ms m ->
  exists m', MInv (fst (m_drop_all ms ids c)) m' /\ forall j, ~ In j ids -> NM.find j m' = NM.find j m.
Proof.
  induction ids as [|x ids IH]; intros ms m c HM; cbn [m_drop_all]; [exists m; auto|].
  pose proof (m_drop_char ms m x c HM) as X. destruct (m_drop ms x c) as [ms1 c1]. destruct X as [X1 _].
  destruct (IH ms1 _ c1 X1) as [m' [H1 H2]]. exists m'. split; [exact H1|].
  intros j Hj. rewrite H2 by (intros Hin; apply Hj; right; exact Hin).
  destruct (NS.mem x (ms_mask ms)); [|reflexivity]. rewrite find_remove.
  destruct (N.eq_dec x j) as [->|]; [exfalso; apply Hj; left; reflexivity | reflexivity].
Qed.
