(* C05: deletion purges components everywhere; a reused index starts empty.
   Invariant of the specification machine (any storage representation):
   every index in any storage's mask belongs to an entity that is not yet
   dead, and every storage resource is listed in the MetaTable. *)
From SV Require Import Base.ListX Alloc.LifeProps Store.Masked Store.StoreInv World.Env World.StoreSim World.EnvSim
  World.WorldSpec World.Micro World.NoStuck.

Definition masks_live (s : lstate) (e : senv) : Prop :=
  forall sid ms i, NM.find sid (se_stores e) = Some ms -> NS.mem i (ms_mask ms) = true -> occupied (cell s i) = true.

Definition table_covers (e : senv) : Prop :=
  forall sid, NM.find sid (se_stores e) <> None -> In sid (se_table e).

Record PInv (w : sworld) : Prop := {
  P_env : EInv (s_env w);
  P_live : masks_live (s_life w) (s_env w);
  P_table : table_covers (s_env w);
  P_linv : LInv (s_life w) }.

(* --- how the building blocks change a mask --- *)

Lemma st_insert_mask ms m av e v c : MInv ms m ->
  forall i, NS.mem i (ms_mask (fst (fst (st_insert ms av e v c)))) = true ->
  NS.mem i (ms_mask ms) = true \/ (i = fst e /\ av_alive av e = true).
Proof.
  intros HM i. unfold st_insert. cbv zeta. destruct (av_alive av e) eqn:Ha; [|cbn [fst]; auto].
  destruct (NS.mem (fst e) (ms_mask ms)) eqn:Hmem.
  - destruct (keys_find_some _ _ _ (MI_keys _ _ HM) Hmem) as [t Hf].
    pose proof (w_access_mut_char ms m (fst e) t true (USwap (tnorm ms v)) c HM Hf (eq_sym (tnorm_idem ms v))) as X.
    destruct (w_access_mut ms (fst e) true (USwap (tnorm ms v)) c) as [[ms1 old] c1]. cbn [fst].
    destruct X as [_ [_ [_ [X4 _]]]]. rewrite X4. auto.
  - pose proof (not_present_insert_char ms m (fst e) v c HM Hmem) as [_ [_ [X3 _]]].
    destruct (not_present_insert ms (fst e) (tnorm ms v) c) as [ms1 c1]. cbn [fst] in *. rewrite X3, ns_mem_add.
    destruct (N.eq_dec (fst e) i); auto.
Qed.

Lemma m_drop_all_mask ids : forall ms m c, MInv ms m ->
  forall i, NS.mem i (ms_mask (fst (m_drop_all ms ids c))) = true -> NS.mem i (ms_mask ms) = true /\ ~ In i ids.
Proof.
  induction ids as [|x ids IH]; intros ms m c HM i; cbn [m_drop_all]; [auto|].
  pose proof (m_drop_char ms m x c HM) as X. destruct (m_drop ms x c) as [ms1 c1].
  destruct X as [X1 [_ [_ [X4 _]]]]. intros H. destruct (IH ms1 _ c1 X1 i H) as [H1 H2].
  rewrite X4 in H1. destruct (NS.mem x (ms_mask ms)) eqn:Hx.
  - rewrite ns_mem_remove in H1. destruct (N.eq_dec x i); [discriminate|]. split; [assumption|]. intros [E|E]; auto.
  - split; [assumption|]. intros [E|E]; [subst; congruence | auto].
Qed.

(* every mutating storage operation: a mask only gains the index of the (alive) entity it was given *)
Lemma ms_sop_mask ms m av ent so c : MInv ms m ->
  forall i, NS.mem i (ms_mask (fst (fst (ms_sop ms av ent so c)))) = true ->
  NS.mem i (ms_mask ms) = true \/ (i = fst ent /\ av_alive av ent = true).
Proof.
  intros HM i. pose proof (srel_refl ms m HM) as Hs.
  destruct so; cbn [ms_sop]; try (cbn [fst]; auto; fail).
  - pose proof (st_insert_mask ms m av ent v c HM i) as X. destruct (st_insert ms av ent v c) as [[ms1 r] c1]. exact X.
  - destruct (st_get ms av ent c). cbn [fst]. auto.
  - unfold st_get_mut, present. destruct (NS.mem (fst ent) (ms_mask ms)) eqn:Hmem; [|cbn [andb fst]; auto].
    destruct (av_alive av ent); [|cbn [andb fst]; auto]. cbn [andb].
    destruct (keys_find_some _ _ _ (MI_keys _ _ HM) Hmem) as [t Hf].
    set (u := match nv with Some z => USetVal z | None => UNone end).
    pose proof (w_access_mut_char ms m (fst ent) t touch u c HM Hf) as X.
    destruct (w_access_mut ms (fst ent) touch u c) as [[ms1 old] c1]. cbn [fst].
    destruct X as [_ [_ [_ [X4 _]]]]; [destruct nv; exact I|]. rewrite X4. auto.
  - unfold st_remove. destruct (av_alive av ent); [|cbn [fst]; auto].
    pose proof (m_remove_char ms m (fst ent) c HM) as X. destruct (m_remove ms (fst ent) c) as [[ms1 o] c1]. cbn [fst].
    destruct X as [_ [_ [_ [_ [X5 _]]]]]. rewrite X5. destruct (NS.mem (fst ent) (ms_mask ms)); [|auto].
    rewrite ns_mem_remove. destruct (N.eq_dec (fst ent) i); [discriminate|auto].
  - destruct (ms_wrap ms); [destruct (u_slice _ _ _)|..]; cbn [fst]; auto.
  - pose proof (m_clear_char ms m c HM) as X. destruct (m_clear ms c) as [ms1 c1]. cbn [fst].
    destruct X as [_ [_ [X3 _]]]. rewrite X3, NSF.empty_b. discriminate.
  - (* drain: the result is related to an empty-or-smaller mask; use the pair lemma's invariant *)
    unfold st_drain.
    assert (forall ids ms0 m0 c0, MInv ms0 m0 ->
              NS.mem i (ms_mask (fst (fst (st_drain_ids ms0 ids c0)))) = true -> NS.mem i (ms_mask ms0) = true) as Hd.
    { induction ids as [|x ids IH]; intros ms0 m0 c0 H0; cbn [st_drain_ids]; [auto|].
      pose proof (m_remove_char ms0 m0 x c0 H0) as X. destruct (m_remove ms0 x c0) as [[ms1 o] c1].
      destruct X as [_ [X2 [_ [_ [X5 _]]]]]. specialize (IH ms1 _ c1 X2).
      destruct (st_drain_ids ms1 ids c1) as [[ms2 l] c2]. cbn [fst] in *.
      intros H. assert (NS.mem i (ms_mask ms2) = true) as H' by (destruct o; exact H).
      apply IH in H'. rewrite X5 in H'. destruct (NS.mem x (ms_mask ms0)); [|assumption].
      rewrite ns_mem_remove in H'. destruct (N.eq_dec x i); [discriminate|assumption]. }
    intros H. left. apply (Hd (NS.elements (ms_mask ms)) ms m c HM).
    destruct (st_drain_ids ms (NS.elements (ms_mask ms)) c) as [[? ?] ?]. exact H.
  - (* entry *)
    unfold st_entry. cbv zeta. destruct (av_alive av ent) eqn:Ha; [|destruct eo; cbn [fst]; auto].
    destruct (NS.mem (fst ent) (ms_mask ms)) eqn:Hmem.
    + destruct (keys_find_some _ _ _ (MI_keys _ _ HM) Hmem) as [t Hf].
      assert (forall touch u, (match u with USwap v => v = tnorm ms v | _ => True end) ->
                NS.mem i (ms_mask (fst (fst (w_access_mut ms (fst ent) touch u c)))) = true -> NS.mem i (ms_mask ms) = true) as Hacc.
      { intros touch u Hu. pose proof (w_access_mut_char ms m (fst ent) t touch u c HM Hf Hu) as X.
        destruct (w_access_mut ms (fst ent) touch u c) as [[ms1 old] c1]. cbn [fst].
        destruct X as [_ [_ [_ [X4 _]]]]. rewrite X4. auto. }
      destruct eo as [|v|v| |z].
      * destruct (u_get (ms_raw ms) (fst ent) c). cbn [fst]. auto.
      * specialize (Hacc false UNone I). destruct (w_access_mut ms (fst ent) false UNone c) as [[ms1 old] c1]. cbn [fst] in *. auto.
      * specialize (Hacc true (USwap (tnorm ms v)) (eq_sym (tnorm_idem ms v))).
        destruct (w_access_mut ms (fst ent) true (USwap (tnorm ms v)) c) as [[ms1 old] c1]. cbn [fst] in *. auto.
      * pose proof (m_remove_char ms m (fst ent) c HM) as X. destruct (m_remove ms (fst ent) c) as [[ms1 o] c1]. cbn [fst].
        destruct X as [_ [_ [_ [_ [X5 _]]]]]. rewrite X5, Hmem, ns_mem_remove. destruct (N.eq_dec (fst ent) i); [discriminate|auto].
      * specialize (Hacc true (USetVal z) I). destruct (w_access_mut ms (fst ent) true (USetVal z) c) as [[ms1 old] c1]. cbn [fst] in *. auto.
    + assert (forall v, NS.mem i (ms_mask (fst (fst (let '(ms1, c1) := not_present_insert ms (fst ent) (tnorm ms v) c in
                  w_access_mut ms1 (fst ent) false UNone c1)))) = true ->
                NS.mem i (ms_mask ms) = true \/ i = fst ent /\ true = true) as Hnp.
      { intros v. pose proof (not_present_insert_char ms m (fst ent) v c HM Hmem) as [A1 [_ [A3 _]]].
        destruct (not_present_insert ms (fst ent) (tnorm ms v) c) as [ms1 c1]. cbn [fst] in *.
        assert (NM.find (fst ent) (NM.add (fst ent) (tnorm ms v) m) = Some (tnorm ms v)) as Hf.
        { rewrite find_add. destruct (N.eq_dec (fst ent) (fst ent)); [reflexivity|congruence]. }
        pose proof (w_access_mut_char ms1 _ (fst ent) _ false UNone c1 A1 Hf I) as X.
        destruct (w_access_mut ms1 (fst ent) false UNone c1) as [[ms2 old] c2]. cbn [fst].
        destruct X as [_ [_ [_ [X4 _]]]]. rewrite X4, A3, ns_mem_add. destruct (N.eq_dec (fst ent) i); auto. }
      destruct eo as [|v|v| |z]; try (cbn [fst]; auto; fail).
      * specialize (Hnp v). destruct (not_present_insert ms (fst ent) (tnorm ms v) c) as [ms1 c1].
        destruct (w_access_mut ms1 (fst ent) false UNone c1) as [[ms2 old] c2]. cbn [fst] in *. exact Hnp.
      * specialize (Hnp v). destruct (not_present_insert ms (fst ent) (tnorm ms v) c) as [ms1 c1].
        destruct (w_access_mut ms1 (fst ent) false UNone c1) as [[ms2 old] c2]. cbn [fst] in *. exact Hnp.
  - (* get_mut_or_default *)
    unfold st_get_mut_or_default.
    assert (forall ms0 m0 c0, MInv ms0 m0 ->
              NS.mem i (ms_mask (fst (fst (st_get_mut ms0 av ent false None c0)))) = true -> NS.mem i (ms_mask ms0) = true) as Hgm.
    { intros ms0 m0 c0 H0. unfold st_get_mut, present. destruct (NS.mem (fst ent) (ms_mask ms0)) eqn:Hmem; [|cbn [andb fst]; auto].
      destruct (av_alive av ent); [|cbn [andb fst]; auto]. cbn [andb].
      destruct (keys_find_some _ _ _ (MI_keys _ _ H0) Hmem) as [t Hf].
      pose proof (w_access_mut_char ms0 m0 (fst ent) t false UNone c0 H0 Hf I) as X.
      destruct (w_access_mut ms0 (fst ent) false UNone c0) as [[ms1 old] c1]. cbn [fst].
      destruct X as [_ [_ [_ [X4 _]]]]. rewrite X4. auto. }
    destruct (present ms av ent).
    + intros H. left. apply (Hgm ms m c HM). destruct (st_get_mut ms av ent false None c) as [[? ?] ?]. exact H.
    + pose proof (st_insert_mask ms m av ent (if ms_unit ms then unit_tok else default_tok) (cx_mint c) HM i) as X.
      pose proof (st_insert_pair ms ms av ent (if ms_unit ms then unit_tok else default_tok) (cx_mint c) (cx_mint c) Hs) as Y.
      destruct (st_insert ms av ent _ (cx_mint c)) as [[ms1 r] c1]. cbn [fst] in X.
      destruct Y as [_ [[_ [m1 [H1 _]]] _]].
      destruct r; try (cbn [fst]; exact X);
      (intros H; apply X; apply (Hgm ms1 m1 c1 H1); destruct (st_get_mut ms1 av ent false None c1) as [[? ?] ?]; exact H).
  - destruct (ms_wrap ms); [cbn [fst]; auto| |]; (unfold st_register_reader; cbn [fst ms_mask]; auto).
  - unfold st_read_events. destruct (nth_error (ms_readers ms) k); cbn [fst ms_mask]; auto.
  - destruct (ms_wrap ms); cbn [fst]; auto.
Qed.

(* --- environments --- *)

Lemma purge_tbl_masks tbl : forall s ids c,
  (forall sid ms, NM.find sid s = Some ms -> exists m, MInv ms m) ->
  forall sid ms' i, NM.find sid (fst (env_purge_tbl s tbl ids c)) = Some ms' -> NS.mem i (ms_mask ms') = true ->
  exists ms, NM.find sid s = Some ms /\ NS.mem i (ms_mask ms) = true /\ (In sid tbl -> ~ In i ids).
Proof.
  induction tbl as [|t tbl IH]; intros s ids c S sid ms' i Hf Hm; cbn [env_purge_tbl] in Hf.
  - exists ms'. split; [assumption|]. split; [assumption|]. intros [].
  - destruct (NM.find t s) as [a|] eqn:Ea.
    + destruct (S t a Ea) as [m Hma]. pose proof (m_drop_all_mask ids a m c Hma) as Hmask.
      destruct (drop_all_ok ids a m c Hma) as [[m' Hm'] _].
      destruct (m_drop_all a ids c) as [a1 c1]. cbn [fst snd] in *.
      assert (forall j x, NM.find j (NM.add t a1 s) = Some x -> exists m0, MInv x m0) as S'.
      { intros j x Hj. rewrite find_add in Hj. destruct (N.eq_dec t j); [inversion Hj; subst; eauto | eauto]. }
      destruct (IH (NM.add t a1 s) ids c1 S' sid ms' i Hf Hm) as [ms [F1 [F2 F3]]].
      rewrite find_add in F1. destruct (N.eq_dec t sid) as [->|Hne].
      * inversion F1; subst ms. destruct (Hmask i F2) as [G1 G2]. exists a. split; [assumption|]. split; [assumption|]. intros _. exact G2.
      * exists ms. split; [assumption|]. split; [assumption|]. intros [E|E]; [congruence | auto].
    + destruct (IH s ids (cx_fail c) S sid ms' i Hf Hm) as [ms [F1 [F2 F3]]].
      exists ms. split; [assumption|]. split; [assumption|]. intros [E|E]; [subst; congruence | auto].
Qed.

Lemma delete_components_masks e ents : EInv e -> table_covers e ->
  forall sid ms' i, NM.find sid (se_stores (env_delete_components e ents)) = Some ms' -> NS.mem i (ms_mask ms') = true ->
  exists ms, NM.find sid (se_stores e) = Some ms /\ NS.mem i (ms_mask ms) = true /\ ~ In i (map fst ents).
Proof.
  intros HE HT sid ms' i. unfold env_delete_components.
  pose proof (purge_tbl_masks (se_table e) (se_stores e) (map fst ents) (se_cx e) (EI_stores _ HE) sid ms' i) as X.
  destruct (env_purge_tbl (se_stores e) (se_table e) (map fst ents) (se_cx e)) as [s' c']. cbn [fst se_stores] in *.
  intros Hf Hm. destruct (X Hf Hm) as [ms [F1 [F2 F3]]]. exists ms. split; [assumption|]. split; [assumption|].
  apply F3. apply HT. congruence.
Qed.

Lemma delete_components_table e ents : se_table (env_delete_components e ents) = se_table e.
Proof. unfold env_delete_components. destruct (env_purge_tbl _ _ _ _). reflexivity. Qed.

Lemma purge_tbl_dom tbl : forall s ids c sid,
  NM.find sid (fst (env_purge_tbl s tbl ids c)) <> None -> NM.find sid s <> None.
Proof.
  induction tbl as [|t tbl IH]; intros s ids c sid H; cbn [env_purge_tbl] in H; [assumption|].
  destruct (NM.find t s) as [a|] eqn:Ea.
  - destruct (m_drop_all a ids c) as [a1 c1]. apply IH in H. rewrite find_add in H.
    destruct (N.eq_dec t sid); [congruence|assumption].
  - apply IH in H. assumption.
Qed.

Lemma delete_components_covers e ents : table_covers e -> table_covers (env_delete_components e ents).
Proof.
  intros HT sid H. rewrite delete_components_table. apply HT.
  unfold env_delete_components in H. pose proof (purge_tbl_dom (se_table e) (se_stores e) (map fst ents) (se_cx e) sid) as X.
  destruct (env_purge_tbl (se_stores e) (se_table e) (map fst ents) (se_cx e)). apply X. exact H.
Qed.

Lemma insert_comps_masks cs : forall e av ent, EInv e ->
  forall sid ms' i, NM.find sid (se_stores (env_insert_comps e av ent cs)) = Some ms' -> NS.mem i (ms_mask ms') = true ->
  (exists ms, NM.find sid (se_stores e) = Some ms /\ NS.mem i (ms_mask ms) = true) \/ (i = fst ent /\ av_alive av ent = true).
Proof.
  induction cs as [|[s v] cs IH]; intros e av ent HE sid ms' i Hf Hm; cbn [env_insert_comps] in Hf; [left; eauto|].
  destruct (NM.find s (se_stores e)) as [a|] eqn:Ea.
  - destruct (EI_stores _ HE _ _ Ea) as [m Hma].
    pose proof (st_insert_mask a m av ent v (se_cx e) Hma) as Hmask.
    pose proof (st_insert_pair a a av ent v (se_cx e) (se_cx e) (srel_refl a m Hma)) as Y.
    destruct (st_insert a av ent v (se_cx e)) as [[a1 r] c1]. cbn [fst] in Hmask. destruct Y as [_ [[_ [m1 [H1 _]]] _]].
    assert (EInv (env_put e s a1 (match r with InsErr _ => cx_fail c1 | _ => c1 end))) as HE' by (apply EInv_put; eauto).
    destruct (IH _ av ent HE' sid ms' i Hf Hm) as [[ms [F1 F2]]|F]; [|right; exact F].
    cbn [env_put se_stores] in F1. rewrite find_add in F1. destruct (N.eq_dec s sid) as [->|Hne].
    + inversion F1; subst ms. destruct (Hmask i F2) as [G|G]; [left; eauto | right; exact G].
    + left. eauto.
  - apply (IH (env_cx e (cx_drop (cx_fail (se_cx e)) v)) av ent (EInv_cx _ _ HE) sid ms' i Hf Hm).
Qed.

Lemma insert_comps_table cs : forall e av ent, se_table (env_insert_comps e av ent cs) = se_table e.
Proof.
  induction cs as [|[s v] cs IH]; intros e av ent; cbn [env_insert_comps]; [reflexivity|].
  destruct (NM.find s (se_stores e)).
  - destruct (st_insert m av ent v (se_cx e)) as [[a1 r] c1]. rewrite IH. reflexivity.
  - rewrite IH. reflexivity.
Qed.

Lemma insert_comps_dom cs : forall e av ent sid,
  NM.find sid (se_stores (env_insert_comps e av ent cs)) <> None -> NM.find sid (se_stores e) <> None.
Proof.
  induction cs as [|[s v] cs IH]; intros e av ent sid H; cbn [env_insert_comps] in H; [assumption|].
  destruct (NM.find s (se_stores e)) as [a|] eqn:Ea.
  - destruct (st_insert a av ent v (se_cx e)) as [[a1 r] c1]. apply IH in H. cbn [env_put se_stores] in H.
    rewrite find_add in H. destruct (N.eq_dec s sid); [congruence|assumption].
  - apply IH in H. exact H.
Qed.
