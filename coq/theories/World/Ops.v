(* The history alphabet of the [world] domain, the outputs, and their
   encoding as integer lists (the format shared with the Rust harness; the
   decoder used by the OCaml driver is this Coq function, extracted).
   Definitions only. *)
From SV Require Export Base.Ids Store.Masked.

Definition href := nat.              (* the k-th handle returned so far, 0-based *)
Definition comps := list (N * tok).  (* (storage id, component value) pairs attached by a builder *)

(* operations on one component storage (through WriteStorage / ReadStorage) *)
Inductive sop :=
| SInsert (sid : N) (h : href) (v : tok)
| SGet (sid : N) (h : href)
| SGetMut (sid : N) (h : href) (touch : bool) (nv : option Z)
| SRemove (sid : N) (h : href)
| SContains (sid : N) (h : href)
| SCount (sid : N)
| SIsEmpty (sid : N)
| SMask (sid : N)
| SSlice (sid : N)
| SClear (sid : N)
| SDrain (sid : N) (lim : option nat)   (* drain().join(), optionally stopped after lim items *)
| SEntry (sid : N) (h : href) (eo : entry_op)
| SGetMutOrDefault (sid : N) (h : href)
| SRegister (sid : N)               (* register / register_with_storage / SystemData::setup *)
| SRegReader (sid : N)
| SReadEvents (sid : N) (k : nat)
| SSetEmission (sid : N) (b : bool).

(* joins: members of the tuple, kinds of join, items (World/Join.v gives them their meaning) *)
Inductive member :=
| MRead (sid : N)                                   (* &ReadStorage *)
| MWrite (sid : N) (touch : bool) (d : option Z)    (* &mut WriteStorage; the caller adds d to the payload *)
| MEntities                                         (* &Entities *)
| MBits (l : list N)                                (* &BitSet *)
| MNot (sid : N)                                    (* !&storage *)
| MMaybe (m : member)                               (* m.maybe() *)
| MRestrict (sid : N) (mode : N) (selmod selrem : N) (d : Z) (others : list href)
                                                    (* &s.restrict() / &mut s.restrict_mut() / &s.restrict_mut() *)
| MChange (k : N) (mode : N) (d : Z)                (* &cs / &mut cs / cs *)
| MDrain (sid : N)                                  (* s.drain() *)
| MBitOp (bop : N) (a b : list N).                  (* &a & &b, &a | &b, &a ^ &b, !&a  of two bit sets (bop 0..3) *)

Inductive jkind :=
| JSeq (lim : option nat)        (* .join(), optionally .take(lim) *)
| JLend (lim : option nat)       (* .lend_join(): next() until None / for_each *)
| JPar (threads : nat)           (* .par_join() on a pool of that many threads; items sorted by index *)
| JLendGet (h : href)            (* .lend_join().get(entity, &entities) *)
| JLendIdx (i : N).              (* .lend_join().get_unchecked(index) *)

Inductive jitem :=
| JTok (t : tok) | JEnt (e : entity) | JUnit | JSome (x : jitem) | JNone
| JPaired (g : tok) (others : list (option tok)) | JAmt (z : Z).


Inductive jout :=
| JItems (l : list (N * list jitem))
| JOne (o : option (N * list jitem))
| JSkipped.


(* change-set operations (slot, handle, amount) *)
Inductive csop :=
| CsNew (k : N) | CsAdd (k : N) (h : href) (a : Z) | CsCollect (k : N) (l : list (href * Z))
| CsExtend (k : N) (l : list (href * Z)) | CsClear (k : N) | CsDump (k : N).


Inductive op :=
(* creation paths *)
| OCreate (cs : comps)               (* world.create_entity().with(..).build() *)
| OCreateDropped (cs : comps)        (* world.create_entity().with(..) dropped unbuilt *)
| OCreateIter (n : nat)              (* world.create_iter().take(n) *)
| OECreate                           (* entities.create() *)
| OECreateIter (n : nat)             (* entities.create_iter().take(n) *)
| OEBuild (built : bool) (cs : comps)(* entities.build_entity().with(..)[.build()] *)
| OLazyCreate (cs : comps)           (* lazy.create_entity(&entities).with(..).build() *)
(* deletion paths *)
| ODelete (h : href)                 (* world.delete_entity *)
| ODeleteMany (hs : list href)       (* world.delete_entities *)
| OEDelete (h : href)                (* entities.delete *)
| ODeleteAll                         (* world.delete_all *)
| OMaintain                          (* world.maintain *)
(* observations *)
| OIsAlive (h : href)                (* entities.is_alive *)
| OWIsAlive (h : href)               (* world.is_alive (merged view) *)
| OJoinEntities                      (* (&entities).join().collect() *)
| OEntityAt (h : href)               (* entities.entity(index of handle h) *)
| OProbeAll                          (* entities.is_alive of every handle returned so far *)
| OStore (so : sop)                  (* a storage operation *)
| ODropWorld                         (* drop(world) *)
(* lazy updates: queued on the LazyUpdate resource, run by the next maintain *)
| OLazyInsert (sid : N) (h : href) (v : tok)            (* lazy.insert(e, c) *)
| OLazyInsertAll (sid : N) (l : list (href * tok))      (* lazy.insert_all(..) *)
| OLazyRemove (sid : N) (h : href)                      (* lazy.remove::<C>(e) *)
| OLazyExec (prog : list op)                            (* lazy.exec(|world| ..) / exec_mut: a closure running these operations *)
| OQuiet (so : sop)                  (* a storage operation whose result nobody observes (performed by a lazy insert/remove) *)
| OJoin (k : jkind) (ms : list member)     (* a join over a tuple of members *)
| OCs (c : csop)                     (* an operation on a change set held by the caller *)
| OBad.                              (* undecodable: ignored by both sides *)

Inductive wout :=
| WHandles (l : list entity)
| WKill (r : option (nat * Z))       (* None = Ok, Some (position, actual_gen) *)
| WKillDef (r : option Z)
| WBool (b : bool)
| WBools (l : list bool)
| WEnts (l : list entity)
| WUnit
| WSkip
| WIns (r : ins_res)
| WOptTok (o : option tok)
| WNat (n : N)
| WIdx (l : list N)
| WToks (l : list tok)
| WEntry (r : entry_res)
| WSlice (v : slice_view)
| WEvents (l : list event)
| WReader (k : nat)
| WJoin (j : jout)
| WAmts (l : list (N * Z))
| WRaw (l : list Z).          (* an output kept in its encoded form (join items read back from a transcript) *)

(* ------------------------------------------------------------------ *)
(* decoding of histories: each op is  code, n, x1 .. xn *)

Fixpoint take_n {A} (n : nat) (l : list A) : option (list A * list A) :=
  match n with
  | O => Some ([], l)
  | S n' => match l with
            | [] => None
            | x :: l' => match take_n n' l' with Some (a, b) => Some (x :: a, b) | None => None end
            end
  end.

Fixpoint dec_comps (l : list Z) : comps :=
  match l with
  | s :: u :: v :: l' => (Z.to_N s, (Z.to_N u, v)) :: dec_comps l'
  | _ => []
  end.

Definition zb (b : Z) : bool := negb (Z.eqb b 0).

Definition dec_sop (code : Z) (p : list Z) : option sop :=
  match code, p with
  | 30, [s; h; u; v] => Some (SInsert (Z.to_N s) (Z.to_nat h) (Z.to_N u, v))
  | 31, [s; h] => Some (SGet (Z.to_N s) (Z.to_nat h))
  | 32, [s; h; t; 0; _] => Some (SGetMut (Z.to_N s) (Z.to_nat h) (zb t) None)
  | 32, [s; h; t; _; v] => Some (SGetMut (Z.to_N s) (Z.to_nat h) (zb t) (Some v))
  | 33, [s; h] => Some (SRemove (Z.to_N s) (Z.to_nat h))
  | 34, [s; h] => Some (SContains (Z.to_N s) (Z.to_nat h))
  | 35, [s] => Some (SCount (Z.to_N s))
  | 36, [s] => Some (SIsEmpty (Z.to_N s))
  | 37, [s] => Some (SMask (Z.to_N s))
  | 38, [s] => Some (SSlice (Z.to_N s))
  | 39, [s] => Some (SClear (Z.to_N s))
  | 40, [s] => Some (SDrain (Z.to_N s) None)
  | 40, [s; k] => Some (SDrain (Z.to_N s) (Some (Z.to_nat k)))
  | 41, [s; h; 0; _; _] => Some (SEntry (Z.to_N s) (Z.to_nat h) EnGet)
  | 41, [s; h; 1; u; v] => Some (SEntry (Z.to_N s) (Z.to_nat h) (EnOrInsert (Z.to_N u, v)))
  | 41, [s; h; 2; u; v] => Some (SEntry (Z.to_N s) (Z.to_nat h) (EnReplace (Z.to_N u, v)))
  | 41, [s; h; 3; _; _] => Some (SEntry (Z.to_N s) (Z.to_nat h) EnRemove)
  | 41, [s; h; 4; _; v] => Some (SEntry (Z.to_N s) (Z.to_nat h) (EnSetVal v))
  | 42, [s; h] => Some (SGetMutOrDefault (Z.to_N s) (Z.to_nat h))
  | 50, [s] => Some (SRegister (Z.to_N s))
  | 50, [s; _] => Some (SRegister (Z.to_N s))
  | 70, [s] => Some (SRegReader (Z.to_N s))
  | 71, [s; k] => Some (SReadEvents (Z.to_N s) (Z.to_nat k))
  | 72, [s; b] => Some (SSetEmission (Z.to_N s) (zb b))
  | _, _ => None
  end%Z.

Fixpoint dec_htoks (l : list Z) : list (href * tok) :=
  match l with
  | h :: u :: v :: l' => (Z.to_nat h, (Z.to_N u, v)) :: dec_htoks l'
  | _ => []
  end.

(* join members, prefix-encoded (JOINS_SPEC.md) *)
Definition zlim (a : Z) : option nat := if Z.ltb a 0 then None else Some (Z.to_nat a).

Fixpoint dec_member (fuel : nat) (l : list Z) : option (member * list Z) :=
  match fuel with
  | O => None
  | S f =>
      match l with
      | 0 :: s :: r => Some (MRead (Z.to_N s), r)
      | 1 :: s :: t :: w :: d :: r => Some (MWrite (Z.to_N s) (zb t) (if zb w then Some d else None), r)
      | 2 :: r => Some (MEntities, r)
      | 3 :: n :: r =>
          match take_n (Z.to_nat n) r with
          | Some (xs, r') => Some (MBits (map Z.to_N xs), r')
          | None => None
          end
      | 4 :: s :: r => Some (MNot (Z.to_N s), r)
      | 5 :: r => match dec_member f r with Some (m, r') => Some (MMaybe m, r') | None => None end
      | 6 :: s :: mode :: sm :: sr :: d :: no :: r =>
          match take_n (Z.to_nat no) r with
          | Some (hs, r') => Some (MRestrict (Z.to_N s) (Z.to_N mode) (Z.to_N sm) (Z.to_N sr) d (map Z.to_nat hs), r')
          | None => None
          end
      | 7 :: k :: mode :: d :: r => Some (MChange (Z.to_N k) (Z.to_N mode) d, r)
      | 8 :: s :: r => Some (MDrain (Z.to_N s), r)
      | 9 :: bop :: na :: r =>
          match take_n (Z.to_nat na) r with
          | Some (xa, nb :: r') =>
              match take_n (Z.to_nat nb) r' with
              | Some (xb, r'') => Some (MBitOp (Z.to_N bop) (map Z.to_N xa) (map Z.to_N xb), r'')
              | None => None
              end
          | _ => None
          end
      | _ => None
      end
  end%Z.

Fixpoint dec_members (n : nat) (l : list Z) : option (list member) :=
  match n with
  | O => match l with [] => Some [] | _ => None end
  | S n' =>
      match dec_member (length l) l with
      | Some (m, r) => match dec_members n' r with Some ms => Some (m :: ms) | None => None end
      | None => None
      end
  end.

Definition dec_jkind (k a : Z) : option jkind :=
  match k with
  | 0 => Some (JSeq (zlim a))
  | 1 => Some (JLend (zlim a))
  | 2 => Some (JPar (Z.to_nat a))
  | 3 => Some (JLendGet (Z.to_nat a))
  | 4 => Some (JLendIdx (Z.to_N a))
  | _ => None
  end%Z.

Fixpoint dec_hz (l : list Z) : list (href * Z) :=
  match l with
  | h :: a :: l' => (Z.to_nat h, a) :: dec_hz l'
  | _ => []
  end.

Definition dec_join (p : list Z) : option (jkind * list member) :=
  match p with
  | k :: a :: n :: r =>
      match dec_jkind k a, dec_members (Z.to_nat n) r with
      | Some jk, Some ms => Some (jk, ms)
      | _, _ => None
      end
  | _ => None
  end.

Definition dec_op (code : Z) (p : list Z) : op :=
  match code, p with
  | 1, _ => OCreate (dec_comps p)
  | 2, _ => OCreateDropped (dec_comps p)
  | 3, [n] => OCreateIter (Z.to_nat n)
  | 4, [] => OECreate
  | 5, [n] => OECreateIter (Z.to_nat n)
  | 6, b :: p' => OEBuild (negb (Z.eqb b 0)) (dec_comps p')
  | 7, _ => OLazyCreate (dec_comps p)
  | 10, [h] => ODelete (Z.to_nat h)
  | 11, _ => ODeleteMany (map Z.to_nat p)
  | 12, [h] => OEDelete (Z.to_nat h)
  | 13, [] => ODeleteAll
  | 14, [] => OMaintain
  | 20, [h] => OIsAlive (Z.to_nat h)
  | 21, [h] => OWIsAlive (Z.to_nat h)
  | 22, [] => OJoinEntities
  | 23, [h] => OEntityAt (Z.to_nat h)
  | 24, [] => OProbeAll
  | 99, [] => ODropWorld
  | 60, [s; h; u; v] => OLazyInsert (Z.to_N s) (Z.to_nat h) (Z.to_N u, v)
  | 61, s :: r => OLazyInsertAll (Z.to_N s) (dec_htoks r)
  | 62, [s; h] => OLazyRemove (Z.to_N s) (Z.to_nat h)
  | 80, _ => match dec_join p with Some (jk, ms) => OJoin jk ms | None => OBad end
  | 81, [k] => OCs (CsNew (Z.to_N k))
  | 82, [k; h; a] => OCs (CsAdd (Z.to_N k) (Z.to_nat h) a)
  | 83, k :: _ :: r => OCs (CsCollect (Z.to_N k) (dec_hz r))
  | 84, k :: _ :: r => OCs (CsExtend (Z.to_N k) (dec_hz r))
  | 85, [k] => OCs (CsClear (Z.to_N k))
  | 86, [k] => OCs (CsDump (Z.to_N k))
  | _, _ => match dec_sop code p with Some so => OStore so | None => OBad end
  end%Z.

Fixpoint dec_ops (fuel : nat) (l : list Z) : list op :=
  match fuel with
  | O => []
  | S fuel' =>
      match l with
      | code :: n :: l' =>
          match take_n (Z.to_nat n) l' with
          | Some (p, rest) =>
              (if Z.eqb code 63 then OLazyExec (dec_ops fuel' p) else dec_op code p) :: dec_ops fuel' rest
          | None => [OBad]
          end
      | [] => []
      | _ => [OBad]
      end
  end.

Definition decode_history (l : list Z) : list op := dec_ops (length l) l.

(* ------------------------------------------------------------------ *)
(* encoding of outputs: tag, then fields *)

Definition enc_ent (e : entity) : list Z := [Z.of_N (fst e); snd e].
Definition enc_bool (b : bool) : Z := if b then 1%Z else 0%Z.

Definition enc_tok (t : tok) : list Z := [Z.of_N (fst t); snd t].
Definition enc_event (e : event) : list Z :=
  match e with
  | EInserted i => [0%Z; Z.of_N i]
  | EModified i => [1%Z; Z.of_N i]
  | ERemoved i => [2%Z; Z.of_N i]
  end.

Fixpoint enc_item (x : jitem) : list Z :=
  match x with
  | JTok t => 1%Z :: enc_tok t
  | JEnt e => 2%Z :: enc_ent e
  | JUnit => [3%Z]
  | JSome y => 4%Z :: enc_item y
  | JNone => [5%Z]
  | JPaired g os =>
      6%Z :: 1%Z :: enc_tok g ++ Z.of_nat (length os) ::
        flat_map (fun o => match o with Some t => 1%Z :: enc_tok t | None => [0%Z] end) os
  | JAmt z => [7%Z; z]
  end.
Definition enc_visit (p : N * list jitem) : list Z := Z.of_N (fst p) :: flat_map enc_item (snd p).

Definition enc_out (o : wout) : list Z :=
  match o with
  | WHandles l => 1%Z :: Z.of_nat (length l) :: flat_map enc_ent l
  | WKill None => [2%Z; 0%Z]
  | WKill (Some (p, g)) => [2%Z; 1%Z; Z.of_nat p; g]
  | WKillDef None => [3%Z; 0%Z]
  | WKillDef (Some g) => [3%Z; 1%Z; g]
  | WBool b => [4%Z; enc_bool b]
  | WBools l => 5%Z :: Z.of_nat (length l) :: map enc_bool l
  | WEnts l => 6%Z :: Z.of_nat (length l) :: flat_map enc_ent l
  | WUnit => [7%Z]
  | WSkip => [8%Z]
  | WIns InsNew => [11%Z; 0%Z]
  | WIns (InsOld t) => 11%Z :: 1%Z :: enc_tok t
  | WIns (InsErr g) => [11%Z; 2%Z; g]
  | WOptTok None => [12%Z; 0%Z]
  | WOptTok (Some t) => 12%Z :: 1%Z :: enc_tok t
  | WNat n => [13%Z; Z.of_N n]
  | WIdx l => 14%Z :: Z.of_nat (length l) :: map Z.of_N l
  | WToks l => 15%Z :: Z.of_nat (length l) :: flat_map enc_tok l
  | WEntry (EnErr g) => [16%Z; 2%Z; g]
  | WEntry EnNone => [16%Z; 0%Z]
  | WEntry (EnTok t) => 16%Z :: 1%Z :: enc_tok t
  | WSlice SliceNone => [17%Z; 0%Z]
  | WSlice (SliceVec len l) => 17%Z :: 1%Z :: Z.of_N len :: Z.of_nat (length l) :: flat_map enc_tok l
  | WSlice (SliceAll l) => 17%Z :: 2%Z :: Z.of_nat (length l) :: flat_map enc_tok l
  | WEvents l => 18%Z :: Z.of_nat (length l) :: flat_map enc_event l
  | WReader k => [19%Z; Z.of_nat k]
  | WJoin (JItems l) => 21%Z :: Z.of_nat (length l) :: flat_map enc_visit l
  | WJoin (JOne None) => [22%Z; 0%Z]
  | WJoin (JOne (Some p)) => 22%Z :: 1%Z :: enc_visit p
  | WJoin JSkipped => [8%Z]
  | WAmts l => 21%Z :: Z.of_nat (length l) :: flat_map (fun p => [Z.of_N (fst p); 7%Z; snd p]) l
  | WRaw l => l
  end.

Fixpoint dec_ents (n : nat) (l : list Z) : option (list entity) :=
  match n with
  | O => match l with [] => Some [] | _ => None end
  | S n' => match l with
            | i :: g :: l' => match dec_ents n' l' with Some r => Some ((Z.to_N i, g) :: r) | None => None end
            | _ => None
            end
  end.

Fixpoint dec_toks (n : nat) (l : list Z) : option (list tok) :=
  match n with
  | O => match l with [] => Some [] | _ => None end
  | S n' => match l with
            | u :: v :: l' => match dec_toks n' l' with Some r => Some ((Z.to_N u, v) :: r) | None => None end
            | _ => None
            end
  end.

Fixpoint dec_events (n : nat) (l : list Z) : option (list event) :=
  match n with
  | O => match l with [] => Some [] | _ => None end
  | S n' => match l with
            | k :: i :: l' =>
                match dec_events n' l' with
                | Some r => Some ((if Z.eqb k 0 then EInserted (Z.to_N i)
                                   else if Z.eqb k 1 then EModified (Z.to_N i) else ERemoved (Z.to_N i)) :: r)
                | None => None
                end
            | _ => None
            end
  end.

Definition dec_out (l : list Z) : option wout :=
  match l with
  | 1 :: n :: r => match dec_ents (Z.to_nat n) r with Some es => Some (WHandles es) | None => None end
  | [2; 0] => Some (WKill None)
  | [2; 1; p; g] => Some (WKill (Some (Z.to_nat p, g)))
  | [3; 0] => Some (WKillDef None)
  | [3; 1; g] => Some (WKillDef (Some g))
  | [4; b] => Some (WBool (negb (Z.eqb b 0)))
  | 5 :: n :: r => if Nat.eqb (Z.to_nat n) (length r) then Some (WBools (map (fun b => negb (Z.eqb b 0)) r)) else None
  | 6 :: n :: r => match dec_ents (Z.to_nat n) r with Some es => Some (WEnts es) | None => None end
  | [7] => Some WUnit
  | [8] => Some WSkip
  | [11; 0] => Some (WIns InsNew)
  | [11; 1; u; v] => Some (WIns (InsOld (Z.to_N u, v)))
  | [11; 2; g] => Some (WIns (InsErr g))
  | [12; 0] => Some (WOptTok None)
  | [12; 1; u; v] => Some (WOptTok (Some (Z.to_N u, v)))
  | [13; n] => Some (WNat (Z.to_N n))
  | 14 :: n :: r => if Nat.eqb (Z.to_nat n) (length r) then Some (WIdx (map Z.to_N r)) else None
  | 15 :: n :: r => match dec_toks (Z.to_nat n) r with Some ts => Some (WToks ts) | None => None end
  | [16; 2; g] => Some (WEntry (EnErr g))
  | [16; 0] => Some (WEntry EnNone)
  | [16; 1; u; v] => Some (WEntry (EnTok (Z.to_N u, v)))
  | [17; 0] => Some (WSlice SliceNone)
  | 17 :: 1 :: len :: n :: r =>
      match dec_toks (Z.to_nat n) r with Some ts => Some (WSlice (SliceVec (Z.to_N len) ts)) | None => None end
  | 17 :: 2 :: n :: r => match dec_toks (Z.to_nat n) r with Some ts => Some (WSlice (SliceAll ts)) | None => None end
  | 18 :: n :: r => match dec_events (Z.to_nat n) r with Some es => Some (WEvents es) | None => None end
  | [19; k] => Some (WReader (Z.to_nat k))
  | 21 :: _ => Some (WRaw l)
  | 22 :: _ => Some (WRaw l)
  | _ => None
  end%Z.

Fixpoint ents_eqb (a b : list entity) : bool :=
  match a, b with
  | [], [] => true
  | x :: a', y :: b' => entity_eqb x y && ents_eqb a' b'
  | _, _ => false
  end.

Fixpoint bools_eqb (a b : list bool) : bool :=
  match a, b with
  | [], [] => true
  | x :: a', y :: b' => Bool.eqb x y && bools_eqb a' b'
  | _, _ => false
  end.

(* outputs are compared through their encodings *)
Fixpoint zlist_eqb (x y : list Z) : bool :=
  match x, y with
  | [], [] => true
  | u :: x', v :: y' => Z.eqb u v && zlist_eqb x' y'
  | _, _ => false
  end.

Definition wout_eqb (x y : wout) : bool :=
  match x, y with
  | WHandles a, WHandles b => ents_eqb a b
  | WKill None, WKill None => true
  | WKill (Some (p, g)), WKill (Some (q, h)) => Nat.eqb p q && Z.eqb g h
  | WKillDef None, WKillDef None => true
  | WKillDef (Some g), WKillDef (Some h) => Z.eqb g h
  | WBool a, WBool b => Bool.eqb a b
  | WBools a, WBools b => bools_eqb a b
  | WEnts a, WEnts b => ents_eqb a b
  | WUnit, WUnit => true
  | WSkip, WSkip => true
  | WHandles _, _ | WKill _, _ | WKillDef _, _ | WBool _, _ | WBools _, _ | WEnts _, _ | WUnit, _ | WSkip, _ => false
  | _, WHandles _ | _, WKill _ | _, WKillDef _ | _, WBool _ | _, WBools _ | _, WEnts _ | _, WUnit | _, WSkip => false
  | _, _ => zlist_eqb (enc_out x) (enc_out y)
  end.

(* handles returned by creation ops, in order *)
Definition is_creation (o : op) : bool :=
  match o with
  | OCreate _ | OCreateDropped _ | OCreateIter _ | OECreate | OECreateIter _ | OEBuild _ _ | OLazyCreate _ => true
  | _ => false
  end.

Definition returned (o : op) (out : wout) : list entity :=
  if is_creation o then match out with WHandles l => l | _ => [] end else [].

Fixpoint all_returned (tr : list (op * wout)) : list entity :=
  match tr with [] => [] | (o, out) :: tr' => returned o out ++ all_returned tr' end.

