(* The history alphabet of the [world] domain, the outputs, and their
   encoding as integer lists (the format shared with the Rust harness; the
   decoder used by the OCaml driver is this Coq function, extracted).
   Definitions only. *)
From SV Require Export Base.Ids.

Definition href := nat.              (* the k-th handle returned so far, 0-based *)
Definition comps := list (N * Z).    (* (storage id, value) pairs attached by a builder *)

Inductive op :=
(* creation paths *)
| OCreate (cs : comps)               (* world.create_entity().with(..).build() *)
| OCreateDropped (cs : comps)        (* world.create_entity().with(..) dropped unbuilt *)
| OCreateIter (n : nat)              (* world.create_iter().take(n) *)
| OECreate                           (* entities.create() *)
| OECreateIter (n : nat)             (* entities.create_iter().take(n) *)
| OEBuild (built : bool) (cs : comps)(* entities.build_entity().with(..)[.build()] *)
| OLazyCreate (cs : comps)           (* lazy.create_entity(&entities).with(..).build() *)
(* deletion paths *)
| ODelete (h : href)                 (* world.delete_entity *)
| ODeleteMany (hs : list href)       (* world.delete_entities *)
| OEDelete (h : href)                (* entities.delete *)
| ODeleteAll                         (* world.delete_all *)
| OMaintain                          (* world.maintain *)
(* observations *)
| OIsAlive (h : href)                (* entities.is_alive *)
| OWIsAlive (h : href)               (* world.is_alive (merged view) *)
| OJoinEntities                      (* (&entities).join().collect() *)
| OEntityAt (h : href)               (* entities.entity(index of handle h) *)
| OProbeAll                          (* entities.is_alive of every handle returned so far *)
| OBad.                              (* undecodable: ignored by both sides *)

Inductive wout :=
| WHandles (l : list entity)
| WKill (r : option (nat * Z))       (* None = Ok, Some (position, actual_gen) *)
| WKillDef (r : option Z)
| WBool (b : bool)
| WBools (l : list bool)
| WEnts (l : list entity)
| WUnit
| WSkip.                             (* refers to a handle not returned yet / bad op *)

(* ------------------------------------------------------------------ *)
(* decoding of histories: each op is  code, n, x1 .. xn *)

Fixpoint take_n {A} (n : nat) (l : list A) : option (list A * list A) :=
  match n with
  | O => Some ([], l)
  | S n' => match l with
            | [] => None
            | x :: l' => match take_n n' l' with Some (a, b) => Some (x :: a, b) | None => None end
            end
  end.

Fixpoint dec_comps (l : list Z) : comps :=
  match l with
  | s :: v :: l' => (Z.to_N s, v) :: dec_comps l'
  | _ => []
  end.

Definition dec_op (code : Z) (p : list Z) : op :=
  match code, p with
  | 1, _ => OCreate (dec_comps p)
  | 2, _ => OCreateDropped (dec_comps p)
  | 3, [n] => OCreateIter (Z.to_nat n)
  | 4, [] => OECreate
  | 5, [n] => OECreateIter (Z.to_nat n)
  | 6, b :: p' => OEBuild (negb (Z.eqb b 0)) (dec_comps p')
  | 7, _ => OLazyCreate (dec_comps p)
  | 10, [h] => ODelete (Z.to_nat h)
  | 11, _ => ODeleteMany (map Z.to_nat p)
  | 12, [h] => OEDelete (Z.to_nat h)
  | 13, [] => ODeleteAll
  | 14, [] => OMaintain
  | 20, [h] => OIsAlive (Z.to_nat h)
  | 21, [h] => OWIsAlive (Z.to_nat h)
  | 22, [] => OJoinEntities
  | 23, [h] => OEntityAt (Z.to_nat h)
  | 24, [] => OProbeAll
  | _, _ => OBad
  end%Z.

Fixpoint dec_ops (fuel : nat) (l : list Z) : list op :=
  match fuel with
  | O => []
  | S fuel' =>
      match l with
      | code :: n :: l' =>
          match take_n (Z.to_nat n) l' with
          | Some (p, rest) => dec_op code p :: dec_ops fuel' rest
          | None => [OBad]
          end
      | [] => []
      | _ => [OBad]
      end
  end.

Definition decode_history (l : list Z) : list op := dec_ops (length l) l.

(* ------------------------------------------------------------------ *)
(* encoding of outputs: tag, then fields *)

Definition enc_ent (e : entity) : list Z := [Z.of_N (fst e); snd e].
Definition enc_bool (b : bool) : Z := if b then 1%Z else 0%Z.

Definition enc_out (o : wout) : list Z :=
  match o with
  | WHandles l => 1%Z :: Z.of_nat (length l) :: flat_map enc_ent l
  | WKill None => [2%Z; 0%Z]
  | WKill (Some (p, g)) => [2%Z; 1%Z; Z.of_nat p; g]
  | WKillDef None => [3%Z; 0%Z]
  | WKillDef (Some g) => [3%Z; 1%Z; g]
  | WBool b => [4%Z; enc_bool b]
  | WBools l => 5%Z :: Z.of_nat (length l) :: map enc_bool l
  | WEnts l => 6%Z :: Z.of_nat (length l) :: flat_map enc_ent l
  | WUnit => [7%Z]
  | WSkip => [8%Z]
  end.

Fixpoint dec_ents (n : nat) (l : list Z) : option (list entity) :=
  match n with
  | O => match l with [] => Some [] | _ => None end
  | S n' => match l with
            | i :: g :: l' => match dec_ents n' l' with Some r => Some ((Z.to_N i, g) :: r) | None => None end
            | _ => None
            end
  end.

Definition dec_out (l : list Z) : option wout :=
  match l with
  | 1 :: n :: r => match dec_ents (Z.to_nat n) r with Some es => Some (WHandles es) | None => None end
  | [2; 0] => Some (WKill None)
  | [2; 1; p; g] => Some (WKill (Some (Z.to_nat p, g)))
  | [3; 0] => Some (WKillDef None)
  | [3; 1; g] => Some (WKillDef (Some g))
  | [4; b] => Some (WBool (negb (Z.eqb b 0)))
  | 5 :: n :: r => if Nat.eqb (Z.to_nat n) (length r) then Some (WBools (map (fun b => negb (Z.eqb b 0)) r)) else None
  | 6 :: n :: r => match dec_ents (Z.to_nat n) r with Some es => Some (WEnts es) | None => None end
  | [7] => Some WUnit
  | [8] => Some WSkip
  | _ => None
  end%Z.

Fixpoint ents_eqb (a b : list entity) : bool :=
  match a, b with
  | [], [] => true
  | x :: a', y :: b' => entity_eqb x y && ents_eqb a' b'
  | _, _ => false
  end.

Fixpoint bools_eqb (a b : list bool) : bool :=
  match a, b with
  | [], [] => true
  | x :: a', y :: b' => Bool.eqb x y && bools_eqb a' b'
  | _, _ => false
  end.

Definition wout_eqb (x y : wout) : bool :=
  match x, y with
  | WHandles a, WHandles b => ents_eqb a b
  | WKill None, WKill None => true
  | WKill (Some (p, g)), WKill (Some (q, h)) => Nat.eqb p q && Z.eqb g h
  | WKillDef None, WKillDef None => true
  | WKillDef (Some g), WKillDef (Some h) => Z.eqb g h
  | WBool a, WBool b => Bool.eqb a b
  | WBools a, WBools b => bools_eqb a b
  | WEnts a, WEnts b => ents_eqb a b
  | WUnit, WUnit => true
  | WSkip, WSkip => true
  | _, _ => false
  end.

(* handles returned by creation ops, in order *)
Definition is_creation (o : op) : bool :=
  match o with
  | OCreate _ | OCreateDropped _ | OCreateIter _ | OECreate | OECreateIter _ | OEBuild _ _ | OLazyCreate _ => true
  | _ => false
  end.

Definition returned (o : op) (out : wout) : list entity :=
  if is_creation o then match out with WHandles l => l | _ => [] end else [].

Fixpoint all_returned (tr : list (op * wout)) : list entity :=
  match tr with [] => [] | (o, out) :: tr' => returned o out ++ all_returned tr' end.

