(* Every step of the faithful world machine is a step of the specification
   machine fed with the indices the faithful step chose: same output, valid
   choices, related states, never stuck.  Hence (by induction) every faithful
   run is an accepted specification run. *)
From SV Require Import Base.ListX Alloc.LifeProps Alloc.AllocRefine World.WorldSpec.
From Coq Require Import Sorting.Sorted.

Definition handle_ok (s : lstate) (e : entity) : Prop := fst e < used s /\ (1 <= snd e)%Z.

Record RW (w : world) (sw : sworld) : Prop := {
  RW_alloc : R (w_alloc w) (s_life sw);
  RW_inv : LInv (s_life sw);
  RW_hs : w_hs w = s_hs sw;
  RW_hl : w_hl w = s_hl sw;
  RW_stuck : w_stuck w = false;
  RW_ok : s_ok sw = true;
  RW_env : w_env w = s_env sw;
  RW_hsok : forall k e, pv_get (s_hs sw) k = Some e -> handle_ok (s_life sw) e;
  RW_hlok : forall e, In e (s_hl sw) -> handle_ok (s_life sw) e }.

Lemma RW_init : RW w_init s_init.
Proof.
  split; cbn; auto using R_init, LInv_init.
  - intros k e. unfold pv_get; cbn. destruct (N.ltb_spec k 0); [lia|discriminate].
  - intros e [].
Qed.

Lemma handle_ok_cell s e : LInv s -> handle_ok s e -> cell s (fst e) <> Never /\ (1 <= snd e)%Z.
Proof. intros HI [H1 H2]. split; [apply (J_below _ HI); assumption | assumption]. Qed.

Lemma handle_ok_mono s s' e : used s <= used s' -> handle_ok s e -> handle_ok s' e.
Proof. intros H [H1 H2]. split; [lia|assumption]. Qed.

Lemma used_create_ge pend s i : used s <= used (fst (l_create pend s i)).
Proof. rewrite used_create. destruct (N.eqb i (used s)); lia. Qed.

Lemma created_ok pend s i : LInv s -> valid_choice s i = true ->
  handle_ok (fst (l_create pend s i)) (snd (l_create pend s i)).
Proof.
  intros HI Hv. unfold handle_ok. cbn [l_create fst snd].
  destruct (valid_choice_cases _ _ Hv) as [[g E]|[E [-> _]]].
  - split.
    + assert (i < used s) by (apply free_below_used; [assumption | rewrite E; reflexivity]).
      cbn [used]. destruct (N.eqb i (used s)); lia.
    + assert (1 <= top (cell s i))%Z by (apply (J_pos _ HI); congruence). lia.
  - cbn [used]. rewrite N.eqb_refl, E. cbn [top]. split; lia.
Qed.

Lemma aop_wfb_of_ok a s l : R a s -> (forall e, In e l -> handle_ok s e) ->
  forallb (fun e => N.ltb (fst e) (max_id a) && Z.leb 1 (snd e)) l = true.
Proof.
  intros HR H. apply forallb_forall. intros e He. destruct (H e He) as [H1 H2].
  rewrite <- (R_used _ _ _ HR). apply andb_true_iff. split; [apply N.ltb_lt | apply Z.leb_le]; assumption.
Qed.

(* ------------------------------------------------------------------ *)
(* the storage layer sees the same allocator through both machines *)

Definition av_eq_at (av1 av2 : aview) (e : entity) : Prop :=
  av_alive av1 e = av_alive av2 e /\ av_cur_gen av1 (fst e) = av_cur_gen av2 (fst e) /\
  av_err_gen av1 (fst e) = av_err_gen av2 (fst e).

Lemma view_agree a s e : R a s -> LInv s -> handle_ok s e -> av_eq_at (a_view a) (l_view s) e.
Proof.
  intros HR HI Hok. destruct (handle_ok_cell _ _ HI Hok) as [W1 W2]. unfold av_eq_at, a_view, l_view; cbn.
  split; [apply (is_alive_ref a s [] HR HI e W1 W2)|]. split; [apply (cur_gen_ref a s [] HR HI) | apply (err_gen_ref a s [] HR HI)].
Qed.

Lemma st_insert_cong ms av1 av2 e v c : av_eq_at av1 av2 e -> st_insert ms av1 e v c = st_insert ms av2 e v c.
Proof. intros [H1 [H2 _]]. unfold st_insert. cbv zeta. rewrite H1, H2. reflexivity. Qed.

Lemma present_cong ms av1 av2 e : av_eq_at av1 av2 e -> present ms av1 e = present ms av2 e.
Proof. intros [H1 _]. unfold present. rewrite H1. reflexivity. Qed.

Lemma st_get_cong ms av1 av2 e c : av_eq_at av1 av2 e -> st_get ms av1 e c = st_get ms av2 e c.
Proof. intros H. unfold st_get. rewrite (present_cong ms av1 av2 e H). reflexivity. Qed.

Lemma st_get_mut_cong ms av1 av2 e t nv c : av_eq_at av1 av2 e -> st_get_mut ms av1 e t nv c = st_get_mut ms av2 e t nv c.
Proof. intros H. unfold st_get_mut. rewrite (present_cong ms av1 av2 e H). reflexivity. Qed.

Lemma st_remove_cong ms av1 av2 e c : av_eq_at av1 av2 e -> st_remove ms av1 e c = st_remove ms av2 e c.
Proof. intros [H1 _]. unfold st_remove. rewrite H1. reflexivity. Qed.

Lemma st_entry_cong ms av1 av2 e o c : av_eq_at av1 av2 e -> st_entry ms av1 e o c = st_entry ms av2 e o c.
Proof. intros [H1 [_ H3]]. unfold st_entry. cbv zeta. rewrite H1, H3. reflexivity. Qed.

Lemma st_gmd_cong ms av1 av2 e c : av_eq_at av1 av2 e ->
  st_get_mut_or_default ms av1 e c = st_get_mut_or_default ms av2 e c.
Proof.
  intros H. unfold st_get_mut_or_default. rewrite (present_cong ms av1 av2 e H).
  rewrite (st_get_mut_cong ms av1 av2 e false None c H).
  rewrite (st_insert_cong ms av1 av2 e _ (cx_mint c) H).
  destruct (st_insert ms av2 e _ (cx_mint c)) as [[ms1 r] c1].
  destruct (present ms av2 e); [reflexivity|].
  destruct r; try reflexivity; apply st_get_mut_cong; assumption.
Qed.

Lemma env_insert_comps_cong cs : forall env av1 av2 e, av_eq_at av1 av2 e ->
  env_insert_comps env av1 e cs = env_insert_comps env av2 e cs.
Proof.
  induction cs as [|[sid v] cs IH]; intros env av1 av2 e H; cbn [env_insert_comps]; [reflexivity|].
  destruct (NM.find sid (se_stores env)); [|apply IH; assumption].
  rewrite (st_insert_cong _ av1 av2 e v _ H). destruct (st_insert _ av2 e v _) as [[ms1 r] c1]. apply IH. assumption.
Qed.

Lemma ms_sop_cong ms av1 av2 ent so c : (sop_handle so <> None -> av_eq_at av1 av2 ent) ->
  ms_sop ms av1 ent so c = ms_sop ms av2 ent so c.
Proof.
  intros H. destruct so; cbn [ms_sop sop_handle] in *; try reflexivity;
  assert (av_eq_at av1 av2 ent) as H' by (apply H; discriminate).
  - rewrite (st_insert_cong ms av1 av2 ent v _ H'). reflexivity.
  - rewrite (st_get_cong ms av1 av2 ent _ H'). reflexivity.
  - rewrite (st_get_mut_cong ms av1 av2 ent _ _ _ H'). reflexivity.
  - rewrite (st_remove_cong ms av1 av2 ent _ H'). reflexivity.
  - unfold st_contains. rewrite (present_cong ms av1 av2 ent H'). reflexivity.
  - rewrite (st_entry_cong ms av1 av2 ent _ _ H'). reflexivity.
  - rewrite (st_gmd_cong ms av1 av2 ent _ H'). reflexivity.
Qed.

Lemma env_sop_cong env av1 av2 hs so :
  (forall k e, pv_get hs k = Some e -> av_eq_at av1 av2 e) ->
  env_sop env av1 hs so = env_sop env av2 hs so.
Proof.
  intros H. unfold env_sop. destruct so; try reflexivity;
  cbn [sop_handle sop_sid];
  try (destruct (pv_get hs (N.of_nat h)) as [e|] eqn:Eh; [|reflexivity]);
  (destruct (NM.find sid (se_stores env)) as [ms|]; [|reflexivity]);
  match goal with |- context [ms_sop ms av1 ?e ?so ?c] =>
    rewrite (ms_sop_cong ms av1 av2 e so c); [reflexivity|] end;
  cbn [sop_handle]; intros Hh; try (exfalso; apply Hh; reflexivity); eapply H; eassumption.
Qed.

(* joins see the allocator through is_alive of handles and entity(i) of indices *)
Section JoinCong.
  Variables (av1 av2 : aview) (hs : pvec entity).
  Hypothesis Halive : forall k e, pv_get hs k = Some e -> av_alive av1 e = av_alive av2 e.
  Hypothesis Hgen : forall i, av_cur_gen av1 i = av_cur_gen av2 i.

  Lemma others_lookup_cong sid mutably l : forall env,
    others_lookup av1 hs sid mutably l env = others_lookup av2 hs sid mutably l env.
  Proof.
    induction l as [|h l IH]; intros env; cbn [others_lookup]; [reflexivity|].
    destruct (pv_get hs (N.of_nat h)) as [ent|] eqn:Eh; [|rewrite IH; reflexivity].
    rewrite (Halive _ _ Eh). destruct (NS.mem (fst ent) (env_mask env sid) && av_alive av2 ent).
    - destruct (env_jact env sid _) as [e1 t]. rewrite IH. reflexivity.
    - rewrite IH. reflexivity.
  Qed.

  Lemma m_get_cong excl eids m i : forall env, m_get av1 hs excl eids m i env = m_get av2 hs excl eids m i env.
  Proof.
    induction m as [sid|sid touch d| |l|sid|m IH|sid mode selmod selrem d others|k mode d|sid|bop ba bb]; intros env; cbn [m_get];
      try reflexivity.
    - rewrite Hgen. reflexivity.
    - rewrite IH. reflexivity.
    - destruct (env_jact env sid (JRead i)) as [e1 t]. rewrite others_lookup_cong. reflexivity.
  Qed.

  Lemma visit_members_cong excl eids ms i : forall env,
    visit_members av1 hs excl eids ms i env = visit_members av2 hs excl eids ms i env.
  Proof.
    induction ms as [|m r IH]; intros env; cbn [visit_members]; [reflexivity|].
    rewrite m_get_cong. destruct (m_get av2 hs excl eids m i env) as [e1 x]. rewrite IH. reflexivity.
  Qed.

  Lemma visit_keys_cong excl eids ms keys : forall env,
    visit_keys av1 hs excl eids ms keys env = visit_keys av2 hs excl eids ms keys env.
  Proof.
    induction keys as [|i keys IH]; intros env; cbn [visit_keys]; [reflexivity|].
    rewrite visit_members_cong. destruct (visit_members av2 hs excl eids ms i env) as [e1 x]. rewrite IH. reflexivity.
  Qed.

  Lemma env_join_cong env eids k ms : env_join env av1 eids hs k ms = env_join env av2 eids hs k ms.
  Proof.
    unfold env_join. destruct (negb (join_ok env k ms)); [reflexivity|].
    destruct (negb (handles_ok hs k ms)); [reflexivity|].
    destruct (negb (forallb (m_registered env) ms)); [reflexivity|].
    destruct k as [lim|lim|n|h|i].
    - destruct (jkeys env eids ms); [|reflexivity]. rewrite visit_keys_cong. reflexivity.
    - destruct (jkeys env eids ms); [|reflexivity]. rewrite visit_keys_cong. reflexivity.
    - destruct (jkeys env eids ms); [|reflexivity]. rewrite visit_keys_cong. reflexivity.
    - destruct (pv_get hs (N.of_nat h)) as [ent|] eqn:Eh; [|reflexivity].
      rewrite (Halive _ _ Eh), visit_members_cong. reflexivity.
    - rewrite visit_members_cong. reflexivity.
  Qed.
End JoinCong.

(* ------------------------------------------------------------------ *)
(* building blocks *)

Lemma pv_get_push {A} (v : pvec A) x k y : pv_get (pv_push v x) k = Some y ->
  (k = vlen v /\ y = x) \/ pv_get v k = Some y.
Proof.
  intros H. destruct (N.eq_dec k (vlen v)) as [->|Hne].
  - rewrite pv_get_push_eq in H. inversion H. auto.
  - right. unfold pv_get, pv_push in *; cbn [vlen vmap] in *.
    destruct (N.ltb_spec k (vlen v + 1)); [|discriminate].
    destruct (N.ltb_spec k (vlen v)); [|lia]. rewrite NMF.add_neq_o in H by lia. assumption.
Qed.

Lemma create_sim pend w sw : RW w sw ->
  let '(w1, e) := w_create pend w in
  let '(sw1, e') := s_create pend sw (fst e) in
  e' = e /\ RW w1 sw1 /\ handle_ok (s_life sw1) e /\ l_is_alive (s_life sw1) e = true.
Proof.
  intros [HR HI Hhs Hhl Hst Hok Henv Hhsok Hhlok]. unfold w_create, s_create.
  assert (let '(a', e) := (if pend then a_alloc_atomic (w_alloc w) else a_alloc (w_alloc w)) in
          valid_choice (s_life sw) (fst e) = true /\
          l_create pend (s_life sw) (fst e) = (fst (l_create pend (s_life sw) (fst e)), e) /\
          R a' (fst (l_create pend (s_life sw) (fst e)))) as X.
  { destruct pend; [apply alloc_atomic_ref | apply alloc_ref]; assumption. }
  destruct (if pend then a_alloc_atomic (w_alloc w) else a_alloc (w_alloc w)) as [a' e].
  destruct X as [Hv [He HR']]. rewrite He, Hv. split; [reflexivity|].
  set (s' := fst (l_create pend (s_life sw) (fst e))) in *.
  assert (used (s_life sw) <= used s') as Hmono by apply used_create_ge.
  assert (handle_ok s' e) as Hnew.
  { pose proof (created_ok pend (s_life sw) (fst e) HI Hv) as X. rewrite He in X. exact X. }
  assert (l_is_alive s' e = true) as Halive.
  { pose proof (life_alive_on_return pend (s_life sw) (fst e)) as X. rewrite He in X. exact X. }
  split; [|split; [exact Hnew | exact Halive]].
  split; cbn [w_alloc w_hs w_hl w_stuck w_env push_h with_alloc s_life s_hs s_hl s_ok s_env s_push_h with_life]; auto.
  - apply create_LInv; assumption.
  - rewrite Hhs. reflexivity.
  - rewrite Hhl. reflexivity.
  - intros k x Hk. apply pv_get_push in Hk. destruct Hk as [[_ ->]|Hk]; [assumption|].
    apply (handle_ok_mono (s_life sw)); eauto.
  - intros x [<-|Hx]; [assumption|]. apply (handle_ok_mono (s_life sw)); eauto.
Qed.

Lemma create_n_sim pend n : forall w sw, RW w sw ->
  let '(w1, l) := w_create_n pend n w in
  let '(sw1, l') := s_create_n pend n sw (map fst l) in
  l' = l /\ RW w1 sw1.
Proof.
  induction n as [|n IH]; intros w sw HRW; cbn [w_create_n s_create_n].
  - cbn [map]. auto.
  - pose proof (create_sim pend w sw HRW) as X. destruct (w_create pend w) as [w1 e].
    specialize (IH w1). destruct (w_create_n pend n w1) as [w2 l]. cbn [map].
    destruct (s_create pend sw (fst e)) as [sw1 e']. destruct X as [-> [HRW1 _]].
    specialize (IH sw1 HRW1). destruct (s_create_n pend n sw1 (map fst l)) as [sw2 l'].
    destruct IH as [-> HRW2]. auto.
Qed.

Lemma kill_def_alive_ok s e : l_is_alive s e = true -> snd (l_kill_def s e) = true.
Proof. intros H. unfold l_kill_def. rewrite H. reflexivity. Qed.

Lemma used_kill_def s e : used (fst (l_kill_def s e)) = used s.
Proof. unfold l_kill_def. destruct (l_is_alive s e); reflexivity. Qed.

Lemma RW_with_life w sw a' s' : RW w sw -> R a' s' -> LInv s' -> used (s_life sw) <= used s' ->
  RW (with_alloc w a') (with_life sw s').
Proof.
  intros [HR HI Hhs Hhl Hst Hok Henv Hhsok Hhlok] HR' HI' Hmono.
  split; cbn [w_alloc w_hs w_hl w_stuck w_env with_alloc s_life s_hs s_hl s_ok s_env with_life]; auto.
  - intros k e Hk. apply (handle_ok_mono (s_life sw)); eauto.
  - intros e He. apply (handle_ok_mono (s_life sw)); eauto.
Qed.

Lemma builder_drop_sim w sw e : RW w sw -> l_is_alive (s_life sw) e = true -> handle_ok (s_life sw) e ->
  RW (w_builder_drop w e) (s_builder_drop sw e).
Proof.
  intros HRW Ha Hok. pose proof HRW as [HR HI _ _ _ _ _ _ _].
  destruct (handle_ok_cell _ _ HI Hok) as [W1 W2].
  unfold w_builder_drop, s_builder_drop.
  pose proof (kill_atomic_ref (w_alloc w) (s_life sw) e HR HI W1 W2) as X.
  destruct (a_kill_atomic (w_alloc w) e) as [a' r]. destruct X as [Hr HR'].
  pose proof (kill_def_alive_ok _ _ Ha) as Hk. pose proof (kill_def_LInv _ e HI) as HI'.
  pose proof (used_kill_def (s_life sw) e) as Hu.
  destruct (l_kill_def (s_life sw) e) as [s' ok]. cbn [fst snd] in *. subst ok r.
  apply RW_with_life; auto. lia.
Qed.

(* killing the whole entities join succeeds *)
Lemma kill_all_alive l : forall s pos,
  (forall e, In e l -> l_is_alive s e = true) -> NoDup (map fst l) -> snd (l_kill s l pos) = None.
Proof.
  induction l as [|e l IH]; intros s pos Ha Hnd; cbn [l_kill]; [reflexivity|].
  rewrite (Ha e (or_introl eq_refl)). cbn [map] in Hnd. inversion Hnd as [|? ? Hx Hnd']; subst.
  apply IH; [|assumption]. intros x Hx'. specialize (Ha x (or_intror Hx')).
  unfold l_is_alive in *. rewrite cell_set. destruct (N.eq_dec (fst e) (fst x)) as [E|]; [|assumption].
  exfalso. apply Hx. rewrite E. apply in_map. assumption.
Qed.

Lemma entities_nodup_fst s : NoDup (map fst (l_entities s)).
Proof.
  pose proof (life_entities_sorted s) as H. apply Sorted_StronglySorted in H; [|intros a b c; lia].
  induction H as [|a l Hs IH Hall]; cbn [map]; constructor; [|assumption].
  rewrite Forall_forall in Hall. intros Hin. apply in_map_iff in Hin. destruct Hin as [x [E Hx]].
  specialize (Hall x Hx). lia.
Qed.

Lemma hget_all_ok sw hs es : (forall k e, pv_get (s_hs sw) k = Some e -> handle_ok (s_life sw) e) ->
  hget_all (s_hs sw) hs = Some es -> forall e, In e es -> handle_ok (s_life sw) e.
Proof.
  intros H. revert es. induction hs as [|h hs IH]; intros es Hg e He; cbn [hget_all] in Hg.
  - inversion Hg; subst. destruct He.
  - destruct (hget (s_hs sw) h) as [x|] eqn:Ex; [|discriminate].
    destruct (hget_all (s_hs sw) hs) as [r|]; [|discriminate]. inversion Hg; subst.
    destruct He as [<-|He]; [apply (H _ _ Ex) | apply (IH r eq_refl); assumption].
Qed.

Lemma kill_sim w sw es : RW w sw -> (forall e, In e es -> handle_ok (s_life sw) e) ->
  let '(a', r) := a_kill true (w_alloc w) es in
  let '(s', r') := l_kill_res (s_life sw) es in
  r' = r /\ RW (with_alloc w a') (with_life sw s').
Proof.
  intros HRW Hok. pose proof HRW as [HR HI _ _ _ _ _ _ _].
  pose proof (kill_ref (w_alloc w) (s_life sw) es HR HI (fun e He => handle_ok_cell _ _ HI (Hok e He))) as X.
  destruct (a_kill true (w_alloc w) es) as [a' r]. destruct X as [E [HR' HI']].
  assert (used (fst (l_kill_res (s_life sw) es)) = used (s_life sw)) as Hu.
  { unfold l_kill_res. pose proof (used_kill es (s_life sw) 0%nat) as U.
    destruct (l_kill (s_life sw) es 0) as [s1 [p|]]; exact U. }
  rewrite E. cbn [fst] in *. split; [reflexivity|]. apply RW_with_life; auto. lia.
Qed.

(* ------------------------------------------------------------------ *)
(* one step *)

Lemma RW_env_update w sw e' : RW w sw -> RW (with_env w e') (s_with_env sw e').
Proof. intros [HR HI Hhs Hhl Hst Hok Henv Hhsok Hhlok]. split; cbn; auto. Qed.

Lemma RW_begin w sw : RW w sw -> RW (w_begin w) (s_begin sw).
Proof. intros H. unfold w_begin, s_begin. rewrite (RW_env _ _ H). apply RW_env_update. assumption. Qed.

Lemma insert_comps_sim w sw e cs : RW w sw -> handle_ok (s_life sw) e ->
  RW (w_insert_comps w e cs) (s_insert_comps sw e cs).
Proof.
  intros H Hok. unfold w_insert_comps, s_insert_comps. rewrite (RW_env _ _ H).
  rewrite (env_insert_comps_cong cs (s_env sw) _ _ e (view_agree _ _ e (RW_alloc _ _ H) (RW_inv _ _ H) Hok)).
  apply RW_env_update. assumption.
Qed.

Lemma purge_sim w sw es r : RW w sw -> RW (w_purge_killed w es r) (s_purge_killed sw es r).
Proof. intros H. unfold w_purge_killed, s_purge_killed. rewrite (RW_env _ _ H). apply RW_env_update. assumption. Qed.

Theorem wstep_core_sim w sw o : RW w sw ->
  let '(w', out) := wstep_core true w o in
  let '(sw', out') := sstep_core sw o (choices_of out) in
  out' = out /\ RW w' sw'.
Proof.
  intros HRW. pose proof HRW as [HR HI Hhs Hhl Hst Hok Henv Hhsok Hhlok].
  destruct o as [cs|cs|n| |n|built cs|cs|h|hs|h| | |h|h| |h| |so| |lsid lh lv|lsid ll|lsid lh|prog|qso|jk jms|cso| ]; cbn [wstep_core sstep_core].
  - (* OCreate *)
    pose proof (create_sim false w sw HRW) as X. destruct (w_create false w) as [w1 e]. cbn [choices_of map hd_choice].
    destruct (s_create false sw (fst e)) as [sw1 e']. destruct X as [-> [H [Hk _]]]. split; [reflexivity|].
    apply insert_comps_sim; assumption.
  - (* OCreateDropped *)
    pose proof (create_sim false w sw HRW) as X. destruct (w_create false w) as [w1 e]. cbn [choices_of map hd_choice].
    destruct (s_create false sw (fst e)) as [sw1 e']. destruct X as [-> [H [Hk Ha]]]. split; [reflexivity|].
    apply builder_drop_sim; [apply insert_comps_sim; assumption | exact Ha | exact Hk].
  - (* OCreateIter *)
    pose proof (create_n_sim false n w sw HRW) as X. destruct (w_create_n false n w) as [w1 l]. cbn [choices_of].
    destruct (s_create_n false n sw (map fst l)) as [sw1 l']. destruct X as [-> H]. auto.
  - (* OECreate *)
    pose proof (create_sim true w sw HRW) as X. destruct (w_create true w) as [w1 e]. cbn [choices_of map hd_choice].
    destruct (s_create true sw (fst e)) as [sw1 e']. destruct X as [-> [H _]]. auto.
  - (* OECreateIter *)
    pose proof (create_n_sim true n w sw HRW) as X. destruct (w_create_n true n w) as [w1 l]. cbn [choices_of].
    destruct (s_create_n true n sw (map fst l)) as [sw1 l']. destruct X as [-> H]. auto.
  - (* OEBuild *)
    pose proof (create_sim true w sw HRW) as X. destruct (w_create true w) as [w1 e]. cbn [choices_of map hd_choice].
    destruct (s_create true sw (fst e)) as [sw1 e']. destruct X as [-> [H [Hk Ha]]]. split; [reflexivity|].
    destruct built; [apply insert_comps_sim; assumption|].
    apply builder_drop_sim; [apply insert_comps_sim; assumption | exact Ha | exact Hk].
  - (* OLazyCreate *)
    pose proof (create_sim true w sw HRW) as X. destruct (w_create true w) as [w1 e]. cbn [choices_of map hd_choice].
    destruct (s_create true sw (fst e)) as [sw1 e']. destruct X as [-> [H _]]. auto.
  - (* ODelete *)
    rewrite Hhs. destruct (hget (s_hs sw) h) as [e|] eqn:Eh; [|cbn [choices_of]; rewrite ?Eh; auto].
    pose proof (kill_sim w sw [e] HRW) as X.
    destruct (a_kill true (w_alloc w) [e]) as [a' r]. cbn [choices_of]. rewrite ?Eh.
    destruct (l_kill_res (s_life sw) [e]) as [s' r']. destruct X as [-> H].
    { intros x [<-|[]]. apply (Hhsok _ _ Eh). }
    split; [reflexivity|]. apply purge_sim. assumption.
  - (* ODeleteMany *)
    rewrite Hhs. destruct (hget_all (s_hs sw) hs) as [es|] eqn:Eh; [|cbn [choices_of]; rewrite ?Eh; auto].
    pose proof (kill_sim w sw es HRW (hget_all_ok sw hs es Hhsok Eh)) as X.
    destruct (a_kill true (w_alloc w) es) as [a' r]. cbn [choices_of]. rewrite ?Eh.
    destruct (l_kill_res (s_life sw) es) as [s' r']. destruct X as [-> H].
    split; [reflexivity|]. apply purge_sim. assumption.
  - (* OEDelete *)
    rewrite Hhs. destruct (hget (s_hs sw) h) as [e|] eqn:Eh; [|cbn [choices_of]; rewrite ?Eh; auto].
    destruct (handle_ok_cell _ _ HI (Hhsok _ _ Eh)) as [W1 W2].
    pose proof (kill_atomic_ref (w_alloc w) (s_life sw) e HR HI W1 W2) as X.
    destruct (a_kill_atomic (w_alloc w) e) as [a' r]. cbn [choices_of]. rewrite ?Eh. destruct X as [Hr HR'].
    pose proof (kill_def_LInv _ e HI) as HI'. pose proof (used_kill_def (s_life sw) e) as Hu.
    destruct (l_kill_def (s_life sw) e) as [s' ok]. cbn [fst snd] in *. subst r. split; [reflexivity|].
    apply RW_with_life; auto. lia.
  - (* ODeleteAll *)
    rewrite (entities_ref _ _ [] HR HI).
    assert (forall e, In e (l_entities (s_life sw)) -> handle_ok (s_life sw) e) as Hes.
    { intros e He. apply in_l_entities in He. destruct He as [Ho Ht]. split.
      - destruct (N.lt_ge_cases (fst e) (used (s_life sw))) as [|Hge]; [assumption|].
        rewrite (J_beyond _ HI) in Ho by assumption. discriminate.
      - rewrite Ht. apply (J_pos _ HI). intros E. rewrite E in Ho. discriminate. }
    pose proof (kill_sim w sw (l_entities (s_life sw)) HRW Hes) as X.
    destruct (a_kill true (w_alloc w) (l_entities (s_life sw))) as [a' r]. cbn [choices_of].
    assert (snd (l_kill_res (s_life sw) (l_entities (s_life sw))) = None) as Hnone.
    { unfold l_kill_res.
      pose proof (kill_all_alive (l_entities (s_life sw)) (s_life sw) 0%nat
                    (fun e He => proj1 (life_entities_alive _ e) He) (entities_nodup_fst _)) as K.
      destruct (l_kill (s_life sw) (l_entities (s_life sw)) 0) as [s1 r1]. cbn [snd] in K. subst r1. reflexivity. }
    destruct (l_kill_res (s_life sw) (l_entities (s_life sw))) as [s' r']. cbn [snd] in Hnone. subst r'.
    destruct X as [<- H]. split; [reflexivity|]. apply purge_sim. assumption.
  - (* OMaintain *)
    pose proof (merge_ref (w_alloc w) (s_life sw) HR HI) as X. destruct (a_merge (w_alloc w)) as [a' d]. cbn [choices_of].
    pose proof (merge_LInv _ HI) as HI'. pose proof (used_merge (s_life sw)) as Hu.
    destruct (l_merge (s_life sw)) as [s' d']. cbn [fst snd] in *. destruct X as [-> HR'].
    split; [reflexivity|].
    assert (RW (with_alloc w a') (with_life sw s')) as H1 by (apply RW_with_life; auto; lia).
    destruct d' as [|x d']; [assumption|].
    rewrite (RW_env _ _ H1). apply RW_env_update. assumption.
  - (* OIsAlive *)
    rewrite Hhs. destruct (hget (s_hs sw) h) as [e|] eqn:Eh; cbn [choices_of]; rewrite ?Eh; [|auto].
    destruct (handle_ok_cell _ _ HI (Hhsok _ _ Eh)) as [W1 W2].
    rewrite (is_alive_ref _ _ [] HR HI e W1 W2). auto.
  - (* OWIsAlive *)
    rewrite Hhs. destruct (hget (s_hs sw) h) as [e|] eqn:Eh; cbn [choices_of]; rewrite ?Eh; [|auto].
    destruct (handle_ok_cell _ _ HI (Hhsok _ _ Eh)) as [W1 W2].
    rewrite (is_alive_merged_ref _ _ [] HR HI e W2). auto.
  - (* OJoinEntities *)
    cbn [choices_of]. rewrite (entities_ref _ _ [] HR HI). auto.
  - (* OEntityAt *)
    rewrite Hhs. destruct (hget (s_hs sw) h) as [e|] eqn:Eh; cbn [choices_of map]; rewrite ?Eh; [|auto].
    split; [|assumption]. f_equal. f_equal. unfold a_entity_at. rewrite (cur_gen_ref _ _ [] HR HI).
    unfold l_entity_at. destruct (cell (s_life sw) (fst e)); reflexivity.
  - (* OProbeAll *)
    cbn [choices_of]. rewrite Hhl. split; [|assumption]. f_equal. f_equal.
    apply map_ext_in. intros e He. destruct (handle_ok_cell _ _ HI (Hhlok e He)) as [W1 W2].
    symmetry. apply (is_alive_ref _ _ [] HR HI e W1 W2).
  - (* OStore *)
    rewrite Henv, Hhs.
    rewrite (env_sop_cong (s_env sw) (a_view (w_alloc w)) (l_view (s_life sw)) (s_hs sw) so)
      by (intros k e Hk; apply view_agree; eauto).
    destruct (env_sop (s_env sw) (l_view (s_life sw)) (s_hs sw) so) as [e' out].
    split; [reflexivity|]. apply RW_env_update. assumption.
  - (* ODropWorld *)
    cbn [choices_of]. split; [reflexivity|]. rewrite Henv. apply RW_env_update. assumption.
  - rewrite Hhs. destruct (hget (s_hs sw) lh); cbn [choices_of]; auto.
  - rewrite Hhs. destruct (hget_all (s_hs sw) (map fst ll)); cbn [choices_of]; auto.
  - rewrite Hhs. destruct (hget (s_hs sw) lh); cbn [choices_of]; auto.
  - cbn [choices_of]. auto.
  - (* OQuiet *)
    rewrite Henv, Hhs. unfold env_sop_quiet.
    rewrite (env_sop_cong (s_env sw) (a_view (w_alloc w)) (l_view (s_life sw)) (s_hs sw) qso)
      by (intros k e Hk; apply view_agree; eauto).
    cbn [choices_of]. split; [reflexivity|]. apply RW_env_update. assumption.
  - (* OJoin *)
    rewrite Henv, Hhs, (entities_ref _ _ [] HR HI).
    rewrite (env_join_cong (a_view (w_alloc w)) (l_view (s_life sw)) (s_hs sw)).
    + destruct (env_join (s_env sw) (l_view (s_life sw)) _ (s_hs sw) jk jms) as [e' j].
      cbn [choices_of]. split; [reflexivity|]. apply RW_env_update. assumption.
    + intros k e Hk. apply view_agree; eauto.
    + intros i. cbn. apply (cur_gen_ref _ _ [] HR HI).
  - (* OCs *)
    rewrite Henv, Hhs. destruct (env_csop (s_env sw) (s_hs sw) cso) as [e' r].
    split; [reflexivity|]. apply RW_env_update. assumption.
  - cbn [choices_of]. auto.
Qed.

Theorem wstep_sim w sw o : RW w sw ->
  let '(w', out) := wstep true w o in
  let '(sw', out') := sstep sw o (choices_of out) in
  out' = out /\ RW w' sw'.
Proof. intros H. unfold wstep, sstep. apply wstep_core_sim. apply RW_begin. assumption. Qed.

(* the allocator and the world-level glue never panic; storages: see StoreInv.v *)
Lemma RW_not_stuck w sw : RW w sw -> w_alloc_stuck w = false.
Proof. intros H. unfold w_alloc_stuck. rewrite (RW_stuck _ _ H), (R_stuck _ _ _ (RW_alloc _ _ H)). reflexivity. Qed.

(* ------------------------------------------------------------------ *)
(* runs *)

Lemma wrun_cons fixed w o os :
  wrun fixed w (o :: os) =
  (fst (wrun fixed (fst (wstep fixed w o)) os), snd (wstep fixed w o) :: snd (wrun fixed (fst (wstep fixed w o)) os)).
Proof. cbn [wrun]. destruct (wstep fixed w o) as [w1 out]. cbn [fst snd]. destruct (wrun fixed w1 os). reflexivity. Qed.

Lemma zlist_eqb_refl l : zlist_eqb l l = true.
Proof. induction l as [|x l IH]; [reflexivity|]. cbn. rewrite Z.eqb_refl, IH. reflexivity. Qed.

Lemma wout_eqb_refl x : wout_eqb x x = true.
Proof.
  assert (forall e, entity_eqb e e = true) as He by (intros e; apply entity_eqb_eq; reflexivity).
  assert (forall l, ents_eqb l l = true) as Hl.
  { induction l as [|e l IH]; [reflexivity|]. cbn. rewrite He, IH. reflexivity. }
  destruct x as [l|[[p g]|]|[g|]|b|l|l| | |r|o|n|l|l|r|v|l|k|j|l|l]; unfold wout_eqb; auto; try apply zlist_eqb_refl.
  - rewrite Nat.eqb_refl, Z.eqb_refl. reflexivity.
  - apply Z.eqb_refl.
  - destruct b; reflexivity.
  - induction l as [|b l IH]; [reflexivity|]. cbn. rewrite IH. destruct b; reflexivity.
Qed.

(* the faithful run, paired with its own outputs, is accepted by the
   specification, and no state on the way is stuck *)
Theorem wrun_accepted os : forall w sw pos, RW w sw ->
  saccept sw (combine os (snd (wrun true w os))) pos = None /\
  (exists sw', RW (fst (wrun true w os)) sw').
Proof.
  induction os as [|o os IH]; intros w sw pos HRW.
  - cbn. split; [reflexivity|]. exists sw. assumption.
  - rewrite wrun_cons. cbn [fst snd combine saccept].
    pose proof (wstep_sim w sw o HRW) as X. destruct (wstep true w o) as [w1 out]. cbn [fst snd].
    destruct (sstep sw o (choices_of out)) as [sw1 out']. destruct X as [-> HRW1].
    rewrite (RW_ok _ _ HRW1). cbn [negb]. rewrite wout_eqb_refl. apply IH. assumption.
Qed.

Theorem wrun_never_stuck os1 : w_alloc_stuck (fst (wrun true w_init os1)) = false.
Proof.
  destruct (wrun_accepted os1 w_init s_init 0%nat RW_init) as [_ [sw' H]]. apply (RW_not_stuck _ _ H).
Qed.

(* the faithful run and the specification run driven by its outputs go in lock step *)
Theorem wrun_sim os : forall w sw, RW w sw ->
  let tr := combine os (snd (wrun true w os)) in
  snd (srun sw tr) = snd (wrun true w os) /\ RW (fst (wrun true w os)) (fst (srun sw tr)).
Proof.
  induction os as [|o os IH]; intros w sw HRW; cbn zeta.
  - cbn. auto.
  - rewrite wrun_cons. cbn [fst snd combine srun].
    pose proof (wstep_sim w sw o HRW) as X. destruct (wstep true w o) as [w1 out]. cbn [fst snd].
    destruct (sstep sw o (choices_of out)) as [sw1 out']. destruct X as [-> HRW1].
    destruct (IH w1 sw1 HRW1) as [I1 I2].
    destruct (srun sw1 (combine os (snd (wrun true w1 os)))) as [sw2 outs]. cbn [fst snd] in *.
    rewrite I1. auto.
Qed.
