(* C12 / C13 through whole joins: the events a join appends to the channel of a
   tracked storage are a function of the rows it delivered - one Modified per
   item fetched mutably (per mutable other-entity lookup that found something),
   one Removed per drained item, in visit order, and nothing else; nothing at all
   when the storage's emission is switched off or the storage is not tracked. *)
From SV Require Import Base.ListX Store.Raw Store.RawRefine Store.Masked Store.StoreInv Store.Events World.Env World.Join
  World.JoinProps World.JoinEvents.

Definition TInv (e : senv) : Prop := forall sid ms, NM.find sid (se_stores e) = Some ms -> exists m, MInv ms m.

(* wrapper and emission switch of a storage: constant through a join *)
Definition tag (e : senv) (sid : N) : option (wrap * bool) :=
  match NM.find sid (se_stores e) with Some ms => Some (ms_wrap ms, ms_emit ms) | None => None end.

Definition emitted (t : option (wrap * bool)) (a : jact) : list event :=
  match t with Some (w, true) => ev_of_act w a | _ => [] end.

(* a step of a join as the channel of storage [s] sees it (events most recent first); as in the ledger, a step that went
   wrong is outside the statement and stuck is sticky *)
Definition evstep (s : N) (e e' : senv) (evs : list event) : Prop :=
  TInv e' /\ (forall sid, tag e' sid = tag e sid) /\
  (cx_stuck (se_cx e') = false -> cx_stuck (se_cx e) = false /\ env_chan e' s = evs ++ env_chan e s).

Lemma evstep_refl s e : TInv e -> evstep s e e [].
Proof. intros H. split; [exact H|]. split; [reflexivity|]. intros Hs. split; [exact Hs|reflexivity]. Qed.

Lemma evstep_trans s e e1 e2 ev1 ev2 : evstep s e e1 ev1 -> evstep s e1 e2 ev2 -> evstep s e e2 (ev2 ++ ev1).
Proof.
  intros [_ [G1 H1]] [T2 [G2 H2]]. split; [exact T2|]. split; [intros sid; rewrite G2; apply G1|].
  intros Hs. destruct (H2 Hs) as [Hs1 E2]. destruct (H1 Hs1) as [Hs0 E1]. split; [exact Hs0|]. rewrite E2, E1, app_assoc. reflexivity.
Qed.

Lemma evstep_eq s e e' ev ev' : ev = ev' -> evstep s e e' ev -> evstep s e e' ev'. Proof. intros ->. exact (fun H => H). Qed.

Lemma evstep_cs s e k m : TInv e -> evstep s e (cs_put e k m) [].
Proof. intros H. split; [exact H|]. split; [reflexivity|]. intros Hs. split; [exact Hs|reflexivity]. Qed.

Lemma evstep_fail s e : TInv e -> evstep s e (env_fail e) [].
Proof. intros H. split; [exact H|]. split; [reflexivity|]. cbn [env_fail env_cx se_cx cx_fail cx_stuck]. discriminate. Qed.

Lemma TInv_put e sid ms' m' c : TInv e -> MInv ms' m' -> TInv (env_put e sid ms' c).
Proof.
  intros H HM s ms Hs. cbn [env_put se_stores] in Hs. rewrite find_add in Hs. destruct (N.eq_dec sid s); [|eapply H; exact Hs].
  injection Hs as <-. exists m'. exact HM.
Qed.

Lemma tag_put e sid ms ms' c : NM.find sid (se_stores e) = Some ms -> same_shape ms ms' ->
  forall s, tag (env_put e sid ms' c) s = tag e s.
Proof.
  intros Hf [Hw [He _]] s. unfold tag. cbn [env_put se_stores]. rewrite find_add. destruct (N.eq_dec sid s) as [<-|]; [|reflexivity].
  rewrite Hf, Hw, He. reflexivity.
Qed.

Lemma chan_put e sid ms' c s : env_chan (env_put e sid ms' c) s = if N.eq_dec sid s then ms_chan ms' else env_chan e s.
Proof. unfold env_chan. cbn [env_put se_stores]. rewrite find_add. destruct (N.eq_dec sid s); reflexivity. Qed.

Lemma same_shape_refl ms : same_shape ms ms. Proof. repeat split. Qed.

(* one primitive *)
Lemma emitted_if w b a : emitted (Some (w, b)) a = if b then ev_of_act w a else [].
Proof. destruct b; reflexivity. Qed.

Lemma evstep_jact s e sid a : TInv e ->
  evstep s e (fst (env_jact e sid a)) (if N.eq_dec sid s then emitted (tag e sid) a else []).
Proof.
  intros HT. unfold env_jact. destruct (NM.find sid (se_stores e)) as [ms|] eqn:Es.
  2:{ cbn [fst]. apply (evstep_eq s e (env_fail e) []); [destruct (N.eq_dec sid s); [unfold tag; rewrite Es|]; reflexivity|]. apply evstep_fail. exact HT. }
  destruct (HT _ _ Es) as [m HM].
  assert (tag e sid = Some (ms_wrap ms, ms_emit ms)) as Etag by (unfold tag; rewrite Es; reflexivity). rewrite Etag, emitted_if.
  (* what every case delivers *)
  assert (forall ms' m' c', MInv ms' m' -> same_shape ms ms' ->
            (cx_stuck c' = false -> cx_stuck (se_cx e) = false /\
               ms_chan ms' = (if ms_emit ms then ev_of_act (ms_wrap ms) a else []) ++ ms_chan ms) ->
            evstep s e (env_put e sid ms' c') (if N.eq_dec sid s then (if ms_emit ms then ev_of_act (ms_wrap ms) a else []) else [])) as K.
  { intros ms' m' c' HM' Sh Hc. split; [eapply TInv_put; eassumption|]. split; [apply (tag_put e sid ms ms' c' Es Sh)|].
    cbn [env_put se_cx]. intros Hs. destruct (Hc Hs) as [Hs0 Ec]. split; [exact Hs0|]. rewrite chan_put.
    destruct (N.eq_dec sid s) as [<-|]; [|reflexivity]. unfold env_chan. rewrite Es. exact Ec. }
  destruct a as [i|i touch d|i]; cbn [ms_jact].
  - destruct (NS.mem i (ms_mask ms)) eqn:Hmem.
    + destruct (u_get (ms_raw ms) i (se_cx e)) as [t c'] eqn:Eg. cbn [fst].
      apply (K ms m c' HM (same_shape_refl ms)). intros Hs.
      destruct (keys_find_some _ _ _ (MI_keys _ _ HM) Hmem) as [t0 Hf].
      rewrite (u_get_ref _ m i t0 (se_cx e) (MI_rel _ _ HM) Hf) in Eg. injection Eg as _ <-. split; [exact Hs|]. cbn [ev_of_act]. destruct (ms_emit ms); reflexivity.
    + cbn [fst]. apply (K ms m (cx_fail (se_cx e)) HM (same_shape_refl ms)). cbn [cx_fail cx_stuck]. discriminate.
  - destruct (NS.mem i (ms_mask ms)) eqn:Hmem.
    + destruct (keys_find_some _ _ _ (MI_keys _ _ HM) Hmem) as [t Hf].
      rewrite (u_get_ref _ m i t (se_cx e) (MI_rel _ _ HM) Hf).
      pose proof (ms_jact_chan ms m (JAccess i touch d) (se_cx e) HM Hmem) as Ch. cbn [ms_jact] in Ch. rewrite Hmem in Ch.
      rewrite (u_get_ref _ m i t (se_cx e) (MI_rel _ _ HM) Hf) in Ch.
      pose proof (w_access_mut_char ms m i t touch (match d with Some z => USetVal (snd t + z) | None => UNone end) (se_cx e) HM Hf) as X.
      destruct (w_access_mut ms i touch _ (se_cx e)) as [[ms' old] c']. destruct X as [_ [HM' [-> [_ [_ Sh]]]]]; [destruct d; exact I|].
      cbn [fst] in *. apply (K ms' _ (se_cx e) HM' Sh). intros Hs. split; [exact Hs|exact Ch].
    + cbn [fst]. apply (K ms m (cx_fail (se_cx e)) HM (same_shape_refl ms)). cbn [cx_fail cx_stuck]. discriminate.
  - pose proof (m_remove_char ms m i (se_cx e) HM) as X.
    pose proof (fun Hmem => ms_jact_chan ms m (JRemove i) (se_cx e) HM Hmem) as Ch. cbn [ms_jact] in Ch.
    destruct (m_remove ms i (se_cx e)) as [[ms' o] c'] eqn:Er. destruct X as [-> [HM' [Hst [_ [_ [_ Sh]]]]]].
    pose proof (MI_keys _ _ HM i) as Hk.
    destruct (NM.find i m) as [t|] eqn:Hf; cbn [fst].
    + assert (NS.mem i (ms_mask ms) = true) as Hmem by exact Hk.
      specialize (Ch Hmem). cbn [fst] in Ch. apply (K ms' _ c' HM' Sh). intros Hs. split; [congruence|exact Ch].
    + apply (K ms' _ (cx_fail c') HM' Sh). cbn [cx_fail cx_stuck]. discriminate.
Qed.

(* ------------------------------------------------------------------ *)
(* the events as a function of what the join delivered *)

Section Stream.
  Variable s : N.                              (* the storage whose channel is watched *)
  Variable tg : option (wrap * bool).          (* its wrapper and emission switch *)
  Variable hs : pvec entity.

  (* other-entity lookups of a restricted item: a mutable lookup that found something is a mutable access *)
  Fixpoint others_evs (mutably : bool) (l : list href) (os : list (option tok)) : list event :=
    match l, os with
    | h :: l', o :: os' =>
        others_evs mutably l' os' ++
        match o, pv_get hs (N.of_nat h) with
        | Some _, Some ent => emitted tg (if mutably then JAccess (fst ent) false None else JRead (fst ent))
        | _, _ => []
        end
    | _, _ => []
    end.

  Fixpoint item_evs (m : member) (i : N) (x : jitem) : list event :=
    match m, x with
    | MWrite sid touch d, _ => if N.eq_dec sid s then emitted tg (JAccess i touch d) else []
    | MDrain sid, _ => if N.eq_dec sid s then emitted tg (JRemove i) else []
    | MMaybe m', JSome y => item_evs m' i y
    | MRestrict sid mode selmod selrem d others, JPaired _ os =>
        if N.eq_dec sid s then
          others_evs (N.eqb mode 1 && Z.odd d) others os ++
          (if N.eqb mode 1 && N.eqb (N.modulo i selmod) selrem then emitted tg (JAccess i true (Some d)) else [])
        else []
    | _, _ => []
    end.

  Fixpoint items_evs (ms : list member) (i : N) (xs : list jitem) : list event :=
    match ms, xs with
    | m :: ms', x :: xs' => items_evs ms' i xs' ++ item_evs m i x
    | _, _ => []
    end.

  Fixpoint rows_evs (ms : list member) (rows : list (N * list jitem)) : list event :=
    match rows with
    | [] => []
    | (i, xs) :: r => rows_evs ms r ++ items_evs ms i xs
    end.

  Definition jout_evs (ms : list member) (j : jout) : list event :=
    match j with
    | JItems rows => rows_evs ms rows
    | JOne (Some (i, xs)) => items_evs ms i xs
    | _ => []
    end.

  Definition tagged (e : senv) : Prop := TInv e /\ tag e s = tg.

  Lemma tagged_step e e' evs : tagged e -> evstep s e e' evs -> tagged e'.
  Proof. intros [_ Ht] [T' [G _]]. split; [exact T'|]. rewrite G. exact Ht. Qed.

  Lemma emitted_read t i : emitted t (JRead i) = [].
  Proof. destruct t as [[w [|]]|]; reflexivity. Qed.

  Lemma jact_step e sid a : tagged e -> evstep s e (fst (env_jact e sid a)) (if N.eq_dec sid s then emitted tg a else []).
  Proof.
    intros [HT Ht]. pose proof (evstep_jact s e sid a HT) as X. destruct (N.eq_dec sid s) as [->|]; [rewrite Ht in X|]; exact X.
  Qed.

  Lemma others_lookup_ev av sid mutably l : forall e, tagged e ->
    evstep s e (fst (others_lookup av hs sid mutably l e))
           (if N.eq_dec sid s then others_evs mutably l (snd (others_lookup av hs sid mutably l e)) else []).
  Proof.
    induction l as [|h l IH]; intros e HT; cbn [others_lookup].
    - cbn [fst snd others_evs]. apply (evstep_eq s e e []); [destruct (N.eq_dec sid s); reflexivity|]. apply evstep_refl. exact (proj1 HT).
    - destruct (pv_get hs (N.of_nat h)) as [ent|] eqn:Eh.
      + destruct (NS.mem (fst ent) (env_mask e sid) && av_alive av ent).
        * pose proof (jact_step e sid (if mutably then JAccess (fst ent) false None else JRead (fst ent)) HT) as X.
          destruct (env_jact e sid _) as [e1 t]. cbn [fst] in X. specialize (IH e1 (tagged_step _ _ _ HT X)).
          destruct (others_lookup av hs sid mutably l e1) as [e2 r]. cbn [fst snd others_evs] in *. rewrite ?Eh.
          pose proof (evstep_trans _ _ _ _ _ _ X IH) as Y. destruct (N.eq_dec sid s); [exact Y|]. exact Y.
        * specialize (IH e HT). destruct (others_lookup av hs sid mutably l e) as [e2 r]. cbn [fst snd others_evs] in *. rewrite ?Eh.
          destruct (N.eq_dec sid s); [rewrite app_nil_r|]; exact IH.
      + specialize (IH e HT). destruct (others_lookup av hs sid mutably l e) as [e2 r]. cbn [fst snd others_evs] in *. rewrite ?Eh.
        destruct (N.eq_dec sid s); [rewrite app_nil_r|]; exact IH.
  Qed.

  Lemma m_get_ev av excl eids m i : forall e, tagged e ->
    evstep s e (fst (m_get av hs excl eids m i e)) (item_evs m i (snd (m_get av hs excl eids m i e))).
  Proof.
    induction m as [sid|sid touch d| |l|sid|m IH|sid mode selmod selrem d others|k mode d|sid|bop ba bb]; intros e HT; cbn [m_get].
    - pose proof (jact_step e sid (JRead i) HT) as X. rewrite emitted_read in X. destruct (env_jact e sid _) as [e1 t]. cbn [fst snd item_evs] in *.
      destruct (N.eq_dec sid s); exact X.
    - pose proof (jact_step e sid (JAccess i touch d) HT) as X. destruct (env_jact e sid _) as [e1 t]. exact X.
    - apply evstep_refl. exact (proj1 HT).
    - apply evstep_refl. exact (proj1 HT).
    - apply evstep_refl. exact (proj1 HT).
    - destruct (m_has e eids m i); [|apply evstep_refl; exact (proj1 HT)]. specialize (IH e HT).
      destruct (m_get av hs excl eids m i e) as [e1 x]. exact IH.
    - pose proof (jact_step e sid (JRead i) HT) as X. rewrite emitted_read in X. destruct (env_jact e sid (JRead i)) as [e1 t]. cbn [fst] in X.
      assert (evstep s e e1 []) as X0 by (destruct (N.eq_dec sid s); exact X). clear X.
      pose proof (tagged_step _ _ _ HT X0) as HT1.
      set (sel := N.eqb mode 1 && N.eqb (N.modulo i selmod) selrem).
      assert (evstep s e1 (if sel then fst (env_jact e1 sid (JAccess i true (Some d))) else e1)
                     (if N.eq_dec sid s then (if sel then emitted tg (JAccess i true (Some d)) else []) else [])) as X2.
      { destruct sel; [apply jact_step; exact HT1|]. apply (evstep_eq s e1 e1 []); [destruct (N.eq_dec sid s); reflexivity|]. apply evstep_refl. exact (proj1 HT1). }
      pose proof (tagged_step _ _ _ HT1 X2) as HT2.
      pose proof (evstep_trans _ _ _ _ _ _ X0 X2) as X02. rewrite app_nil_r in X02.
      destruct (negb (N.eqb mode 1) || excl).
      + pose proof (others_lookup_ev av sid (N.eqb mode 1 && Z.odd d) others _ HT2) as X3.
        destruct (others_lookup av hs sid _ others _) as [e3 os]. cbn [fst snd item_evs] in *. fold sel.
        pose proof (evstep_trans _ _ _ _ _ _ X02 X3) as Y. destruct (N.eq_dec sid s); exact Y.
      + cbn [fst snd item_evs others_evs]. fold sel. destruct others; cbn [others_evs app]; destruct (N.eq_dec sid s); exact X02.
    - destruct (NM.find i (cs_get e k)) as [a|]; cbn [fst snd item_evs]; [|apply evstep_fail; exact (proj1 HT)].
      destruct (N.eqb mode 1); [apply evstep_cs; exact (proj1 HT)|]. destruct (N.eqb mode 2); [apply evstep_cs|apply evstep_refl]; exact (proj1 HT).
    - pose proof (jact_step e sid (JRemove i) HT) as X. destruct (env_jact e sid _) as [e1 t]. exact X.
    - apply evstep_refl. exact (proj1 HT).
  Qed.

  Lemma visit_members_ev av excl eids ms i : forall e, tagged e ->
    evstep s e (fst (visit_members av hs excl eids ms i e)) (items_evs ms i (snd (visit_members av hs excl eids ms i e))).
  Proof.
    induction ms as [|m r IH]; intros e HT; cbn [visit_members]; [apply evstep_refl; exact (proj1 HT)|].
    pose proof (m_get_ev av excl eids m i e HT) as X. destruct (m_get av hs excl eids m i e) as [e1 x]. cbn [fst snd] in X.
    specialize (IH e1 (tagged_step _ _ _ HT X)). destruct (visit_members av hs excl eids r i e1) as [e2 xs]. cbn [fst snd items_evs] in *.
    exact (evstep_trans _ _ _ _ _ _ X IH).
  Qed.

  Lemma visit_keys_ev av excl eids ms keys : forall e, tagged e ->
    evstep s e (fst (visit_keys av hs excl eids ms keys e)) (rows_evs ms (snd (visit_keys av hs excl eids ms keys e))).
  Proof.
    induction keys as [|i keys IH]; intros e HT; cbn [visit_keys]; [apply evstep_refl; exact (proj1 HT)|].
    pose proof (visit_members_ev av excl eids ms i e HT) as X.
    destruct (visit_members av hs excl eids ms i e) as [e1 xs]. cbn [fst snd] in X.
    specialize (IH e1 (tagged_step _ _ _ HT X)). destruct (visit_keys av hs excl eids ms keys e1) as [e2 r]. cbn [fst snd rows_evs] in *.
    exact (evstep_trans _ _ _ _ _ _ X IH).
  Qed.

  Lemma consume_cs_ev ms : forall e, TInv e -> evstep s e (consume_cs ms e) [].
  Proof.
    induction ms as [|m r IH]; intros e HT; cbn [consume_cs]; [apply evstep_refl; exact HT|].
    destruct (m_taken m) as [k|]; [|apply IH; exact HT].
    exact (evstep_trans _ _ _ _ _ _ (evstep_cs s e k (NM.empty Z) HT) (IH (cs_put e k (NM.empty Z)) HT)).
  Qed.

  Theorem env_join_ev e av eids k ms : tagged e ->
    evstep s e (fst (env_join e av eids hs k ms)) (jout_evs ms (snd (env_join e av eids hs k ms))).
  Proof.
    intros HT. pose proof (proj1 HT) as HI. unfold env_join. destruct (join_ok e k ms); cbn [negb]; [|apply evstep_refl; exact HI].
    destruct (handles_ok hs k ms); cbn [negb]; [|apply evstep_refl; exact HI].
    destruct (forallb (m_registered e) ms); cbn [negb]; [|apply evstep_fail; exact HI].
    destruct k as [lim|lim|n|h|i].
    - destruct (jkeys e eids ms) as [keys|]; [|apply evstep_refl; exact HI].
      pose proof (visit_keys_ev av (is_lending (JSeq lim)) eids ms (match lim with Some n => firstn n keys | None => keys end) e HT) as X.
      destruct (visit_keys av hs _ eids ms _ e) as [e1 r]. cbn [fst snd jout_evs] in *.
      exact (evstep_trans _ _ _ _ _ _ X (consume_cs_ev ms e1 (proj1 X))).
    - destruct (jkeys e eids ms) as [keys|]; [|apply evstep_refl; exact HI].
      pose proof (visit_keys_ev av (is_lending (JLend lim)) eids ms (match lim with Some n => firstn n keys | None => keys end) e HT) as X.
      destruct (visit_keys av hs _ eids ms _ e) as [e1 r]. cbn [fst snd jout_evs] in *.
      exact (evstep_trans _ _ _ _ _ _ X (consume_cs_ev ms e1 (proj1 X))).
    - destruct (jkeys e eids ms) as [keys|]; [|apply evstep_refl; exact HI].
      pose proof (visit_keys_ev av (is_lending (JPar n)) eids ms keys e HT) as X.
      destruct (visit_keys av hs _ eids ms _ e) as [e1 r]. exact X.
    - destruct (pv_get hs (N.of_nat h)) as [ent|]; [|apply evstep_refl; exact HI].
      destruct (all_have e eids ms (fst ent) && av_alive av ent); [|apply evstep_refl; exact HI].
      pose proof (visit_members_ev av (is_lending (JLendGet h)) eids ms (fst ent) e HT) as X.
      destruct (visit_members av hs _ eids ms _ e) as [e1 r]. exact X.
    - destruct (all_have e eids ms i); [|apply evstep_refl; exact HI].
      pose proof (visit_members_ev av (is_lending (JLendIdx i)) eids ms i e HT) as X.
      destruct (visit_members av hs _ eids ms _ e) as [e1 r]. exact X.
  Qed.
End Stream.

(* the whole join: what it appends to the channel of storage s is what its rows say *)
Theorem join_event_stream e av eids hs k ms s : TInv e ->
  cx_stuck (se_cx (fst (env_join e av eids hs k ms))) = false ->
  env_chan (fst (env_join e av eids hs k ms)) s = jout_evs s (tag e s) hs ms (snd (env_join e av eids hs k ms)) ++ env_chan e s.
Proof.
  intros HT Hs. destruct (env_join_ev s (tag e s) hs e av eids k ms (conj HT eq_refl)) as [_ [_ H]]. exact (proj2 (H Hs)).
Qed.
