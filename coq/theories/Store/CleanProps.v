(* C08, storage level: what clean() destroys.  VecStorage destroys exactly the
   initialised slots named by the mask, each once, and marks them moved-out;
   the map kinds destroy every value once; the null storage materialises one
   unit value per member. *)
From SV Require Import Base.ListX Store.Raw.

Definition slot_uid (s : vec_st) (i : N) : N :=
  match NM.find i (v_slots s) with Some (SInit t) | Some (SMoved t) => fst t | None => 0 end.

Lemma vec_clean_drops ids : forall s c, NoDup ids ->
  (forall i, In i ids -> i < v_len s /\ exists t, NM.find i (v_slots s) = Some (SInit t)) ->
  cx_drops (snd (vec_clean s ids c)) = rev (map (slot_uid s) ids) ++ cx_drops c /\
  cx_stuck (snd (vec_clean s ids c)) = cx_stuck c /\
  (forall i, In i ids -> exists t, NM.find i (v_slots (fst (vec_clean s ids c))) = Some (SMoved t) /\ fst t = slot_uid s i) /\
  (forall j, ~ In j ids -> NM.find j (v_slots (fst (vec_clean s ids c))) = NM.find j (v_slots s)) /\
  v_len (fst (vec_clean s ids c)) = v_len s.
Proof.
  induction ids as [|i ids IH]; intros s c Hnd H; cbn [vec_clean].
  - cbn [fst snd map rev app]. repeat split; auto. intros i [].
  - inversion Hnd as [|? ? Hni Hnd']; subst.
    destruct (H i (or_introl eq_refl)) as [Hlt [t Hf]].
    destruct (N.ltb_spec i (v_len s)); [|lia]. rewrite Hf.
    set (s1 := {| v_len := v_len s; v_slots := NM.add i (SMoved t) (v_slots s) |}).
    assert (forall j, j <> i -> NM.find j (v_slots s1) = NM.find j (v_slots s)) as Hother.
    { intros j Hj. subst s1. cbn [v_slots]. rewrite find_add. destruct (N.eq_dec i j); [congruence|reflexivity]. }
    assert (forall j, In j ids -> slot_uid s1 j = slot_uid s j) as Huid.
    { intros j Hj. unfold slot_uid. rewrite Hother; [reflexivity|]. intros ->. contradiction. }
    destruct (IH s1 (cx_drop c t) Hnd') as [I1 [I2 [I3 [I4 I5]]]].
    { intros j Hj. destruct (H j (or_intror Hj)) as [Hl [u Hu]]. split; [exact Hl|]. exists u.
      rewrite Hother; [exact Hu|]. intros ->. contradiction. }
    split; [|split; [|split; [|split]]].
    + assert (slot_uid s i = fst t) as Hi by (unfold slot_uid; rewrite Hf; reflexivity).
      rewrite I1. cbn [map rev cx_drop cx_drops]. rewrite (map_ext_in _ _ ids Huid), Hi.
      rewrite <- app_assoc. reflexivity.
    + rewrite I2. reflexivity.
    + intros j [<-|Hj].
      * exists t. split; [|unfold slot_uid; rewrite Hf; reflexivity].
        rewrite I4 by assumption. subst s1. cbn [v_slots]. rewrite find_add. destruct (N.eq_dec i i); [reflexivity|congruence].
      * destruct (I3 j Hj) as [u [U1 U2]]. exists u. split; [assumption|]. rewrite U2. apply Huid. assumption.
    + intros j Hj. rewrite I4 by (intros Hin; apply Hj; right; assumption). apply Hother. intros ->. apply Hj. left. reflexivity.
    + rewrite I5. reflexivity.
Qed.

Lemma cx_drop_all_drops l : forall c, cx_drops (cx_drop_all c l) = rev (map fst l) ++ cx_drops c.
Proof.
  induction l as [|t l IH]; intros c; cbn [cx_drop_all map rev app]; [reflexivity|].
  rewrite IH. cbn [cx_drop cx_drops]. rewrite <- app_assoc. reflexivity.
Qed.

Lemma map_clean_drops m mask c :
  u_clean (RMap m) mask c = (RMap (NM.empty tok), cx_drop_all c (map snd (NM.elements m))) /\
  cx_drops (snd (u_clean (RMap m) mask c)) = rev (map (fun p => fst (snd p)) (NM.elements m)) ++ cx_drops c.
Proof. split; [reflexivity|]. cbn [u_clean snd]. rewrite cx_drop_all_drops, map_map. reflexivity. Qed.

Lemma null_clean_drops ids : forall c, cx_drops (null_clean ids c) = repeat (fst unit_tok) (length ids) ++ cx_drops c.
Proof.
  induction ids as [|i ids IH]; intros c; cbn [null_clean length repeat app]; [reflexivity|].
  rewrite IH. cbn [cx_drop cx_drops]. clear. induction (length ids) as [|n IHn]; cbn [repeat app]; [reflexivity|].
  rewrite IHn. reflexivity.
Qed.
