(* C04 core: every raw storage kind, used according to the protocol of
   UnprotectedStorage (insert only absent ids, get/write/remove only present
   ids, clean with the true mask), behaves as the plain map [NM.t tok]:
   same results, never stuck, relation preserved.  Arbitrary indices. *)
From SV Require Import Base.ListX Base.PvecFacts Store.Raw.

Definition rrel (r : raw) (m : NM.t tok) : Prop :=
  match r with
  | RVec s => forall i t, NM.find i m = Some t -> i < v_len s /\ NM.find i (v_slots s) = Some (SInit t)
  | RDense s =>
      vlen (d_eid s) = vlen (d_data s) /\
      (forall k, k < vlen (d_data s) ->
         exists i t, pv_get (d_eid s) k = Some i /\ pv_get (d_data s) k = Some t /\
                     pv_get (d_did s) i = Some k /\ NM.find i m = Some t) /\
      (forall i t, NM.find i m = Some t ->
         exists k, pv_get (d_did s) i = Some k /\ pv_get (d_eid s) k = Some i /\ pv_get (d_data s) k = Some t)
  | RDefault cells =>
      (forall i t, NM.find i m = Some t -> pv_get cells i = Some t) /\
      (forall k, k < vlen cells -> NM.find k m = None -> pv_get cells k = Some default_tok)
  | RMap m' => forall i, NM.find i m' = NM.find i m
  | RNull => forall i t, NM.find i m = Some t -> t = unit_tok
  end.

Ltac nrm := cbn [rrel fst snd d_data d_eid d_did v_len v_slots].

(* values acceptable for a kind: the null storage only holds the unit value *)
Definition val_ok (r : raw) (v : tok) : Prop := match r with RNull => v = unit_tok | _ => True end.

Lemma rrel_new k : rrel (raw_new k) (NM.empty tok).
Proof.
  assert (forall i t, NM.find i (NM.empty tok) = Some t -> False) as He.
  { intros i t H. rewrite NMF.empty_o in H. discriminate. }
  destruct k; unfold raw_new, rrel.
  - intros i t H. destruct (He _ _ H).
  - cbn [d_data d_eid d_did]. split; [reflexivity|]. split.
    + intros k Hk. unfold pv_empty in Hk; cbn [vlen] in Hk. lia.
    + intros i t H. destruct (He _ _ H).
  - split.
    + intros i t H. destruct (He _ _ H).
    + intros k Hk. unfold pv_empty in Hk; cbn [vlen] in Hk. lia.
  - intros i. reflexivity.
  - intros i. reflexivity.
  - intros i t H. destruct (He _ _ H).
Qed.

(* ------------------------------------------------------------------ *)
(* get *)

Lemma u_get_ref r m i t c : rrel r m -> NM.find i m = Some t -> u_get r i c = (t, c).
Proof.
  intros HR Hf. destruct r as [s|s|cells|m'|]; cbn [u_get rrel] in *.
  - destruct (HR i t Hf) as [Hl Hs]. destruct (N.ltb_spec i (v_len s)); [|lia]. rewrite Hs. reflexivity.
  - destruct HR as [_ [_ H3]]. destruct (H3 i t Hf) as [k [H1 [_ H2]]]. rewrite H1, H2. reflexivity.
  - destruct HR as [H1 _]. rewrite (H1 i t Hf). reflexivity.
  - rewrite HR, Hf. reflexivity.
  - rewrite (HR i t Hf). reflexivity.
Qed.

(* ------------------------------------------------------------------ *)
(* insert of an absent id *)

Lemma fill_defaults_spec n : forall cells c,
  let r := fill_defaults cells n c in
  vlen (fst r) = vlen cells + N.of_nat n /\ cx_stuck (snd r) = cx_stuck c /\ cx_drops (snd r) = cx_drops c /\
  (forall k, k < vlen cells -> pv_get (fst r) k = pv_get cells k) /\
  (forall k, vlen cells <= k < vlen cells + N.of_nat n -> pv_get (fst r) k = Some default_tok).
Proof.
  induction n as [|n IH]; intros cells c; cbn [fill_defaults].
  - cbn [fst snd]. repeat split; auto; try lia; intros k Hk; lia.
  - destruct (IH (pv_push cells default_tok) (cx_mint c)) as [H1 [H2 [H3 [H4 H5]]]].
    assert (vlen (pv_push cells default_tok) = vlen cells + 1) as Hp by reflexivity.
    rewrite Hp in *. repeat split.
    + lia.
    + rewrite H2. reflexivity.
    + rewrite H3. reflexivity.
    + intros k Hk. rewrite H4 by lia. apply pv_get_push_lt. assumption.
    + intros k Hk. destruct (N.eq_dec k (vlen cells)) as [->|Hne].
      * rewrite H4 by lia. apply pv_get_push_eq.
      * apply H5. lia.
Qed.

Lemma u_insert_ref r m i v c : rrel r m -> NM.find i m = None -> val_ok r v ->
  rrel (fst (u_insert r i v c)) (NM.add i v m) /\ cx_stuck (snd (u_insert r i v c)) = cx_stuck c.
Proof.
  intros HR Hf Hv. destruct r as [s|s|cells|m'|]; cbn [u_insert rrel val_ok fst snd] in *.
  - split; [|reflexivity]. intros j t Hj. unfold grow_len. cbn [v_len v_slots]. rewrite find_add in Hj. rewrite find_add.
    destruct (N.eq_dec i j) as [<-|Hne].
    + inversion Hj; subst. split; [|reflexivity]. destruct (N.leb_spec (v_len s) i); lia.
    + destruct (HR j t Hj) as [H1 H2]. split; [|assumption]. destruct (N.leb_spec (v_len s) i); lia.
  - destruct HR as [H1 [H2 H3]]. split; [|reflexivity].
    set (n := vlen (d_data s)) in *.
    assert (forall j, j <> i -> pv_get {| vlen := grow_len (vlen (d_did s)) i; vmap := NM.add i n (vmap (d_did s)) |} j = Some n -> False \/ True) as _ by auto.
    assert (forall j k, pv_get (d_did s) j = Some k -> j <> i ->
              pv_get {| vlen := grow_len (vlen (d_did s)) i; vmap := NM.add i n (vmap (d_did s)) |} j = Some k) as Hdid.
    { intros j k Hj Hne. pose proof (pv_get_lt _ _ _ Hj) as Hlt. rewrite pv_get_find in Hj by assumption.
      rewrite pv_get_find; cbn [vlen vmap].
      - rewrite NMF.add_neq_o by auto. assumption.
      - unfold grow_len. destruct (N.leb_spec (vlen (d_did s)) i); lia. }
    assert (pv_get {| vlen := grow_len (vlen (d_did s)) i; vmap := NM.add i n (vmap (d_did s)) |} i = Some n) as Hdidi.
    { rewrite pv_get_find; cbn [vlen vmap].
      - apply NMF.add_eq_o. reflexivity.
      - unfold grow_len. destruct (N.leb_spec (vlen (d_did s)) i); lia. }
    cbn [d_data d_eid d_did]. split; [unfold pv_push; cbn [vlen]; lia|]. split.
    + intros k Hk. unfold pv_push in Hk; cbn [vlen] in Hk. fold n in Hk.
      destruct (N.eq_dec k n) as [->|Hne].
      * exists i, v. rewrite !pv_get_push_all. rewrite H1. fold n.
        destruct (N.eq_dec n n); [|congruence]. repeat split; auto. apply NMF.add_eq_o. reflexivity.
      * destruct (H2 k) as [j [t [E1 [E2 [E3 E4]]]]]; [lia|].
        assert (j <> i) by (intros ->; congruence).
        exists j, t. rewrite !pv_get_push_all. rewrite H1. fold n.
        destruct (N.eq_dec k n); [congruence|]. repeat split; auto. rewrite NMF.add_neq_o by auto. assumption.
    + intros j t Hj. rewrite find_add in Hj. destruct (N.eq_dec i j) as [<-|Hne].
      * inversion Hj; subst. exists n. rewrite !pv_get_push_all. rewrite H1. fold n.
        destruct (N.eq_dec n n); [|congruence]. auto.
      * destruct (H3 j t Hj) as [k [E1 [E2 E3]]]. exists k. rewrite !pv_get_push_all. rewrite H1. fold n.
        pose proof (pv_get_lt _ _ _ E3). destruct (N.eq_dec k n); [lia|]. auto.
  - destruct HR as [H1 H2]. destruct (N.leb_spec (vlen cells) i) as [Hle|Hgt].
    + pose proof (fill_defaults_spec (N.to_nat (i - vlen cells)) cells c) as X.
      destruct (fill_defaults cells (N.to_nat (i - vlen cells)) c) as [cells' c']. cbn [fst snd] in *.
      destruct X as [X1 [X2 [_ [X4 X5]]]]. split; [|assumption].
      assert (vlen cells' = i) as Hlen by lia. split.
      * intros j t Hj. rewrite find_add in Hj. rewrite pv_get_push_all, Hlen.
        destruct (N.eq_dec i j) as [<-|Hne].
        -- destruct (N.eq_dec i i); [assumption|congruence].
        -- destruct (N.eq_dec j i); [congruence|]. pose proof (pv_get_lt _ _ _ (H1 j t Hj)).
           rewrite X4 by assumption. auto.
      * intros k Hk Hn. unfold pv_push in Hk; cbn [vlen] in Hk. rewrite find_add in Hn.
        destruct (N.eq_dec i k); [discriminate|]. rewrite pv_get_push_all, Hlen. destruct (N.eq_dec k i); [congruence|].
        destruct (N.lt_ge_cases k (vlen cells)); [rewrite X4 by assumption; auto | apply X5; lia].
    + rewrite (H2 i Hgt Hf). cbn [fst snd cx_drop cx_stuck]. split; [|reflexivity]. split.
      * intros j t Hj. rewrite find_add in Hj. rewrite pv_get_set.
        destruct (N.eq_dec i j) as [<-|Hne].
        -- destruct (N.ltb_spec i (vlen cells)); [assumption|lia].
        -- pose proof (pv_get_lt _ _ _ (H1 j t Hj)). destruct (N.ltb_spec j (vlen cells)); [auto|lia].
      * intros k Hk Hn. unfold pv_set in Hk; cbn [vlen] in Hk. rewrite find_add in Hn.
        destruct (N.eq_dec i k) as [|Hik]; [discriminate|]. rewrite pv_get_set.
        destruct (N.ltb_spec k (vlen cells)); [|lia]. destruct (N.eq_dec i k); [congruence|auto].
  - rewrite HR, Hf. split; [|reflexivity]. intros j. rewrite !find_add, HR. reflexivity.
  - split; [|reflexivity]. intros j t Hj. rewrite find_add in Hj. destruct (N.eq_dec i j); [congruence|eauto].
Qed.

(* ------------------------------------------------------------------ *)
(* write through get_mut *)

Lemma u_write_ref r m i t v c : rrel r m -> NM.find i m = Some t -> val_ok r v ->
  rrel (fst (u_write r i v c)) (NM.add i v m) /\ snd (u_write r i v c) = c.
Proof.
  intros HR Hf Hv. destruct r as [s|s|cells|m'|]; cbn [u_write rrel val_ok] in *.
  - destruct (HR i t Hf) as [Hl Hs]. destruct (N.ltb_spec i (v_len s)); [|lia]. rewrite Hs. nrm.
    split; [|reflexivity]. intros j u Hj. rewrite find_add in Hj. rewrite find_add.
    destruct (N.eq_dec i j) as [<-|Hne]; [inversion Hj; auto | apply HR; assumption].
  - destruct HR as [H1 [H2 H3]]. destruct (H3 i t Hf) as [d [E1 [E2 E3]]]. rewrite E1, E3. nrm.
    split; [|reflexivity]. pose proof (pv_get_lt _ _ _ E3) as Hd.
    split; [unfold pv_set; cbn [vlen]; assumption|]. split.
    + intros k Hk. unfold pv_set in Hk; cbn [vlen] in Hk. destruct (H2 k Hk) as [j [u [F1 [F2 [F3 F4]]]]].
      rewrite pv_get_set. destruct (N.ltb_spec k (vlen (d_data s))); [|lia].
      destruct (N.eq_dec d k) as [<-|Hne].
      * assert (j = i) by congruence. subst j. exists i, v. repeat split; auto. rewrite find_add.
        destruct (N.eq_dec i i); [reflexivity|congruence].
      * exists j, u. assert (j <> i) by (intros ->; congruence). repeat split; auto. rewrite find_add.
        destruct (N.eq_dec i j); [congruence|assumption].
    + intros j u Hj. rewrite find_add in Hj. destruct (N.eq_dec i j) as [<-|Hne].
      * inversion Hj; subst. exists d. repeat split; auto. rewrite pv_get_set.
        destruct (N.ltb_spec d (vlen (d_data s))); [|lia]. destruct (N.eq_dec d d); [reflexivity|congruence].
      * destruct (H3 j u Hj) as [k [G1 [G2 G3]]]. exists k. repeat split; auto. rewrite pv_get_set.
        pose proof (pv_get_lt _ _ _ G3). destruct (N.ltb_spec k (vlen (d_data s))); [|lia].
        destruct (N.eq_dec d k) as [<-|]; [congruence|assumption].
  - destruct HR as [H1 H2]. rewrite (H1 i t Hf). nrm. split; [|reflexivity].
    pose proof (pv_get_lt _ _ _ (H1 i t Hf)) as Hi. split.
    + intros j u Hj. rewrite find_add in Hj. rewrite pv_get_set. destruct (N.eq_dec i j) as [<-|Hne].
      * destruct (N.ltb_spec i (vlen cells)); [assumption|lia].
      * pose proof (pv_get_lt _ _ _ (H1 j u Hj)). destruct (N.ltb_spec j (vlen cells)); [auto|lia].
    + intros k Hk Hn. unfold pv_set in Hk; cbn [vlen] in Hk. rewrite find_add in Hn.
      destruct (N.eq_dec i k) as [|Hik]; [discriminate|]. rewrite pv_get_set.
      destruct (N.ltb_spec k (vlen cells)); [|lia]. destruct (N.eq_dec i k); [congruence|auto].
  - rewrite HR, Hf. nrm. split; [|reflexivity]. intros j. rewrite !find_add, HR. reflexivity.
  - nrm. split; [|reflexivity]. intros j u Hj. rewrite find_add in Hj.
    destruct (N.eq_dec i j); [congruence|eauto].
Qed.

(* ------------------------------------------------------------------ *)
(* remove of a present id *)

Lemma u_remove_ref r m i t c : rrel r m -> NM.find i m = Some t ->
  let '(r', t', c') := u_remove r i c in
  t' = t /\ rrel r' (NM.remove i m) /\ cx_stuck c' = cx_stuck c /\ cx_drops c' = cx_drops c.
Proof.
  intros HR Hf. destruct r as [s|s|cells|m'|]; cbn [u_remove rrel] in *.
  - destruct (HR i t Hf) as [Hl Hs]. destruct (N.ltb_spec i (v_len s)); [|lia]. rewrite Hs.
    nrm. split; [reflexivity|]. split; [|auto]. intros j u Hj. rewrite find_remove in Hj. rewrite find_add.
    destruct (N.eq_dec i j); [discriminate|]. apply HR. assumption.
  - destruct HR as [H1 [H2 H3]]. destruct (H3 i t Hf) as [d [E1 [E2 E3]]]. rewrite E1.
    set (n := vlen (d_data s)) in *. pose proof (pv_get_lt _ _ _ E3) as Hd. fold n in Hd.
    destruct (H2 (n - 1)) as [last [tl [L1 [L2 [L3 L4]]]]]; [lia|].
    rewrite pv_last_get, H1. fold n. destruct (N.eqb_spec n 0); [lia|]. rewrite L1.
    pose proof (pv_get_lt _ _ _ L3) as Hlast. destruct (N.ltb_spec last (vlen (d_did s))); [|lia].
    rewrite (pv_swap_remove_spec (d_eid s) d i last) by (rewrite ?H1; assumption).
    rewrite (pv_swap_remove_spec (d_data s) d t tl) by assumption.
    (* eid is injective *)
    assert (forall k1 k2 j, pv_get (d_eid s) k1 = Some j -> pv_get (d_eid s) k2 = Some j -> k1 = k2) as Hinj.
    { intros k1 k2 j G1 G2. pose proof (pv_get_lt _ _ _ G1) as B1. pose proof (pv_get_lt _ _ _ G2) as B2.
      rewrite H1 in B1, B2. destruct (H2 k1 B1) as [j1 [? [A1 [_ [A3 _]]]]]. destruct (H2 k2 B2) as [j2 [? [A1' [_ [A3' _]]]]].
      congruence. }
    nrm. split; [reflexivity|]. split; [|auto]. split; [|split].
    + rewrite H1. reflexivity.
    + intros k Hk. cbn [vlen] in Hk. fold n in Hk. rewrite !pv_get_swap_removed. rewrite H1. fold n.
      destruct (N.ltb_spec k (n - 1)); [|lia].
      destruct (N.eq_dec d k) as [<-|Hne].
      * (* the last element moved here *)
        exists last, tl. assert (last <> i) by (intros ->; assert (n - 1 = d) by (apply (Hinj _ _ i); assumption); lia).
        repeat split; auto.
        -- rewrite pv_get_set. destruct (N.ltb_spec last (vlen (d_did s))); [|lia].
           destruct (N.eq_dec last last); [reflexivity|congruence].
        -- rewrite find_remove. destruct (N.eq_dec i last); [congruence|assumption].
      * destruct (H2 k) as [j [u [F1 [F2 [F3 F4]]]]]; [lia|].
        assert (j <> last) by (intros ->; assert (k = n - 1) by (apply (Hinj _ _ last); assumption); lia).
        assert (j <> i) by (intros ->; assert (k = d) by congruence; congruence).
        exists j, u. repeat split; auto.
        -- rewrite pv_get_set. pose proof (pv_get_lt _ _ _ F3). destruct (N.ltb_spec j (vlen (d_did s))); [|lia].
           destruct (N.eq_dec last j); [congruence|assumption].
        -- rewrite find_remove. destruct (N.eq_dec i j); [congruence|assumption].
    + intros j u Hj. rewrite find_remove in Hj. destruct (N.eq_dec i j) as [|Hij]; [discriminate|].
      destruct (H3 j u Hj) as [k [G1 [G2 G3]]]. pose proof (pv_get_lt _ _ _ G3) as Hk. fold n in Hk.
      assert (k <> d) by (intros ->; congruence).
      destruct (N.eq_dec k (n - 1)) as [->|Hkn].
      * assert (j = last) by congruence. subst j. exists d. rewrite !pv_get_swap_removed, H1. fold n.
        destruct (N.ltb_spec d (n - 1)); [|lia]. destruct (N.eq_dec d d); [|congruence].
        rewrite pv_get_set. destruct (N.ltb_spec last (vlen (d_did s))); [|lia].
        destruct (N.eq_dec last last); [|congruence]. repeat split; auto. congruence.
      * assert (j <> last) by (intros ->; assert (k = n - 1) by (apply (Hinj _ _ last); assumption); lia).
        exists k. rewrite !pv_get_swap_removed, H1. fold n.
        destruct (N.ltb_spec k (n - 1)); [|lia]. destruct (N.eq_dec d k); [congruence|].
        rewrite pv_get_set. pose proof (pv_get_lt _ _ _ G1). destruct (N.ltb_spec j (vlen (d_did s))); [|lia].
        destruct (N.eq_dec last j); [congruence|]. auto.
  - destruct HR as [H1 H2]. rewrite (H1 i t Hf). pose proof (pv_get_lt _ _ _ (H1 i t Hf)) as Hi.
    nrm. split; [reflexivity|]. split; [|cbn; auto]. split.
    + intros j u Hj. rewrite find_remove in Hj. destruct (N.eq_dec i j) as [|Hij]; [discriminate|].
      rewrite pv_get_set. pose proof (pv_get_lt _ _ _ (H1 j u Hj)). destruct (N.ltb_spec j (vlen cells)); [|lia].
      destruct (N.eq_dec i j); [congruence|auto].
    + intros k Hk Hn. unfold pv_set in Hk; cbn [vlen] in Hk. rewrite find_remove in Hn. rewrite pv_get_set.
      destruct (N.ltb_spec k (vlen cells)); [|lia]. destruct (N.eq_dec i k); [reflexivity|auto].
  - rewrite HR, Hf. nrm. split; [reflexivity|]. split; [|auto]. intros j. rewrite !find_remove, HR. reflexivity.
  - nrm. split; [symmetry; eauto|]. split; [|auto]. intros j u Hj. rewrite find_remove in Hj. destruct (N.eq_dec i j); [discriminate|eauto].
Qed.

(* ------------------------------------------------------------------ *)
(* clean with the true mask *)

Lemma cx_drop_all_stuck l : forall c, cx_stuck (cx_drop_all c l) = cx_stuck c.
Proof. induction l as [|t l IH]; intros c; cbn [cx_drop_all]; [reflexivity|]. rewrite IH. reflexivity. Qed.

Lemma null_clean_stuck l : forall c, cx_stuck (null_clean l c) = cx_stuck c.
Proof. induction l as [|t l IH]; intros c; cbn [null_clean]; [reflexivity|]. rewrite IH. reflexivity. Qed.

Lemma vec_clean_stuck ids : forall s c, NoDup ids ->
  (forall i, In i ids -> i < v_len s -> exists t, NM.find i (v_slots s) = Some (SInit t)) ->
  cx_stuck (snd (vec_clean s ids c)) = cx_stuck c.
Proof.
  induction ids as [|i ids IH]; intros s c Hnd H; cbn [vec_clean]; [reflexivity|].
  inversion Hnd as [|? ? Hni Hnd']; subst.
  destruct (N.ltb_spec i (v_len s)) as [Hlt|Hge].
  - destruct (H i (or_introl eq_refl) Hlt) as [t Ht]. rewrite Ht. rewrite IH; [reflexivity | assumption|].
    intros j Hj Hjl. cbn [v_len v_slots] in *. rewrite find_add. destruct (N.eq_dec i j) as [<-|]; [contradiction|].
    apply H; [right; assumption | assumption].
  - apply IH; [assumption|]. intros j Hj. apply H. right. assumption.
Qed.

Lemma rrel_empty_any_vec s : rrel (RVec s) (NM.empty tok).
Proof. intros i t H. rewrite find_empty in H. discriminate. Qed.

Lemma u_clean_ref r m mask c : rrel r m -> NoDup mask ->
  (forall i, In i mask <-> NM.find i m <> None) ->
  rrel (fst (u_clean r mask c)) (NM.empty tok) /\ cx_stuck (snd (u_clean r mask c)) = cx_stuck c.
Proof.
  intros HR Hnd Hmask. destruct r as [s|s|cells|m'|]; cbn [u_clean rrel] in *.
  - pose proof (vec_clean_stuck mask s c Hnd) as X. destruct (vec_clean s mask c) as [s' c']. nrm. split.
    + intros i t H. rewrite find_empty in H. discriminate.
    + apply X. intros i Hi _. apply Hmask in Hi. destruct (NM.find i m) as [t|] eqn:E; [|congruence].
      exists t. apply (HR i t E).
  - nrm. split; [|apply cx_drop_all_stuck]. split; [reflexivity|]. split.
    + intros k Hk. unfold pv_clear in Hk; cbn [vlen] in Hk. lia.
    + intros i t H. rewrite find_empty in H. discriminate.
  - nrm. split; [|apply cx_drop_all_stuck]. split.
    + intros i t H. rewrite find_empty in H. discriminate.
    + intros k Hk. unfold pv_clear in Hk; cbn [vlen] in Hk. lia.
  - nrm. split; [|apply cx_drop_all_stuck]. intros i. reflexivity.
  - nrm. split; [|apply null_clean_stuck]. intros i t H. rewrite find_empty in H. discriminate.
Qed.

(* ------------------------------------------------------------------ *)
(* slice views *)

(* VecStorage: at every occupied index the slice holds the component *)
Lemma vec_slice_ref s m ids : forall c, rrel (RVec s) m -> (forall i, In i ids -> NM.find i m <> None) ->
  vec_slice_vals s ids c =
  (map (fun i => match NM.find i m with Some t => t | None => unit_tok end) ids, c).
Proof.
  induction ids as [|i ids IH]; intros c HR Hin; cbn [vec_slice_vals map]; [reflexivity|].
  destruct (NM.find i m) as [t|] eqn:E; [|exfalso; apply (Hin i (or_introl eq_refl)); assumption].
  rewrite (u_get_ref (RVec s) m i t c HR E). rewrite IH; [reflexivity | assumption|].
  intros j Hj. apply Hin. right. assumption.
Qed.

(* DefaultVecStorage: the slice holds the component at occupied indices and
   the default value at every other position below its length *)
Lemma default_slice_ref cells m k : rrel (RDefault cells) m -> k < vlen cells ->
  pv_get cells k = Some (match NM.find k m with Some t => t | None => default_tok end).
Proof.
  intros [H1 H2] Hk. destruct (NM.find k m) as [t|] eqn:E; [apply H1; assumption | apply H2; assumption].
Qed.

(* DenseVecStorage: position k of the slice holds the component of entity
   eid[k]; eid is a bijection between positions and occupied indices, so the
   slice is a permutation of the stored values *)
Lemma dense_slice_ref s m : rrel (RDense s) m ->
  (forall k, k < vlen (d_data s) -> exists i t, pv_get (d_eid s) k = Some i /\ pv_get (d_data s) k = Some t /\ NM.find i m = Some t) /\
  (forall i t, NM.find i m = Some t -> exists k, k < vlen (d_data s) /\ pv_get (d_eid s) k = Some i /\ pv_get (d_data s) k = Some t) /\
  (forall k1 k2 i, pv_get (d_eid s) k1 = Some i -> pv_get (d_eid s) k2 = Some i -> k1 = k2).
Proof.
  intros [H1 [H2 H3]]. split; [|split].
  - intros k Hk. destruct (H2 k Hk) as [i [t [A [B [_ D]]]]]. exists i, t. auto.
  - intros i t Hf. destruct (H3 i t Hf) as [k [A [B C]]]. exists k. split; [apply (pv_get_lt _ _ _ C)|auto].
  - intros k1 k2 j G1 G2. pose proof (pv_get_lt _ _ _ G1) as B1. pose proof (pv_get_lt _ _ _ G2) as B2.
    rewrite H1 in B1, B2. destruct (H2 k1 B1) as [j1 [? [A1 [_ [A3 _]]]]]. destruct (H2 k2 B2) as [j2 [? [A1' [_ [A3' _]]]]].
    congruence.
Qed.
