(* C08 for the default-filled kind (DefaultVecStorage), per raw operation: the
   cells of the vector afterwards, together with what was handed back and what
   was destroyed, are - as multisets - the cells before together with what was
   moved in and the default values the operation made (gap fillers, the filler
   left behind by a removal).  Nothing is lost and nothing appears from
   nowhere, also in the slots no mask bit covers. *)
From SV Require Import Base.Ids Base.ListX Base.PvecFacts Store.Raw Store.RawRefine Store.CleanProps.
From Coq Require Import List NArith Lia.
Import ListNotations.
Local Open Scope N_scope.
From Coq Require Import Sorting.Permutation.

Lemma cx_drop_all_mints l : forall c, cx_mints (cx_drop_all c l) = cx_mints c.
Proof. induction l as [|t l IH]; intros c; cbn [cx_drop_all]; [reflexivity|]. rewrite IH. reflexivity. Qed.

Lemma map_repeat' {A B} (f : A -> B) x n : map f (repeat x n) = repeat (f x) n.
Proof. induction n as [|n IH]; cbn [repeat map]; [reflexivity|]. rewrite IH. reflexivity. Qed.

Definition uids (cells : pvec tok) : list N := map fst (pv_elems cells).

(* every position below the length holds a value (the vector has no holes) *)
Definition full (cells : pvec tok) : Prop := forall k, k < vlen cells -> pv_get cells k <> None.

Lemma elems_aux_app {A} (m : NM.t A) n1 : forall k n2,
  pv_elems_aux m k (n1 + n2) = pv_elems_aux m k n1 ++ pv_elems_aux m (k + N.of_nat n1) n2.
Proof.
  induction n1 as [|n1 IH]; intros k n2; cbn [pv_elems_aux Nat.add].
  - rewrite N.add_0_r. reflexivity.
  - rewrite IH. replace (k + 1 + N.of_nat n1) with (k + N.of_nat (S n1)) by lia.
    destruct (NM.find k m); reflexivity.
Qed.

Lemma elems_push (cells : pvec tok) x : pv_elems (pv_push cells x) = pv_elems cells ++ [x].
Proof.
  unfold pv_elems, pv_push. cbn [vlen vmap]. replace (N.to_nat (vlen cells + 1)) with (N.to_nat (vlen cells) + 1)%nat by lia.
  rewrite elems_aux_app. f_equal.
  - apply pv_elems_aux_ext. intros j Hj. rewrite NMF.add_neq_o by lia. reflexivity.
  - cbn [pv_elems_aux]. rewrite N.add_0_l, N2Nat.id, NMF.add_eq_o by reflexivity. reflexivity.
Qed.

(* the elements around position j *)
Lemma elems_split (cells : pvec tok) j : j < vlen cells ->
  pv_elems cells = pv_elems_aux (vmap cells) 0 (N.to_nat j) ++
                   (match NM.find j (vmap cells) with Some x => [x] | None => [] end) ++
                   pv_elems_aux (vmap cells) (j + 1) (N.to_nat (vlen cells - j - 1)).
Proof.
  intros Hj. unfold pv_elems.
  replace (N.to_nat (vlen cells)) with (N.to_nat j + (1 + N.to_nat (vlen cells - j - 1)))%nat by lia.
  rewrite elems_aux_app. f_equal. rewrite N.add_0_l, N2Nat.id.
  change (1 + N.to_nat (vlen cells - j - 1))%nat with (S (N.to_nat (vlen cells - j - 1))). cbn [pv_elems_aux].
  destruct (NM.find j (vmap cells)); reflexivity.
Qed.

Lemma elems_set (cells : pvec tok) j old x : pv_get cells j = Some old ->
  Permutation (old :: pv_elems (pv_set cells j x)) (x :: pv_elems cells).
Proof.
  intros Hg. pose proof (pv_get_lt _ _ _ Hg) as Hj.
  assert (j < vlen (pv_set cells j x)) as Hj' by exact Hj.
  rewrite (elems_split cells j Hj), (elems_split (pv_set cells j x) j Hj').
  rewrite pv_get_find in Hg by exact Hj. rewrite Hg. unfold pv_set. cbn [vlen vmap]. rewrite NMF.add_eq_o by reflexivity.
  rewrite (pv_elems_aux_ext (NM.add j x (vmap cells)) (vmap cells) (N.to_nat j) 0) by (intros i Hi; rewrite NMF.add_neq_o by lia; reflexivity).
  rewrite (pv_elems_aux_ext (NM.add j x (vmap cells)) (vmap cells) _ (j + 1)) by (intros i Hi; rewrite NMF.add_neq_o by lia; reflexivity).
  set (A := pv_elems_aux (vmap cells) 0 (N.to_nat j)). set (B := pv_elems_aux (vmap cells) (j + 1) _).
  apply perm_trans with (old :: x :: A ++ B).
  - constructor. apply Permutation_sym. apply (Permutation_middle A B x).
  - apply perm_trans with (x :: old :: A ++ B); [constructor|]. constructor. apply (Permutation_middle A B old).
Qed.

Lemma full_push cells x : full cells -> full (pv_push cells x).
Proof.
  intros H k Hk. rewrite pv_get_push_all. cbn [pv_push vlen] in Hk.
  destruct (N.eq_dec k (vlen cells)); [discriminate|]. apply H. lia.
Qed.

Lemma full_set cells j x : full cells -> full (pv_set cells j x).
Proof.
  intros H k Hk. cbn [pv_set vlen] in Hk. rewrite pv_get_set. destruct (N.ltb_spec k (vlen cells)); [|lia].
  destruct (N.eq_dec j k); [discriminate|apply H; assumption].
Qed.

(* resize_with: n defaults are made and appended *)
Lemma fill_defaults_spec n : forall cells c, full cells ->
  let '(cells', c') := fill_defaults cells n c in
  pv_elems cells' = pv_elems cells ++ repeat default_tok n /\ cx_mints c' = (cx_mints c + N.of_nat n)%N /\
  cx_drops c' = cx_drops c /\ full cells' /\ vlen cells' = vlen cells + N.of_nat n /\ cx_stuck c' = cx_stuck c.
Proof.
  induction n as [|n IH]; intros cells c Hf; cbn [fill_defaults repeat].
  - rewrite app_nil_r, !N.add_0_r. auto 6.
  - specialize (IH (pv_push cells default_tok) (cx_mint c) (full_push _ _ Hf)).
    destruct (fill_defaults (pv_push cells default_tok) n (cx_mint c)) as [cells' c']. destruct IH as [E [M [D [F [L S]]]]].
    split; [rewrite E, elems_push, <- app_assoc; reflexivity|]. split; [rewrite M; cbn [cx_mint cx_mints]; lia|].
    split; [exact D|]. split; [exact F|]. split; [rewrite L; cbn [pv_push vlen]; lia|exact S].
Qed.

Definition minted (c c' : ctx) : list N := repeat default_uid (N.to_nat (cx_mints c' - cx_mints c)).

(* insert: into a gap beyond the end (fillers are made) or over a filler / value inside (which is destroyed) *)
Theorem default_insert_conserves cells id v c : full cells ->
  match u_insert (RDefault cells) id v c with
  | (RDefault cells', c') =>
      cx_stuck c' = cx_stuck c /\ full cells' /\
      exists d, cx_drops c' = d ++ cx_drops c /\ Permutation (uids cells' ++ d) (uids cells ++ fst v :: minted c c')
  | _ => False
  end.
Proof.
  intros Hf. cbn [u_insert]. destruct (N.leb_spec (vlen cells) id) as [Hge|Hlt].
  - pose proof (fill_defaults_spec (N.to_nat (id - vlen cells)) cells c Hf) as X.
    destruct (fill_defaults cells (N.to_nat (id - vlen cells)) c) as [cells' c']. destruct X as [E [M [D [F [L S]]]]].
    split; [exact S|]. split; [apply full_push; exact F|]. exists []. split; [exact D|].
    unfold uids, minted. rewrite elems_push, E, M, app_nil_r, !map_app, map_repeat'. cbn [map fst default_tok].
    replace (N.to_nat (cx_mints c + N.of_nat (N.to_nat (id - vlen cells)) - cx_mints c)) with (N.to_nat (id - vlen cells)) by lia.
    rewrite <- app_assoc. apply Permutation_app_head. apply Permutation_sym. apply Permutation_cons_append.
  - destruct (pv_get cells id) as [old|] eqn:Hg; [|exfalso; apply (Hf id Hlt); exact Hg].
    split; [reflexivity|]. split; [apply full_set; exact Hf|]. exists [fst old]. split; [reflexivity|].
    unfold uids, minted. cbn [cx_drop cx_mints]. rewrite N.sub_diag. cbn [N.to_nat repeat].
    pose proof (Permutation_map fst (elems_set cells id old v Hg)) as P. cbn [map] in P.
    apply perm_trans with (fst old :: map fst (pv_elems (pv_set cells id v))); [apply Permutation_sym; apply Permutation_cons_append|].
    apply perm_trans with (fst v :: map fst (pv_elems cells)); [exact P|]. apply Permutation_cons_append.
Qed.

(* remove: the value is handed back, a new default takes its place (mem::take) *)
Theorem default_remove_conserves cells id c : full cells -> id < vlen cells ->
  match u_remove (RDefault cells) id c with
  | (RDefault cells', t, c') =>
      cx_stuck c' = cx_stuck c /\ cx_drops c' = cx_drops c /\ full cells' /\ pv_get cells id = Some t /\
      Permutation (uids cells' ++ [fst t]) (uids cells ++ minted c c')
  | _ => False
  end.
Proof.
  intros Hf Hlt. cbn [u_remove]. destruct (pv_get cells id) as [t|] eqn:Hg; [|exfalso; apply (Hf id Hlt); exact Hg].
  split; [reflexivity|]. split; [reflexivity|]. split; [apply full_set; exact Hf|]. split; [reflexivity|].
  unfold uids, minted. cbn [cx_mint cx_mints]. replace (N.to_nat (cx_mints c + 1 - cx_mints c)) with 1%nat by lia. cbn [repeat].
  pose proof (Permutation_map fst (elems_set cells id t default_tok Hg)) as P. cbn [map fst default_tok] in P.
  apply perm_trans with (fst t :: map fst (pv_elems (pv_set cells id default_tok))); [apply Permutation_sym; apply Permutation_cons_append|].
  apply perm_trans with (default_uid :: map fst (pv_elems cells)); [exact P|]. apply Permutation_cons_append.
Qed.

(* writing through get_mut (a swap hands the old value back) *)
Theorem default_write_conserves cells id v c : full cells -> id < vlen cells ->
  match u_write (RDefault cells) id v c with
  | (RDefault cells', c') =>
      c' = c /\ full cells' /\ exists old, pv_get cells id = Some old /\ Permutation (uids cells' ++ [fst old]) (uids cells ++ [fst v])
  | _ => False
  end.
Proof.
  intros Hf Hlt. cbn [u_write]. destruct (pv_get cells id) as [old|] eqn:Hg; [|exfalso; apply (Hf id Hlt); exact Hg].
  split; [reflexivity|]. split; [apply full_set; exact Hf|]. exists old. split; [reflexivity|].
  unfold uids. pose proof (Permutation_map fst (elems_set cells id old v Hg)) as P. cbn [map] in P.
  apply perm_trans with (fst old :: map fst (pv_elems (pv_set cells id v))); [apply Permutation_sym; apply Permutation_cons_append|].
  apply perm_trans with (fst v :: map fst (pv_elems cells)); [exact P|]. apply Permutation_cons_append.
Qed.

(* clear / Drop: every cell is destroyed, fillers included; nothing stays *)
Theorem default_clean_conserves cells mask c :
  match u_clean (RDefault cells) mask c with
  | (RDefault cells', c') =>
      uids cells' = [] /\ cx_stuck c' = cx_stuck c /\ cx_mints c' = cx_mints c /\
      exists d, cx_drops c' = d ++ cx_drops c /\ Permutation d (uids cells)
  | _ => False
  end.
Proof.
  cbn [u_clean]. split; [reflexivity|]. split; [apply cx_drop_all_stuck|]. split; [apply cx_drop_all_mints|].
  exists (rev (uids cells)). split; [apply cx_drop_all_drops|]. apply Permutation_sym. apply Permutation_rev.
Qed.
