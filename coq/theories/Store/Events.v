(* C12: what the change-tracking wrappers write to their channel.
   Every operation other than the bulk clear() appends events such that
   replaying the insertions and removals over the old mask gives the new mask;
   with emission off (or on a plain storage) nothing is appended; Modified is
   appended exactly by the mutable accesses. *)
From SV Require Import Base.ListX Store.Raw Store.RawRefine Store.Masked Store.StoreInv World.Env World.StoreSim.

Fixpoint apply_ev (l : list event) (s : NS.t) : NS.t :=
  match l with
  | [] => s
  | EInserted i :: l' => apply_ev l' (NS.add i s)
  | ERemoved i :: l' => apply_ev l' (NS.remove i s)
  | EModified _ :: l' => apply_ev l' s
  end.

Definition mask_eq (a b : NS.t) : Prop := forall i, NS.mem i a = NS.mem i b.
Definition tracked (ms : mstore) : bool := match ms_wrap ms with WPlain => false | _ => true end.

(* neither the wrapper nor the emission switch changes *)
Definition ev_shape (ms ms' : mstore) : Prop := ms_wrap ms' = ms_wrap ms /\ ms_emit ms' = ms_emit ms.
Lemma ev_shape_of ms ms' : same_shape ms ms' -> ev_shape ms ms'.
Proof. intros [A [B _]]. split; assumption. Qed.

(* the events appended between two states of a storage, oldest first *)
Definition evrel (ms ms' : mstore) : Prop :=
  exists new, ms_chan ms' = rev new ++ ms_chan ms /\
    (ms_emit ms = true -> tracked ms = true -> mask_eq (apply_ev new (ms_mask ms)) (ms_mask ms')) /\
    (ms_emit ms && tracked ms = false -> new = []) /\
    ev_shape ms ms'.

Lemma mask_eq_refl a : mask_eq a a. Proof. intros i; reflexivity. Qed.
Lemma mask_eq_trans a b c : mask_eq a b -> mask_eq b c -> mask_eq a c.
Proof. intros H1 H2 i. rewrite H1. apply H2. Qed.

Lemma apply_ev_eq l : forall a b, mask_eq a b -> mask_eq (apply_ev l a) (apply_ev l b).
Proof.
  induction l as [|[i|i|i] l IH]; intros a b H; cbn [apply_ev]; auto; apply IH; intros j.
  - rewrite !ns_mem_add, H. reflexivity.
  - rewrite !ns_mem_remove, H. reflexivity.
Qed.

Lemma apply_ev_app l1 l2 s : apply_ev (l1 ++ l2) s = apply_ev l2 (apply_ev l1 s).
Proof. revert s. induction l1 as [|[i|i|i] l1 IH]; intros s; cbn [app apply_ev]; auto. Qed.

Lemma ev_shape_refl ms : ev_shape ms ms.
Proof. split; reflexivity. Qed.
Lemma ev_shape_trans a b c : ev_shape a b -> ev_shape b c -> ev_shape a c.
Proof. intros [A1 A2] [B1 B2]. split; congruence. Qed.

Lemma evrel_refl ms : evrel ms ms.
Proof. exists []. cbn. split; [reflexivity|]. split; [intros; apply mask_eq_refl|]. split; [auto | apply ev_shape_refl]. Qed.

Lemma tracked_shape a b : ev_shape a b -> tracked b = tracked a.
Proof. intros [W _]. unfold tracked. rewrite W. reflexivity. Qed.

Lemma evrel_trans a b c : evrel a b -> evrel b c -> evrel a c.
Proof.
  intros [n1 [C1 [M1 [Z1 S1]]]] [n2 [C2 [M2 [Z2 S2]]]].
  pose proof S1 as [_ E1]. pose proof (tracked_shape _ _ S1) as T1.
  exists (n1 ++ n2). split; [rewrite C2, C1, rev_app_distr, app_assoc; reflexivity|]. split; [|split].
  - intros He Ht. rewrite apply_ev_app. apply (mask_eq_trans _ (apply_ev n2 (ms_mask b))).
    + apply apply_ev_eq. apply M1; assumption.
    + apply M2; [rewrite E1; assumption | rewrite T1; assumption].
  - intros H. rewrite (Z1 H). rewrite Z2; [reflexivity|]. rewrite E1, T1. assumption.
  - apply (ev_shape_trans _ b); assumption.
Qed.

(* what ms_event appends *)
Lemma ms_event_chan_spec ms e :
  ms_chan (ms_event ms e) = (if ms_emit ms && tracked ms then [e] else []) ++ ms_chan ms.
Proof. unfold ms_event, tracked. destruct (ms_wrap ms); destruct (ms_emit ms); reflexivity. Qed.

Lemma evrel_of ms ms' (new : list event) :
  ms_chan ms' = (if ms_emit ms && tracked ms then rev new else []) ++ ms_chan ms ->
  mask_eq (apply_ev new (ms_mask ms)) (ms_mask ms') -> same_shape ms ms' ->
  (ms_emit ms && tracked ms = false -> mask_eq (ms_mask ms) (ms_mask ms') \/ True) -> evrel ms ms'.
Proof.
  intros Hc Hm Hs _. destruct (ms_emit ms && tracked ms) eqn:E.
  - exists new. split; [assumption|]. split; [intros; assumption|]. split; [intros X; rewrite E in X; discriminate X | apply ev_shape_of; assumption].
  - exists []. cbn. split; [assumption|]. split; [|split; [reflexivity|apply ev_shape_of; assumption]].
    intros He Ht. rewrite He, Ht in E. discriminate.
Qed.

(* --- the building blocks --- *)

Lemma npi_evrel ms m id v c : MInv ms m -> NS.mem id (ms_mask ms) = false ->
  evrel ms (fst (not_present_insert ms id (tnorm ms v) c)).
Proof.
  intros HM Hmem. destruct (not_present_insert_char ms m id v c HM Hmem) as [_ [_ [A3 [A4 A5]]]].
  apply (evrel_of _ _ [EInserted id]); auto.
  - rewrite A4, ms_event_chan_spec. reflexivity.
  - cbn [apply_ev]. rewrite A3. apply mask_eq_refl.
Qed.

Lemma access_evrel ms m id t touch u c : MInv ms m -> NM.find id m = Some t ->
  (match u with USwap v => v = tnorm ms v | _ => True end) ->
  evrel ms (fst (fst (w_access_mut ms id touch u c))).
Proof.
  intros HM Hf Hv. pose proof (w_access_mut_char ms m id t touch u c HM Hf Hv) as X.
  destruct (w_access_mut ms id touch u c) as [[ms' old] c']. cbn [fst]. destruct X as [_ [_ [_ [X4 [X5 X6]]]]].
  set (touched := touch || match u with UNone => false | _ => true end).
  apply (evrel_of _ _ (match ms_wrap ms with WFlagged => [EModified id] | WDeref => if touched then [EModified id] else [] | WPlain => [] end)); auto.
  - rewrite X5. unfold access_event. fold touched. unfold tracked.
    destruct (ms_wrap ms) eqn:Ew; [rewrite andb_false_r; reflexivity | |].
    + rewrite ms_event_chan_spec. unfold tracked. rewrite Ew. destruct (ms_emit ms); reflexivity.
    + destruct touched; [|destruct (ms_emit ms); reflexivity].
      rewrite ms_event_chan_spec. unfold tracked. rewrite Ew. destruct (ms_emit ms); reflexivity.
  - rewrite X4. destruct (ms_wrap ms); [|cbn|destruct touched; cbn]; apply mask_eq_refl.
Qed.

Lemma m_remove_evrel ms m id c : MInv ms m -> evrel ms (fst (fst (m_remove ms id c))).
Proof.
  intros HM. pose proof (m_remove_char ms m id c HM) as X. destruct (m_remove ms id c) as [[ms' o] c']. cbn [fst].
  destruct X as [_ [_ [_ [_ [X5 [X6 X7]]]]]].
  apply (evrel_of _ _ (if NS.mem id (ms_mask ms) then [ERemoved id] else [])); auto.
  - rewrite X6. destruct (NS.mem id (ms_mask ms)); [rewrite ms_event_chan_spec|]; destruct (ms_emit ms && tracked ms); reflexivity.
  - rewrite X5. destruct (NS.mem id (ms_mask ms)); cbn; apply mask_eq_refl.
Qed.

Lemma m_drop_evrel ms m id c : MInv ms m -> evrel ms (fst (m_drop ms id c)).
Proof.
  intros HM. pose proof (m_drop_char ms m id c HM) as X. destruct (m_drop ms id c) as [ms' c']. cbn [fst].
  destruct X as [_ [_ [_ [X5 [X6 X7]]]]].
  apply (evrel_of _ _ (if NS.mem id (ms_mask ms) then [ERemoved id] else [])); auto.
  - rewrite X6. destruct (NS.mem id (ms_mask ms)); [rewrite ms_event_chan_spec|]; destruct (ms_emit ms && tracked ms); reflexivity.
  - rewrite X5. destruct (NS.mem id (ms_mask ms)); cbn; apply mask_eq_refl.
Qed.

(* deletion of entities: the trait-default drop goes through remove, so the wrappers see it *)
Lemma m_drop_all_evrel ids : forall ms m c, MInv ms m -> evrel ms (fst (m_drop_all ms ids c)).
Proof.
  induction ids as [|x ids IH]; intros ms m c HM; cbn [m_drop_all]; [apply evrel_refl|].
  pose proof (m_drop_evrel ms m x c HM) as E1. pose proof (m_drop_char ms m x c HM) as X.
  destruct (m_drop ms x c) as [ms1 c1]. destruct X as [X1 _]. cbn [fst] in E1.
  apply (evrel_trans _ ms1); [assumption | apply (IH ms1 _ c1 X1)].
Qed.

Lemma st_insert_evrel ms m av e v c : MInv ms m -> evrel ms (fst (fst (st_insert ms av e v c))).
Proof.
  intros HM. unfold st_insert. cbv zeta. destruct (av_alive av e); [|apply evrel_refl].
  destruct (NS.mem (fst e) (ms_mask ms)) eqn:Hmem.
  - destruct (keys_find_some _ _ _ (MI_keys _ _ HM) Hmem) as [t Hf].
    pose proof (access_evrel ms m (fst e) t true (USwap (tnorm ms v)) c HM Hf (eq_sym (tnorm_idem ms v))) as X.
    destruct (w_access_mut ms (fst e) true (USwap (tnorm ms v)) c) as [[ms1 old] c1]. exact X.
  - pose proof (npi_evrel ms m (fst e) v c HM Hmem) as X.
    destruct (not_present_insert ms (fst e) (tnorm ms v) c) as [ms1 c1]. exact X.
Qed.

Lemma drain_ids_evrel ids : forall ms m c, MInv ms m -> evrel ms (fst (fst (st_drain_ids ms ids c))).
Proof.
  induction ids as [|x ids IH]; intros ms m c HM; cbn [st_drain_ids]; [apply evrel_refl|].
  pose proof (m_remove_evrel ms m x c HM) as E1. pose proof (m_remove_char ms m x c HM) as X.
  destruct (m_remove ms x c) as [[ms1 o] c1]. destruct X as [_ [X2 _]]. cbn [fst] in E1.
  specialize (IH ms1 _ c1 X2). destruct (st_drain_ids ms1 ids c1) as [[ms2 l] c2]. cbn [fst] in *.
  destruct o; cbn [fst]; apply (evrel_trans _ ms1); assumption.
Qed.

Lemma get_mut_evrel ms m av e touch nv c : MInv ms m -> evrel ms (fst (fst (st_get_mut ms av e touch nv c))).
Proof.
  intros HM. unfold st_get_mut, present. destruct (NS.mem (fst e) (ms_mask ms)) eqn:Hmem; [|apply evrel_refl].
  destruct (av_alive av e); [|apply evrel_refl]. cbn [andb].
  destruct (keys_find_some _ _ _ (MI_keys _ _ HM) Hmem) as [t Hf].
  set (u := match nv with Some z => USetVal z | None => UNone end).
  pose proof (access_evrel ms m (fst e) t touch u c HM Hf) as X.
  destruct (w_access_mut ms (fst e) touch u c) as [[ms1 old] c1]. apply X. destruct nv; exact I.
Qed.

(* every operation of the Storage API except the bulk clear and the emission switch *)
Theorem ms_sop_evrel ms m av ent so c : MInv ms m ->
  (forall s, so <> SClear s) -> (forall s b, so <> SSetEmission s b) ->
  evrel ms (fst (fst (ms_sop ms av ent so c))).
Proof.
  intros HM Hnc Hne. assert (srel ms ms) as Hs by (split; [repeat split | exists m; auto]).
  destruct so; cbn [ms_sop]; try (cbn [fst]; apply evrel_refl).
  - pose proof (st_insert_evrel ms m av ent v c HM) as X. destruct (st_insert ms av ent v c) as [[ms1 r] c1]. exact X.
  - destruct (st_get ms av ent c). apply evrel_refl.
  - pose proof (get_mut_evrel ms m av ent touch nv c HM) as X. destruct (st_get_mut ms av ent touch nv c) as [[ms1 r] c1]. exact X.
  - unfold st_remove. destruct (av_alive av ent); [|apply evrel_refl].
    pose proof (m_remove_evrel ms m (fst ent) c HM) as X. destruct (m_remove ms (fst ent) c) as [[ms1 o] c1]. exact X.
  - destruct (ms_wrap ms); [destruct (u_slice _ _ _)|..]; apply evrel_refl.
  - exfalso. apply (Hnc sid). reflexivity.
  - unfold st_drain. cbv zeta.
    pose proof (drain_ids_evrel (match lim with Some k => firstn k (NS.elements (ms_mask ms)) | None => NS.elements (ms_mask ms) end) ms m c HM) as X.
    destruct (st_drain_ids ms _ c) as [[ms1 l] c1]. exact X.
  - (* entry *)
    unfold st_entry. cbv zeta. destruct (av_alive av ent); [|destruct eo; apply evrel_refl].
    destruct (NS.mem (fst ent) (ms_mask ms)) eqn:Hmem.
    + destruct (keys_find_some _ _ _ (MI_keys _ _ HM) Hmem) as [t Hf].
      destruct eo as [|v|v| |z].
      * destruct (u_get (ms_raw ms) (fst ent) c). apply evrel_refl.
      * pose proof (access_evrel ms m (fst ent) t false UNone c HM Hf I) as X.
        destruct (w_access_mut ms (fst ent) false UNone c) as [[ms1 old] c1]. exact X.
      * pose proof (access_evrel ms m (fst ent) t true (USwap (tnorm ms v)) c HM Hf (eq_sym (tnorm_idem ms v))) as X.
        destruct (w_access_mut ms (fst ent) true (USwap (tnorm ms v)) c) as [[ms1 old] c1]. exact X.
      * pose proof (m_remove_evrel ms m (fst ent) c HM) as X. destruct (m_remove ms (fst ent) c) as [[ms1 o] c1]. exact X.
      * pose proof (access_evrel ms m (fst ent) t true (USetVal z) c HM Hf I) as X.
        destruct (w_access_mut ms (fst ent) true (USetVal z) c) as [[ms1 old] c1]. exact X.
    + assert (forall v, evrel ms (fst (fst (let '(ms1, c1) := not_present_insert ms (fst ent) (tnorm ms v) c in
                                               w_access_mut ms1 (fst ent) false UNone c1)))) as Hnp.
      { intros v. pose proof (npi_evrel ms m (fst ent) v c HM Hmem) as E1.
        pose proof (not_present_insert_char ms m (fst ent) v c HM Hmem) as [A1 _].
        destruct (not_present_insert ms (fst ent) (tnorm ms v) c) as [ms1 c1]. cbn [fst] in *.
        assert (NM.find (fst ent) (NM.add (fst ent) (tnorm ms v) m) = Some (tnorm ms v)) as Hf.
        { rewrite find_add. destruct (N.eq_dec (fst ent) (fst ent)); [reflexivity|congruence]. }
        pose proof (access_evrel ms1 _ (fst ent) _ false UNone c1 A1 Hf I) as E2.
        destruct (w_access_mut ms1 (fst ent) false UNone c1) as [[ms2 old] c2]. cbn [fst] in *.
        apply (evrel_trans _ ms1); assumption. }
      destruct eo as [|v|v| |z]; try apply evrel_refl.
      * specialize (Hnp v). destruct (not_present_insert ms (fst ent) (tnorm ms v) c) as [ms1 c1].
        destruct (w_access_mut ms1 (fst ent) false UNone c1) as [[ms2 old] c2]. exact Hnp.
      * specialize (Hnp v). destruct (not_present_insert ms (fst ent) (tnorm ms v) c) as [ms1 c1].
        destruct (w_access_mut ms1 (fst ent) false UNone c1) as [[ms2 old] c2]. exact Hnp.
  - (* get_mut_or_default *)
    unfold st_get_mut_or_default. destruct (present ms av ent).
    + pose proof (get_mut_evrel ms m av ent false None c HM) as X. destruct (st_get_mut ms av ent false None c) as [[? ?] ?]. exact X.
    + pose proof (st_insert_evrel ms m av ent (if ms_unit ms then unit_tok else default_tok) (cx_mint c) HM) as E1.
      pose proof (st_insert_pair ms ms av ent (if ms_unit ms then unit_tok else default_tok) (cx_mint c) (cx_mint c) Hs) as Y.
      destruct (st_insert ms av ent _ (cx_mint c)) as [[ms1 r] c1]. cbn [fst] in E1.
      destruct Y as [_ [[_ [m1 [H1 _]]] _]].
      pose proof (get_mut_evrel ms1 m1 av ent false None c1 H1) as E2.
      destruct (st_get_mut ms1 av ent false None c1) as [[ms2 r2] c2]. cbn [fst] in E2.
      destruct r; cbn [fst]; try exact E1; apply (evrel_trans _ ms1); assumption.
  - (* register_reader: the channel is untouched *)
    destruct (ms_wrap ms) eqn:Ew; [apply evrel_refl| |];
    (unfold st_register_reader; cbn [fst]; exists []; cbn; split; [reflexivity|]; split; [intros; apply mask_eq_refl|];
     split; [reflexivity|]; split; reflexivity).
  - unfold st_read_events. destruct (nth_error (ms_readers ms) k); cbn [fst]; [|apply evrel_refl].
    exists []. cbn. split; [reflexivity|]. split; [intros; apply mask_eq_refl|]. split; [reflexivity|]. split; reflexivity.
  - exfalso. apply (Hne sid b). reflexivity.
Qed.

(* --- Modified: exactly the mutable accesses --- *)

(* FlaggedStorage: every get_mut; DerefFlaggedStorage: exactly when the returned access was
   dereferenced mutably or written through; a plain storage or emission off: never *)
Theorem get_mut_events ms m av e touch nv c : MInv ms m -> present ms av e = true ->
  ms_chan (fst (fst (st_get_mut ms av e touch nv c))) =
  (if ms_emit ms then
     match ms_wrap ms with
     | WFlagged => [EModified (fst e)]
     | WDeref => if touch || (match nv with Some _ => true | None => false end) then [EModified (fst e)] else []
     | WPlain => []
     end
   else []) ++ ms_chan ms.
Proof.
  intros HM Hp. unfold st_get_mut. rewrite Hp. unfold present in Hp. apply andb_true_iff in Hp. destruct Hp as [Hmem _].
  destruct (keys_find_some _ _ _ (MI_keys _ _ HM) Hmem) as [t Hf].
  set (u := match nv with Some z => USetVal z | None => UNone end).
  pose proof (w_access_mut_char ms m (fst e) t touch u c HM Hf) as X.
  destruct (w_access_mut ms (fst e) touch u c) as [[ms1 old] c1]. cbn [fst].
  destruct X as [_ [_ [_ [_ [X5 _]]]]]; [destruct nv; exact I|]. rewrite X5. unfold access_event.
  assert ((touch || match u with UNone => false | _ => true end) = (touch || match nv with Some _ => true | None => false end)) as ->
    by (destruct nv; reflexivity).
  destruct (ms_wrap ms) eqn:Ew.
  - destruct (ms_emit ms); reflexivity.
  - rewrite ms_event_chan_spec. unfold tracked. rewrite Ew. destruct (ms_emit ms); reflexivity.
  - destruct (touch || _); [|destruct (ms_emit ms); reflexivity].
    rewrite ms_event_chan_spec. unfold tracked. rewrite Ew. destruct (ms_emit ms); reflexivity.
Qed.

(* read-only access produces no event *)
Theorem read_only_is_silent ms av e so c :
  match so with SGet _ _ | SContains _ _ | SCount _ | SIsEmpty _ | SMask _ | SSlice _ => True | _ => False end ->
  ms_chan (fst (fst (ms_sop ms av e so c))) = ms_chan ms.
Proof.
  destruct so; intros H; try contradiction; cbn [ms_sop]; try reflexivity.
  - destruct (st_get ms av e c). reflexivity.
  - destruct (ms_wrap ms); [destruct (u_slice _ _ _)|..]; reflexivity.
Qed.
