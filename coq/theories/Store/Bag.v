(* The multiset of values held by a map, as a list of uids up to permutation. *)
From SV Require Import Base.Ids Base.ListX.
From Coq Require Import Sorting.Permutation SetoidList SetoidPermutation.

Definition bag (m : NM.t tok) : list N := map (fun p => fst (snd p)) (NM.elements m).

Lemma eqke_eq (p q : N * tok) : NM.eq_key_elt p q <-> p = q.
Proof.
  destruct p as [k v], q as [k' v']. unfold NM.eq_key_elt, NM.Raw.Proofs.PX.eqke. cbn. split.
  - intros [-> ->]. reflexivity.
  - intros E. inversion E. auto.
Qed.

Lemma PermutationA_eqke (l1 l2 : list (N * tok)) : PermutationA (@NM.eq_key_elt tok) l1 l2 -> Permutation l1 l2.
Proof.
  induction 1 as [|x y l l' E H IH|x y l|l1 l2 l3 H1 IH1 H2 IH2].
  - constructor.
  - apply eqke_eq in E. subst. constructor. assumption.
  - apply perm_swap.
  - eapply perm_trans; eassumption.
Qed.

Lemma NoDupA_eqke (m : NM.t tok) : NoDupA (@NM.eq_key_elt tok) (NM.elements m).
Proof.
  pose proof (NM.elements_3w m) as H. induction H as [|x l Hn Hnd IH]; constructor; [|assumption].
  intros Hin. apply Hn. apply InA_alt in Hin. destruct Hin as [y [E Hy]]. apply InA_alt. exists y. split; [|assumption].
  destruct E as [E _]. exact E.
Qed.

(* two lists of bindings without duplicate keys and with the same bindings are permutations of each other *)
Lemma elements_perm (l : list (N * tok)) (m : NM.t tok) : NoDupA (@NM.eq_key_elt tok) l ->
  (forall k v, In (k, v) l <-> NM.find k m = Some v) -> Permutation (NM.elements m) l.
Proof.
  intros Hnd H. apply PermutationA_eqke. apply NoDupA_equivlistA_PermutationA.
  - split; [intros [k v]; split; reflexivity | intros x y [E1 E2]; split; congruence | intros x y z [E1 E2] [E3 E4]; split; congruence].
  - apply NoDupA_eqke.
  - assumption.
  - intros [k v]. rewrite !InA_alt. split.
    + intros [y [E Hy]]. apply eqke_eq in E. subst y. exists (k, v). split; [reflexivity|]. apply H.
      apply NMF.find_mapsto_iff, NMF.elements_mapsto_iff, InA_alt. exists (k, v). split; [split; reflexivity|assumption].
    + intros [y [E Hy]]. apply eqke_eq in E. subst y. apply H in Hy.
      apply NMF.find_mapsto_iff, NMF.elements_mapsto_iff, InA_alt in Hy. destruct Hy as [z [Ez Hz]]. apply eqke_eq in Ez. subst z.
      exists (k, v). split; [reflexivity|assumption].
Qed.

Lemma in_elements_iff (m : NM.t tok) k v : In (k, v) (NM.elements m) <-> NM.find k m = Some v.
Proof.
  rewrite <- NMF.find_mapsto_iff, NMF.elements_mapsto_iff, InA_alt. split.
  - intros H. exists (k, v). split; [split; reflexivity|assumption].
  - intros [z [Ez Hz]]. apply eqke_eq in Ez. subst z. assumption.
Qed.

Lemma elements_add_new (m : NM.t tok) i v : NM.find i m = None -> Permutation (NM.elements (NM.add i v m)) ((i, v) :: NM.elements m).
Proof.
  intros Hf. apply elements_perm.
  - constructor; [|apply NoDupA_eqke]. intros Hin. apply InA_alt in Hin. destruct Hin as [y [E Hy]]. apply eqke_eq in E. subst y.
    apply in_elements_iff in Hy. congruence.
  - intros k w. cbn [In]. rewrite in_elements_iff, find_add. destruct (N.eq_dec i k) as [<-|Hne].
    + split; [intros [E|E]; [inversion E; reflexivity | congruence] | intros E; inversion E; left; reflexivity].
    + split; [intros [E|E]; [inversion E; congruence | assumption] | intros E; right; assumption].
Qed.

Lemma elements_remove (m : NM.t tok) i t : NM.find i m = Some t -> Permutation (NM.elements m) ((i, t) :: NM.elements (NM.remove i m)).
Proof.
  intros Hf. apply Permutation_sym. apply Permutation_sym. apply elements_perm.
  - constructor; [|apply NoDupA_eqke]. intros Hin. apply InA_alt in Hin. destruct Hin as [y [E Hy]]. apply eqke_eq in E. subst y.
    apply in_elements_iff in Hy. rewrite find_remove in Hy. destruct (N.eq_dec i i); [discriminate|congruence].
  - intros k w. cbn [In]. rewrite in_elements_iff, find_remove. destruct (N.eq_dec i k) as [<-|Hne].
    + split; [intros [E|E]; [inversion E; subst; assumption | discriminate] | intros E; left; rewrite Hf in E; inversion E; reflexivity].
    + split; [intros [E|E]; [inversion E; congruence | assumption] | intros E; right; assumption].
Qed.

Lemma bag_add_new m i v : NM.find i m = None -> Permutation (bag (NM.add i v m)) (fst v :: bag m).
Proof. intros H. unfold bag. apply (Permutation_map (fun p => fst (snd p)) (elements_add_new m i v H)). Qed.

Lemma bag_remove m i t : NM.find i m = Some t -> Permutation (bag m) (fst t :: bag (NM.remove i m)).
Proof. intros H. unfold bag. apply (Permutation_map (fun p => fst (snd p)) (elements_remove m i t H)). Qed.

Lemma remove_add_find (m : NM.t tok) i v j : NM.find j (NM.remove i (NM.add i v m)) = NM.find j (NM.remove i m).
Proof. rewrite !find_remove, find_add. destruct (N.eq_dec i j); reflexivity. Qed.

Lemma bag_ext m1 m2 : (forall j, NM.find j m1 = NM.find j m2) -> Permutation (bag m1) (bag m2).
Proof.
  intros H. unfold bag. apply Permutation_map. apply elements_perm; [apply NoDupA_eqke|].
  intros k v. rewrite in_elements_iff. rewrite H. reflexivity.
Qed.

(* overwriting: the old value leaves, the new one enters *)
Lemma bag_add_over m i t v : NM.find i m = Some t -> Permutation (fst t :: bag (NM.add i v m)) (fst v :: bag m).
Proof.
  intros H. assert (NM.find i (NM.add i v m) = Some v) as Hv by (rewrite find_add; destruct (N.eq_dec i i); [reflexivity|congruence]).
  rewrite (bag_remove _ i v Hv), (bag_remove m i t H).
  rewrite (bag_ext (NM.remove i (NM.add i v m)) (NM.remove i m) (remove_add_find m i v)). apply perm_swap.
Qed.

Lemma bag_empty : bag (NM.empty tok) = [].
Proof. reflexivity. Qed.
