(* C04 at the Storage-API level: a MaskedStorage over any raw kind, driven
   through the API, keeps its mask equal to the key set of an abstract map and
   its raw storage related to that map; two storages of different kinds driven
   through the same operations return the same results (so every kind behaves
   as the plain map, which is itself one of the kinds), and no operation is
   ever stuck. *)
From SV Require Import Base.ListX Base.PvecFacts Store.Raw Store.RawRefine Store.Masked.

Definition keys_ok (mask : NS.t) (m : NM.t tok) : Prop :=
  forall i, NS.mem i mask = match NM.find i m with Some _ => true | None => false end.

Record MInv (ms : mstore) (m : NM.t tok) : Prop := {
  MI_keys : keys_ok (ms_mask ms) m;
  MI_rel : rrel (ms_raw ms) m;
  MI_unit : ms_unit ms = true -> forall i t, NM.find i m = Some t -> t = unit_tok;
  MI_null : ms_raw ms = RNull -> ms_unit ms = true }.

(* everything but the raw storage *)
Definition fields_eq (a b : mstore) : Prop :=
  ms_mask a = ms_mask b /\ ms_wrap a = ms_wrap b /\ ms_chan a = ms_chan b /\ ms_emit a = ms_emit b /\
  ms_readers a = ms_readers b /\ ms_unit a = ms_unit b.

Definition srel (a b : mstore) : Prop := fields_eq a b /\ exists m, MInv a m /\ MInv b m.

Lemma MInv_new k w u : (k = KNull -> u = true) -> MInv (ms_new k w u) (NM.empty tok).
Proof.
  intros Hk. split; cbn [ms_new ms_mask ms_raw ms_unit].
  - intros i. rewrite find_empty. apply NSF.empty_b.
  - apply rrel_new.
  - intros _ i t H. rewrite find_empty in H. discriminate.
  - destruct k; cbn; try discriminate. intros _. apply Hk. reflexivity.
Qed.

Lemma tnorm_ok ms m v : MInv ms m -> val_ok (ms_raw ms) (tnorm ms v).
Proof.
  intros H. unfold val_ok, tnorm. destruct (ms_raw ms) eqn:E; auto. rewrite (MI_null _ _ H E). reflexivity.
Qed.

Lemma tnorm_unit ms v : ms_unit ms = true -> tnorm ms v = unit_tok.
Proof. intros H. unfold tnorm. rewrite H. reflexivity. Qed.

Lemma keys_find_some mask m i : keys_ok mask m -> NS.mem i mask = true -> exists t, NM.find i m = Some t.
Proof. intros H Hm. rewrite H in Hm. destruct (NM.find i m) as [t|]; [eauto|discriminate]. Qed.

Lemma keys_find_none mask m i : keys_ok mask m -> NS.mem i mask = false -> NM.find i m = None.
Proof. intros H Hm. rewrite H in Hm. destruct (NM.find i m); [discriminate|reflexivity]. Qed.

Lemma ns_mem_add i j s : NS.mem j (NS.add i s) = if N.eq_dec i j then true else NS.mem j s.
Proof.
  rewrite NSF.add_b. unfold NSF.eqb. destruct (N.eq_dec i j); destruct (NSF.eq_dec i j); try congruence; reflexivity.
Qed.

Lemma ns_mem_remove i j s : NS.mem j (NS.remove i s) = if N.eq_dec i j then false else NS.mem j s.
Proof.
  rewrite NSF.remove_b. unfold NSF.eqb. destruct (N.eq_dec i j); destruct (NSF.eq_dec i j); try congruence.
  - rewrite andb_false_r. reflexivity.
  - rewrite andb_true_r. reflexivity.
Qed.

Lemma keys_add mask m i v : keys_ok mask m -> keys_ok (NS.add i mask) (NM.add i v m).
Proof.
  intros H j. rewrite ns_mem_add, find_add. destruct (N.eq_dec i j); [reflexivity|apply H].
Qed.

Lemma keys_add_present mask m i v t : keys_ok mask m -> NM.find i m = Some t -> keys_ok mask (NM.add i v m).
Proof.
  intros H Hf j. rewrite find_add. destruct (N.eq_dec i j) as [<-|]; [rewrite H, Hf; reflexivity | apply H].
Qed.

Lemma keys_remove mask m i : keys_ok mask m -> keys_ok (NS.remove i mask) (NM.remove i m).
Proof.
  intros H j. rewrite ns_mem_remove, find_remove. destruct (N.eq_dec i j); [reflexivity|apply H].
Qed.

(* ms_event changes only the channel *)
Lemma ms_event_fields ms e :
  ms_mask (ms_event ms e) = ms_mask ms /\ ms_raw (ms_event ms e) = ms_raw ms /\ ms_wrap (ms_event ms e) = ms_wrap ms /\
  ms_emit (ms_event ms e) = ms_emit ms /\ ms_readers (ms_event ms e) = ms_readers ms /\ ms_unit (ms_event ms e) = ms_unit ms.
Proof. unfold ms_event. destruct (ms_wrap ms) eqn:Ew; destruct (ms_emit ms) eqn:Ee; cbn; rewrite ?Ew, ?Ee; repeat split; reflexivity. Qed.

Lemma ms_event_chan a b e : ms_wrap a = ms_wrap b -> ms_chan a = ms_chan b -> ms_emit a = ms_emit b ->
  ms_chan (ms_event a e) = ms_chan (ms_event b e).
Proof. intros H1 H2 H3. unfold ms_event. rewrite H1, H3. destruct (ms_wrap b); destruct (ms_emit b); cbn; congruence. Qed.

Lemma MInv_event ms m e : MInv ms m -> MInv (ms_event ms e) m.
Proof.
  intros [H1 H2 H3 H4]. destruct (ms_event_fields ms e) as [E1 [E2 [_ [_ [_ E6]]]]].
  split; rewrite ?E1, ?E2, ?E6; assumption.
Qed.

Lemma fields_event a b e : fields_eq a b -> fields_eq (ms_event a e) (ms_event b e).
Proof.
  intros [F1 [F2 [F3 [F4 [F5 F6]]]]].
  destruct (ms_event_fields a e) as [A1 [_ [A3 [A4 [A5 A6]]]]]. destruct (ms_event_fields b e) as [B1 [_ [B3 [B4 [B5 B6]]]]].
  unfold fields_eq. rewrite A1, A3, A4, A5, A6, B1, B3, B4, B5, B6. repeat split; auto. apply ms_event_chan; assumption.
Qed.

Lemma MInv_set ms mask r m : keys_ok mask m -> rrel r m ->
  (ms_unit ms = true -> forall i t, NM.find i m = Some t -> t = unit_tok) ->
  (r = RNull -> ms_unit ms = true) -> MInv (ms_set ms mask r) m.
Proof. intros. split; cbn [ms_set ms_mask ms_raw ms_unit]; assumption. Qed.

Lemma raw_null_stable_insert r i v c : (fst (u_insert r i v c) = RNull) -> r = RNull.
Proof.
  destruct r as [s|s|cells|m'|]; cbn [u_insert]; try discriminate; auto.
  destruct (N.leb (vlen cells) i).
  - destruct (fill_defaults _ _ _). discriminate.
  - destruct (pv_get cells i); discriminate.
Qed.

Lemma raw_null_stable_write r i v c : (fst (u_write r i v c) = RNull) -> r = RNull.
Proof.
  destruct r as [s|s|cells|m'|]; cbn [u_write]; auto.
  - destruct (N.ltb i (v_len s)); [destruct (NM.find i (v_slots s)) as [[|]|]|]; discriminate.
  - destruct (pv_get (d_did s) i) as [d|]; [destruct (pv_get (d_data s) d)|]; discriminate.
  - destruct (pv_get cells i); discriminate.
  - destruct (NM.find i m'); discriminate.
Qed.

Lemma raw_null_stable_remove r i c : (fst (fst (u_remove r i c)) = RNull) -> r = RNull.
Proof.
  destruct r as [s|s|cells|m'|]; cbn [u_remove]; auto.
  - destruct (N.ltb i (v_len s)); [destruct (NM.find i (v_slots s)) as [[|]|]|]; discriminate.
  - destruct (pv_get (d_did s) i) as [d|]; [|discriminate]. destruct (pv_last (d_eid s)) as [l|]; [|discriminate].
    destruct (N.ltb l (vlen (d_did s))); [|discriminate].
    destruct (pv_swap_remove (d_eid s) d) as [e' [x|]]; destruct (pv_swap_remove (d_data s) d) as [d' [y|]]; discriminate.
  - destruct (pv_get cells i); discriminate.
  - destruct (NM.find i m'); discriminate.
Qed.

Lemma raw_null_stable_clean r l c : (fst (u_clean r l c) = RNull) -> r = RNull.
Proof.
  destruct r as [s|s|cells|m'|]; cbn [u_clean]; auto; try discriminate.
  destruct (vec_clean s l c). discriminate.
Qed.

Lemma RawRefine_in_elements s i : In i (NS.elements s) <-> NS.mem i s = true.
Proof.
  rewrite NS.mem_spec, <- NS.elements_spec1, SetoidList.InA_alt. split.
  - intros H. exists i. auto.
  - intros [j [-> H]]. assumption.
Qed.

Lemma RawRefine_nodup s : NoDup (NS.elements s).
Proof.
  pose proof (NS.elements_spec2w s) as H. induction H as [|x l Hx Hnd IH]; constructor; [|assumption].
  intros Hin. apply Hx. apply SetoidList.InA_alt. exists x. auto.
Qed.

(* ------------------------------------------------------------------ *)
(* the building blocks, one storage *)

Definition same_shape (ms ms' : mstore) : Prop :=
  ms_wrap ms' = ms_wrap ms /\ ms_emit ms' = ms_emit ms /\ ms_readers ms' = ms_readers ms /\ ms_unit ms' = ms_unit ms.

Lemma same_shape_event ms e : same_shape ms (ms_event ms e).
Proof. destruct (ms_event_fields ms e) as [_ [_ [A [B [C D]]]]]. repeat split; assumption. Qed.

Lemma not_present_insert_char ms m id v c : MInv ms m -> NS.mem id (ms_mask ms) = false ->
  let r := not_present_insert ms id (tnorm ms v) c in
  MInv (fst r) (NM.add id (tnorm ms v) m) /\ cx_stuck (snd r) = cx_stuck c /\
  ms_mask (fst r) = NS.add id (ms_mask ms) /\ ms_chan (fst r) = ms_chan (ms_event ms (EInserted id)) /\
  same_shape ms (fst r).
Proof.
  intros HM Hmem. pose proof (keys_find_none _ _ _ (MI_keys _ _ HM) Hmem) as Hnone.
  unfold not_present_insert, w_insert.
  destruct (ms_event_fields ms (EInserted id)) as [E1 [E2 [E3 [E4 [E5 E6]]]]].
  set (ms1 := ms_event ms (EInserted id)) in *.
  pose proof (u_insert_ref (ms_raw ms1) m id (tnorm ms v) c) as X. rewrite E2 in X.
  specialize (X (MI_rel _ _ HM) Hnone (tnorm_ok ms m v HM)).
  pose proof (raw_null_stable_insert (ms_raw ms) id (tnorm ms v) c) as Hnull.
  rewrite E2. destruct (u_insert (ms_raw ms) id (tnorm ms v) c) as [r c']. cbn [fst snd] in *.
  destruct X as [X1 X2]. cbn [ms_set ms_mask ms_raw ms_chan ms_wrap ms_emit ms_readers ms_unit].
  split; [|split; [assumption|split; [rewrite E1; reflexivity|split; [reflexivity|repeat split; assumption]]]].
  split; cbn [ms_mask ms_raw ms_unit].
  - rewrite E1. apply keys_add. apply (MI_keys _ _ HM).
  - assumption.
  - cbn [ms_set ms_unit]. rewrite E6. intros Hu i t Hf. rewrite find_add in Hf. destruct (N.eq_dec id i).
    + inversion Hf. apply tnorm_unit. assumption.
    + apply (MI_unit _ _ HM Hu i t Hf).
  - cbn [ms_set ms_unit ms_raw]. rewrite E6. intros Hr. apply (MI_null _ _ HM). apply Hnull. assumption.
Qed.

Definition upd_map (ms : mstore) (m : NM.t tok) (id : N) (old : tok) (u : upd) : NM.t tok :=
  match u with
  | UNone => m
  | USwap v => NM.add id v m
  | USetVal z => NM.add id (tnorm ms (fst old, z)) m
  end.

Definition access_event (ms : mstore) (id : N) (touch : bool) (u : upd) : mstore :=
  let touched := touch || match u with UNone => false | _ => true end in
  match ms_wrap ms with
  | WFlagged => ms_event ms (EModified id)
  | WDeref => if touched then ms_event ms (EModified id) else ms
  | WPlain => ms
  end.

Lemma access_event_fields ms id touch u :
  ms_mask (access_event ms id touch u) = ms_mask ms /\ ms_raw (access_event ms id touch u) = ms_raw ms /\
  same_shape ms (access_event ms id touch u).
Proof.
  unfold access_event.
  destruct (ms_wrap ms) eqn:Ew; [repeat split; auto | |].
  - destruct (ms_event_fields ms (EModified id)) as [A [B _]]. split; [assumption|]. split; [assumption|]. apply same_shape_event.
  - destruct (touch || _).
    + destruct (ms_event_fields ms (EModified id)) as [A [B _]]. split; [assumption|]. split; [assumption|]. apply same_shape_event.
    + repeat split; auto.
Qed.

Lemma w_access_mut_char ms m id t touch u c : MInv ms m -> NM.find id m = Some t ->
  (match u with USwap v => v = tnorm ms v | _ => True end) ->
  let '(ms', old, c') := w_access_mut ms id touch u c in
  old = t /\ MInv ms' (upd_map ms m id t u) /\ c' = c /\
  ms_mask ms' = ms_mask ms /\ ms_chan ms' = ms_chan (access_event ms id touch u) /\ same_shape ms ms'.
Proof.
  intros HM Hf Hv. unfold w_access_mut. fold (access_event ms id touch u).
  destruct (access_event_fields ms id touch u) as [E1 [E2 Esh]].
  set (ms1 := access_event ms id touch u) in *. rewrite E2.
  rewrite (u_get_ref (ms_raw ms) m id t c (MI_rel _ _ HM) Hf).
  assert (keys_ok (ms_mask ms) m) as Hk by apply (MI_keys _ _ HM).
  assert (forall v, val_ok (ms_raw ms) v -> (ms_unit ms = true -> v = unit_tok) ->
     let '(r, c2) := u_write (ms_raw ms) id v c in
     MInv (ms_set ms1 (ms_mask ms1) r) (NM.add id v m) /\ c2 = c) as Hw.
  { intros v Hvo Hvu. pose proof (u_write_ref (ms_raw ms) m id t v c (MI_rel _ _ HM) Hf Hvo) as X.
    pose proof (raw_null_stable_write (ms_raw ms) id v c) as Hnull.
    destruct (u_write (ms_raw ms) id v c) as [r c2]. cbn [fst snd] in *. destruct X as [X1 X2]. split; [|assumption].
    destruct Esh as [_ [_ [_ Eu]]].
    split; cbn [ms_set ms_mask ms_raw ms_unit]; rewrite ?E1, ?Eu.
    - apply (keys_add_present _ _ _ _ t); assumption.
    - assumption.
    - intros Hu i x Hx. rewrite find_add in Hx. destruct (N.eq_dec id i); [inversion Hx; subst; auto | apply (MI_unit _ _ HM Hu i x Hx)].
    - intros Hr. apply (MI_null _ _ HM). apply Hnull. assumption. }
  destruct u as [|v|z]; cbn [upd_map].
  - split; [reflexivity|]. split; [|split; [reflexivity|split; [exact E1|split; [reflexivity|exact Esh]]]].
    destruct Esh as [_ [_ [_ Eu]]]. split.
    + rewrite E1. assumption.
    + rewrite E2. apply (MI_rel _ _ HM).
    + rewrite Eu. apply (MI_unit _ _ HM).
    + rewrite Eu, E2. apply (MI_null _ _ HM).
  - assert (tnorm ms v = v) as Hv' by (symmetry; exact Hv).
    pose proof (tnorm_ok ms m v HM) as Hvo. rewrite Hv' in Hvo.
    specialize (Hw v Hvo (fun Hu => eq_trans (eq_sym Hv') (tnorm_unit ms v Hu))).
    destruct (u_write (ms_raw ms) id v c) as [r c2]. destruct Hw as [W1 W2].
    split; [reflexivity|]. split; [exact W1|]. split; [assumption|].
    cbn [ms_set ms_mask ms_chan]. split; [exact E1|]. split; [reflexivity|].
    unfold same_shape. cbn [ms_set ms_wrap ms_emit ms_readers ms_unit]. exact Esh.
  - specialize (Hw (tnorm ms (fst t, z)) (tnorm_ok ms m _ HM) (fun Hu => tnorm_unit ms _ Hu)).
    destruct (u_write (ms_raw ms) id (tnorm ms (fst t, z)) c) as [r c2]. destruct Hw as [W1 W2].
    split; [reflexivity|]. split; [exact W1|]. split; [assumption|].
    cbn [ms_set ms_mask ms_chan]. split; [exact E1|]. split; [reflexivity|].
    unfold same_shape. cbn [ms_set ms_wrap ms_emit ms_readers ms_unit]. exact Esh.
Qed.

Lemma m_remove_char ms m id c : MInv ms m ->
  let '(ms', o, c') := m_remove ms id c in
  o = NM.find id m /\
  MInv ms' (if NS.mem id (ms_mask ms) then NM.remove id m else m) /\
  cx_stuck c' = cx_stuck c /\ cx_drops c' = cx_drops c /\
  ms_mask ms' = (if NS.mem id (ms_mask ms) then NS.remove id (ms_mask ms) else ms_mask ms) /\
  ms_chan ms' = (if NS.mem id (ms_mask ms) then ms_chan (ms_event ms (ERemoved id)) else ms_chan ms) /\
  same_shape ms ms'.
Proof.
  intros HM. unfold m_remove. destruct (NS.mem id (ms_mask ms)) eqn:Hmem.
  - destruct (keys_find_some _ _ _ (MI_keys _ _ HM) Hmem) as [t Hf].
    unfold w_remove.
    set (ms0 := ms_set ms (NS.remove id (ms_mask ms)) (ms_raw ms)).
    destruct (ms_event_fields ms0 (ERemoved id)) as [E1 [E2 [E3 [E4 [E5 E6]]]]].
    set (ms1 := ms_event ms0 (ERemoved id)) in *. rewrite E2. cbn [ms0 ms_set ms_raw].
    pose proof (u_remove_ref (ms_raw ms) m id t c (MI_rel _ _ HM) Hf) as X.
    pose proof (raw_null_stable_remove (ms_raw ms) id c) as Hnull.
    destruct (u_remove (ms_raw ms) id c) as [[r t'] c']. cbn [fst] in Hnull. destruct X as [-> [X2 [X3 X4]]].
    split; [symmetry; assumption|]. split; [|split; [assumption|split; [assumption|]]].
    + split; cbn [ms_set ms_mask ms_raw ms_unit]; rewrite ?E1, ?E6; cbn [ms0 ms_set ms_mask ms_unit].
      * apply keys_remove. apply (MI_keys _ _ HM).
      * assumption.
      * intros Hu i x Hx. rewrite find_remove in Hx. destruct (N.eq_dec id i); [discriminate|apply (MI_unit _ _ HM Hu i x Hx)].
      * intros Hr. apply (MI_null _ _ HM). apply Hnull. assumption.
    + cbn [ms_set ms_mask ms_chan]. split; [rewrite E1; reflexivity|]. split.
      * unfold ms1, ms0, ms_event, ms_set; cbn. destruct (ms_wrap ms); destruct (ms_emit ms); reflexivity.
      * unfold same_shape. cbn [ms_set ms_wrap ms_emit ms_readers ms_unit]. rewrite E3, E4, E5, E6. repeat split; reflexivity.
  - rewrite (keys_find_none _ _ _ (MI_keys _ _ HM) Hmem).
    split; [reflexivity|]. split; [assumption|]. repeat split; reflexivity.
Qed.

Lemma m_drop_char ms m id c : MInv ms m ->
  let '(ms', c') := m_drop ms id c in
  MInv ms' (if NS.mem id (ms_mask ms) then NM.remove id m else m) /\ cx_stuck c' = cx_stuck c /\
  cx_drops c' = (match NM.find id m with Some t => fst t :: cx_drops c | None => cx_drops c end) /\
  ms_mask ms' = (if NS.mem id (ms_mask ms) then NS.remove id (ms_mask ms) else ms_mask ms) /\
  ms_chan ms' = (if NS.mem id (ms_mask ms) then ms_chan (ms_event ms (ERemoved id)) else ms_chan ms) /\
  same_shape ms ms'.
Proof.
  intros HM. pose proof (m_remove_char ms m id c HM) as X. unfold m_drop, m_remove in *.
  destruct (NS.mem id (ms_mask ms)) eqn:Hmem.
  - unfold w_drop. destruct (w_remove (ms_set ms (NS.remove id (ms_mask ms)) (ms_raw ms)) id c) as [[ms1 t] c1].
    destruct X as [X1 [X2 [X3 [X4 [X5 [X6 X7]]]]]]. rewrite <- X1. cbn [cx_drop cx_stuck cx_drops].
    rewrite X4. auto 10.
  - rewrite (keys_find_none _ _ _ (MI_keys _ _ HM) Hmem). destruct X as [_ [X2 _]].
    split; [assumption|]. repeat split; reflexivity.
Qed.

Lemma m_clear_char ms m c : MInv ms m ->
  let '(ms', c') := m_clear ms c in
  MInv ms' (NM.empty tok) /\ cx_stuck c' = cx_stuck c /\ ms_mask ms' = NS.empty /\ ms_chan ms' = ms_chan ms /\
  same_shape ms ms'.
Proof.
  intros HM. unfold m_clear.
  pose proof (u_clean_ref (ms_raw ms) m (NS.elements (ms_mask ms)) c (MI_rel _ _ HM) (RawRefine_nodup (ms_mask ms))) as X.
  pose proof (raw_null_stable_clean (ms_raw ms) (NS.elements (ms_mask ms)) c) as Hnull.
  destruct (u_clean (ms_raw ms) (NS.elements (ms_mask ms)) c) as [r c']. cbn [fst snd] in *.
  destruct X as [X1 X2].
  { intros i. rewrite RawRefine_in_elements, (MI_keys _ _ HM). destruct (NM.find i m); split; congruence. }
  split; [|split; [assumption|repeat split; reflexivity]].
  split; cbn [ms_set ms_mask ms_raw ms_unit].
  - intros i. rewrite find_empty. apply NSF.empty_b.
  - assumption.
  - intros _ i t H. rewrite find_empty in H. discriminate.
  - intros Hr. apply (MI_null _ _ HM). apply Hnull. assumption.
Qed.

(* ------------------------------------------------------------------ *)
(* two storages driven through the same operation *)

Lemma fields_from_shape a b a' b' : fields_eq a b -> same_shape a a' -> same_shape b b' ->
  ms_mask a' = ms_mask b' -> ms_chan a' = ms_chan b' -> fields_eq a' b'.
Proof.
  intros [F1 [F2 [F3 [F4 [F5 F6]]]]] [A1 [A2 [A3 A4]]] [B1 [B2 [B3 B4]]] Hm Hc.
  unfold fields_eq. rewrite A1, A2, A3, A4, B1, B2, B3, B4. auto 10.
Qed.

Lemma tnorm_fields a b v : fields_eq a b -> tnorm a v = tnorm b v.
Proof. intros [_ [_ [_ [_ [_ F6]]]]]. unfold tnorm. rewrite F6. reflexivity. Qed.

Lemma access_event_chan a b id touch u : fields_eq a b ->
  ms_chan (access_event a id touch u) = ms_chan (access_event b id touch u).
Proof.
  intros [F1 [F2 [F3 [F4 [F5 F6]]]]]. unfold access_event. rewrite F2.
  destruct (ms_wrap b) eqn:Eb; [assumption | apply ms_event_chan; congruence|].
  destruct (touch || _); [apply ms_event_chan; congruence | assumption].
Qed.

Lemma npi_pair a b id v ca cb : srel a b -> NS.mem id (ms_mask a) = false ->
  srel (fst (not_present_insert a id (tnorm a v) ca)) (fst (not_present_insert b id (tnorm b v) cb)) /\
  cx_stuck (snd (not_present_insert a id (tnorm a v) ca)) = cx_stuck ca /\
  cx_stuck (snd (not_present_insert b id (tnorm b v) cb)) = cx_stuck cb.
Proof.
  intros [HF [m [Ha Hb]]] Hmem. pose proof HF as [F1 [F2 [F3 [F4 [F5 F6]]]]].
  destruct (not_present_insert_char a m id v ca Ha Hmem) as [A1 [A2 [A3 [A4 A5]]]].
  destruct (not_present_insert_char b m id v cb Hb) as [B1 [B2 [B3 [B4 B5]]]]; [rewrite <- F1; assumption|].
  split; [|split; assumption]. split.
  - apply (fields_from_shape a b); auto.
    + rewrite A3, B3, F1. reflexivity.
    + rewrite A4, B4. apply ms_event_chan; assumption.
  - exists (NM.add id (tnorm a v) m). split; [assumption|]. rewrite (tnorm_fields a b v HF). assumption.
Qed.

Lemma access_pair a b id touch u ca cb : srel a b -> NS.mem id (ms_mask a) = true ->
  (match u with USwap v => v = tnorm a v | _ => True end) ->
  let '(a', ta, ca') := w_access_mut a id touch u ca in
  let '(b', tb, cb') := w_access_mut b id touch u cb in
  ta = tb /\ srel a' b' /\ ca' = ca /\ cb' = cb.
Proof.
  intros [HF [m [Ha Hb]]] Hmem Hv. pose proof HF as [F1 [F2 [F3 [F4 [F5 F6]]]]].
  destruct (keys_find_some _ _ _ (MI_keys _ _ Ha) Hmem) as [t Hf].
  pose proof (w_access_mut_char a m id t touch u ca Ha Hf Hv) as A.
  pose proof (w_access_mut_char b m id t touch u cb Hb Hf) as B.
  destruct (w_access_mut a id touch u ca) as [[a' ta] ca']. destruct (w_access_mut b id touch u cb) as [[b' tb] cb'].
  destruct A as [-> [A2 [A3 [A4 [A5 A6]]]]].
  destruct B as [-> [B2 [B3 [B4 [B5 B6]]]]].
  { destruct u; auto. rewrite <- (tnorm_fields a b v HF). assumption. }
  split; [reflexivity|]. split; [|split; assumption]. split.
  - apply (fields_from_shape a b); auto.
    + rewrite A4, B4. assumption.
    + rewrite A5, B5. apply access_event_chan. assumption.
  - exists (upd_map a m id t u). split; [assumption|].
    replace (upd_map a m id t u) with (upd_map b m id t u); [assumption|].
    destruct u; cbn [upd_map]; try reflexivity. rewrite (tnorm_fields a b _ HF). reflexivity.
Qed.

Lemma m_remove_pair a b id ca cb : srel a b ->
  let '(a', oa, ca') := m_remove a id ca in
  let '(b', ob, cb') := m_remove b id cb in
  oa = ob /\ srel a' b' /\ cx_stuck ca' = cx_stuck ca /\ cx_stuck cb' = cx_stuck cb.
Proof.
  intros [HF [m [Ha Hb]]]. pose proof HF as [F1 [F2 [F3 [F4 [F5 F6]]]]].
  pose proof (m_remove_char a m id ca Ha) as A. pose proof (m_remove_char b m id cb Hb) as B.
  destruct (m_remove a id ca) as [[a' oa] ca']. destruct (m_remove b id cb) as [[b' ob] cb'].
  destruct A as [-> [A2 [A3 [_ [A5 [A6 A7]]]]]]. destruct B as [-> [B2 [B3 [_ [B5 [B6 B7]]]]]].
  split; [reflexivity|]. split; [|split; assumption]. split.
  - apply (fields_from_shape a b); auto.
    + rewrite A5, B5, F1. reflexivity.
    + rewrite A6, B6, F1. destruct (NS.mem id (ms_mask b)); [apply ms_event_chan; assumption | assumption].
  - exists (if NS.mem id (ms_mask a) then NM.remove id m else m). split; [assumption|]. rewrite F1. assumption.
Qed.

Lemma m_drop_pair a b id ca cb : srel a b ->
  srel (fst (m_drop a id ca)) (fst (m_drop b id cb)) /\
  cx_stuck (snd (m_drop a id ca)) = cx_stuck ca /\ cx_stuck (snd (m_drop b id cb)) = cx_stuck cb.
Proof.
  intros [HF [m [Ha Hb]]]. pose proof HF as [F1 [F2 [F3 [F4 [F5 F6]]]]].
  pose proof (m_drop_char a m id ca Ha) as A. pose proof (m_drop_char b m id cb Hb) as B.
  destruct (m_drop a id ca) as [a' ca']. destruct (m_drop b id cb) as [b' cb']. cbn [fst snd].
  destruct A as [A2 [A3 [_ [A5 [A6 A7]]]]]. destruct B as [B2 [B3 [_ [B5 [B6 B7]]]]].
  split; [|split; assumption]. split.
  - apply (fields_from_shape a b); auto.
    + rewrite A5, B5, F1. reflexivity.
    + rewrite A6, B6, F1. destruct (NS.mem id (ms_mask b)); [apply ms_event_chan; assumption | assumption].
  - exists (if NS.mem id (ms_mask a) then NM.remove id m else m). split; [assumption|]. rewrite F1. assumption.
Qed.

Lemma m_clear_pair a b ca cb : srel a b ->
  srel (fst (m_clear a ca)) (fst (m_clear b cb)) /\
  cx_stuck (snd (m_clear a ca)) = cx_stuck ca /\ cx_stuck (snd (m_clear b cb)) = cx_stuck cb.
Proof.
  intros [HF [m [Ha Hb]]]. pose proof HF as [F1 [F2 [F3 [F4 [F5 F6]]]]].
  pose proof (m_clear_char a m ca Ha) as A. pose proof (m_clear_char b m cb Hb) as B.
  destruct (m_clear a ca) as [a' ca']. destruct (m_clear b cb) as [b' cb']. cbn [fst snd].
  destruct A as [A2 [A3 [A5 [A6 A7]]]]. destruct B as [B2 [B3 [B5 [B6 B7]]]].
  split; [|split; assumption]. split.
  - apply (fields_from_shape a b); auto.
    + rewrite A5, B5. reflexivity.
    + rewrite A6, B6. assumption.
  - exists (NM.empty tok). split; assumption.
Qed.
