(* The change-tracking wrappers (flagged.rs, deref_flagged.rs), the mask layer
   (MaskedStorage) and the generation-checked Storage API (storage/mod.rs,
   entry.rs, drain.rs, generic.rs), over any raw kind.  Definitions only. *)
From SV Require Export Store.Raw.

Inductive wrap := WPlain | WFlagged | WDeref.
Inductive event := EInserted (i : N) | EModified (i : N) | ERemoved (i : N).

Record mstore := {
  ms_mask : NS.t;
  ms_raw : raw;
  ms_wrap : wrap;
  ms_chan : list event;        (* the event channel, most recent first *)
  ms_emit : bool;              (* storage-event-control *)
  ms_readers : list nat;       (* per registered reader: number of events already read *)
  ms_unit : bool }.            (* the component type is the zero-sized unit type (null storage) *)

Definition ms_new (k : kind) (w : wrap) (unit : bool) : mstore :=
  {| ms_mask := NS.empty; ms_raw := raw_new k; ms_wrap := w; ms_chan := []; ms_emit := true; ms_readers := [];
     ms_unit := unit |}.

Definition ms_set (ms : mstore) (mask : NS.t) (r : raw) : mstore :=
  {| ms_mask := mask; ms_raw := r; ms_wrap := ms_wrap ms; ms_chan := ms_chan ms; ms_emit := ms_emit ms;
     ms_readers := ms_readers ms; ms_unit := ms_unit ms |}.

Definition ms_event (ms : mstore) (e : event) : mstore :=
  match ms_wrap ms with
  | WPlain => ms
  | _ => if ms_emit ms then
           {| ms_mask := ms_mask ms; ms_raw := ms_raw ms; ms_wrap := ms_wrap ms; ms_chan := e :: ms_chan ms;
              ms_emit := ms_emit ms; ms_readers := ms_readers ms; ms_unit := ms_unit ms |}
         else ms
  end.

(* a zero-sized component carries no data: every value of it is the unit value *)
Definition tnorm (ms : mstore) (v : tok) : tok := if ms_unit ms then unit_tok else v.

(* --- UnprotectedStorage of the wrappers --- *)

(* insert: event first, then delegate *)
Definition w_insert (ms : mstore) (id : N) (v : tok) (c : ctx) : mstore * ctx :=
  let ms1 := ms_event ms (EInserted id) in
  let '(r, c') := u_insert (ms_raw ms1) id v c in (ms_set ms1 (ms_mask ms1) r, c').

Definition w_remove (ms : mstore) (id : N) (c : ctx) : mstore * tok * ctx :=
  let ms1 := ms_event ms (ERemoved id) in
  let '(r, t, c') := u_remove (ms_raw ms1) id c in (ms_set ms1 (ms_mask ms1) r, t, c').

(* drop: the trait default, i.e. remove and destroy *)
Definition w_drop (ms : mstore) (id : N) (c : ctx) : mstore * ctx :=
  let '(ms1, t, c') := w_remove ms id c in (ms1, cx_drop c' t).

(* get_mut followed by what the caller does with the access:
   [touch] = it was dereferenced mutably; [u] = what was written through it:
   a whole new value swapped in (mem::swap, the old one is handed back) or the
   payload changed in place.
   FlaggedStorage emits Modified in get_mut; DerefFlaggedStorage in deref_mut. *)
Inductive upd := UNone | USwap (v : tok) | USetVal (z : Z).

Definition w_access_mut (ms : mstore) (id : N) (touch : bool) (u : upd) (c : ctx) : mstore * tok * ctx :=
  let touched := touch || match u with UNone => false | _ => true end in
  let ms1 := match ms_wrap ms with
             | WFlagged => ms_event ms (EModified id)
             | WDeref => if touched then ms_event ms (EModified id) else ms
             | WPlain => ms
             end in
  let '(old, c1) := u_get (ms_raw ms1) id c in
  match u with
  | UNone => (ms1, old, c1)
  | USwap v => let '(r, c2) := u_write (ms_raw ms1) id v c1 in (ms_set ms1 (ms_mask ms1) r, old, c2)
  | USetVal z => let '(r, c2) := u_write (ms_raw ms1) id (tnorm ms (fst old, z)) c1 in (ms_set ms1 (ms_mask ms1) r, old, c2)
  end.

(* --- MaskedStorage --- *)

Definition m_clear (ms : mstore) (c : ctx) : mstore * ctx :=
  let '(r, c') := u_clean (ms_raw ms) (NS.elements (ms_mask ms)) c in (ms_set ms NS.empty r, c').

Definition m_remove (ms : mstore) (id : N) (c : ctx) : mstore * option tok * ctx :=
  if NS.mem id (ms_mask ms) then
    let ms0 := ms_set ms (NS.remove id (ms_mask ms)) (ms_raw ms) in
    let '(ms1, t, c') := w_remove ms0 id c in (ms1, Some t, c')
  else (ms, None, c).

Definition m_drop (ms : mstore) (id : N) (c : ctx) : mstore * ctx :=
  if NS.mem id (ms_mask ms) then
    w_drop (ms_set ms (NS.remove id (ms_mask ms)) (ms_raw ms)) id c
  else (ms, c).

(* AnyStorage::drop(&[Entity]) *)
Fixpoint m_drop_all (ms : mstore) (ids : list N) (c : ctx) : mstore * ctx :=
  match ids with
  | [] => (ms, c)
  | i :: ids' => let '(ms1, c1) := m_drop ms i c in m_drop_all ms1 ids' c1
  end.

(* --- Storage<'e, T, D>: what the allocator tells the storage layer --- *)

Record aview := {
  av_alive : entity -> bool;      (* EntitiesRes::is_alive *)
  av_cur_gen : N -> Z;            (* EntitiesRes::entity(id).gen() *)
  av_err_gen : N -> Z }.          (* alloc.generation(id).unwrap_or(one) *)

Definition present (ms : mstore) (av : aview) (e : entity) : bool :=
  NS.mem (fst e) (ms_mask ms) && av_alive av e.

Definition st_get (ms : mstore) (av : aview) (e : entity) (c : ctx) : option tok * ctx :=
  if present ms av e then let '(t, c') := u_get (ms_raw ms) (fst e) c in (Some t, c') else (None, c).

Definition st_contains (ms : mstore) (av : aview) (e : entity) : bool := present ms av e.

Definition st_get_mut (ms : mstore) (av : aview) (e : entity) (touch : bool) (nv : option Z) (c : ctx)
  : mstore * option tok * ctx :=
  if present ms av e then
    let '(ms1, t, c') := w_access_mut ms (fst e) touch (match nv with Some z => USetVal z | None => UNone end) c in
    (ms1, Some t, c')
  else (ms, None, c).

(* not_present_insert: inner insert, then the mask bit *)
Definition not_present_insert (ms : mstore) (id : N) (v : tok) (c : ctx) : mstore * ctx :=
  let '(ms1, c') := w_insert ms id v c in (ms_set ms1 (NS.add id (ms_mask ms1)) (ms_raw ms1), c').

Inductive ins_res := InsNew | InsOld (t : tok) | InsErr (g : Z).

Definition st_insert (ms : mstore) (av : aview) (e : entity) (v0 : tok) (c : ctx) : mstore * ins_res * ctx :=
  let v := tnorm ms v0 in
  if av_alive av e then
    if NS.mem (fst e) (ms_mask ms) then
      (* swap through get_mut(id).access_mut() *)
      let '(ms1, old, c') := w_access_mut ms (fst e) true (USwap v) c in (ms1, InsOld old, c')
    else
      let '(ms1, c') := not_present_insert ms (fst e) v c in (ms1, InsNew, c')
  else (ms, InsErr (av_cur_gen av (fst e)), cx_drop c v).     (* the refused value is destroyed *)

Definition st_remove (ms : mstore) (av : aview) (e : entity) (c : ctx) : mstore * option tok * ctx :=
  if av_alive av e then m_remove ms (fst e) c else (ms, None, c).

(* drain().join(): ascending over a clone of the mask, each through MaskedStorage::remove *)
Fixpoint st_drain_ids (ms : mstore) (ids : list N) (c : ctx) : mstore * list tok * ctx :=
  match ids with
  | [] => (ms, [], c)
  | i :: ids' =>
      let '(ms1, o, c1) := m_remove ms i c in
      let '(ms2, l, c2) := st_drain_ids ms1 ids' c1 in
      match o with
      | Some t => (ms2, t :: l, c2)
      | None => (ms2, l, cx_fail c2)          (* expect("Tried to access same index twice") *)
      end
  end.
(* [lim]: the iterator is dropped after that many items (the rest stays in the storage) *)
Definition st_drain (ms : mstore) (lim : option nat) (c : ctx) : mstore * list tok * ctx :=
  let ids := NS.elements (ms_mask ms) in
  st_drain_ids ms (match lim with Some k => firstn k ids | None => ids end) c.

(* entry API *)
Inductive entry_op :=
| EnGet                    (* Occupied: get;            Vacant: nothing *)
| EnOrInsert (v : tok)     (* or_insert(v), then read *)
| EnReplace (v : tok)      (* StorageEntry::replace *)
| EnRemove                 (* Occupied: remove;         Vacant: nothing *)
| EnSetVal (z : Z).        (* Occupied: get_mut(), payload changed in place; Vacant: nothing *)

Inductive entry_res := EnErr (g : Z) | EnNone | EnTok (t : tok).

Definition st_entry (ms : mstore) (av : aview) (e : entity) (o0 : entry_op) (c : ctx) : mstore * entry_res * ctx :=
  let o := match o0 with
           | EnOrInsert v => EnOrInsert (tnorm ms v)
           | EnReplace v => EnReplace (tnorm ms v)
           | o => o end in
  let id := fst e in
  let drop_arg c := match o with
                    | EnOrInsert v | EnReplace v => cx_drop c v
                    | _ => c end in
  if av_alive av e then
    if NS.mem id (ms_mask ms) then
      match o with
      | EnGet => let '(t, c') := u_get (ms_raw ms) id c in (ms, EnTok t, c')
      | EnOrInsert v =>
          (* occupied.into_mut(): get_mut, read only; the offered value is destroyed *)
          let '(ms1, t, c') := w_access_mut ms id false UNone c in (ms1, EnTok t, cx_drop c' v)
      | EnReplace v => let '(ms1, t, c') := w_access_mut ms id true (USwap v) c in (ms1, EnTok t, c')
      | EnRemove => let '(ms1, o', c') := m_remove ms id c in
                    (ms1, match o' with Some t => EnTok t | None => EnNone end, c')
      | EnSetVal z => let '(ms1, t, c') := w_access_mut ms id true (USetVal z) c in (ms1, EnTok t, c')
      end
    else
      match o with
      | EnGet | EnRemove | EnSetVal _ => (ms, EnNone, c)
      | EnOrInsert v =>
          (* vacant.insert(v): not_present_insert, then get_mut, read only *)
          let '(ms1, c1) := not_present_insert ms id v c in
          let '(ms2, t, c2) := w_access_mut ms1 id false UNone c1 in (ms2, EnTok t, c2)
      | EnReplace v =>
          let '(ms1, c1) := not_present_insert ms id v c in
          let '(ms2, _, c2) := w_access_mut ms1 id false UNone c1 in (ms2, EnNone, c2)
      end
  else (ms, EnErr (av_err_gen av id), drop_arg c).

(* GenericWriteStorage::get_mut_or_default (both textual copies are this) *)
Definition st_get_mut_or_default (ms : mstore) (av : aview) (e : entity) (c : ctx) : mstore * option tok * ctx :=
  if present ms av e then st_get_mut ms av e false None c
  else
    let '(ms1, r, c1) := st_insert ms av e (if ms_unit ms then unit_tok else default_tok) (cx_mint c) in
    match r with
    | InsErr _ => (ms1, None, c1)
    | _ => st_get_mut ms1 av e false None c1
    end.

(* event readers *)
Definition st_register_reader (ms : mstore) : mstore * nat :=
  ({| ms_mask := ms_mask ms; ms_raw := ms_raw ms; ms_wrap := ms_wrap ms; ms_chan := ms_chan ms;
      ms_emit := ms_emit ms; ms_readers := ms_readers ms ++ [length (ms_chan ms)]; ms_unit := ms_unit ms |}, length (ms_readers ms)).

Fixpoint set_nth {A} (l : list A) (k : nat) (x : A) : list A :=
  match l, k with
  | [], _ => []
  | _ :: l', O => x :: l'
  | y :: l', S k' => y :: set_nth l' k' x
  end.

Definition st_read_events (ms : mstore) (k : nat) : mstore * option (list event) :=
  match nth_error (ms_readers ms) k with
  | Some cur =>
      let all := rev (ms_chan ms) in
      ({| ms_mask := ms_mask ms; ms_raw := ms_raw ms; ms_wrap := ms_wrap ms; ms_chan := ms_chan ms;
          ms_emit := ms_emit ms; ms_readers := set_nth (ms_readers ms) k (length all); ms_unit := ms_unit ms |},
       Some (skipn cur all))
  | None => (ms, None)
  end.

Definition st_set_emission (ms : mstore) (b : bool) : mstore :=
  {| ms_mask := ms_mask ms; ms_raw := ms_raw ms; ms_wrap := ms_wrap ms; ms_chan := ms_chan ms;
     ms_emit := b; ms_readers := ms_readers ms; ms_unit := ms_unit ms |}.
