(* C08: clear() / Drop of a storage destroys exactly the values it holds, each
   once - for VecStorage, DenseVecStorage, HashMap/BTree storages and the null
   storage (the kinds without default-filled gaps), under both wrappers. *)
From SV Require Import Base.ListX Base.PvecFacts Store.Raw Store.RawRefine Store.CleanProps Store.Masked Store.StoreInv
  Store.Bag Store.Ledger.
From Coq Require Import Sorting.Permutation SetoidList Sorting.Sorted.

(* --- the mask's elements are the map's keys, in the same order --- *)
Lemma sorted_lt_unique (l1 : list N) : forall l2, StronglySorted N.lt l1 -> StronglySorted N.lt l2 ->
  (forall x, In x l1 <-> In x l2) -> l1 = l2.
Proof.
  induction l1 as [|a l1 IH]; intros l2 H1 H2 Heq.
  - destruct l2 as [|b l2]; [reflexivity|]. exfalso. apply (Heq b). left. reflexivity.
  - destruct l2 as [|b l2]; [exfalso; apply (Heq a); left; reflexivity|].
    inversion H1 as [|? ? S1 F1]; inversion H2 as [|? ? S2 F2]; subst. rewrite Forall_forall in F1, F2.
    assert (a = b) as ->.
    { destruct (proj1 (Heq a) (or_introl eq_refl)) as [->|Ha]; [reflexivity|].
      destruct (proj2 (Heq b) (or_introl eq_refl)) as [->|Hb]; [reflexivity|].
      specialize (F1 b Hb). specialize (F2 a Ha). lia. }
    f_equal. apply IH; try assumption. intros x. split; intros Hx.
    + destruct (proj1 (Heq x) (or_intror Hx)) as [<-|]; [specialize (F1 b Hx); lia | assumption].
    + destruct (proj2 (Heq x) (or_intror Hx)) as [<-|]; [specialize (F2 b Hx); lia | assumption].
Qed.

Lemma nm_keys_sorted' (m : NM.t tok) : StronglySorted N.lt (map fst (NM.elements m)).
Proof.
  apply Sorted_StronglySorted; [intros x y z; apply N.lt_trans|].
  pose proof (NM.elements_3 m) as H. induction H as [|[k v] l Hs IH Hh]; cbn [map]; constructor; auto.
  destruct Hh as [|[k' v'] l' Hlt]; cbn [map]; constructor. exact Hlt.
Qed.

Lemma mask_elements_are_keys mask m : keys_ok mask m -> NS.elements mask = map fst (NM.elements m).
Proof.
  intros Hk. apply sorted_lt_unique.
  - apply Sorted_StronglySorted; [intros x y z; apply N.lt_trans | apply NS.elements_spec2].
  - apply nm_keys_sorted'.
  - intros i. rewrite RawRefine_in_elements, (Hk i). split.
    + intros H. destruct (NM.find i m) as [t|] eqn:E; [|discriminate]. apply in_map_iff. exists (i, t). split; [reflexivity|].
      apply in_elements_iff. assumption.
    + intros H. apply in_map_iff in H. destruct H as [[k v] [E Hin]]. cbn in E. subst. apply in_elements_iff in Hin. rewrite Hin. reflexivity.
Qed.

(* --- VecStorage: the slots named by the mask carry the map's values --- *)
Lemma vec_slots_are_values s m : rrel (RVec s) m ->
  map (slot_uid s) (map fst (NM.elements m)) = bag m.
Proof.
  intros HR. unfold bag. rewrite map_map. apply map_ext_in. intros [k v] Hin. cbn [fst snd].
  apply in_elements_iff in Hin. destruct (HR k v Hin) as [_ Hs]. unfold slot_uid. rewrite Hs. reflexivity.
Qed.

(* --- DenseVecStorage: the data vector is a permutation of the map's values --- *)
Fixpoint dpairs (eid : NM.t N) (data : NM.t tok) (k : N) (n : nat) : list (N * tok) :=
  match n with
  | O => []
  | S n' => match NM.find k eid, NM.find k data with
            | Some i, Some t => (i, t) :: dpairs eid data (k + 1) n'
            | _, _ => dpairs eid data (k + 1) n'
            end
  end.

Lemma in_dpairs eid data n i t : forall k,
  In (i, t) (dpairs eid data k n) <-> exists j, k <= j < k + N.of_nat n /\ NM.find j eid = Some i /\ NM.find j data = Some t.
Proof.
  induction n as [|n IH]; intros k; cbn [dpairs].
  - split; [intros [] | intros [j [Hj _]]; lia].
  - destruct (NM.find k eid) as [i'|] eqn:E1; destruct (NM.find k data) as [t'|] eqn:E2; cbn [In]; rewrite ?IH; split.
    + intros [E|[j [Hj H]]]; [inversion E; subst; exists k; split; [lia|auto] | exists j; split; [lia|exact H]].
    + intros [j [Hj [H1 H2]]]. destruct (N.eq_dec j k) as [->|Hne]; [left; congruence | right; exists j; split; [lia|auto]].
    + intros [j [Hj H]]. exists j. split; [lia|exact H].
    + intros [j [Hj [H1 H2]]]. destruct (N.eq_dec j k) as [->|Hne]; [congruence | exists j; split; [lia|auto]].
    + intros [j [Hj H]]. exists j. split; [lia|exact H].
    + intros [j [Hj [H1 H2]]]. destruct (N.eq_dec j k) as [->|Hne]; [congruence | exists j; split; [lia|auto]].
    + intros [j [Hj H]]. exists j. split; [lia|exact H].
    + intros [j [Hj [H1 H2]]]. destruct (N.eq_dec j k) as [->|Hne]; [congruence | exists j; split; [lia|auto]].
Qed.

Lemma dpairs_values eid data n : forall k,
  (forall j, k <= j < k + N.of_nat n -> NM.find j data <> None -> NM.find j eid <> None) ->
  map snd (dpairs eid data k n) = pv_elems_aux data k n.
Proof.
  induction n as [|n IH]; intros k H; cbn [dpairs pv_elems_aux]; [reflexivity|].
  assert (map snd (dpairs eid data (k + 1) n) = pv_elems_aux data (k + 1) n) as IH' by (apply IH; intros j Hj; apply H; lia).
  destruct (NM.find k data) as [t|] eqn:E2.
  - destruct (NM.find k eid) as [i|] eqn:E1; [cbn [map snd]; rewrite IH'; reflexivity|].
    exfalso. apply (H k); [lia | congruence | assumption].
  - destruct (NM.find k eid); exact IH'.
Qed.

Lemma dpairs_nodup eid data n : forall k,
  (forall j1 j2 i, k <= j1 < k + N.of_nat n -> k <= j2 < k + N.of_nat n -> NM.find j1 eid = Some i -> NM.find j2 eid = Some i -> j1 = j2) ->
  NoDupA (@NM.eq_key_elt tok) (dpairs eid data k n).
Proof.
  induction n as [|n IH]; intros k H; cbn [dpairs]; [constructor|].
  assert (NoDupA (@NM.eq_key_elt tok) (dpairs eid data (k + 1) n)) as IH'.
  { apply IH. intros j1 j2 i H1 H2. apply H; lia. }
  destruct (NM.find k eid) as [i|] eqn:E1; [|exact IH']. destruct (NM.find k data) as [t|] eqn:E2; [|exact IH'].
  constructor; [|exact IH']. intros Hin. apply InA_alt in Hin. destruct Hin as [[i' t'] [E Hy]]. apply eqke_eq in E. inversion E; subst i' t'.
  apply in_dpairs in Hy. destruct Hy as [j [Hj [H1 _]]]. assert (k = j) by (apply (H k j i); [lia|lia|assumption|assumption]). lia.
Qed.

Lemma dense_data_is_the_bag s m : rrel (RDense s) m -> Permutation (map fst (pv_elems (d_data s))) (bag m).
Proof.
  intros [H1 [H2 H3]]. set (n := N.to_nat (vlen (d_data s))).
  set (l := dpairs (vmap (d_eid s)) (vmap (d_data s)) 0 n).
  assert (forall j, j < vlen (d_data s) -> pv_get (d_eid s) j = NM.find j (vmap (d_eid s)) /\ pv_get (d_data s) j = NM.find j (vmap (d_data s))) as Hg.
  { intros j Hj. split; apply pv_get_find; lia. }
  assert (Permutation (NM.elements m) l) as P.
  { apply elements_perm.
    - apply dpairs_nodup. intros j1 j2 i Hj1 Hj2 E1 E2. subst n. rewrite N2Nat.id in Hj1, Hj2.
      destruct (H2 j1 ltac:(lia)) as [i1 [t1 [A1 [_ [A3 _]]]]]. destruct (H2 j2 ltac:(lia)) as [i2 [t2 [B1 [_ [B3 _]]]]].
      destruct (Hg j1 ltac:(lia)) as [G1 _]. destruct (Hg j2 ltac:(lia)) as [G2 _]. rewrite G1, E1 in A1. rewrite G2, E2 in B1.
      inversion A1; inversion B1; subst. congruence.
    - intros i t. subst l. rewrite in_dpairs. subst n. rewrite N2Nat.id. split.
      + intros [j [Hj [E1 E2]]]. destruct (H2 j ltac:(lia)) as [i' [t' [A1 [A2 [_ A4]]]]].
        destruct (Hg j ltac:(lia)) as [G1 G2]. rewrite G1, E1 in A1. rewrite G2, E2 in A2. inversion A1; inversion A2; subst. exact A4.
      + intros Hf. destruct (H3 i t Hf) as [k [_ [B2 B3]]]. pose proof (pv_get_lt _ _ _ B3) as Hk.
        destruct (Hg k Hk) as [G1 G2]. exists k. split; [lia|]. rewrite <- G1, <- G2. auto. }
  unfold bag. rewrite (Permutation_map (fun p => fst (snd p)) P). subst l.
  match goal with |- Permutation _ (map ?f ?L) => assert (map f L = map fst (map snd L)) as -> by (rewrite map_map; reflexivity) end.
  rewrite dpairs_values; [apply Permutation_refl|].
  intros j Hj Hd. subst n. rewrite N2Nat.id in Hj. destruct (H2 j ltac:(lia)) as [i [t [A1 _]]].
  destruct (Hg j ltac:(lia)) as [G1 _]. rewrite G1 in A1. congruence.
Qed.

(* --- the null storage: one unit value per member --- *)
Lemma null_bag ms m : MInv ms m -> ms_raw ms = RNull ->
  repeat (fst unit_tok) (length (NS.elements (ms_mask ms))) = bag m.
Proof.
  intros HM Hr. pose proof (MI_null _ _ HM Hr) as Hu. rewrite (mask_elements_are_keys _ _ (MI_keys _ _ HM)), map_length.
  unfold bag. assert (forall p, In p (NM.elements m) -> fst (snd p) = fst unit_tok) as H.
  { intros [k v] Hin. apply in_elements_iff in Hin. rewrite (MI_unit _ _ HM Hu k v Hin). reflexivity. }
  revert H. generalize (NM.elements m). intros l H. induction l as [|p l IH]; cbn [length repeat map]; [reflexivity|].
  f_equal; [symmetry; apply (H p); left; reflexivity | apply IH; intros q Hq; apply H; right; assumption].
Qed.

(* clear() / Drop: everything the storage holds is destroyed, once; nothing is left *)
Theorem clear_conserves ms m c : LInvS ms m ->
  let '(ms', c') := m_clear ms c in
  LInvS ms' (NM.empty tok) /\ cx_stuck c' = cx_stuck c /\
  exists d, cx_drops c' = d ++ cx_drops c /\ Permutation d (bag m).
Proof.
  intros [HM HK]. pose proof (m_clear_char ms m c HM) as X. unfold m_clear in *.
  pose proof (mask_elements_are_keys _ _ (MI_keys _ _ HM)) as Ek.
  assert (exists d, cx_drops (snd (u_clean (ms_raw ms) (NS.elements (ms_mask ms)) c)) = d ++ cx_drops c /\ Permutation d (bag m) /\
                    plain_kind (fst (u_clean (ms_raw ms) (NS.elements (ms_mask ms)) c))) as [d [D [P K]]].
  { pose proof (MI_rel _ _ HM) as HR. destruct (ms_raw ms) as [s|s|cells|m'|] eqn:Er; try contradiction.
    - (* Vec *)
      cbn [u_clean]. pose proof (vec_clean_drops (NS.elements (ms_mask ms)) s c (RawRefine_nodup _)) as V.
      destruct V as [V1 _].
      { intros i Hi. rewrite Ek in Hi. apply in_map_iff in Hi. destruct Hi as [[k v] [E Hin]]. cbn in E. subst.
        apply in_elements_iff in Hin. destruct (HR i v Hin) as [A B]. split; [exact A | eauto]. }
      destruct (vec_clean s (NS.elements (ms_mask ms)) c) as [s' c']. cbn [fst snd] in *.
      exists (rev (map (slot_uid s) (NS.elements (ms_mask ms)))). split; [exact V1|]. split; [|exact I].
      rewrite Ek, (vec_slots_are_values s m HR). apply Permutation_sym, Permutation_rev.
    - (* Dense *)
      cbn [u_clean fst snd]. exists (rev (map fst (pv_elems (d_data s)))). split; [apply cx_drop_all_drops|]. split; [|exact I].
      rewrite <- (dense_data_is_the_bag s m HR). apply Permutation_sym, Permutation_rev.
    - (* Map *)
      cbn [u_clean fst snd]. exists (rev (map fst (map snd (NM.elements m')))). split; [apply cx_drop_all_drops|]. split; [|exact I].
      rewrite map_map. fold (bag m'). rewrite <- (Permutation_rev (bag m')). apply bag_ext. exact HR.
    - (* Null *)
      cbn [u_clean fst snd]. exists (repeat (fst unit_tok) (length (NS.elements (ms_mask ms)))). split; [apply null_clean_drops|].
      split; [|exact I]. rewrite (null_bag ms m HM Er). apply Permutation_refl. }
  destruct (u_clean (ms_raw ms) (NS.elements (ms_mask ms)) c) as [r c']. cbn [fst snd] in *.
  destruct X as [X1 [X2 _]]. split; [split; [exact X1 | exact K]|]. split; [exact X2|]. exists d. auto.
Qed.

(* get_mut_or_default: when the entity has no component, one default value is made and stored (or, for a dead
   entity, destroyed); otherwise nothing enters or leaves *)
Theorem gmd_conserves ms m av e c : LInvS ms m ->
  let '(ms', o, c') := st_get_mut_or_default ms av e c in
  exists m', LInvS ms' m' /\
    conserves m m' (if present ms av e then [] else [fst (tnorm ms (if ms_unit ms then unit_tok else default_tok))]) [] c c'.
Proof.
  intros HL. unfold st_get_mut_or_default. destruct (present ms av e) eqn:Ep.
  - pose proof (get_mut_conserves ms m av e false None c HL) as X. destruct (st_get_mut ms av e false None c) as [[ms' o] c'].
    destruct X as [m' [L' [-> P]]]. exists m'. split; [exact L'|]. exists []. split; [reflexivity|]. rewrite !app_nil_r. exact P.
  - pose proof (insert_conserves ms m av e (if ms_unit ms then unit_tok else default_tok) (cx_mint c) HL) as X.
    assert (match fst (fst (st_insert ms av e (if ms_unit ms then unit_tok else default_tok) (cx_mint c))) , snd (fst (st_insert ms av e (if ms_unit ms then unit_tok else default_tok) (cx_mint c))) with
            | _, InsOld _ => False | _, _ => True end) as Hnot.
    { unfold st_insert. cbv zeta. unfold present in Ep. destruct (av_alive av e); [|exact I].
      rewrite andb_true_r in Ep. rewrite Ep. destruct (not_present_insert ms (fst e) _ (cx_mint c)). exact I. }
    destruct (st_insert ms av e _ (cx_mint c)) as [[ms1 r] c1]. cbn [fst snd] in Hnot. destruct X as [m1 [L1 [_ [d [D P]]]]].
    destruct r as [|t|g]; [|contradiction|].
    + pose proof (get_mut_conserves ms1 m1 av e false None c1 L1) as Y. destruct (st_get_mut ms1 av e false None c1) as [[ms2 o] c2].
      destruct Y as [m2 [L2 [-> P2]]]. exists m2. split; [exact L2|]. exists d. split; [exact D|]. cbn [app] in *. rewrite P2. exact P.
    + exists m1. split; [exact L1|]. exists d. split; [exact D|]. cbn [app] in *. exact P.
Qed.
