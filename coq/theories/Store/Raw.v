(* Faithful models of the five raw storage kinds of src/storage/storages.rs
   behind the UnprotectedStorage interface.  Every partial operation of the
   real code (get_unchecked, assume_init, unwrap, index, swap_remove out of
   range) sets the sticky [cx_stuck] flag.  Definitions only. *)
From SV Require Export Base.Ids.

(* effects of an operation *)
Record ctx := { cx_drops : list N;     (* uids destroyed, most recent first *)
                cx_mints : N;          (* number of Default::default() calls *)
                cx_stuck : bool }.
Definition cx0 : ctx := {| cx_drops := []; cx_mints := 0; cx_stuck := false |}.
Definition cx_drop (c : ctx) (t : tok) : ctx :=
  {| cx_drops := fst t :: cx_drops c; cx_mints := cx_mints c; cx_stuck := cx_stuck c |}.
Definition cx_mint (c : ctx) : ctx :=
  {| cx_drops := cx_drops c; cx_mints := cx_mints c + 1; cx_stuck := cx_stuck c |}.
Definition cx_fail (c : ctx) : ctx :=
  {| cx_drops := cx_drops c; cx_mints := cx_mints c; cx_stuck := true |}.
Fixpoint cx_drop_all (c : ctx) (l : list tok) : ctx :=
  match l with [] => c | t :: l' => cx_drop_all (cx_drop c t) l' end.

(* VecStorage<T> = Vec<MaybeUninit<T>>: a cell is initialised, moved out
   (ptr::read happened), or never written (absent) *)
Inductive slot := SInit (t : tok) | SMoved (t : tok).
Record vec_st := { v_len : N; v_slots : NM.t slot }.

(* DenseVecStorage<T> *)
Record dense_st := { d_data : pvec tok; d_eid : pvec N; d_did : pvec N }.

Inductive raw :=
| RVec (s : vec_st)
| RDense (s : dense_st)
| RDefault (cells : pvec tok)           (* DefaultVecStorage<T> *)
| RMap (m : NM.t tok)                   (* HashMapStorage<T>, BTreeStorage<T>, and the ideal map *)
| RNull.                                (* NullStorage<T> *)

Inductive kind := KVec | KDense | KDefault | KHash | KBTree | KNull.

Definition raw_new (k : kind) : raw :=
  match k with
  | KVec => RVec {| v_len := 0; v_slots := NM.empty slot |}
  | KDense => RDense {| d_data := pv_empty; d_eid := pv_empty; d_did := pv_empty |}
  | KDefault => RDefault pv_empty
  | KHash | KBTree => RMap (NM.empty tok)
  | KNull => RNull
  end.

(* set_len(id + 1) when the vector is too short (no initialisation) *)
Definition grow_len (len id : N) : N := if N.leb len id then id + 1 else len.

(* fill positions len .. id-1 with defaults (resize_with) *)
Fixpoint fill_defaults (cells : pvec tok) (n : nat) (c : ctx) : pvec tok * ctx :=
  match n with
  | O => (cells, c)
  | S n' => fill_defaults (pv_push cells default_tok) n' (cx_mint c)
  end.

(* UnprotectedStorage::insert *)
Definition u_insert (r : raw) (id : N) (v : tok) (c : ctx) : raw * ctx :=
  match r with
  | RVec s => (RVec {| v_len := grow_len (v_len s) id; v_slots := NM.add id (SInit v) (v_slots s) |}, c)
  | RDense s =>
      let did := {| vlen := grow_len (vlen (d_did s)) id; vmap := NM.add id (vlen (d_data s)) (vmap (d_did s)) |} in
      (RDense {| d_data := pv_push (d_data s) v; d_eid := pv_push (d_eid s) id; d_did := did |}, c)
  | RDefault cells =>
      if N.leb (vlen cells) id then
        let '(cells', c') := fill_defaults cells (N.to_nat (id - vlen cells)) c in
        (RDefault (pv_push cells' v), c')
      else
        match pv_get cells id with
        | Some old => (RDefault (pv_set cells id v), cx_drop c old)
        | None => (r, cx_fail c)
        end
  | RMap m =>
      let c' := match NM.find id m with Some old => cx_drop c old | None => c end in
      (RMap (NM.add id v m), c')
  | RNull => (RNull, c)       (* mem::forget *)
  end.

(* UnprotectedStorage::get *)
Definition u_get (r : raw) (id : N) (c : ctx) : tok * ctx :=
  match r with
  | RVec s =>
      if N.ltb id (v_len s) then
        match NM.find id (v_slots s) with
        | Some (SInit t) => (t, c)
        | _ => (unit_tok, cx_fail c)
        end
      else (unit_tok, cx_fail c)
  | RDense s =>
      match pv_get (d_did s) id with
      | Some d => match pv_get (d_data s) d with Some t => (t, c) | None => (unit_tok, cx_fail c) end
      | None => (unit_tok, cx_fail c)
      end
  | RDefault cells =>
      match pv_get cells id with Some t => (t, c) | None => (unit_tok, cx_fail c) end
  | RMap m => match NM.find id m with Some t => (t, c) | None => (unit_tok, cx_fail c) end
  | RNull => (unit_tok, c)
  end.

(* writing through the reference returned by get_mut: the value at [id] becomes [v] *)
Definition u_write (r : raw) (id : N) (v : tok) (c : ctx) : raw * ctx :=
  match r with
  | RVec s =>
      if N.ltb id (v_len s) then
        match NM.find id (v_slots s) with
        | Some (SInit _) => (RVec {| v_len := v_len s; v_slots := NM.add id (SInit v) (v_slots s) |}, c)
        | _ => (r, cx_fail c)
        end
      else (r, cx_fail c)
  | RDense s =>
      match pv_get (d_did s) id with
      | Some d =>
          match pv_get (d_data s) d with
          | Some _ => (RDense {| d_data := pv_set (d_data s) d v; d_eid := d_eid s; d_did := d_did s |}, c)
          | None => (r, cx_fail c)
          end
      | None => (r, cx_fail c)
      end
  | RDefault cells =>
      match pv_get cells id with Some _ => (RDefault (pv_set cells id v), c) | None => (r, cx_fail c) end
  | RMap m => match NM.find id m with Some _ => (RMap (NM.add id v m), c) | None => (r, cx_fail c) end
  | RNull => (RNull, c)
  end.

(* UnprotectedStorage::remove *)
Definition u_remove (r : raw) (id : N) (c : ctx) : raw * tok * ctx :=
  match r with
  | RVec s =>
      if N.ltb id (v_len s) then
        match NM.find id (v_slots s) with
        | Some (SInit t) => (RVec {| v_len := v_len s; v_slots := NM.add id (SMoved t) (v_slots s) |}, t, c)
        | _ => (r, unit_tok, cx_fail c)
        end
      else (r, unit_tok, cx_fail c)
  | RDense s =>
      match pv_get (d_did s) id, pv_last (d_eid s) with
      | Some d, Some last =>
          if N.ltb last (vlen (d_did s)) then
            let did := pv_set (d_did s) last d in
            let '(eid', x) := pv_swap_remove (d_eid s) d in
            let '(data', y) := pv_swap_remove (d_data s) d in
            match x, y with
            | Some _, Some t => (RDense {| d_data := data'; d_eid := eid'; d_did := did |}, t, c)
            | _, _ => (r, unit_tok, cx_fail c)
            end
          else (r, unit_tok, cx_fail c)
      | _, _ => (r, unit_tok, cx_fail c)
      end
  | RDefault cells =>
      match pv_get cells id with
      | Some t => (RDefault (pv_set cells id default_tok), t, cx_mint c)      (* mem::take *)
      | None => (r, unit_tok, cx_fail c)
      end
  | RMap m =>
      match NM.find id m with
      | Some t => (RMap (NM.remove id m), t, c)
      | None => (r, unit_tok, cx_fail c)
      end
  | RNull => (RNull, unit_tok, c)       (* ptr::read of a dangling ZST *)
  end.

(* UnprotectedStorage::drop (trait default): remove and destroy *)
Definition u_drop (r : raw) (id : N) (c : ctx) : raw * ctx :=
  let '(r', t, c') := u_remove r id c in (r', cx_drop c' t).

(* VecStorage::clean: for every position below the length that the mask has,
   assume_init_drop *)
Fixpoint vec_clean (s : vec_st) (ids : list N) (c : ctx) : vec_st * ctx :=
  match ids with
  | [] => (s, c)
  | i :: ids' =>
      if N.ltb i (v_len s) then
        match NM.find i (v_slots s) with
        | Some (SInit t) =>
            vec_clean {| v_len := v_len s; v_slots := NM.add i (SMoved t) (v_slots s) |} ids' (cx_drop c t)
        | _ => vec_clean s ids' (cx_fail c)
        end
      else vec_clean s ids' c
  end.

Fixpoint null_clean (ids : list N) (c : ctx) : ctx :=
  match ids with [] => c | _ :: ids' => null_clean ids' (cx_drop c unit_tok) end.

(* UnprotectedStorage::clean(mask); [mask] ascending *)
Definition u_clean (r : raw) (mask : list N) (c : ctx) : raw * ctx :=
  match r with
  | RVec s => let '(s', c') := vec_clean s mask c in (RVec s', c')
  | RDense s =>
      (RDense {| d_data := pv_clear (d_data s); d_eid := pv_clear (d_eid s); d_did := pv_clear (d_did s) |},
       cx_drop_all c (pv_elems (d_data s)))
  | RDefault cells => (RDefault (pv_clear cells), cx_drop_all c (pv_elems cells))
  | RMap m => (RMap (NM.empty tok), cx_drop_all c (map snd (NM.elements m)))
  | RNull => (RNull, null_clean mask c)
  end.

(* slice views (SliceAccess): what the harness can observe.
   Vec: the length and the values at the mask's positions; Dense and Default: all elements in order *)
Inductive slice_view := SliceNone | SliceVec (len : N) (vals : list tok) | SliceAll (vals : list tok).

Fixpoint vec_slice_vals (s : vec_st) (ids : list N) (c : ctx) : list tok * ctx :=
  match ids with
  | [] => ([], c)
  | i :: ids' =>
      let '(t, c1) := u_get (RVec s) i c in
      let '(l, c2) := vec_slice_vals s ids' c1 in (t :: l, c2)
  end.

Definition u_slice (r : raw) (mask : list N) (c : ctx) : slice_view * ctx :=
  match r with
  | RVec s => let '(l, c') := vec_slice_vals s mask c in (SliceVec (v_len s) l, c')
  | RDense s => (SliceAll (pv_elems (d_data s)), c)
  | RDefault cells => (SliceAll (pv_elems cells), c)
  | _ => (SliceNone, c)
  end.
