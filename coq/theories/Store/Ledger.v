(* C08, operation level: every per-entity operation of the Storage API conserves
   values - what the storage holds afterwards, what it handed back and what it
   destroyed are, as multisets, what it held before plus what was moved in.
   For every raw kind without default-filled gaps (Vec, Dense, HashMap, BTree,
   Null) and both wrappers; the values are counted by their uids. *)
From SV Require Import Base.ListX Store.Raw Store.RawRefine Store.Masked Store.StoreInv Store.Bag.
From Coq Require Import Sorting.Permutation.

Definition plain_kind (r : raw) : Prop := match r with RDefault _ => False | _ => True end.

Lemma u_insert_drops r m i v c : rrel r m -> NM.find i m = None -> plain_kind r ->
  cx_drops (snd (u_insert r i v c)) = cx_drops c /\ plain_kind (fst (u_insert r i v c)).
Proof.
  intros HR Hf Hp. destruct r as [s|s|cells|m'|]; cbn [u_insert fst snd plain_kind] in *; auto; try contradiction.
  rewrite (HR i), Hf. auto.
Qed.

Ltac kind_tac :=
  repeat match goal with
         | |- context [match ?x with _ => _ end] => destruct x
         | |- context [if ?x then _ else _] => destruct x
         end; cbn [fst snd plain_kind]; try exact I.

Lemma u_write_kind r i v c : plain_kind r -> plain_kind (fst (u_write r i v c)).
Proof. intros Hp. destruct r as [s|s|cells|m'|]; cbn [u_write plain_kind] in *; try contradiction; kind_tac. Qed.

Lemma u_remove_kind r i c : plain_kind r -> plain_kind (fst (fst (u_remove r i c))).
Proof. intros Hp. destruct r as [s|s|cells|m'|]; cbn [u_remove plain_kind] in *; try contradiction; kind_tac. Qed.

(* the ledger equation of one operation: [d] = the values it destroyed, most recent first *)
Definition conserves (m m' : NM.t tok) (ins rets : list N) (c c' : ctx) : Prop :=
  exists d, cx_drops c' = d ++ cx_drops c /\ Permutation (bag m' ++ rets ++ d) (bag m ++ ins).

Lemma conserves_nothing m c : conserves m m [] [] c c.
Proof. exists []. split; [reflexivity|]. rewrite !app_nil_r. apply Permutation_refl. Qed.

Record LInvS (ms : mstore) (m : NM.t tok) : Prop := { LS_inv : MInv ms m; LS_kind : plain_kind (ms_raw ms) }.

Definition uid_of_upd (u : upd) : list N := match u with USwap v => [fst v] | _ => [] end.

(* get_mut and what the caller does with it: a swapped-in value replaces the old one, which is handed back;
   changing the payload in place changes no identity *)
Lemma access_conserves ms m id t touch u c : LInvS ms m -> NM.find id m = Some t ->
  (match u with USwap v => v = tnorm ms v | _ => True end) ->
  let '(ms', old, c') := w_access_mut ms id touch u c in
  old = t /\ c' = c /\
  exists m', LInvS ms' m' /\ ms_mask ms' = ms_mask ms /\
    Permutation (bag m' ++ (match u with USwap _ => [fst t] | _ => [] end)) (bag m ++ uid_of_upd u).
Proof.
  intros [HM HK] Hf Hv. pose proof (w_access_mut_char ms m id t touch u c HM Hf Hv) as X.
  assert (plain_kind (ms_raw (fst (fst (w_access_mut ms id touch u c))))) as HK'.
  { unfold w_access_mut.
    set (ms1 := match ms_wrap ms with WFlagged => ms_event ms (EModified id)
                | WDeref => if touch || match u with UNone => false | _ => true end then ms_event ms (EModified id) else ms
                | WPlain => ms end).
    assert (ms_raw ms1 = ms_raw ms) as E.
    { subst ms1. destruct (ms_wrap ms); [reflexivity | apply ms_event_fields |]. destruct (touch || _); [apply ms_event_fields | reflexivity]. }
    destruct (u_get (ms_raw ms1) id c) as [old c1]. destruct u as [|v|z].
    - cbn [fst]. rewrite E. exact HK.
    - pose proof (u_write_kind (ms_raw ms1) id v c1) as W. destruct (u_write (ms_raw ms1) id v c1) as [r c2]. cbn [fst ms_set ms_raw] in *.
      apply W. rewrite E. exact HK.
    - pose proof (u_write_kind (ms_raw ms1) id (tnorm ms (fst old, z)) c1) as W.
      destruct (u_write (ms_raw ms1) id _ c1) as [r c2]. cbn [fst ms_set ms_raw] in *. apply W. rewrite E. exact HK. }
  destruct (w_access_mut ms id touch u c) as [[ms' old] c']. cbn [fst] in HK'.
  destruct X as [X1 [X2 [X3 [X4 _]]]]. split; [exact X1|]. split; [exact X3|].
  exists (upd_map ms m id t u). split; [split; assumption|]. split; [exact X4|].
  destruct u as [|v|z]; cbn [upd_map uid_of_upd].
  - apply Permutation_refl.
  - apply Permutation_sym. rewrite Permutation_app_comm. cbn [app].
    apply Permutation_sym. rewrite Permutation_app_comm. cbn [app]. apply bag_add_over. exact Hf.
  - rewrite !app_nil_r.
    assert (fst (tnorm ms (fst t, z)) = fst t) as Eu.
    { unfold tnorm. destruct (ms_unit ms) eqn:Eun; [|reflexivity]. rewrite (MI_unit _ _ HM Eun id t Hf). reflexivity. }
    pose proof (bag_add_over m id t (tnorm ms (fst t, z)) Hf) as P. rewrite Eu in P. apply (Permutation_cons_inv P).
Qed.

Lemma npi_conserves ms m id v c : LInvS ms m -> NS.mem id (ms_mask ms) = false ->
  let r := not_present_insert ms id (tnorm ms v) c in
  cx_drops (snd r) = cx_drops c /\ cx_stuck (snd r) = cx_stuck c /\
  LInvS (fst r) (NM.add id (tnorm ms v) m) /\ Permutation (bag (NM.add id (tnorm ms v) m)) (fst (tnorm ms v) :: bag m).
Proof.
  intros [HM HK] Hmem. pose proof (keys_find_none _ _ _ (MI_keys _ _ HM) Hmem) as Hnone.
  destruct (not_present_insert_char ms m id v c HM Hmem) as [A1 [A2 _]]. cbv zeta.
  assert (cx_drops (snd (not_present_insert ms id (tnorm ms v) c)) = cx_drops c /\
          plain_kind (ms_raw (fst (not_present_insert ms id (tnorm ms v) c)))) as [D K].
  { unfold not_present_insert, w_insert.
    destruct (ms_event_fields ms (EInserted id)) as [_ [E2 _]].
    pose proof (u_insert_drops (ms_raw (ms_event ms (EInserted id))) m id (tnorm ms v) c) as X. rewrite E2 in X.
    specialize (X (MI_rel _ _ HM) Hnone HK).
    rewrite E2. destruct (u_insert (ms_raw ms) id (tnorm ms v) c) as [r c'].
    cbn [fst snd ms_set ms_raw] in *. exact X. }
  split; [exact D|]. split; [exact A2|]. split; [split; assumption|]. apply bag_add_new. exact Hnone.
Qed.

Lemma remove_conserves ms m id c : LInvS ms m ->
  let '(ms', o, c') := m_remove ms id c in
  o = NM.find id m /\ cx_drops c' = cx_drops c /\ cx_stuck c' = cx_stuck c /\
  exists m', LInvS ms' m' /\ Permutation (bag m' ++ match o with Some t => [fst t] | None => [] end) (bag m).
Proof.
  intros [HM HK]. pose proof (m_remove_char ms m id c HM) as X.
  assert (plain_kind (ms_raw (fst (fst (m_remove ms id c))))) as HK'.
  { unfold m_remove. destruct (NS.mem id (ms_mask ms)); [|exact HK]. unfold w_remove.
    set (ms0 := ms_set ms (NS.remove id (ms_mask ms)) (ms_raw ms)).
    destruct (ms_event_fields ms0 (ERemoved id)) as [_ [E2 _]].
    pose proof (u_remove_kind (ms_raw (ms_event ms0 (ERemoved id))) id c) as W.
    destruct (u_remove (ms_raw (ms_event ms0 (ERemoved id))) id c) as [[r t] c']. cbn [fst ms_set ms_raw] in *.
    apply W. rewrite E2. exact HK. }
  destruct (m_remove ms id c) as [[ms' o] c']. cbn [fst] in HK'. destruct X as [X1 [X2 [X3 [X4 _]]]].
  split; [exact X1|]. split; [exact X4|]. split; [exact X3|].
  rewrite (MI_keys _ _ HM id) in X2. subst o. destruct (NM.find id m) as [t|] eqn:Hf.
  - exists (NM.remove id m). split; [split; assumption|]. rewrite Permutation_app_comm. cbn [app].
    apply Permutation_sym. apply bag_remove. exact Hf.
  - exists m. split; [split; assumption|]. rewrite app_nil_r. apply Permutation_refl.
Qed.

(* ------------------------------------------------------------------ *)
(* the Storage API *)

(* insert: stored, or swapped with the old value (handed back), or - dead entity - destroyed *)
Theorem insert_conserves ms m av e v c : LInvS ms m ->
  let '(ms', r, c') := st_insert ms av e v c in
  exists m', LInvS ms' m' /\ cx_stuck c' = cx_stuck c /\
    conserves m m' [fst (tnorm ms v)] (match r with InsOld t => [fst t] | _ => [] end) c c'.
Proof.
  intros HL. pose proof (LS_inv _ _ HL) as HM. unfold st_insert. cbv zeta. destruct (av_alive av e).
  - destruct (NS.mem (fst e) (ms_mask ms)) eqn:Hmem.
    + destruct (keys_find_some _ _ _ (MI_keys _ _ HM) Hmem) as [t Hf].
      pose proof (access_conserves ms m (fst e) t true (USwap (tnorm ms v)) c HL Hf) as X.
      destruct (w_access_mut ms (fst e) true (USwap (tnorm ms v)) c) as [[ms' old] c'].
      destruct X as [-> [-> [m' [L' [_ P]]]]]; [unfold tnorm; destruct (ms_unit ms); reflexivity|].
      exists m'. split; [exact L'|]. split; [reflexivity|]. exists []. split; [reflexivity|]. rewrite app_nil_r. exact P.
    + destruct (npi_conserves ms m (fst e) v c HL Hmem) as [D [S [L' P]]].
      destruct (not_present_insert ms (fst e) (tnorm ms v) c) as [ms' c']. cbn [fst snd] in *.
      exists (NM.add (fst e) (tnorm ms v) m). split; [exact L'|]. split; [exact S|]. exists []. split; [rewrite D; reflexivity|].
      cbn [app]. rewrite app_nil_r. rewrite P. rewrite Permutation_app_comm. reflexivity.
  - exists m. split; [exact HL|]. split; [reflexivity|]. exists [fst (tnorm ms v)]. split; [reflexivity|].
    cbn [app]. apply Permutation_refl.
Qed.

(* remove: the stored value is handed back *)
Theorem remove_api_conserves ms m av e c : LInvS ms m ->
  let '(ms', o, c') := st_remove ms av e c in
  exists m', LInvS ms' m' /\ cx_stuck c' = cx_stuck c /\
    conserves m m' [] (match o with Some t => [fst t] | None => [] end) c c'.
Proof.
  intros HL. unfold st_remove. destruct (av_alive av e).
  - pose proof (remove_conserves ms m (fst e) c HL) as X. destruct (m_remove ms (fst e) c) as [[ms' o] c'].
    destruct X as [_ [D [S [m' [L' P]]]]]. exists m'. split; [exact L'|]. split; [exact S|].
    exists []. split; [rewrite D; reflexivity|]. rewrite !app_nil_r. exact P.
  - exists m. split; [exact HL|]. split; [reflexivity|]. apply conserves_nothing.
Qed.

(* get_mut (payload possibly changed in place): nothing enters, nothing leaves *)
Theorem get_mut_conserves ms m av e touch nv c : LInvS ms m ->
  let '(ms', o, c') := st_get_mut ms av e touch nv c in
  exists m', LInvS ms' m' /\ c' = c /\ Permutation (bag m') (bag m).
Proof.
  intros HL. pose proof (LS_inv _ _ HL) as HM. unfold st_get_mut, present.
  destruct (NS.mem (fst e) (ms_mask ms)) eqn:Hmem; cbn [andb]; [|exists m; auto].
  destruct (av_alive av e); [|exists m; auto].
  destruct (keys_find_some _ _ _ (MI_keys _ _ HM) Hmem) as [t Hf].
  pose proof (access_conserves ms m (fst e) t touch (match nv with Some z => USetVal z | None => UNone end) c HL Hf) as X.
  destruct (w_access_mut ms (fst e) touch _ c) as [[ms' old] c'].
  destruct X as [_ [-> [m' [L' [_ P]]]]]; [destruct nv; exact I|].
  exists m'. split; [exact L'|]. split; [reflexivity|]. destruct nv; cbn [uid_of_upd] in P; rewrite !app_nil_r in P; exact P.
Qed.

(* drain: every value of the visited indices is handed back, once *)
Theorem drain_conserves ids : forall ms m c, LInvS ms m ->
  let '(ms', l, c') := st_drain_ids ms ids c in
  exists m', LInvS ms' m' /\ cx_drops c' = cx_drops c /\ Permutation (bag m' ++ map fst l) (bag m).
Proof.
  induction ids as [|i ids IH]; intros ms m c HL; cbn [st_drain_ids].
  - exists m. split; [exact HL|]. split; [reflexivity|]. cbn [map]. rewrite app_nil_r. apply Permutation_refl.
  - pose proof (remove_conserves ms m i c HL) as X. destruct (m_remove ms i c) as [[ms1 o] c1].
    destruct X as [_ [D1 [_ [m1 [L1 P1]]]]]. specialize (IH ms1 m1 c1 L1).
    destruct (st_drain_ids ms1 ids c1) as [[ms2 l] c2]. destruct IH as [m2 [L2 [D2 P2]]].
    destruct o as [t|].
    + exists m2. split; [exact L2|]. split; [congruence|]. cbn [map]. rewrite <- P1.
      rewrite <- P2. rewrite <- app_assoc. apply Permutation_app_head. rewrite Permutation_app_comm. reflexivity.
    + exists m2. split; [exact L2|]. split; [cbn [cx_fail cx_drops]; congruence|]. rewrite app_nil_r in P1. rewrite <- P1. exact P2.
Qed.

(* deletion of entities (AnyStorage::drop over a list of indices): exactly the values of those indices are destroyed *)
Lemma drop_conserves ms m id c : LInvS ms m ->
  let '(ms', c') := m_drop ms id c in
  cx_stuck c' = cx_stuck c /\
  exists m', LInvS ms' m' /\ conserves m m' [] [] c c'.
Proof.
  intros HL. pose proof (remove_conserves ms m id c HL) as X. unfold m_drop, m_remove in *.
  destruct (NS.mem id (ms_mask ms)) eqn:Hmem.
  - unfold w_drop. destruct (w_remove (ms_set ms (NS.remove id (ms_mask ms)) (ms_raw ms)) id c) as [[ms1 t] c1].
    destruct X as [X1 [D [S [m' [L' P]]]]]. cbn [cx_drop cx_stuck cx_drops]. split; [exact S|].
    exists m'. split; [exact L'|]. exists [fst t]. split; [cbn [cx_drop cx_drops app]; rewrite D; reflexivity|]. rewrite app_nil_r. cbn [app]. exact P.
  - split; [reflexivity|]. exists m. split; [exact HL | apply conserves_nothing].
Qed.

Theorem purge_conserves ids : forall ms m c, LInvS ms m ->
  let '(ms', c') := m_drop_all ms ids c in
  cx_stuck c' = cx_stuck c /\ exists m', LInvS ms' m' /\ conserves m m' [] [] c c'.
Proof.
  induction ids as [|i ids IH]; intros ms m c HL; cbn [m_drop_all].
  - split; [reflexivity|]. exists m. split; [exact HL | apply conserves_nothing].
  - pose proof (drop_conserves ms m i c HL) as X. destruct (m_drop ms i c) as [ms1 c1].
    destruct X as [S1 [m1 [L1 [d1 [D1 P1]]]]]. specialize (IH ms1 m1 c1 L1).
    destruct (m_drop_all ms1 ids c1) as [ms2 c2]. destruct IH as [S2 [m2 [L2 [d2 [D2 P2]]]]].
    split; [congruence|]. exists m2. split; [exact L2|]. exists (d2 ++ d1). split; [rewrite D2, D1, app_assoc; reflexivity|].
    cbn [app] in *. rewrite !app_nil_r in *. rewrite app_assoc. rewrite P2. exact P1.
Qed.

(* the entry API: every case conserves (an offered value that is not stored is destroyed; a replaced or removed
   value is handed back) *)
Definition entry_ins (ms : mstore) (o : entry_op) : list N :=
  match o with EnOrInsert v | EnReplace v => [fst (tnorm ms v)] | _ => [] end.
Definition entry_rets (o : entry_op) (r : entry_res) : list N :=
  match o, r with
  | EnReplace _, EnTok t | EnRemove, EnTok t => [fst t]
  | _, _ => []
  end.

Theorem entry_conserves ms m av e o c : LInvS ms m ->
  let '(ms', r, c') := st_entry ms av e o c in
  exists m', LInvS ms' m' /\ cx_stuck c' = cx_stuck c /\ conserves m m' (entry_ins ms o) (entry_rets o r) c c'.
Proof.
  intros HL. pose proof (LS_inv _ _ HL) as HM. unfold st_entry. cbv zeta.
  assert (forall v, tnorm ms (tnorm ms v) = tnorm ms v) as Hidem by (intros v; unfold tnorm; destruct (ms_unit ms); reflexivity).
  destruct (av_alive av e).
  - destruct (NS.mem (fst e) (ms_mask ms)) eqn:Hmem.
    + destruct (keys_find_some _ _ _ (MI_keys _ _ HM) Hmem) as [t Hf].
      destruct o as [|v|v| |z]; cbn [entry_ins entry_rets].
      * rewrite (u_get_ref _ m (fst e) t c (MI_rel _ _ HM) Hf). exists m. split; [exact HL|]. split; [reflexivity|apply conserves_nothing].
      * pose proof (access_conserves ms m (fst e) t false UNone c HL Hf I) as X.
        destruct (w_access_mut ms (fst e) false UNone c) as [[ms' old] c']. destruct X as [-> [-> [m' [L' [_ P]]]]].
        exists m'. split; [exact L'|]. split; [reflexivity|]. exists [fst (tnorm ms v)]. split; [reflexivity|].
        cbn [uid_of_upd] in P. rewrite !app_nil_r in P. cbn [app]. rewrite P. reflexivity.
      * pose proof (access_conserves ms m (fst e) t true (USwap (tnorm ms v)) c HL Hf (eq_sym (Hidem v))) as X.
        destruct (w_access_mut ms (fst e) true (USwap (tnorm ms v)) c) as [[ms' old] c']. destruct X as [-> [-> [m' [L' [_ P]]]]].
        exists m'. split; [exact L'|]. split; [reflexivity|]. exists []. split; [reflexivity|]. rewrite app_nil_r. exact P.
      * pose proof (remove_conserves ms m (fst e) c HL) as X. destruct (m_remove ms (fst e) c) as [[ms' o'] c'].
        destruct X as [X1 [D [S [m' [L' P]]]]]. exists m'. split; [exact L'|]. split; [exact S|].
        exists []. split; [rewrite D; reflexivity|]. rewrite !app_nil_r. destruct o'; exact P.
      * pose proof (access_conserves ms m (fst e) t true (USetVal z) c HL Hf I) as X.
        destruct (w_access_mut ms (fst e) true (USetVal z) c) as [[ms' old] c']. destruct X as [-> [-> [m' [L' [_ P]]]]].
        exists m'. split; [exact L'|]. split; [reflexivity|]. exists []. split; [reflexivity|].
        cbn [uid_of_upd] in P. rewrite !app_nil_r in *. exact P.
    + destruct o as [|v|v| |z]; cbn [entry_ins entry_rets];
        try (exists m; split; [exact HL|]; split; [reflexivity | apply conserves_nothing]).
      * destruct (npi_conserves ms m (fst e) v c HL Hmem) as [D [S [L' P]]].
        destruct (not_present_insert ms (fst e) (tnorm ms v) c) as [ms1 c1]. cbn [fst snd] in *.
        assert (NM.find (fst e) (NM.add (fst e) (tnorm ms v) m) = Some (tnorm ms v)) as Hf1 by (rewrite find_add; destruct (N.eq_dec (fst e) (fst e)); [reflexivity|congruence]).
        pose proof (access_conserves ms1 _ (fst e) (tnorm ms v) false UNone c1 L' Hf1 I) as X.
        destruct (w_access_mut ms1 (fst e) false UNone c1) as [[ms2 old] c2]. destruct X as [-> [-> [m' [L2 [_ P2]]]]].
        exists m'. split; [exact L2|]. split; [exact S|]. exists []. split; [rewrite D; reflexivity|].
        cbn [uid_of_upd] in P2. rewrite !app_nil_r in *. rewrite P2, P. rewrite Permutation_app_comm. reflexivity.
      * destruct (npi_conserves ms m (fst e) v c HL Hmem) as [D [S [L' P]]].
        destruct (not_present_insert ms (fst e) (tnorm ms v) c) as [ms1 c1]. cbn [fst snd] in *.
        assert (NM.find (fst e) (NM.add (fst e) (tnorm ms v) m) = Some (tnorm ms v)) as Hf1 by (rewrite find_add; destruct (N.eq_dec (fst e) (fst e)); [reflexivity|congruence]).
        pose proof (access_conserves ms1 _ (fst e) (tnorm ms v) false UNone c1 L' Hf1 I) as X.
        destruct (w_access_mut ms1 (fst e) false UNone c1) as [[ms2 old] c2]. destruct X as [_ [-> [m' [L2 [_ P2]]]]].
        exists m'. split; [exact L2|]. split; [exact S|]. exists []. split; [rewrite D; reflexivity|].
        cbn [uid_of_upd] in P2. rewrite !app_nil_r in *. rewrite P2, P. rewrite Permutation_app_comm. reflexivity.
  - destruct o as [|v|v| |z]; cbn [entry_ins entry_rets];
      try (exists m; split; [exact HL|]; split; [reflexivity | apply conserves_nothing]).
    + exists m. split; [exact HL|]. split; [reflexivity|]. exists [fst (tnorm ms v)]. split; [reflexivity|]. cbn [app]. apply Permutation_refl.
    + exists m. split; [exact HL|]. split; [reflexivity|]. exists [fst (tnorm ms v)]. split; [reflexivity|]. cbn [app]. apply Permutation_refl.
Qed.
