(* C03: through every handle-taking access path of the Storage API a handle
   whose entity is not alive behaves as absent and changes nothing in the
   storage (whatever the mask says about its index, i.e. also when a newer
   entity occupies the index), for every storage kind and wrapper. *)
From SV Require Import Store.Raw Store.Masked.

Section Dead.
  Variables (ms : mstore) (av : aview) (e : entity).
  Hypothesis Hdead : av_alive av e = false.

  Lemma dead_present : present ms av e = false.
  Proof. unfold present. rewrite Hdead. apply andb_false_r. Qed.

  Lemma dead_get c : st_get ms av e c = (None, c).
  Proof. unfold st_get. rewrite dead_present. reflexivity. Qed.

  Lemma dead_contains : st_contains ms av e = false.
  Proof. apply dead_present. Qed.

  Lemma dead_get_mut touch nv c : st_get_mut ms av e touch nv c = (ms, None, c).
  Proof. unfold st_get_mut. rewrite dead_present. reflexivity. Qed.

  Lemma dead_remove c : st_remove ms av e c = (ms, None, c).
  Proof. unfold st_remove. rewrite Hdead. reflexivity. Qed.

  (* insert is refused with a wrong-generation error; the offered value is destroyed, nothing else happens *)
  Lemma dead_insert v c : st_insert ms av e v c = (ms, InsErr (av_cur_gen av (fst e)), cx_drop c (tnorm ms v)).
  Proof. unfold st_insert. cbv zeta. rewrite Hdead. reflexivity. Qed.

  Lemma dead_entry o c : exists c', st_entry ms av e o c = (ms, EnErr (av_err_gen av (fst e)), c') /\
    cx_stuck c' = cx_stuck c /\ cx_mints c' = cx_mints c.
  Proof. unfold st_entry. cbv zeta. rewrite Hdead. destruct o; eexists; split; try reflexivity; split; reflexivity. Qed.

  (* get_mut_or_default: the default it made is destroyed again *)
  Lemma dead_get_mut_or_default c :
    st_get_mut_or_default ms av e c =
    (ms, None, cx_drop (cx_mint c) (tnorm ms (if ms_unit ms then unit_tok else default_tok))).
  Proof. unfold st_get_mut_or_default. rewrite dead_present, dead_insert. reflexivity. Qed.
End Dead.
