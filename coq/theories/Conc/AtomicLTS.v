(* Interleaving model of the shared-access (`&self`) paths of the allocator
   and of the lazy queue (property C10).  Definitions only; proofs are in
   AtomicInv.v.

   Shared state = the [astate] of AllocModel.v, of which a `&self` method can
   change only  clen (EntityCache.len), max_id, raised, killed  -- gens, alive
   and the cache vector are immutable during the phase -- plus the lazy queue
   (crossbeam SegQueue, modelled as a FIFO list of action ids with an atomic
   push).

   Every thread runs a finite program.  One [tstep] is one atomic step of the
   code, i.e. the code between two consecutive yield points of the hook
   (hooks/c10_yield.patch):

     Entities::create = Allocator::allocate_atomic
        EntityCache::pop_atomic / atomic_decrement(len):
          load len                                     PIdle    -> PDecCas p | PIncLoad (p = 0: None)
          compare_exchange(p, p-1)  succeeds iff len = p
             Ok                                        PDecCas p -> PRead p
             Err(seen)  retry with the value seen      PDecCas p -> PDecCas seen | PIncLoad (seen = 0)
          read cache[x-1]                              PRead x  -> PRaise id      (out of bounds: panic)
        atomic_increment(max_id):
          load max_id                                  PIncLoad -> PIncCas p
          compare_exchange(p, p+1)                     PIncCas p -> PRaise p | PIncCas seen
        raised.add_atomic(id)                          PRaise id -> PGen id
        generation(id) ... ; return                    PGen id  -> PIdle, handle recorded
     Entities::delete = Allocator::kill_atomic
          is_alive(e)  (false: return Err(del_err))    PIdle    -> PKillAdd h e | PIdle
          killed.add_atomic(id); return Ok             PKillAdd -> PIdle
     Entities::is_alive                                PIdle    -> PIdle
     LazyUpdate::exec (queue push)                     PIdle    -> PIdle

   Not modelled (DESIGN.md section 5, C10 limits): Relaxed reorderings,
   spurious failures of compare_exchange_weak, the word-level steps inside
   AtomicBitSet::add_atomic and SegQueue::push, the usize::MAX overflow test
   of atomic_increment. *)
From SV Require Export Alloc.AllocStep.

(* a handle known to a thread: the k-th handle of the common initial list, or
   the k-th handle the thread created itself *)
Inductive href := HInit (k : nat) | HOwn (k : nat).

Inductive cop :=
| CCreate
| CDelete (h : href)
| CIsAlive (h : href)
| CPush (q : N).

Inductive cout :=
| OHandle (e : entity)
| OKill (e : entity) (r : option Z)      (* None = Ok, Some actual_gen = Err *)
| OAlive (e : entity) (b : bool)
| OPush (q : N)
| OSkip                                  (* the handle reference does not resolve *)
| OPanic.

Inductive pc :=
| PIdle
| PDecCas (p : N)
| PRead (x : N)
| PIncLoad
| PIncCas (p : N)
| PRaise (id : N)
| PGen (id : N)
| PKillAdd (h : href) (e : entity).

Record thread := {
  prog : list cop;          (* operations still to run; the head is the one in progress *)
  tpc : pc;
  mine : list entity;       (* handles this thread created, oldest first *)
  done : list cop;          (* history variable: operations completed *)
  outs : list cout }.       (* their results *)

Definition t_new (p : list cop) : thread :=
  {| prog := p; tpc := PIdle; mine := []; done := []; outs := [] |}.

Definition set_pc (t : thread) (p : pc) : thread :=
  {| prog := prog t; tpc := p; mine := mine t; done := done t; outs := outs t |}.

Definition finish (t : thread) (o : cop) (r : cout) : thread :=
  {| prog := tl (prog t); tpc := PIdle; mine := mine t; done := done t ++ [o]; outs := outs t ++ [r] |}.

Definition finish_create (t : thread) (e : entity) : thread :=
  {| prog := tl (prog t); tpc := PIdle; mine := mine t ++ [e]; done := done t ++ [CCreate];
     outs := outs t ++ [OHandle e] |}.

Definition finished (t : thread) : bool :=
  match tpc t, prog t with PIdle, [] => true | _, _ => false end.

Definition resolve (inits : list entity) (t : thread) (h : href) : option entity :=
  match h with HInit k => nth_error inits k | HOwn k => nth_error (mine t) k end.

(* the four fields a `&self` method can write *)
Definition set_clen (a : astate) (n : N) : astate :=
  {| gens := gens a; alive := alive a; raised := raised a; killed := killed a;
     cache := cache a; clen := n; max_id := max_id a; a_stuck := a_stuck a |}.
Definition set_max (a : astate) (n : N) : astate :=
  {| gens := gens a; alive := alive a; raised := raised a; killed := killed a;
     cache := cache a; clen := clen a; max_id := n; a_stuck := a_stuck a |}.
Definition add_raised (a : astate) (i : N) : astate :=
  {| gens := gens a; alive := alive a; raised := NS.add i (raised a); killed := killed a;
     cache := cache a; clen := clen a; max_id := max_id a; a_stuck := a_stuck a |}.
Definition add_killed (a : astate) (i : N) : astate :=
  {| gens := gens a; alive := alive a; raised := raised a; killed := NS.add i (killed a);
     cache := cache a; clen := clen a; max_id := max_id a; a_stuck := a_stuck a |}.

(* what atomic_decrement does with an observed value of len *)
Definition after_len (p : N) : pc := if N.eqb p 0 then PIncLoad else PDecCas p.

(* One atomic step of thread [t].  The last component is a history variable:
   the operation of the sequential allocator alphabet (AllocStep.aop) that
   takes effect ("linearises") at this step, if any. *)
Definition tstep (inits : list entity) (a : astate) (q : list N) (t : thread)
  : astate * list N * thread * option aop :=
  match tpc t with
  | PIdle =>
      match prog t with
      | [] => (a, q, t, None)
      | CCreate :: _ => (a, q, set_pc t (after_len (clen a)), None)
      | CDelete h :: _ =>
          match resolve inits t h with
          | None => (a, q, finish t (CDelete h) OSkip, None)
          | Some e =>
              if a_is_alive a e then (a, q, set_pc t (PKillAdd h e), None)
              else (a, q, finish t (CDelete h) (OKill e (Some (err_gen a (fst e)))), Some (AKillDef e))
          end
      | CIsAlive h :: _ =>
          match resolve inits t h with
          | None => (a, q, finish t (CIsAlive h) OSkip, None)
          | Some e => (a, q, finish t (CIsAlive h) (OAlive e (a_is_alive a e)), Some (AIsAlive e))
          end
      | CPush x :: _ => (a, q ++ [x], finish t (CPush x) (OPush x), None)
      end
  | PDecCas p =>
      if N.eqb (clen a) p then (set_clen a (p - 1), q, set_pc t (PRead p), Some (ACreate true))
      else (a, q, set_pc t (after_len (clen a)), None)
  | PRead x =>
      match pv_get (cache a) (x - 1) with
      | Some id => (a, q, set_pc t (PRaise id), None)
      | None => (set_stuck a, q, finish t CCreate OPanic, None)
      end
  | PIncLoad => (a, q, set_pc t (PIncCas (max_id a)), None)
  | PIncCas p =>
      if N.eqb (max_id a) p then (set_max a (p + 1), q, set_pc t (PRaise p), Some (ACreate true))
      else (a, q, set_pc t (PIncCas (max_id a)), None)
  | PRaise id => (add_raised a id, q, set_pc t (PGen id), None)
  | PGen id => (a, q, finish_create t (id, join_gen a id), None)
  | PKillAdd h e => (add_killed a (fst e), q, finish t (CDelete h) (OKill e None), Some (AKillDef e))
  end.

Record config := {
  sh : astate;
  queue : list N;
  inits : list entity;
  threads : list thread;
  lin : list (nat * aop) }.     (* history variable: (thread, operation) in linearisation order *)

Fixpoint set_nth {A} (n : nat) (x : A) (l : list A) : list A :=
  match l, n with
  | [], _ => []
  | _ :: l', O => x :: l'
  | y :: l', S n' => y :: set_nth n' x l'
  end.

(* thread [n] takes one step; an index out of range or a finished thread is a no-op *)
Definition step_thread (c : config) (n : nat) : config :=
  match nth_error (threads c) n with
  | None => c
  | Some t =>
      let '(a', q', t', ev) := tstep (inits c) (sh c) (queue c) t in
      {| sh := a'; queue := q'; inits := inits c; threads := set_nth n t' (threads c);
         lin := match ev with Some o => lin c ++ [(n, o)] | None => lin c end |}
  end.

Fixpoint run (c : config) (sched : list nat) : config :=
  match sched with
  | [] => c
  | n :: sched' => run (step_thread c n) sched'
  end.

Definition c_new (a : astate) (inits : list entity) (progs : list (list cop)) : config :=
  {| sh := a; queue := []; inits := inits; threads := map t_new progs; lin := [] |}.

Definition all_finished (c : config) : bool := forallb finished (threads c).

(* every handle returned so far, thread by thread *)
Definition all_mine (c : config) : list entity := flat_map mine (threads c).

(* the sequential replay of the linearisation history on the faithful
   allocator model *)
Definition lin_ops (c : config) : list aop := map snd (lin c).

(* Side condition on the handles a program may name (the hypothesis of the
   theorems; checked on every case by the driver).  [h_stable]: the handle
   does not carry the *next* generation of a dead, not yet re-raised index --
   such a forged "handle of the future" would change from dead to alive when
   another thread's creation reaches raised.add_atomic.  [hinit_okb]: index
   below the counter, positive generation, stable: true of every handle the
   allocator has issued. *)
Definition h_stable (a : astate) (e : entity) : bool :=
  negb ((gen_at a (fst e) <? 0)%Z && (snd e =? 1 - gen_at a (fst e))%Z && negb (NS.mem (fst e) (raised a))).

Definition hinit_okb (a : astate) (e : entity) : bool :=
  N.ltb (fst e) (max_id a) && Z.leb 1 (snd e) && h_stable a e.
